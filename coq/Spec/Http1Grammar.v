(* C05 specification.  Definitions only; independent of the parser model (it shares only the
   record types of the report, the text predicates of Base/Http1Text.v and the regenerated tables).

   msg      abstract HTTP/1.x message head, RFC 7230 section 3:
              start-line CRLF *( field-name ":" OWS field-value OWS CRLF ) CRLF
            Accept-Language values may be given structurally (RFC 7231 5.3.5:
              1#( language-range [ OWS ";" OWS "q=" qvalue ] ), elements separated by OWS "," OWS)
   render   its wire form
   wf       the domain of the property: the grammar, within the analyzer's documented caps
            (<= 100 header lines, each line <= 8192 bytes), one of the supported methods
   expect   what the property text demands to be reported for the message
   known    decidable classes of well-formed messages on which the unchanged code is known to
            deviate from `expect` (findings; each has a witness lemma in Proofs/).
            Repaired and removed: weight literal written "Q=", duplicate Cookie headers, gate methods (4eff695), tag case (050bdf8), weight OWS (b696a82). *)
From Coq Require Import List NArith Bool.
From Coq Require Import Strings.Byte.
From HN Require Import Base.Bytes Base.Http1Text Model.SigAst Model.Http1 Model.Lang Model.Http1Obs
  Gen.HeaderLists Gen.Languages.
Import ListNotations.
Open Scope N_scope.

(* ---------- abstract syntax ---------- *)
Record lang_item := { li_pre : bytes; li_tag : bytes; li_weight : option (bytes * bytes * bytes); li_post : bytes;
                      li_qupper : bool }.
   (* OWS  language-range  [ OWS ";" OWS "q=" qvalue ]  OWS ;  weight = (ows before ';', ows after ';', qvalue);
      li_qupper: the literal is written "Q=" (ABNF literals are case-insensitive, RFC 5234 2.3) *)
Inductive hvalue := VRaw (v : bytes) | VLang (items : list lang_item).
Record hline := { hl_name : bytes; hl_ows1 : bytes; hl_value : hvalue; hl_ows2 : bytes }.
Inductive start_line :=
  | SReq (method target : bytes) (v11 : bool)
  | SResp (v11 : bool) (status reason : bytes).
Record msg := { m_start : start_line; m_headers : list hline }.

(* ---------- rendering ---------- *)
Fixpoint sep_concat (sep : byte) (ls : list bytes) : bytes :=
  match ls with
  | [] => []
  | [x] => x
  | x :: r => x ++ sep :: sep_concat sep r
  end.
Definition render_item (i : lang_item) : bytes :=
  li_pre i ++ li_tag i ++
  match li_weight i with
  | Some (o1, o2, q) => o1 ++ ";"%byte :: o2 ++ (if li_qupper i then bs "Q=" else bs "q=") ++ q
  | None => [] end ++ li_post i.
Definition render_value (v : hvalue) : bytes :=
  match v with VRaw b => b | VLang items => sep_concat ","%byte (map render_item items) end.
Definition render_version (v11 : bool) : bytes := if v11 then bs "HTTP/1.1" else bs "HTTP/1.0".
Definition render_start (s : start_line) : bytes :=
  match s with
  | SReq m t v => m ++ sp :: t ++ sp :: render_version v
  | SResp v st reason => render_version v ++ sp :: st ++ sp :: reason
  end.
Definition render_line (h : hline) : bytes :=
  hl_name h ++ ":"%byte :: hl_ows1 h ++ render_value (hl_value h) ++ hl_ows2 h.
Fixpoint render_lines (hs : list hline) : bytes :=
  match hs with [] => [] | h :: r => render_line h ++ crlf ++ render_lines r end.
Definition render (m : msg) : bytes := render_start (m_start m) ++ crlf ++ render_lines (m_headers m) ++ crlf.

(* ---------- character classes ---------- *)
Definition is_alpha (b : byte) : bool := in_rng 65 90 b || in_rng 97 122 b.
Definition is_upper (b : byte) : bool := in_rng 65 90 b.
Definition is_alnum (b : byte) : bool := is_alpha b || is_digit b.
Definition is_vchar (b : byte) : bool := in_rng 33 126 b.
(* RFC 7230 tchar *)
Definition is_tchar (b : byte) : bool :=
  is_alnum b || existsb (beqb b) (bs "!#$%&'*+-.^_`|~").
Definition is_ows_byte (b : byte) : bool := beqb b sp || beqb b tab.
Definition is_ows (l : bytes) : bool := forallb is_ows_byte l.
Definition no_crlf (l : bytes) : bool := forallb (fun b => negb (beqb b cr) && negb (beqb b lf)) l.

Definition ascii_lower (l : bytes) : bytes := map (fun b => if is_upper b then n2b (b2n b + 32) else b) l.
Definition ci_eq (a b : bytes) : bool := bytes_eqb (ascii_lower a) (ascii_lower b).

(* ---------- Accept-Language ---------- *)
Definition digits10 : list byte := bs "0123456789".
(* RFC 7231 5.3.1  qvalue = ( "0" [ "." 0*3DIGIT ] ) / ( "1" [ "." 0*3("0") ] ), with its value in thousandths *)
Definition qvalues : list (bytes * N) :=
  [(bs "0", 0); (bs "0.", 0); (bs "1", 1000); (bs "1.", 1000); (bs "1.0", 1000); (bs "1.00", 1000); (bs "1.000", 1000)]
  ++ flat_map (fun a => [(bs "0." ++ [a], digit_val a * 100)]) digits10
  ++ flat_map (fun a => flat_map (fun b => [(bs "0." ++ [a; b], digit_val a * 100 + digit_val b * 10)]) digits10) digits10
  ++ flat_map (fun a => flat_map (fun b => flat_map (fun c =>
        [(bs "0." ++ [a; b; c], digit_val a * 100 + digit_val b * 10 + digit_val c)]) digits10) digits10) digits10.
Definition qvalue_of (q : bytes) : option N :=
  option_map snd (find (fun e => bytes_eqb (fst e) q) qvalues).

(* language-range = (1*8ALPHA *("-" 1*8alphanum)) / "*"   (RFC 4647 2.1) *)
Definition subtag_ok (first : bool) (s : bytes) : bool :=
  negb (bytes_eqb s []) && (N.of_nat (length s) <=? 8) && forallb (if first then is_alpha else is_alnum) s.
Definition tag_ok (t : bytes) : bool :=
  bytes_eqb t (bs "*") ||
  match split_byte "-"%byte t with
  | p :: rest => subtag_ok true p && forallb (subtag_ok false) rest
  | [] => false
  end.
Definition primary_subtag (t : bytes) : bytes := before_byte "-"%byte t.

Definition item_ok (i : lang_item) : bool :=
  is_ows (li_pre i) && is_ows (li_post i) && tag_ok (li_tag i) &&
  match li_weight i with
  | Some (o1, o2, q) => is_ows o1 && is_ows o2 && match qvalue_of q with Some _ => true | None => false end
  | None => true
  end.
Definition items_ok (items : list lang_item) : bool :=
  forallb item_ok items &&
  match items with [] => true | i :: _ => bytes_eqb (li_pre i) [] end &&
  match rev items with [] => true | i :: _ => bytes_eqb (li_post i) [] end.

Definition item_weight (i : lang_item) : N :=
  match li_weight i with
  | Some (_, _, q) => match qvalue_of q with Some n => n | None => 1000 end
  | None => 1000
  end.
Definition language_name (code : bytes) : option bytes :=
  option_map snd (find (fun e => bytes_eqb (fst e) code) languages).
(* the entries whose primary subtag names a language of the table, with their weights *)
Definition candidates (items : list lang_item) : list (N * bytes) :=
  flat_map (fun i => match language_name (ascii_lower (primary_subtag (li_tag i))) with
                     | Some n => [(item_weight i, n)]
                     | None => [] end) items.
Definition best_weight (l : list (N * bytes)) : N := fold_right N.max 0 (map fst l).
(* preferred language: the first entry that carries the greatest weight *)
Definition spec_lang (items : list lang_item) : lang_res :=
  let c := candidates items in
  match find (fun e => fst e =? best_weight c) c with
  | Some (_, n) => LSome n
  | None => LNone
  end.

(* ---------- cookies (RFC 6265 4.2.1: cookie-pair *( ";" SP cookie-pair ), read tolerantly) ---------- *)
Fixpoint drop_ows (l : bytes) : bytes :=
  match l with b :: r => if is_ows_byte b then drop_ows r else l | [] => [] end.
Definition trim_ows (l : bytes) : bytes := rev_fast (drop_ows (rev_fast (drop_ows l))).
Definition cookie_pairs (v : bytes) : list (bytes * option bytes) :=
  flat_map (fun piece =>
      let c := trim_ows piece in
      if bytes_eqb c [] then [] else
      match after_byte "="%byte c with
      | Some value => [(trim_ows (before_byte "="%byte c), Some (trim_ows value))]
      | None => [(c, None)]
      end) (split_byte ";"%byte v).
Fixpoint number_cookies (ps : list (bytes * option bytes)) (k : nat) : list cookie :=
  match ps with
  | [] => []
  | (n, v) :: r => {| ck_name := n; ck_value := v; ck_pos := k |} :: number_cookies r (S k)
  end.
(* all White_Space inside the text is SP or HTAB (no VT, FF, NEL, NBSP, U+2000.. etc.) *)
Fixpoint plain_ws (l : bytes) : bool :=
  match l with
  | [] => true
  | b :: r => (match ws_len l with O => true | _ => is_ows_byte b end) && plain_ws r
  end.

(* ---------- well-formedness ---------- *)
Definition supported_methods : list bytes :=
  [bs "GET"; bs "HEAD"; bs "POST"; bs "PUT"; bs "DELETE"; bs "CONNECT"; bs "OPTIONS"; bs "TRACE"; bs "PATCH";
   bs "PROPFIND"; bs "PROPPATCH"; bs "MKCOL"; bs "COPY"; bs "MOVE"; bs "LOCK"; bs "UNLOCK"; bs "MKCALENDAR"; bs "REPORT"].

Definition is_request (m : msg) : bool := match m_start m with SReq _ _ _ => true | _ => false end.
Definition named (lit : bytes) (h : hline) : bool := ci_eq (hl_name h) lit.

(* field-value: UTF-8 text without CR / LF that neither begins nor ends with White_Space *)
Definition raw_ok (b : bytes) : bool :=
  utf8_valid b && no_crlf b && Nat.eqb (ws_len b) 0 && Nat.eqb (ws_len_rev (rev_fast b)) 0.
Definition value_ok (v : hvalue) : bool :=
  raw_ok (render_value v) && match v with VRaw _ => true | VLang items => items_ok items end.
Definition line_ok (req : bool) (h : hline) : bool :=
  negb (bytes_eqb (hl_name h) []) && forallb is_tchar (hl_name h) &&
  is_ows (hl_ows1 h) && is_ows (hl_ows2 h) && value_ok (hl_value h) &&
  (N.of_nat (length (render_line h)) <=? 8192) &&
  (if req && named (bs "accept-language") h
   then match hl_value h with VLang _ => true | VRaw _ => false end else true) &&
  (if req && named (bs "cookie") h
   then match hl_value h with VRaw b => plain_ws b | VLang _ => false end else true).
Definition start_ok (s : start_line) : bool :=
  match s with
  | SReq m t _ => mem_bytes m supported_methods && negb (bytes_eqb t []) && forallb is_vchar t
                  && (N.of_nat (length (render_start s)) <=? 8192)
  | SResp _ st reason => (N.of_nat (length st) =? 3) && forallb is_digit st && utf8_valid reason && no_crlf reason
  end.
Definition wf (m : msg) : bool :=
  start_ok (m_start m) &&
  (N.of_nat (length (m_headers m)) <=? 100) &&
  forallb (line_ok (is_request m)) (m_headers m) &&
  (* Referer is a singleton field (RFC 7230 3.2.2): at most one *)
  (if is_request m then N.of_nat (length (filter (named (bs "referer")) (m_headers m))) <=? 1 else true).

(* ---------- the report the property demands ---------- *)
Fixpoint indexed {A} (l : list A) (k : nat) : list (nat * A) :=
  match l with [] => [] | x :: r => (k, x) :: indexed r (S k) end.
Definition report_header (kh : nat * hline) : hdr :=
  {| hd_name := hl_name (snd kh); hd_value := Some (render_value (hl_value (snd kh))); hd_pos := fst kh |}.

(* p0f signature entry of one header: optional headers carry '?', their values and those of the
   identity-bearing (skip-value) headers are elided (p0f README, HTTP signatures) *)
Definition p0f_entry (optional skip : list bytes) (h : hdr) : header :=
  let opt := mem_bytes (hd_name h) optional in
  {| h_optional := opt; h_name := hd_name h;
     h_value := if opt || mem_bytes (hd_name h) skip then None else hd_value h |}.
Definition p0f_absent (common : list bytes) (hs : list hdr) : list header :=
  map (fun c => {| h_optional := false; h_name := c; h_value := None |})
      (filter (fun c => negb (existsb (fun h => ci_eq (hd_name h) c) hs)) common).
Definition first_named (lit : bytes) (hs : list hdr) : option bytes :=
  match find (fun h => ci_eq (hd_name h) lit) hs with Some h => hd_value h | None => None end.
Definition software (o : option bytes) : bytes := match o with Some s => s | None => bs "???" end.

Definition expect_request (m : msg) (method target : bytes) (v11 : bool) : req_report :=
  let all := indexed (m_headers m) O in
  let split_out kh := named (bs "cookie") (snd kh) || named (bs "referer") (snd kh) in
  let reported := map report_header (filter (fun kh => negb (split_out kh)) all) in
  let ua := first_named (bs "user-agent") reported in
  {| q_method := method; q_uri := target; q_headers := reported;
     q_cookies := number_cookies
        (flat_map (fun h => cookie_pairs (render_value (hl_value h))) (filter (named (bs "cookie")) (m_headers m))) O;
     q_referer := option_map (fun h => render_value (hl_value h)) (find (named (bs "referer")) (m_headers m));
     q_user_agent := ua;
     q_lang := match find (named (bs "accept-language")) (m_headers m) with
               | Some h => match hl_value h with VLang items => spec_lang items | VRaw _ => LNone end
               | None => LNone end;
     q_sig := {| hs_version := if v11 then HV11 else HV10;
                 hs_horder := map (p0f_entry request_optional_headers request_skip_value_headers) reported;
                 hs_habsent := p0f_absent request_common_headers reported;
                 hs_expsw := software ua |} |}.

Definition status_value (st : bytes) : N :=
  match st with [a; b; c] => digit_val a * 100 + digit_val b * 10 + digit_val c | _ => 0 end.
Definition expect_response (m : msg) (v11 : bool) (st : bytes) : resp_report :=
  let reported := map report_header (indexed (m_headers m) O) in
  {| p_status := status_value st; p_headers := reported;
     p_sig := {| hs_version := if v11 then HV11 else HV10;
                 hs_horder := map (p0f_entry response_optional_headers response_skip_value_headers) reported;
                 hs_habsent := p0f_absent response_common_headers reported;
                 hs_expsw := software (first_named (bs "server") reported) |} |}.

(* ---------- known deviations (findings) ---------- *)
Definition known (m : msg) : bool := false.
