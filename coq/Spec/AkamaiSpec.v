(* SPEC for C17, written from the property text and the Akamai paper (Shuster et al., Black Hat EU
   2017: "S[;]|WU|P[,]|PS[,]") and RFC 7540 sections 4.1, 6.2, 6.3, 6.5, 6.9, 6.10.  Works on the
   abstract frame list (type, flags, stream, payload); independent of the code's extraction
   functions.  Definitions only.

   The pseudo-header order needs an HPACK decoder: the SPEC uses `Hpack.hpack_decode` (the model
   of the third-party crate) on the header block assembled as RFC 7540 defines it.  C17 is about
   what is fed to the decoder and how the result is rendered; decoder correctness is C16. *)
From Coq Require Import List NArith Bool.
From Coq Require Import Strings.Byte.
From HN Require Import Base.Bytes Model.H2Text Model.H2Frames Model.Hpack Model.Akamai Model.AkamaiInc Spec.H2Wire.
Import ListNotations.
Open Scope N_scope.

Definition text := bytes.

(* ---------- S: the first SETTINGS frame's id:value pairs, wire order (RFC 7540 6.5.1) ---------- *)
(* SETTINGS frames live on stream 0 (6.5: any other stream identifier is a connection error) *)
Definition settings_frame (f : frame) : bool := (f_type f =? 4) && (f_stream f =? 0).
Definition sub (p : bytes) (off len : nat) : bytes := firstn len (skipn off p).
(* i-th parameter: 16-bit identifier, 32-bit value *)
Definition nth_setting (p : bytes) (i : nat) : N * N :=
  (be_N (sub p (6 * i)%nat 2), be_N (sub p (6 * i + 2)%nat 4)).
Definition settings_pairs (p : bytes) : list (N * N) :=
  map (nth_setting p) (seq 0 (Nat.div (length p) 6)).
Definition first_settings (frames : list frame) : option (list (N * N)) :=
  option_map (fun f => settings_pairs (f_payload f)) (find settings_frame frames).

Definition S_part (pairs : list (N * N)) : text :=
  join (bs ";") (map (fun iv => show_N (fst iv) ++ bs ":" ++ show_N (snd iv)) pairs).

(* ---------- WU: first connection-level WINDOW_UPDATE increment, or 00 (RFC 7540 6.9) ---------- *)
Definition wu_frame (f : frame) : bool := (f_type f =? 8) && (f_stream f =? 0).
(* 1 reserved bit, 31-bit increment *)
Definition wu_increment (p : bytes) : N := be_N (firstn 4 p) mod 2 ^ 31.
Definition WU_part (frames : list frame) : text :=
  match find wu_frame frames with
  | Some f => show_N (wu_increment (f_payload f))
  | None => bs "00"
  end.

(* ---------- P: every PRIORITY frame as stream:exclusive:dependency:weight+1, or 0 (6.3) ---------- *)
Definition priority_frame (f : frame) : bool := f_type f =? 2.
Definition P_item (f : frame) : text :=
  let w := be_N (firstn 4 (f_payload f)) in
  show_N (f_stream f) ++ bs ":" ++ show_N (w / 2 ^ 31) ++ bs ":" ++ show_N (w mod 2 ^ 31) ++ bs ":"
  ++ show_N (be_N (sub (f_payload f) 4 1) + 1).
Definition P_part (frames : list frame) : text :=
  match filter priority_frame frames with
  | [] => bs "0"
  | ps => join (bs ",") (map P_item ps)
  end.

(* ---------- PS: pseudo-header order of the first request HEADERS block ---------- *)
Definition flag (f : frame) (bit : N) : bool := N.testbit (f_flags f) bit.
Definition END_HEADERS_bit : N := 2.
Definition PADDED_bit : N := 3.
Definition PRIORITY_bit : N := 5.

(* header block fragment of a HEADERS frame (6.2): [Pad Length?] [E+dep+weight?] fragment padding *)
Definition headers_block_fragment (f : frame) : option bytes :=
  let p := f_payload f in
  let after_pad := if flag f PADDED_bit then match p with b :: r => Some (b2n b, r) | [] => None end
                   else Some (0, p) in
  match after_pad with
  | None => None
  | Some (padlen, p1) =>
      let after_prio := if flag f PRIORITY_bit
                        then (if Nat.ltb (length p1) 5 then None else Some (skipn 5 p1))
                        else Some p1 in
      match after_prio with
      | None => None
      | Some p2 => if blen p2 <? padlen then None
                   else Some (firstn (length p2 - N.to_nat padlen)%nat p2)
      end
  end.

(* CONTINUATION frames must follow immediately on the same stream until END_HEADERS (6.10) *)
Fixpoint continuation (sid : N) (frames : list frame) : option bytes :=
  match frames with
  | [] => None                                                   (* block not complete yet *)
  | f :: r =>
      if (f_type f =? 9) && (f_stream f =? sid) then
        if flag f END_HEADERS_bit then Some (f_payload f)
        else option_map (fun t => f_payload f ++ t) (continuation sid r)
      else None
  end.

(* the first HEADERS frame on a request stream, with the frames after it *)
Fixpoint first_headers (frames : list frame) : option (frame * list frame) :=
  match frames with
  | [] => None
  | f :: r => if (f_type f =? 1) && negb (f_stream f =? 0) then Some (f, r) else first_headers r
  end.

(* the complete first header block, if there is one *)
Definition first_block (frames : list frame) : option bytes :=
  match first_headers frames with
  | None => None
  | Some (f, r) =>
      match headers_block_fragment f with
      | None => None
      | Some frag =>
          if flag f END_HEADERS_bit then Some frag
          else option_map (fun t => frag ++ t) (continuation (f_stream f) r)
      end
  end.

Definition is_pseudo (h : header) : bool :=
  match fst h with b :: _ => b2n b =? 58 (* ':' *) | [] => false end.
(* the four request pseudo-header fields of RFC 7540 8.1.2.3 and their Akamai letters *)
Definition ps_letter (name : bytes) : option text :=
  if bytes_eqb name (bs ":method") then Some (bs "m")
  else if bytes_eqb name (bs ":authority") then Some (bs "a")
  else if bytes_eqb name (bs ":scheme") then Some (bs "s")
  else if bytes_eqb name (bs ":path") then Some (bs "p")
  else None.

(* header list of the first block (empty when there is no complete, decodable block) *)
Definition first_block_headers (frames : list frame) : list header :=
  match first_block frames with
  | Some b => match hpack_decode dt_new b with DOk hs _ => hs | _ => [] end
  | None => []
  end.
Definition PS_part (frames : list frame) : text :=
  join (bs ",") (map (fun h => match ps_letter (fst h) with Some l => l | None => bs "?" end)
                     (filter is_pseudo (first_block_headers frames))).

(* ---------- the fingerprint ---------- *)
Definition fp (frames : list frame) : option text :=
  match first_settings frames with
  | None => None                                   (* no SETTINGS frame seen: nothing to report *)
  | Some pairs => Some (S_part pairs ++ bs "|" ++ WU_part frames ++ bs "|" ++ P_part frames
                        ++ bs "|" ++ PS_part frames)
  end.

(* ---------- domain on which the text above pins the answer ---------- *)
Definition is_some_b {A} (o : option A) : bool := match o with Some _ => true | None => false end.
(* the property speaks of "the first request HEADERS block": when a first HEADERS frame (with a valid
   fragment) has been seen without END_HEADERS and its CONTINUATION frames are missing, not yet
   received or interrupted by another frame, there is no such block yet and the format gives NO
   verdict on the PS part *)
Definition block_complete (frames : list frame) : bool :=
  match first_headers frames with
  | Some (f, r) =>
      match headers_block_fragment f with
      | Some _ => flag f END_HEADERS_bit || is_some_b (continuation (f_stream f) r)
      | None => true
      end
  | None => true
  end.
(* frames that RFC 7540 declares malformed leave the fingerprint unspecified: a WINDOW_UPDATE whose
   payload is not 4 octets or whose increment is 0 (6.9), a PRIORITY frame whose payload is not 5
   octets (6.3); pseudo-header fields other than the four request fields have no letter in the
   Akamai format; a first header block that is not complete (block_complete) *)
Definition wf_frames (frames : list frame) : bool :=
  match find wu_frame frames with
  | Some f => Nat.eqb (length (f_payload f)) 4 && negb (wu_increment (f_payload f) =? 0)
  | None => true
  end
  && forallb (fun f => Nat.eqb (length (f_payload f)) 5) (filter priority_frame frames)
  && forallb (fun h => match ps_letter (fst h) with Some _ => true | None => false end)
             (filter is_pseudo (first_block_headers frames))
  && block_complete frames.

(* ---------- the incremental specification (wire format: Spec/H2Wire.v) ---------- *)
(* the extractor reports exactly once: at the first chunk after which the one-shot fingerprint of
   everything received exists (i.e. the first SETTINGS frame is complete), that fingerprint;
   nothing before, nothing afterwards *)
Fixpoint inc_spec_from (pre : bool) (frs : list (bool * frame)) (received : N) (done : bool)
         (chunks : list bytes) : list (option text) :=
  match chunks with
  | [] => []
  | c :: r =>
      let received := received + blen c in
      if done then None :: inc_spec_from pre frs received true r
      else match fp (visible_at pre frs received) with
           | Some t => Some t :: inc_spec_from pre frs received true r
           | None => None :: inc_spec_from pre frs received false r
           end
  end.
Definition inc_spec (pre : bool) (frs : list (bool * frame)) (chunks : list bytes) : list (option text) :=
  inc_spec_from pre frs 0 false chunks.

(* ---------- known deviations of the unchanged code (open findings), as decidable classes ---------- *)
(* K1: the first SETTINGS frame carries no parameter: the code conflates "empty SETTINGS" with
   "no SETTINGS frame" and never reports a fingerprint *)
Definition k_empty_settings (frames : list frame) : bool :=
  match find settings_frame frames with
  | Some f => Nat.ltb (length (f_payload f)) 6
  | None => false
  end.
Definition known (frames : list frame) : bool :=
  k_empty_settings frames.

(* ---------- vocabulary of the incremental theorems ---------- *)
(* one-shot results on the successive prefixes  buf ++ c1,  buf ++ c1 ++ c2, ... *)
Fixpoint oneshot_prefixes (buf : bytes) (chunks : list bytes) : list (outcome (option bytes)) :=
  match chunks with
  | [] => []
  | c :: r => extract_akamai_fingerprint_from_bytes (buf ++ c) :: oneshot_prefixes (buf ++ c) r
  end.
(* "reports one fingerprint": the first one-shot result that exists is reported, nothing afterwards *)
Fixpoint report_first (l : list (outcome (option bytes))) : list add_result :=
  match l with
  | [] => []
  | Val None :: r => RNone :: report_first r
  | Val (Some t) :: r => RSome t :: map (fun _ => RNone) r
  | Panicked :: r => RPanic :: report_first r
  end.
Definition to_add (o : option text) : add_result := match o with Some t => RSome t | None => RNone end.

(* the frame lists a receiver has seen at the chunk boundaries, up to and including the first one at
   which a fingerprint exists (what the incremental theorem needs to be in the format's domain) *)
Fixpoint boundaries (pre : bool) (frs : list (bool * frame)) (received : N) (chunks : list bytes)
  : list (list frame) :=
  match chunks with
  | [] => []
  | c :: r =>
      let received := received + blen c in
      let vis := visible_at pre frs received in
      match fp vis with
      | Some _ => [vis]
      | None => vis :: boundaries pre frs received r
      end
  end.
