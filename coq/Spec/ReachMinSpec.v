(* C13, TCP signatures that are reachable at distance 1: the signature writes scale `0` for a layout without `ws`.
   The extractor reports "no scale" (None) for such packets, which the matcher does not equate with 0: one point.
   `live1_cert` is a decidable certificate, relative to the table, that no other entry can take the match away:
     own distance is exactly 1 for every conforming packet outside the known classes (live1_tcp_b), and for every
     other entry t of another label
       in FRONT of s : t never is at distance exactly 1   (distance 0 means the packet conforms to t: admissible),
                       or t writes scale `0` itself (then distance 1 means the packet conforms to t as well)
       BEHIND s      : t never is at distance 0
   decided field by field on (s, t): t rejects every such observation (layout / quirk list / version / payload class), or some field other than the scale is necessarily charged (must_other), or the scale term settles it
   (the observation has no scale: t's `*` costs 0, t's number costs 1).
   Soundness: Proofs/ReachMin.v.  Definitions only. *)
From Coq Require Import List NArith Bool.
From Coq Require Import Strings.Byte.
From HN Require Import Base.Bytes Model.SigAst Model.Match Spec.ScanSpec Spec.P0fTcp Spec.InstanceSpec
  Spec.ConformSpec Spec.ReachSpec.
Import ListNotations.
Open Scope N_scope.

Definition no_ws_scale0 (s : tcp_sig) : bool :=
  match t_wscale s with Some 0 => negb (existsb (tcp_option_eqb OWs) (t_olayout s)) | _ => false end.
(* live but for the scale *)
(* plain-value TTL of a kind the hop-count rule reproduces *)
Definition ttl_value_live (t : ttl) : bool := match t with TtlValue i => existsb (N.eqb i) initial_ttls | _ => false end.
Definition live1_tcp_b (s : tcp_sig) : bool :=
  ttl_value_live (t_ittl s) && layout_live (t_olayout s) && quirks_live (t_quirks s)
  && optzero_live (t_mss s) OMss (t_olayout s) && no_ws_scale0 s && window_live s.

(* the window form every conforming observation carries, when it is determined by the signature alone *)
Definition obs_win_exact (s : tcp_sig) : option window_size :=
  match t_wsize s with
  | WValue v => Some (WValue v)
  | WMtu k => Some (WMtu k)
  | WMss k => match t_mss s with
              | Some m => if (100 <=? m) && (0 <? k) then Some (WMss k) else None
              | None => None end
  | _ => None end.

Definition rejects (s t : tcp_sig) : bool :=
  negb (list_eqb tcp_option_eqb (t_olayout s) (t_olayout t))
  (* no IP version of s's packets that t admits compares equal quirk lists (both masked by that version) *)
  || negb (existsb (fun v => version_inst_b (t_version t) v
                             && list_eqb quirk_eqb (sig_quirks_for v (t_quirks s)) (sig_quirks_for v (t_quirks t)))
                   (live_versions s))
  || (match t_pclass s, t_pclass t with PZero, PNonZero | PNonZero, PZero => true | _, _ => false end).

Definition must_ttl (s t : tcp_sig) : bool :=
  match t_ittl s, t_ittl t with
  | TtlValue i, TtlValue b => negb (i =? b)
  | TtlValue i, TtlDistance b1 b2 => negb (sat_add8 b1 b2 =? i)
  | TtlValue i, TtlGuess b => negb (i =? b)
  | _, _ => false end.
Definition must_olen (s t : tcp_sig) : bool := negb (t_olen s =? t_olen t).
Definition must_mss (s t : tcp_sig) : bool :=
  match t_mss s, t_mss t with Some a, Some b => negb (a =? b) | _, _ => false end.
Definition must_win (s t : tcp_sig) : bool :=
  match obs_win_exact s with
  | Some ow =>
      match ow, t_wsize t, t_mss s with
      | WValue _, WMss _, None => false                   (* depends on the packet's MSS *)
      | _, _, _ => match distance_window_size ow (t_wsize t) (t_mss s) with Some 0 => false | _ => true end
      end
  | None =>
      match t_wsize s, t_wsize t with
      | WMss k, WMss b => negb (k =? b)
      | WMss _, WMtu _ => true
      | _, _ => false end
  end.
(* s = mss*k with any MSS, t pins the MSS to b >= 100 and its window is a literal / %n / mtu*k: either the packet's MSS is
   not b (charged), or it is b and the observation is mss*k, which t's window form rejects *)
Definition must_joint (s t : tcp_sig) : bool :=
  match obs_win_exact s, t_wsize s, t_mss t with
  | None, WMss k, Some b =>
      (100 <=? b) && (0 <? k) && match t_wsize t with WValue _ | WMod _ | WMtu _ => true | _ => false end
  | _, _, _ => false end.
Definition must_other (s t : tcp_sig) : bool :=
  must_ttl s t || must_olen s t || must_mss s t || must_win s t || must_joint s t.

Definition sep_before (s t : tcp_sig) : bool := rejects s t || must_other s t || is_none (t_wscale t).
(* an entry in front that itself writes scale `0`: when it is at distance exactly 1, the point is the scale and the packet
   conforms to it (one_conforms) — harmless *)
Definition scale_is_zero (t : tcp_sig) : bool := match t_wscale t with Some 0 => true | _ => false end.
Definition cert_before (s t : tcp_sig) : bool := sep_before s t || scale_is_zero t.
Definition sep_after (s t : tcp_sig) : bool := rejects s t || must_other s t || negb (is_none (t_wscale t)).

(* the entries behind the first one satisfying `stop` *)
Fixpoint suffix_after {A} (stop : A -> bool) (l : list A) : list A :=
  match l with [] => [] | x :: r => if stop x then r else suffix_after stop r end.

Definition same_label {S} (tbl : list (label * list S)) (li lj : N) : bool :=
  match label_at tbl li, label_at tbl lj with Some a, Some b => label_eqb a b | _, _ => false end.

Definition live1_cert (tbl : list (label * list tcp_sig)) (li si : N) (s : tcp_sig) : bool :=
  live1_tcp_b s
  && forallb (fun p => same_label tbl li (fst (fst p)) || cert_before s (snd p)) (prefix_before (pos_is li si) (positions tbl))
  && forallb (fun p => same_label tbl li (fst (fst p)) || sep_after s (snd p)) (suffix_after (pos_is li si) (positions tbl)).
