(* C13, HTTP: the finite abstraction behind `live_http_b` (DESIGN section 4, C13 T3).  Definitions only.

   The distance of an HTTP observation to ANY entry of a table depends on the message only through
     - the HTTP version, the names of its headers in order (which `?` headers of the signature are present),
     - for each header whose value is kept in the observation: WHICH literal of that header name in the table the value
       EQUALS, if any (the matcher compares values for equality),
     - which software tokens of the table CONTAIN the software string (the matcher tests token.contains(observed)).
   So a message that conforms to a signature s is represented by an abstract message: the kept headers of s, each with an
   abstract value `AExact l` (the value is exactly l, a literal / a substring of a token of the table that contains s's
   own literal) or `AFresh` (the value contains s's literal, equals no literal of the table and — for the software header —
   is contained in no token).  `check_sig` walks the signature's header list, tries every choice, and demands that the
   best match for the abstract observation be admissible, where conformance to an earlier entry is decided on the
   abstract message by a sound under-approximation (`abs_conf`).  Proofs/ReachHttp.v proves:
       check_sig .. s = true  ->  every conforming message gets an admissible label. *)
From Coq Require Import List NArith Bool.
From Coq Require Import Strings.Byte.
From HN Require Import Base.Bytes Base.Http1Text Model.SigAst Model.Match Spec.ScanSpec Spec.InstanceSpec
  Spec.Http1Grammar Spec.ConformSpec Gen.HeaderLists.
Import ListNotations.
Open Scope N_scope.

Inductive aval := AExact (l : bytes) | AFresh.
Definition afield := (header * aval)%type.        (* the signature header instantiated, and the abstract value *)

(* all prefixes / substrings of a byte string *)
Fixpoint prefixes (l : bytes) : list bytes :=
  [] :: match l with [] => [] | x :: r => map (cons x) (prefixes r) end.
Definition substrings (l : bytes) : list bytes := flat_map prefixes (tails l).

Section HttpAbs.
  Variable k : hkind.
  Variable tbl : list (label * list http_sig).

  (* ---- the observation as a function of (version, fields): what C05 proves the analyzer reports ---- *)
  Definition opt_list : list bytes := match k with HReq => request_optional_headers | HResp => response_optional_headers end.
  Definition skip_list : list bytes := match k with HReq => request_skip_value_headers | HResp => response_skip_value_headers end.
  Definition common_list : list bytes := match k with HReq => request_common_headers | HResp => response_common_headers end.
  (* requests: Cookie and Referer are split out of the header list *)
  Definition dropped (n : bytes) : bool :=
    match k with HReq => ci_eq n (bs "cookie") || ci_eq n (bs "referer") | HResp => false end.
  Definition valued (n : bytes) : bool := negb (mem_bytes n opt_list || mem_bytes n skip_list).
  Definition swnamed (n : bytes) : bool := ci_eq n (software_name k).
  Definition pe (nv : bytes * bytes) : header :=
    {| h_optional := mem_bytes (fst nv) opt_list; h_name := fst nv;
       h_value := if valued (fst nv) then Some (snd nv) else None |}.
  Definition reported (fields : list (bytes * bytes)) : list (bytes * bytes) :=
    filter (fun nv => negb (dropped (fst nv))) fields.
  Definition obs_of_fields (ver : http_version) (fields : list (bytes * bytes)) : http_sig :=
    let rep := reported fields in
    {| hs_version := ver;
       hs_horder := map pe rep;
       hs_habsent := map (fun c => {| h_optional := false; h_name := c; h_value := None |})
                         (filter (fun c => negb (existsb (fun nv => ci_eq (fst nv) c) rep)) common_list);
       hs_expsw := match find (fun nv => swnamed (fst nv)) rep with Some nv => snd nv | None => bs "???" end |}.

  (* ---- what the table knows ---- *)
  Fixpoint dedup (l : list bytes) : list bytes :=
    match l with [] => [] | x :: r => if existsb (bytes_eqb x) r then dedup r else x :: dedup r end.
  Definition all_sigs : list http_sig := map snd (positions tbl).
  Definition lits (n : bytes) : list bytes :=
    dedup (flat_map (fun s => flat_map (fun h => if bytes_eqb (h_name h) n then match h_value h with Some l => [l] | None => [] end else [])
                                (hs_horder s)) all_sigs).
  Definition tokens : list bytes := map hs_expsw all_sigs.
  Definition swsubs : list bytes := flat_map substrings tokens.
  (* a value that is no literal of the table and lies in no token *)
  Definition fresh : bytes := [x00].
  Definition fresh_ok : bool :=
    forallb (fun s => forallb (fun h => match h_value h with Some l => negb (bytes_eqb l fresh) | None => true end) (hs_horder s)
                      && negb (contains (hs_expsw s) fresh)) all_sigs.

  (* ---- abstract messages ---- *)
  Definition conc (a : afield) : bytes * bytes :=
    (h_name (fst a), match snd a with AExact l => l | AFresh => fresh end).
  (* candidate exact values of a header: literals of that name (when the observation keeps the value) and, for the
     software header, substrings of tokens; `swc` = the substrings to consider *)
  Definition cands (swc : list bytes) (n : bytes) : list bytes :=
    (if valued n then lits n else []) ++ (if swnamed n then swc else []).
  (* a necessary condition on the values a well-formed message can carry: a request's Accept-Language value is a list of
     language ranges (Spec/Http1Grammar.v wf), so it is empty or starts with a letter or `*` — this prunes literals such
     as `;q=` that are substrings, never whole values *)
  Definition value_feasible (n v : bytes) : bool :=
    match k with
    | HReq => if ci_eq n (bs "accept-language")
              then match v with [] => true | b :: _ => is_alpha b || beqb b "*"%byte end else true
    | HResp => true end.
  Definition choices (swc : list bytes) (sh : header) : list aval :=
    map AExact (filter (fun l => conf_value (h_value sh) l && value_feasible (h_name sh) l) (cands swc (h_name sh))) ++ [AFresh].

  (* the software condition of the signature, on the abstract message *)
  Definition abs_sw (tok : bytes) (lower : bytes) (am : list afield) : bool :=
    match tok with
    | [] => true
    | _ => match find (fun a => swnamed (h_name (fst a))) am with
           | Some (_, AExact l) => substring_b tok l
           | Some (_, AFresh) => substring_b tok lower      (* the value is only known to contain `lower` *)
           | None => false end
    end.

  (* sound under-approximation of "the message conforms to t" *)
  Definition conf_value_lb (lit : option bytes) (a : afield) : bool :=
    match lit with
    | None => true
    | Some l => match snd a with
                | AExact x => substring_b l x
                | AFresh => match h_value (fst a) with Some ls => substring_b l ls | None => false end
                end
    end.
  (* written with `if` so that vm_compute (call-by-value: `&&` / `||` evaluate both sides) does not explore both
     alternatives at every header *)
  Fixpoint conf_headers_lb (sig : list header) (am : list afield) : bool :=
    match sig with
    | [] => match am with [] => true | _ => false end
    | sh :: sig' =>
        if match am with
           | a :: am' => if bytes_eqb (h_name (fst a)) (h_name sh)
                         then (if conf_value_lb (h_value sh) a then conf_headers_lb sig' am' else false) else false
           | [] => false
           end
        then true
        else if h_optional sh then conf_headers_lb sig' am else false
    end.
  Definition abs_conf (own_tok : bytes) (ver : http_version) (am : list afield) (t : http_sig) : bool :=
    hversion_inst_b (hs_version t) ver
    && conf_headers_lb (hs_horder t) am
    && conf_absent (hs_habsent t) (map conc am)
    && abs_sw (hs_expsw t) own_tok am.

  Definition sw_all_of : list bytes := dedup swsubs.

  (* ---- the check ---- *)
  Variables li si : N.          (* position of the signature *)
  Variable s : http_sig.

  Definition versions : list http_version := filter (hversion_inst_b (hs_version s)) [HV10; HV11].
  (* own label first (cheap), then the general rule *)
  Definition adm_fast (conf : http_sig -> bool) (r : fres) : bool :=
    match r with
    | FSome lj _ _ _ =>
        match label_at tbl lj, label_at tbl li with
        | Some a, Some b => if label_eqb a b then true else admissible_b tbl conf li si r
        | _, _ => false end
    | _ => false end.
  Definition final_ok (am : list afield) : bool :=
    negb (abs_sw (hs_expsw s) (hs_expsw s) am)
    || forallb (fun ver => adm_fast (abs_conf (hs_expsw s) ver am) (http_scan tbl (obs_of_fields ver (map conc am)))) versions.
  (* `pre`: the abstract fields chosen so far, last first; `seen`: a software header is among them.
     sw_all / sw_own: substrings of the table's tokens / those containing the signature's own token (the first
     software header of a conforming message contains it) *)
  Fixpoint check_from (sw_all sw_own : list bytes) (sig : list header) (pre : list afield) (seen : bool) : bool :=
    match sig with
    | [] => final_ok (rev pre)
    | sh :: sig' =>
        forallb (fun av => check_from sw_all sw_own sig' ((sh, av) :: pre) (seen || swnamed (h_name sh)))
                (choices (if seen then sw_all else sw_own) sh)
        && (if h_optional sh then check_from sw_all sw_own sig' pre seen else true)
    end.
  (* number of leaves of the walk (cost of the check) *)
  Fixpoint count_from (sw_all sw_own : list bytes) (sig : list header) (seen : bool) : N :=
    match sig with
    | [] => 1
    | sh :: sig' =>
        N.of_nat (length (choices (if seen then sw_all else sw_own) sh)) * count_from sw_all sw_own sig' (seen || swnamed (h_name sh))
        + (if h_optional sh then count_from sw_all sw_own sig' seen else 0)
    end.
  (* the same walk over a header list whose choices have been computed once (they do not depend on the prefix) *)
  Fixpoint check_prep (sig : list (header * list aval * list aval)) (pre : list afield) (seen : bool) : bool :=
    match sig with
    | [] => final_ok (rev pre)
    | (sh, ch_all, ch_own) :: sig' =>
        forallb (fun av => check_prep sig' ((sh, av) :: pre) (seen || swnamed (h_name sh))) (if seen then ch_all else ch_own)
        && (if h_optional sh then check_prep sig' pre seen else true)
    end.
  Definition prep (sw_all sw_own : list bytes) (sig : list header) : list (header * list aval * list aval) :=
    map (fun sh => (sh, choices sw_all sh, choices sw_own sh)) sig.
  (* sw_all is passed in so that a whole table can share it: live_http_b .. (sw_all_of) .. *)
  Definition live_http_w (sw_all : list bytes) : bool :=
    let sw_own := filter (substring_b (hs_expsw s)) sw_all in
    fresh_ok && check_prep (prep sw_all sw_own (hs_horder s)) [] false.
End HttpAbs.

Definition live_http_b (k : hkind) (tbl : list (label * list http_sig)) (li si : N) (s : http_sig) : bool :=
  live_http_w k tbl li si s (sw_all_of tbl).
(* the positions of a table that pass the check (substrings of tokens computed once) *)
Definition live_http_positions (k : hkind) (tbl : list (label * list http_sig)) : list (N * N * http_sig) :=
  let sw := sw_all_of tbl in
  filter (fun p => live_http_w k tbl (fst (fst p)) (snd (fst p)) (snd p) sw) (positions tbl).
