(* SPEC for the signature-text half of C06, written from the property text and the p0f README
   (section 5: "ver:ittl:olen:mss:wsize,scale:olayout:quirks:pclass" and
   "ver:horder:habsent:expsw").
   - wf_tcp / wf_http: the signature values "over the p0f vocabulary" (ranges of the Rust integer
     types, HTTP version 0/1/*, header names/values the grammar can express).
   - The canonical text of a value is what Display prints (the print_ functions of Model.SigText): the property is a
     round-trip property, so the printer is the definition of canonical text.
   - spec_tcp / spec_http: a *reference reader* of signature lines that does not use the nom model:
     the line is cut at its separators first (':' then ','; bracket-aware for HTTP) and every field is
     then read as a whole token.  It is lenient about spelling (leading zeros, empty header names).
   - canonical_* l: l is the canonical text of the well-formed value the reference reader finds in it.
   Definitions only. *)
From Coq Require Import List NArith Bool.
From Coq Require Import Strings.Byte.
From HN Require Import Base.Bytes Model.SigAst Model.SigText.
Import ListNotations.
Open Scope N_scope.

(* ---------- well-formed values ---------- *)
Definition u8 (n : N) : bool := n <=? 255.
Definition u16 (n : N) : bool := n <=? 65535.

Definition wf_ttl (t : ttl) : bool :=
  match t with
  | TtlValue n | TtlGuess n | TtlBad n => u8 n
  | TtlDistance n d => u8 n && u8 d end.
Definition wf_window (w : window_size) : bool :=
  match w with WMss n | WMtu n => u8 n | WValue n | WMod n => u16 n | WAny => true end.
Definition wf_option (o : tcp_option) : bool :=
  match o with OEol n | OUnknown n => u8 n | _ => true end.
Definition wf_optnum (f : N -> bool) (o : option N) : bool := match o with Some n => f n | None => true end.

Definition wf_tcp (s : tcp_sig) : bool :=
  wf_ttl (t_ittl s) && u8 (t_olen s) && wf_optnum u16 (t_mss s) && wf_window (t_wsize s) &&
  wf_optnum u8 (t_wscale s) && forallb wf_option (t_olayout s).

(* header names: letters, digits and '-' (RFC 7230 tokens as they occur in p0f.fp); values: anything but ']' *)
Definition name_char (b : byte) : bool :=
  let n := b2n b in
  ((48 <=? n) && (n <=? 57)) || ((65 <=? n) && (n <=? 90)) || ((97 <=? n) && (n <=? 122)) || (n =? 45).
Definition not_rbracket (b : byte) : bool := negb (b2n b =? 93).
Definition wf_header (h : header) : bool :=
  negb (match h_name h with [] => true | _ => false end) && forallb name_char (h_name h) &&
  match h_value h with Some v => forallb not_rbracket v | None => true end.
Definition wf_http_version (v : http_version) : bool :=
  match v with HV10 | HV11 | HVAny => true | HV20 | HV30 => false end.
Definition wf_http (s : http_sig) : bool :=
  wf_http_version (hs_version s) &&
  negb (match hs_horder s with [] => true | _ => false end) &&
  forallb wf_header (hs_horder s) && forallb wf_header (hs_habsent s).

(* ---------- reference reader: helpers ---------- *)
Definition is (t : bytes) (f : bytes) : bool := bytes_eqb f t.

(* a field that is a decimal number of the given range (leading zeros tolerated) *)
Definition rd_num (max : N) (f : bytes) : option N :=
  match f with
  | [] => None
  | _ => if forallb (fun b => (48 <=? b2n b) && (b2n b <=? 57)) f
         then (let n := fold_left (fun a b => a * 10 + (b2n b - 48)) f 0 in if n <=? max then Some n else None)
         else None
  end.

Definition omap {A B} (f : A -> B) (o : option A) : option B := match o with Some a => Some (f a) | None => None end.

(* last byte and what precedes it *)
Definition unsnoc (l : bytes) : option (bytes * byte) :=
  match revl l with b :: r => Some (revl r, b) | [] => None end.

Fixpoint all_some {A} (l : list (option A)) : option (list A) :=
  match l with
  | [] => Some []
  | Some a :: r => match all_some r with Some t => Some (a :: t) | None => None end
  | None :: _ => None
  end.
(* a possibly empty comma-separated list of tokens *)
Definition rd_list {A} (item : bytes -> option A) (f : bytes) : option (list A) :=
  match f with [] => Some [] | _ => all_some (map item (split_on ","%byte f)) end.

(* ---------- reference reader: TCP tokens ---------- *)
Definition rd_ip_version (f : bytes) : option ip_version :=
  if is (bs "4") f then Some IpV4 else if is (bs "6") f then Some IpV6 else if is (bs "*") f then Some IpAny else None.

(* ttl:  N | N+D | N+? | N-  *)
Definition rd_ttl (f : bytes) : option ttl :=
  match split_on "+"%byte f with
  | [a] => match unsnoc a with
           | Some (a', b) => if beqb b "-"%byte then omap TtlBad (rd_num 255 a') else omap TtlValue (rd_num 255 a)
           | None => None end
  | [a; b] => if is (bs "?") b then omap TtlGuess (rd_num 255 a)
              else match rd_num 255 a, rd_num 255 b with Some t, Some d => Some (TtlDistance t d) | _, _ => None end
  | _ => None end.

(* window:  * | mss*N | mtu*N | %N | N *)
Definition rd_window (f : bytes) : option window_size :=
  if is (bs "*") f then Some WAny else
  match strip_prefix (bs "mss*") f with Some d => omap WMss (rd_num 255 d) | None =>
  match strip_prefix (bs "mtu*") f with Some d => omap WMtu (rd_num 255 d) | None =>
  match strip_prefix (bs "%") f with Some d => omap WMod (rd_num 65535 d) | None =>
  omap WValue (rd_num 65535 f) end end end.

Definition rd_star_or (max : N) (f : bytes) : option (option N) :=
  if is (bs "*") f then Some None else omap Some (rd_num max f).

(* option layout tokens: eol+N nop mss ws sok sack ts ?N *)
Definition rd_option (f : bytes) : option tcp_option :=
  if is (bs "nop") f then Some ONop else if is (bs "mss") f then Some OMss else if is (bs "ws") f then Some OWs
  else if is (bs "sok") f then Some OSok else if is (bs "sack") f then Some OSack else if is (bs "ts") f then Some OTS
  else match strip_prefix (bs "eol+") f with Some d => omap OEol (rd_num 255 d) | None =>
       match strip_prefix (bs "?") f with Some d => omap OUnknown (rd_num 255 d) | None => None end end.

(* the quirk vocabulary of the p0f README *)
Definition rd_quirk (f : bytes) : option quirk :=
  if is (bs "df") f then Some QDf else if is (bs "id+") f then Some QNonZeroID else if is (bs "id-") f then Some QZeroID
  else if is (bs "ecn") f then Some QEcn else if is (bs "0+") f then Some QMustBeZero else if is (bs "flow") f then Some QFlowID
  else if is (bs "seq-") f then Some QSeqNumZero else if is (bs "ack+") f then Some QAckNumNonZero
  else if is (bs "ack-") f then Some QAckNumZero else if is (bs "uptr+") f then Some QNonZeroURG
  else if is (bs "urgf+") f then Some QUrg else if is (bs "pushf+") f then Some QPush
  else if is (bs "ts1-") f then Some QOwnTimestampZero else if is (bs "ts2+") f then Some QPeerTimestampNonZero
  else if is (bs "opt+") f then Some QTrailinigNonZero else if is (bs "exws") f then Some QExcessiveWindowScaling
  else if is (bs "bad") f then Some QOptBad else None.

Definition rd_pclass (f : bytes) : option payload_size :=
  if is (bs "0") f then Some PZero else if is (bs "+") f then Some PNonZero else if is (bs "*") f then Some PAnySize else None.

(* ver:ittl:olen:mss:wsize,scale:olayout:quirks:pclass — exactly eight ':'-separated fields *)
Definition spec_tcp (l : bytes) : option tcp_sig :=
  match split_on ":"%byte l with
  | [fv; ft; fo; fm; fw; fl; fq; fp] =>
      match split_on ","%byte fw with
      | [fws; fsc] =>
          match rd_ip_version fv, rd_ttl ft, rd_num 255 fo, rd_star_or 65535 fm, rd_window fws,
                rd_star_or 255 fsc, rd_list rd_option fl, rd_list rd_quirk fq, rd_pclass fp with
          | Some v, Some t, Some o, Some m, Some w, Some sc, Some ol, Some q, Some p =>
              Some {| t_version := v; t_ittl := t; t_olen := o; t_mss := m; t_wsize := w; t_wscale := sc;
                      t_olayout := ol; t_quirks := q; t_pclass := p |}
          | _, _, _, _, _, _, _, _, _ => None end
      | _ => None end
  | _ => None end.

(* ---------- reference reader: HTTP ---------- *)
(* cut l at the first occurrence of c outside square brackets: (before, after) *)
Fixpoint cut_top (c : byte) (inside : bool) (l : bytes) : option (bytes * bytes) :=
  match l with
  | [] => None
  | b :: r =>
      if inside then
        match cut_top c (negb (beqb b "]"%byte)) r with Some (a, s) => Some (b :: a, s) | None => None end
      else if beqb b c then Some ([], r)
      else match cut_top c (beqb b "["%byte) r with Some (a, s) => Some (b :: a, s) | None => None end
  end.
(* all pieces between occurrences of c outside square brackets (cur = current piece, reversed) *)
Fixpoint split_top (c : byte) (inside : bool) (l cur : bytes) : list bytes :=
  match l with
  | [] => [revl cur]
  | b :: r =>
      if inside then split_top c (negb (beqb b "]"%byte)) r (b :: cur)
      else if beqb b c then revl cur :: split_top c false r []
      else split_top c (beqb b "["%byte) r (b :: cur)
  end.

(* header item:  [?] name [ =[ value ] ]   — name: name_char*, value: no ']' *)
Definition rd_header (f : bytes) : option header :=
  let optional := match f with b :: _ => beqb b "?"%byte | [] => false end in
  let f1 := if optional then tl f else f in
  let (name, r) := span name_char f1 in
  match r with
  | [] => Some {| h_optional := optional; h_name := name; h_value := None |}
  | _ => match strip_prefix (bs "=[") r with
         | Some v' => match unsnoc v' with
                      | Some (v, b) => if beqb b "]"%byte && forallb not_rbracket v
                                       then Some {| h_optional := optional; h_name := name; h_value := Some v |}
                                       else None
                      | None => None end
         | None => None end
  end.
Definition rd_headers (f : bytes) : option (list header) := all_some (map rd_header (split_top ","%byte false f [])).

Definition rd_http_version (f : bytes) : option http_version :=
  if is (bs "0") f then Some HV10 else if is (bs "1") f then Some HV11 else if is (bs "*") f then Some HVAny else None.

(* ver:horder:habsent:expsw — headers of the absent list with an empty name do not count *)
Definition spec_http (l : bytes) : option http_sig :=
  match cut_top ":"%byte false l with
  | Some (fv, l1) =>
      match cut_top ":"%byte false l1 with
      | Some (fh, l2) =>
          match cut_top ":"%byte false l2 with
          | Some (fa, sw) =>
              match rd_http_version fv, rd_headers fh, rd_headers fa with
              | Some v, Some ho, Some ha =>
                  Some {| hs_version := v; hs_horder := ho;
                          hs_habsent := filter (fun h => negb (match h_name h with [] => true | _ => false end)) ha;
                          hs_expsw := sw |}
              | _, _, _ => None end
          | None => None end
      | None => None end
  | None => None end.

(* ---------- canonical lines ---------- *)
Definition canonical {A} (rd : bytes -> option A) (wf : A -> bool) (pr : A -> bytes) (l : bytes) : bool :=
  match rd l with Some s => wf s && bytes_eqb (pr s) l | None => false end.
Definition canonical_tcp : bytes -> bool := canonical spec_tcp wf_tcp print_tcp_sig.
Definition canonical_http : bytes -> bool := canonical spec_http wf_http print_http_sig.

(* what the property demands of  print . parse  on a line, given a rendering `show` of successful results:
   canonical line -> the value it denotes, printed (which is the line itself);
   line outside the reference grammar -> rejection;  otherwise (valid but not canonical spelling) no demand *)
Inductive verdict (A : Type) := VOk (a : A) | VErr | VNone.
Arguments VOk {A} a. Arguments VErr {A}. Arguments VNone {A}.
Definition demand {A} (rd : bytes -> option A) (wf : A -> bool) (pr : A -> bytes) (l : bytes) : verdict A :=
  match rd l with
  | Some s => if wf s && bytes_eqb (pr s) l then VOk s else VNone
  | None => VErr end.
