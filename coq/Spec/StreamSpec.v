(* C09 specification, written from the property text and TCP's sequence-number rules (RFC 793
   section 3.3), not from the code:

   * a connection is opened by the client's SYN, whose sequence number is the client's initial
     sequence number (ISN); the server's ISN is the sequence number of its SYN(+ACK);
   * a payload byte of a segment with sequence number `seq` lies at stream offset
     (seq - isn - 1) mod 2^32 (+ its index in the payload): sequence arithmetic is modulo 2^32;
   * the stream seen so far is the longest gap-free prefix of the bytes placed so far
     (a byte that was already received is not replaced by a retransmission);
   * the request (response) is reported exactly once: at the first event after which the client's
     (server's) gap-free prefix contains a complete head, i.e. the head parser accepts the prefix;
     it is reported on an event of the direction that sent it; nothing is reported before that and
     nothing afterwards.

   The head parsers are parameters.  `spec_wf` delimits the traces on which the specification
   gives a verdict: every connection starts with a pure client SYN (no payload, no FIN/RST), is
   opened once, and the server sends data only after its SYN.  FIN and RST flags do not change what
   has to be reported for the bytes that were captured.

   The second half defines the decidable classes of traces on which the unchanged code is known to
   deviate (used as `known` by Extract/EC09.v and as hypotheses of the C09 theorems).
   Definitions only. *)
From Coq Require Import List NArith Bool.
From Coq Require Import Strings.Byte.
From HN Require Import Base.Bytes Base.Tcp.
Import ListNotations.
Open Scope N_scope.

(* bytes received so far, by stream offset *)
Definition smap := N -> option byte.
Definition smap_empty : smap := fun _ => None.
Definition place (m : smap) (off : N) (d : bytes) : smap :=
  fun i => match m i with
           | Some b => Some b
           | None => if (off <=? i) && (i <? off + N.of_nat (length d))
                     then nth_error d (N.to_nat (i - off)) else None
           end.
(* longest gap-free prefix; `fuel` = number of payload bytes received, which bounds its length *)
Fixpoint prefix_from (m : smap) (fuel : nat) (i : N) : bytes :=
  match fuel with
  | O => []
  | S k => match m i with Some b => b :: prefix_from m k (i + 1) | None => [] end
  end.

Definition seq_offset (isn seq : N) : N := (seq + two32 - (isn + 1)) mod two32.

(* d_segs: the data segments received so far as (stream offset, payload), in arrival order; it does not
   influence what is reported, it only serves the classification of events below *)
Record sdir := mkDir { d_isn : option N; d_map : smap; d_recv : nat; d_done : bool; d_segs : list (N * bytes) }.
Record sconn := mkConn { sc_id : N; sc_c : sdir; sc_s : sdir }.

Definition dir_new (isn : option N) : sdir := mkDir isn smap_empty 0 false [].
Definition stream_prefix (d : sdir) : bytes := prefix_from (d_map d) (d_recv d) 0.

Fixpoint conn_lookup (id : N) (cs : list sconn) : option sconn :=
  match cs with
  | [] => None
  | c :: r => if sc_id c =? id then Some c else conn_lookup id r
  end.
Fixpoint conn_replace (c : sconn) (cs : list sconn) : list sconn :=
  match cs with
  | [] => []
  | c' :: r => if sc_id c' =? sc_id c then c :: r else c' :: conn_replace c r
  end.

(* all received payloads in offset order, holes squeezed out (what a reassembler that sorts and
   concatenates without a contiguity check would hand to the parser) *)
Fixpoint seg_insert (x : N * bytes) (l : list (N * bytes)) : list (N * bytes) :=
  match l with
  | [] => [x]
  | y :: r => if fst x <? fst y then x :: y :: r else y :: seg_insert x r
  end.
Definition seg_sort (l : list (N * bytes)) : list (N * bytes) := fold_right seg_insert [] l.
Definition squeezed (l : list (N * bytes)) : bytes := concat (map snd (seg_sort l)).
(* do the segments occupy pairwise disjoint offset ranges? *)
Definition seg_disj_b (x y : N * bytes) : bool :=
  (fst x + N.of_nat (length (snd x)) <=? fst y) || (fst y + N.of_nat (length (snd y)) <=? fst x).
Fixpoint segs_disjoint_b (l : list (N * bytes)) : bool :=
  match l with
  | [] => true
  | x :: r => forallb (seg_disj_b x) r && segs_disjoint_b r
  end.
(* is (off, pay) one of the received segments? *)
Definition exact_dup (l : list (N * bytes)) (off : N) (pay : bytes) : bool :=
  existsb (fun s => (fst s =? off) && bytes_eqb (snd s) pay) l.
Definition opt_some {A} (o : option A) : bool := match o with Some _ => true | None => false end.

Definition is_nil {A} (l : list A) : bool := match l with [] => true | _ => false end.
Definition is_some_b (o : option byte) : bool := match o with Some _ => true | None => false end.
(* does the received map already hold a byte in [off, off+n) ? *)
Fixpoint any_placed (m : smap) (off : N) (n : nat) : bool :=
  match n with
  | O => false
  | S k => is_some_b (m off) || any_placed m (off + 1) k
  end.
(* does the received map already hold EVERY byte of [off, off+n) ? *)
Fixpoint all_placed (m : smap) (off : N) (n : nat) : bool :=
  match n with
  | O => true
  | S k => is_some_b (m off) && all_placed m (off + 1) k
  end.


Section Spec.
  Context {Req Resp : Type}.
  Variable parse_req : bytes -> option Req.
  Variable parse_resp : bytes -> option Resp.

  (* a data segment of a direction whose ISN is `isn` *)
  Definition dir_data {R} (parse : bytes -> option R) (d : sdir) (isn seq : N) (pay : bytes) : sdir * option R :=
    if d_done d then (d, None)
    else if all_placed (d_map d) (seq_offset isn seq) (length pay) then (d, None)
         (* a segment that brings no new byte changes nothing: received bytes are not replaced, the
            stream seen so far is the one that was examined when its last new byte arrived *)
    else
      let m := place (d_map d) (seq_offset isn seq) pay in
      let n := (d_recv d + length pay)%nat in
      let sg := d_segs d ++ [(seq_offset isn seq, pay)] in
      match parse (prefix_from m n 0) with
      | Some r => (mkDir (d_isn d) m n true sg, Some r)
      | None => (mkDir (d_isn d) m n false sg, None)
      end.

  (* new state, report, and whether the event keeps the trace inside the specification's domain *)
  Definition sstep (cs : list sconn) (e : event) : list sconn * hout Req Resp * bool :=
    match conn_lookup (e_conn e) cs with
    | None =>
        if e_client e && e_syn e && is_nil (e_pay e) && negb (e_fin e) && negb (e_rst e)
        then (mkConn (e_conn e) (dir_new (Some (e_seq e))) (dir_new None) :: cs, ONone, true)
        else (cs, ONone, false)
    | Some c =>
        if e_syn e then
          match e_client e, d_isn (sc_s c), e_pay e with
          | false, None, [] =>
              (conn_replace (mkConn (sc_id c) (sc_c c) (mkDir (Some (e_seq e)) (d_map (sc_s c)) (d_recv (sc_s c)) (d_done (sc_s c)) (d_segs (sc_s c)))) cs,
               ONone, true)
          | _, _, _ => (cs, ONone, false)
          end
        else
          match e_pay e with
          | [] => (cs, ONone, true)
          | _ :: _ =>
              if e_client e then
                match d_isn (sc_c c) with
                | None => (cs, ONone, false)
                | Some isn =>
                    let '(d, r) := dir_data parse_req (sc_c c) isn (e_seq e) (e_pay e) in
                    (conn_replace (mkConn (sc_id c) d (sc_s c)) cs,
                     match r with Some q => OReq q | None => ONone end, true)
                end
              else
                match d_isn (sc_s c) with
                | None => (cs, ONone, false)
                | Some isn =>
                    let '(d, r) := dir_data parse_resp (sc_s c) isn (e_seq e) (e_pay e) in
                    (conn_replace (mkConn (sc_id c) (sc_c c) d) cs,
                     match r with Some q => OResp q | None => ONone end, true)
                end
          end
    end.

  Fixpoint srun (cs : list sconn) (tr : list event) : list (hout Req Resp) * bool :=
    match tr with
    | [] => ([], true)
    | e :: r => let '(cs1, o, ok) := sstep cs e in
                let '(os, ok2) := srun cs1 r in (o :: os, ok && ok2)
    end.
  (* the connections opened by the trace (final specification state) *)
  Fixpoint sfinal (cs : list sconn) (tr : list event) : list sconn :=
    match tr with
    | [] => cs
    | e :: r => sfinal (fst (fst (sstep cs e))) r
    end.
  Definition spec_conn_count (tr : list event) : N := N.of_nat (length (sfinal [] tr)).
  Definition spec_outs (tr : list event) : list (hout Req Resp) := fst (srun [] tr).
  Definition spec_wf (tr : list event) : bool := snd (srun [] tr).

  Definition client_done (id : N) (cs : list sconn) : bool :=
    match conn_lookup id cs with
    | Some c => d_done (sc_c c)
    | None => false
    end.
  Definition both_done (id : N) (cs : list sconn) : bool :=
    match conn_lookup id cs with
    | Some c => d_done (sc_c c) && d_done (sc_s c)
    | None => false
    end.


  (* ------------------------------------------------------------------------------------------
     STRICT classes (hypothesis of C09_inorder, which needs no assumption on the parsers): any
     arrival that is not the next in-order segment is flagged.  The known-defect classes proper
     follow below.
     Classes of events on which the unchanged code may deviate (DESIGN.md section 5 #14, and the
     client half-close found while building this check).  Each is a predicate on the event and the
     specification state BEFORE the event.
       wrap : a data segment of a not yet reported direction whose raw sequence number is not above
              that direction's ISN (the sequence space wrapped between the SYN and this segment), or
              that starts 2^31 - 1 bytes or more beyond the ISN
       gap  : ... that starts beyond the end of the gap-free prefix (leaves a hole before it)
       dup  : ... that carries a byte already received (retransmission / overlap)
       fin  : a client data segment with FIN or RST after which request and response are not both
              reported
     ------------------------------------------------------------------------------------------ *)
  Definition classify_dir_strict (d : sdir) (isn seq : N) (pay : bytes) : bool * bool * bool :=
    if d_done d then (false, false, false)
    else
      let off := seq_offset isn seq in
      let cur := N.of_nat (length (stream_prefix d)) in
      ((seq <=? isn) || (two31 - 1 <=? off), cur <? off, any_placed (d_map d) off (length pay)).

  (* (far|wrap, gap, dup, fin) of one event; cs = state before, cs1 = state after *)
  Definition classify_strict (cs : list sconn) (e : event) (cs1 : list sconn) : bool * bool * bool * bool :=
    match conn_lookup (e_conn e) cs, e_pay e with
    | Some c, _ :: _ =>
        if e_syn e then (false, false, false, false)
        else
          let d := if e_client e then sc_c c else sc_s c in
          match d_isn d with
          | None => (false, false, false, false)
          | Some isn =>
              let '(w, g, u) := classify_dir_strict d isn (e_seq e) (e_pay e) in
              (w, g, u, e_client e && (e_rst e || (e_fin e && negb (client_done (e_conn e) cs1))) && negb (both_done (e_conn e) cs1))
          end
    | _, _ => (false, false, false, false)
    end.

  Fixpoint krun_strict (cs : list sconn) (tr : list event) : bool * bool * bool * bool :=
    match tr with
    | [] => (false, false, false, false)
    | e :: r => let '(cs1, _, _) := sstep cs e in
                let '(w, g, u, f) := classify_strict cs e cs1 in
                let '(w2, g2, u2, f2) := krun_strict cs1 r in
                (w || w2, g || g2, u || u2, f || f2)
    end.
  Definition strict_classes (tr : list event) : bool * bool * bool * bool := krun_strict [] tr.
  Definition known_strict (tr : list event) : bool :=
    let '(w, g, u, f) := strict_classes tr in w || g || u || f.

  (* ------------------------------------------------------------------------------------------
     KNOWN-DEFECT classes (DESIGN.md section 5 #14, and the client half-close found while building
     this check): the events on which the unchanged code deviates.  Each is a predicate on the
     event and the specification state before the event.
       far  : a data segment of a not yet reported direction that starts 2^31 - 1 bytes or more beyond
              the ISN: the signed 32-bit distance by which segments are ordered (serial number
              arithmetic) cannot tell "far ahead" from "behind".  Not a repairable defect but the
              limit of 32-bit sequence numbers; a wrapping sequence space as such is no longer in
              any class (repaired, fix C09-seq-wrap).
       gap  : ... after which the received segments are pairwise disjoint, a hole is open (the
              gap-free prefix is shorter than the bytes received) AND the received bytes, sorted by
              offset and concatenated across the hole, are accepted by the head parser although the
              gap-free prefix is not -- a head assembled from non-contiguous segments.
              An out-of-order arrival whose squeezed bytes do not parse is NOT in this class.
       dup  : ... that carries a byte already received without being an exact retransmission (same
              offset, same bytes) of a received segment: a re-segmented retransmission / overlap.
              Exact retransmissions are no longer in this class (repaired, fix C09-dup).
       fin  : a client data segment with RST, or with FIN while the request is not yet reported, after
              which request and response are not both reported (the flow is dropped and later
              segments are ignored).  A FIN on or after the segment that completes the request --
              the client half-close -- is no longer in this class (repaired, fix C09-fin).
     ------------------------------------------------------------------------------------------ *)
  Definition classify_dir {R} (parse : bytes -> option R) (d : sdir) (isn seq : N) (pay : bytes) : bool * bool * bool :=
    if d_done d then (false, false, false)
    else
      let off := seq_offset isn seq in
      let m := place (d_map d) off pay in
      let n := (d_recv d + length pay)%nat in
      let sg := d_segs d ++ [(off, pay)] in
      let hole := N.of_nat (length (prefix_from m n 0)) <? N.of_nat n in
      (two31 - 1 <=? off,
       segs_disjoint_b sg && hole && opt_some (parse (squeezed sg)) && negb (opt_some (parse (prefix_from m n 0))),
       any_placed (d_map d) off (length pay) && negb (exact_dup (d_segs d) off pay)).

  (* (far|wrap, gap, dup, fin) of one event; cs = state before, cs1 = state after *)
  Definition classify (cs : list sconn) (e : event) (cs1 : list sconn) : bool * bool * bool * bool :=
    match conn_lookup (e_conn e) cs, e_pay e with
    | Some c, _ :: _ =>
        if e_syn e then (false, false, false, false)
        else
          let d := if e_client e then sc_c c else sc_s c in
          match d_isn d with
          | None => (false, false, false, false)
          | Some isn =>
              let '(w, g, u) := if e_client e then classify_dir parse_req d isn (e_seq e) (e_pay e)
                                else classify_dir parse_resp d isn (e_seq e) (e_pay e) in
              (w, g, u, e_client e && (e_rst e || (e_fin e && negb (client_done (e_conn e) cs1))) && negb (both_done (e_conn e) cs1))
          end
    | _, _ => (false, false, false, false)
    end.

  Fixpoint krun (cs : list sconn) (tr : list event) : bool * bool * bool * bool :=
    match tr with
    | [] => (false, false, false, false)
    | e :: r => let '(cs1, _, _) := sstep cs e in
                let '(w, g, u, f) := classify cs e cs1 in
                let '(w2, g2, u2, f2) := krun cs1 r in
                (w || w2, g || g2, u || u2, f || f2)
    end.
  Definition known_classes (tr : list event) : bool * bool * bool * bool := krun [] tr.
  Definition known_far (tr : list event) : bool := let '(w, _, _, _) := known_classes tr in w.
  Definition known_gap (tr : list event) : bool := let '(_, g, _, _) := known_classes tr in g.
  Definition known_dup (tr : list event) : bool := let '(_, _, u, _) := known_classes tr in u.
  Definition known_fin (tr : list event) : bool := let '(_, _, _, f) := known_classes tr in f.
  Definition known (tr : list event) : bool :=
    let '(w, g, u, f) := known_classes tr in w || g || u || f.
End Spec.
