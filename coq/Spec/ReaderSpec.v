(* SPEC for C08, written from the property text: a ClientHello record r, delivered as an in-order
   division into segments (followed by arbitrary further bytes), yields exactly one result - on
   the segment that completes r, equal to the result for r delivered in one segment - and nothing
   before or after.  Definitions only. *)
From Coq Require Import List NArith Bool.
From Coq Require Import Strings.Byte.
From HN Require Import Base.Bytes Model.TlsHello Model.Ja4.
Import ListNotations.
Open Scope N_scope.

(* r is one whole TLS handshake record: type 0x16, two version bytes, and exactly as many
   payload bytes as its length field announces *)
Definition framed (r : bytes) : Prop :=
  match r with
  | t :: _ :: _ :: l1 :: l2 :: body => t = x16 /\ lenN body = b2n l1 * 256 + b2n l2
  | _ => False
  end.
Definition framedb (r : bytes) : bool :=
  match r with
  | t :: _ :: _ :: l1 :: l2 :: body => (b2n t =? 0x16) && (lenN body =? b2n l1 * 256 + b2n l2)
  | _ => false
  end.

(* the record-layer version is one the packet analyzer admits for a new connection (SSL 3.0 .. TLS 1.3) *)
Definition admitted_version (r : bytes) : bool :=
  match r with
  | _ :: v1 :: v2 :: _ => let v := b2n v1 * 256 + b2n v2 in (0x0300 <=? v) && (v <=? 0x0304)
  | _ => false
  end.

(* Expected per-segment outputs: `have` bytes were delivered before, the record needs `need`
   bytes; `res` is reported on the segment that completes the record, nothing on any other. *)
Fixpoint exactly_once (have need : N) (res : tls_result) (cs : list bytes) : list tls_result :=
  match cs with
  | [] => []
  | c :: rest =>
      let have' := have + lenN c in
      if have' <? need then RNone :: exactly_once have' need res rest
      else res :: map (fun _ => RNone) rest
  end.

(* the segments that follow the one completing the record *)
Fixpoint after_completion (have need : N) (cs : list bytes) : list bytes :=
  match cs with
  | [] => []
  | c :: rest => let have' := have + lenN c in
                 if have' <? need then after_completion have' need rest else rest
  end.

(* a segment the analyzer would take for the start of a new TLS handshake record *)
Definition looks_like_record_start (p : bytes) : bool :=
  match p with
  | t :: v1 :: v2 :: _ :: _ :: _ =>
      (b2n t =? 0x16) && (let v := b2n v1 * 256 + b2n v2 in (0x0300 <=? v) && (v <=? 0x0304))
  | _ => false
  end.
(* "calm": no later segment of the connection begins like a fresh handshake record *)
Definition calm (cs : list bytes) : bool := forallb (fun p => negb (looks_like_record_start p)) cs.
