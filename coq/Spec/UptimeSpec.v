(* SPEC for C19, written from the property text, the doc comments of uptime.rs /
   tcp_process.rs / output.rs and the p0f README (uptime estimation from TCP timestamps).
   Independent of Model/Uptime.v except for the shared record types (uptime, connection,
   segment, role).  Exact integer arithmetic throughout.  Definitions only.

   Observation = (arrival time in ms, TSval).  For a reference observation (t1, v1) and a later
   one (t2, v2) of the same endpoint:
     interval  dms = t2 - t1                       (ms, may be negative if the clock steps back)
     advance   d   = (v2 - v1) mod 2^32            (TSval is a 32-bit counter: wrapping)
     the timestamp "advances" when d < 2^31 (otherwise it moved backward by 2^32 - d)
     rate      r   = 1000 * d / dms  Hz            (exact rational)
   In bounds:  25 <= dms <= 600000  and  forward  and  1 <= r <= 1500. *)
From Coq Require Import List ZArith Bool.
From HN Require Import Model.Uptime.
Import ListNotations.
Open Scope Z_scope.

Definition TWO32 : Z := 4294967296.
Definition TWO31 : Z := 2147483648.

Definition advance (v1 v2 : Z) : Z := (v2 - v1) mod TWO32.

Definition in_bounds (t1 v1 t2 v2 : Z) : bool :=
  let dms := t2 - t1 in
  let d := advance v1 v2 in
  (25 <=? dms) && (dms <=? 600000) && (d <? TWO31) && (dms <=? 1000 * d) && (1000 * d <=? 1500 * dms).

(* ---- the documented grid ----
   uptime.rs: "Common frequency guess: 1000 Hz / 100 Hz", "Tolerance for frequency guessing" 0.10;
   round_frequency_p0f_style ("Smart frequency rounding following p0f methodology ... rounds
   frequencies to common OS values based on ranges"): the rate is first cut to its integer part, then
     "Special case: 0 Hz -> 1 Hz"; 1..10 "No rounding for very low frequencies";
     11..50  "Round to multiples of 5: 11->10, 13->15, 18->20"         (+3, /5, *5)
     51..100 "Round to multiples of 10: 51->50, 55->60, 99->100"       (+7, /10, *10)
     101..500 "Round to multiples of 50: 101->100, 125->150, 248->250" (+33, /50, *50)
     above   "Round to multiples of 100: 501->500, 650->700, 997->1000" (+67, /100, *100)
   (p0f's own rule).  Grid points: *)
Definition grid_points : list Z :=
  [1;2;3;4;5;6;7;8;9;10] ++ [15;20;25;30;35;40;45;50] ++ [60;70;80;90;100]
  ++ [150;200;250;300;350;400;450;500] ++ [600;700;800;900;1000;1100;1200;1300;1400;1500].

(* rate n/dd (dd > 0).  A rate within 10 % of a positive multiple k*base of a common clock rate
   snaps to that multiple; k*base is the multiple nearest to the rate. *)
Definition snap (base n dd : Z) : option Z :=
  let k := (2 * n + base * dd) / (2 * base * dd) in
  if (1 <=? k) && (9 * (k * base) * dd <=? 10 * n) && (10 * n <=? 11 * (k * base) * dd)
  then Some (k * base) else None.

(* the documented bands: (last integer rate of the band, spacing, offset added before dividing) *)
Definition bands : list (Z * Z * Z) := [(10, 1, 0); (50, 5, 3); (100, 10, 7); (500, 50, 33)].
Fixpoint band_round (bs : list (Z * Z * Z)) (f : Z) : Z :=
  match bs with
  | [] => (f + 67) / 100 * 100
  | (hi, s, off) :: r => if f <=? hi then (f + off) / s * s else band_round r f
  end.
(* f = integer part of the rate *)
Definition documented_round (f : Z) : Z := if f =? 0 then 1 else band_round bands f.

Definition grid (n dd : Z) : Z :=
  match snap 1000 n dd with
  | Some f => f
  | None => match snap 100 n dd with
            | Some f => f
            | None => documented_round (n / dd)
            end
  end.

(* uptime = later timestamp / frequency, in whole seconds, as days : hours : minutes;
   wrap period = 2^32 ticks at that frequency, in whole days *)
Definition spec_uptime (v2 freq : Z) : uptime :=
  let secs := v2 / freq in
  {| u_freq := freq;
     u_days := secs / 86400;
     u_hours := (secs / 3600) mod 24;
     u_min := (secs / 60) mod 60;
     u_mod_days := (TWO32 / freq) / 86400 |}.

Definition spec_estimate (t1 v1 t2 v2 : Z) : option uptime :=
  if in_bounds t1 v1 t2 v2
  then Some (spec_uptime v2 (grid (1000 * advance v1 v2) (t2 - t1)))
  else None.

(* ---- role rule (tcp_process.rs doc comment of is_packet_from_client) ----
   handshake: SYN without ACK is the client, SYN+ACK is the server; afterwards a segment from
   an ephemeral port (> 1024) to a well-known port (<= 1024) is from the client. *)
Definition has_syn (flags : Z) : bool := Z.odd (flags / 2).
Definition has_ack (flags : Z) : bool := Z.odd (flags / 16).
Definition spec_role (flags sport dport : Z) : role :=
  if has_syn flags then (if has_ack flags then Server else Client)
  else if (1024 <? sport) && (dport <=? 1024) then Client else Server.

(* a segment is analysed unless its flags are contradictory or empty: SYN with FIN or RST,
   FIN with RST, or none of SYN/ACK/FIN/RST *)
Definition has_fin (flags : Z) : bool := Z.odd flags.
Definition has_rst (flags : Z) : bool := Z.odd (flags / 4).
Definition spec_analysed (flags : Z) : bool :=
  negb ((has_syn flags && (has_fin flags || has_rst flags)) || (has_fin flags && has_rst flags)
        || negb (has_syn flags || has_ack flags || has_fin flags || has_rst flags)).

(* ---- tracker: one entry per direction of a connection (source -> destination 4-tuple):
   the reference observation, or the marker "do not evaluate again" ---- *)
Inductive sentry := SRef (t v : Z) | SBad.
Definition stracker := list (connection * sentry).
Fixpoint s_get (st : stracker) (c : connection) : option sentry :=
  match st with
  | [] => None
  | (c', e) :: r => if conn_eqb c' c then Some e else s_get r c
  end.
Fixpoint s_set (st : stracker) (c : connection) (e : sentry) : stracker :=
  match st with
  | [] => [(c, e)]
  | (c', e') :: r => if conn_eqb c' c then (c, e) :: r else (c', e') :: s_set r c e
  end.

(* result for one segment: not analysed / nothing reported / estimate with its label *)
Inductive sresult := SErr | SNone | SEst (r : role) (u : uptime).

Definition spec_segment (st : stracker) (s : segment) (now : Z) : stracker * sresult :=
  if negb (spec_analysed (sg_flags s)) then (st, SErr)
  else
    let c := sg_conn s in
    match s_get st c with
    | None => (s_set st c (SRef now (sg_tsval s)), SNone)
    | Some SBad => (st, SNone)
    | Some (SRef t1 v1) =>
        match spec_estimate t1 v1 now (sg_tsval s) with
        | Some u => (st, SEst (spec_role (sg_flags s) (src_port c) (dst_port c)) u)
        | None => (s_set st c SBad, SNone)
        end
    end.

Fixpoint spec_history (st : stracker) (h : list (segment * Z)) : list sresult :=
  match h with
  | [] => []
  | (s, now) :: r => let '(st', o) := spec_segment st s now in o :: spec_history st' r
  end.

(* ==== known classes: inputs on which the unchanged code departs from the property ==== *)

(* K1 small advance: interval and rate in bounds but fewer than MIN_TS_DIFF = 5 ticks: withheld *)
Definition known_small_advance (t1 v1 t2 v2 : Z) : bool :=
  in_bounds t1 v1 t2 v2 && (advance v1 v2 <? 5).

Definition known_pair (t1 v1 t2 v2 : Z) : bool :=
  known_small_advance t1 v1 t2 v2.

(* K2 role split: the code keys its tracker by (direction, role); when two analysed segments of one
   direction get different roles (handshake flags disagree with the port heuristic, e.g. SYN to port
   8080 followed by ACKs) they are never paired. *)
Fixpoint role_of_conn (seen : list (connection * role)) (c : connection) : option role :=
  match seen with
  | [] => None
  | (c', r) :: t => if conn_eqb c' c then Some r else role_of_conn t c
  end.
Definition role_eqb (a b : role) : bool :=
  match a, b with Client, Client | Server, Server => true | _, _ => false end.
Fixpoint known_role_split_from (seen : list (connection * role)) (h : list (segment * Z)) : bool :=
  match h with
  | [] => false
  | (s, _) :: r =>
      if negb (spec_analysed (sg_flags s)) then known_role_split_from seen r
      else
        let c := sg_conn s in
        let ro := spec_role (sg_flags s) (src_port c) (dst_port c) in
        match role_of_conn seen c with
        | Some r0 => if role_eqb r0 ro then known_role_split_from seen r else true
        | None => known_role_split_from ((c, ro) :: seen) r
        end
  end.
Definition known_role_split (h : list (segment * Z)) : bool := known_role_split_from [] h.

(* pairs the SPEC evaluates along a history, for the known flag of a whole history *)
Fixpoint known_pairs_history (st : stracker) (h : list (segment * Z)) : bool :=
  match h with
  | [] => false
  | (s, now) :: r =>
      let here := match s_get st (sg_conn s) with
                  | Some (SRef t1 v1) => spec_analysed (sg_flags s) && known_pair t1 v1 now (sg_tsval s)
                  | _ => false
                  end in
      here || known_pairs_history (fst (spec_segment st s now)) r
  end.
Definition known_history (h : list (segment * Z)) : bool :=
  known_role_split h || known_pairs_history [] h.
