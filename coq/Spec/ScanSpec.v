(* SPEC for C02, from the property text: "the reported match is exactly what an exhaustive scan of the
   database selects: the first entry in database order with the smallest distance among all entries that
   accept the observation, reported with the quality belonging to that distance; nothing is reported
   exactly when no entry accepts it."  No index, no sentinel, no loop state: list comprehension only.
   `distance` (which entries accept, and how far) and `score` are the matcher's own notions (C12 is about
   them); C02 is relative to them.  Definitions only. *)
From Coq Require Import List NArith Bool.
From HN Require Import Base.Bytes Model.Match.
Import ListNotations.
Open Scope N_scope.

(* positions 0,1,2.. *)
Fixpoint number_from {A} (i : N) (l : list A) : list (N * A) :=
  match l with [] => [] | x :: r => (i, x) :: number_from (i + 1) r end.

Section Scan.
  Context {L S O : Type}.
  Variable distance : S -> O -> option N.
  Variable score : N -> N.

  (* all signatures in database (file) order: (label position, position within the label, signature) *)
  Definition positions (entries : list (L * list S)) : list (N * N * S) :=
    flat_map (fun e => map (fun p => (fst e, fst p, snd p)) (number_from 0 (snd (snd e)))) (number_from 0 entries).

  (* the entries that accept the observation, with their distance, still in database order *)
  Definition accepting (entries : list (L * list S)) (o : O) : list (N * N * N) :=
    flat_map (fun p => match distance (snd p) o with Some d => [(fst (fst p), snd (fst p), d)] | None => [] end)
             (positions entries).

  Definition dist_of (a : N * N * N) : N := snd a.
  Definition smallest (l : list (N * N * N)) : option N :=
    match l with [] => None | a :: r => Some (fold_left N.min (map dist_of r) (dist_of a)) end.

  Definition scan (entries : list (L * list S)) (o : O) : fres :=
    let acc := accepting entries o in
    match smallest acc with
    | None => FNone                                           (* no entry accepts *)
    | Some m =>
        match find (fun a => dist_of a =? m) acc with        (* first, in database order, at distance m *)
        | Some (li, si, d) => FSome li si d (score d)
        | None => FNone
        end
    end.
End Scan.

Definition tcp_scan {L} (entries : list (L * list SigAst.tcp_sig)) (o : SigAst.tcp_sig) : fres :=
  scan tcp_distance tcp_score entries o.
Definition http_scan {L} (entries : list (L * list SigAst.http_sig)) (o : SigAst.http_sig) : fres :=
  scan http_distance http_score entries o.

(* observations the analyzers emit: a concrete IP version and payload class / a concrete HTTP version
   (`Any` occurs in database signatures only) *)
Definition concrete_obs (o : SigAst.tcp_sig) : Prop :=
  (SigAst.t_version o = SigAst.IpV4 \/ SigAst.t_version o = SigAst.IpV6)
  /\ (SigAst.t_pclass o = SigAst.PZero \/ SigAst.t_pclass o = SigAst.PNonZero).
Definition concrete_http (o : SigAst.http_sig) : Prop := SigAst.hs_version o <> SigAst.HVAny.

(* deciders used by the case interpreter to gate the SPEC column *)
Definition concrete_obs_b (o : SigAst.tcp_sig) : bool :=
  match SigAst.t_version o, SigAst.t_pclass o with
  | SigAst.IpAny, _ | _, SigAst.PAnySize => false
  | _, _ => true end.
Definition concrete_http_b (o : SigAst.http_sig) : bool :=
  match SigAst.hs_version o with SigAst.HVAny => false | _ => true end.
