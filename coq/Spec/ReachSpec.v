(* C13: statement-level apparatus on top of Spec/ConformSpec.v.  Definitions only.
     * how a signature of the bundled file is named: by the (1-based) line of p0f.fp it is written on;
     * the known classes of TRAFFIC on which the unchanged extractors leave the p0f rendering (C03's K1, K4, K5, K7)
       (the C13 class KV6, version-specific quirks not ignored for the other IP version, was repaired by ecf5f15);
     * `live_tcp_b`: a decidable condition on a TCP signature under which every conforming packet outside the known
       classes is observed as an instance of the signature (soundness: Proofs/ReachProofs.v);
     * the documented dead / undecided lists of the bundled file (Spec/ReachLists.v holds the literal lists; the proofs
       recompute the partition from Gen/Bundled.v and compare). *)
From Coq Require Import List NArith Bool.
From Coq Require Import Strings.Byte.
From HN Require Import Base.Bytes Base.Http1Text Model.SigAst Model.Match Model.TcpExtract Model.Http1Obs Model.Reach Model.MsgCase
  Spec.ScanSpec Spec.P0fTcp Spec.InstanceSpec Spec.Http1Grammar Spec.DbLoadSpec Spec.BundledSpec Spec.ConformSpec.
Import ListNotations.
Open Scope N_scope.

(* ---------------- naming signatures by file line ---------------- *)
(* line numbers (1-based) of the `sig` lines lying in sections named s, in file order *)
Definition sig_lines (s : sec) : list N :=
  flat_map (fun e => match e with
                     | (n, (Some s', SKey KSig _)) => if sec_eqb s s' then [n] else []
                     | _ => [] end) (number_from 1 bundled_ann).
Fixpoint index_of (x : N) (l : list N) : option nat :=
  match l with
  | [] => None
  | y :: r => if x =? y then Some O else option_map S (index_of x r)
  end.
(* the entry (label idx, sig idx, signature) written on that line: the j-th sig line of a section is the j-th
   position of the table loaded from it (checked: ReachProofs.bundled_lines_are_positions) *)
Definition entry_on_line {S} (lines : list N) (tbl : list (label * list S)) (line : N) : option (N * N * S) :=
  match index_of line lines with Some j => nth_error (positions tbl) j | None => None end.
Definition tcp_table (db : database) (k : tkind) : list (label * list tcp_sig) :=
  match k with TReq => db_tcp_request db | TResp => db_tcp_response db end.
Definition http_table (db : database) (k : hkind) : list (label * list http_sig) :=
  match k with HReq => db_http_request db | HResp => db_http_response db end.
Definition tcp_sec (k : tkind) : sec := match k with TReq => SecTQ | TResp => SecTS end.
Definition http_sec (k : hkind) : sec := match k with HReq => SecHQ | HResp => SecHS end.
Definition tcp_entry (k : tkind) (line : N) : option (N * N * tcp_sig) :=
  entry_on_line (sig_lines (tcp_sec k)) (tcp_table bundled_db k) line.
Definition http_entry (k : hkind) (line : N) : option (N * N * http_sig) :=
  entry_on_line (sig_lines (http_sec k)) (http_table bundled_db k) line.
(* every signature of a table with its line *)
Definition with_lines {S} (lines : list N) (tbl : list (label * list S)) : list (N * (N * N * S)) :=
  combine lines (positions tbl).

(* ---------------- known classes of TCP traffic ---------------- *)
(* C03's classes that change the SIGNATURE part of the report (K2 concerns the MTU only, K3 non-handshake segments):
   K1 bytes after end-of-options, K4 quirk order/duplicates (stated on the list the model produces), K5 malformed
   options (the NS-bit part was repaired by 9733023), K7 a window field above 65535 (never true of a decoded segment;
   the MTU-divisor defect it used to name was repaired by 44d12e9) *)
Definition known_c03 (g : segment) (model_quirks : list quirk) : bool :=
  K1 g || K4_of model_quirks || K5 g || K7 g.
Definition known_tcp13 (s : tcp_sig) (g : segment) (model_quirks : list quirk) : bool :=
  known_c03 g model_quirks.      (* the class KV6 (version-specific quirks not ignored) was repaired by ecf5f15 *)

(* the end-to-end model on C13's traffic type *)
Definition tcp_out_of (db : database) (x : tcp_traffic) : res tcp_out :=
  match x with
  | T4 p => process_ipv4_packet (db_mtu db) p
  | T6 p => process_ipv6_packet (db_mtu db) p end.
Definition reach_tcp (db : database) (x : tcp_traffic) : reach := reach_of_tcp_out db (tcp_out_of db x).
Definition tcp_table_id (k : tkind) : table_id := match k with TReq => TblTcpRequest | TResp => TblTcpResponse end.
Definition known_tcp_traffic (db : database) (s : tcp_sig) (x : tcp_traffic) : bool :=
  match seg_of x with Some g => known_tcp13 s g (out_quirks (tcp_out_of db x)) | None => false end.
(* "s is the signature at position (li, si) of the table" *)
Definition entry_at {S} (tbl : list (label * list S)) (li si : N) : option (N * N * S) :=
  find (pos_is li si) (positions tbl).

(* what the model reports for traffic built for the signature on `line`, and whether that is admissible for it;
   None: no such signature, the traffic does not decode, or it does not conform to the signature *)
Record verdict := { v_own_label : N; v_model : reach; v_admissible : bool; v_known_traffic : bool }.
Definition judge_tcp_gen (db : database) (entry : tkind -> N -> option (N * N * tcp_sig))
           (k : tkind) (line : N) (x : tcp_traffic) : option verdict :=
  match entry k line, seg_of x with
  | Some (li, si, s), Some g =>
      if conforms_seg_b k s g then
        let r := reach_tcp db x in
        Some {| v_own_label := li; v_model := r;
                v_admissible := match r, k with
                                | RMatch TblTcpRequest f, TReq | RMatch TblTcpResponse f, TResp =>
                                    admissible_b (tcp_table db k) (fun t => conforms_tcp_b k t x) li si f
                                | _, _ => false end;
                v_known_traffic := known_tcp_traffic db s x |}
      else None
  | _, _ => None end.
Definition judge_tcp : tkind -> N -> tcp_traffic -> option verdict := judge_tcp_gen bundled_db tcp_entry.

Definition reach_http (db : database) (k : hkind) (d : bytes) : reach :=
  match k with HReq => reach_http_request db d | HResp => reach_http_response db d end.
Definition http_table_id (k : hkind) : table_id := match k with HReq => TblHttpRequest | HResp => TblHttpResponse end.
Definition judge_http_gen (db : database) (entry : hkind -> N -> option (N * N * http_sig))
           (k : hkind) (line : N) (m : msg) (body : bytes) : option verdict :=
  match entry k line with
  | Some (li, si, s) =>
      if conforms_http_b k s m then
        let r := reach_http db k (Http1Grammar.render m ++ body) in
        Some {| v_own_label := li; v_model := r;
                v_admissible := match r, k with
                                | RMatch TblHttpRequest f, HReq | RMatch TblHttpResponse f, HResp =>
                                    admissible_b (http_table db k) (fun t => conforms_http_b k t m) li si f
                                | _, _ => false end;
                v_known_traffic := Http1Grammar.known m |}
      else None
  | None => None end.
Definition judge_http : hkind -> N -> msg -> bytes -> option verdict := judge_http_gen bundled_db http_entry.

(* case lines (grammar: Extract/EC13.v) *)
Definition parse_tcp_case (l : bytes) : option (tkind * N * tcp_traffic) :=
  match ffields l with
  | [k; t; ln; v; h] =>
      if bytes_eqb k (bs "T") then
        match read_N ln, read_hex h with
        | Some line, Some p =>
            let kind := if bytes_eqb t (bs "q") then Some TReq else if bytes_eqb t (bs "s") then Some TResp else None in
            let x := if bytes_eqb v (bs "4") then Some (T4 p) else if bytes_eqb v (bs "6") then Some (T6 p) else None in
            match kind, x with Some kd, Some tr => Some (kd, line, tr) | _, _ => None end
        | _, _ => None end
      else None
  | _ => None end.
Definition parse_http_case (l : bytes) : option (hkind * N * msg * bytes) :=
  match ffields l with
  | k :: t :: ln :: rest =>
      if bytes_eqb k (bs "H") then
        match read_N ln, parse_msg rest with
        | Some line, Some (m, body) =>
            if bytes_eqb t (bs "q") then Some (HReq, line, m, body)
            else if bytes_eqb t (bs "s") then Some (HResp, line, m, body) else None
        | _, _ => None end
      else None
  | _ => None end.

(* ---------------- liveness decider (TCP) ---------------- *)
(* initial TTL one of those the extractor's hop-count rule assumes *)
Definition ttl_live (t : ttl) : bool :=
  match t with
  | TtlValue i => existsb (N.eqb i) initial_ttls
  | TtlBad _ => true            (* since fdb1660 the matcher accepts every observed TTL that does not exceed NN *)
  | _ => false end.
(* no `eol+n` with padding: the code renders that as a chain (K1), so no packet outside K1 conforms *)
Definition layout_live (l : list tcp_option) : bool :=
  forallb (fun o => match o with OEol n => n =? 0 | _ => true end) l.
(* quirks written in the canonical order, without repetition (the matcher compares lists) *)
Definition quirks_live (q : list quirk) : bool := strictly_increasing (map quirk_idx q).
(* IP versions of conforming packets *)
Definition live_versions (s : tcp_sig) : list ip_version :=
  match t_version s with IpAny => [IpV4; IpV6] | v => [v] end.
Definition layout_ts (l : list tcp_option) : bool := existsb (tcp_option_eqb OTS) l.
(* the window form the p0f rendering gives to every conforming packet is the signature's own, or one the matcher
   equates with it (raw value against mss*k) *)
Definition window_live (s : tcp_sig) : bool :=
  let ts := layout_ts (t_olayout s) in
  match t_wsize s with
  | WAny => true
  | WMss k => k <=? 255
  | WMod _ => false
  | WValue v =>
      (v =? 0) ||
      match t_mss s with
      | Some m => forallb (fun ver => window_size_eqb (spec_window ver v (Some m) ts) (WValue v)) (live_versions s)
      | None => false end
  | WMtu k =>
      match t_mss s with
      | Some m => forallb (fun ver => window_size_eqb (spec_window ver (k * (m + min_headers ver)) (Some m) ts) (WMtu k))
                          (live_versions s)
      | None => false end
  end.
(* a signature that says `0` for MSS / scale while its layout has no such option describes packets WITHOUT the option;
   the extractor reports "absent" (None), which the matcher does not equate with 0 *)
Definition optzero_live (v : option N) (o : tcp_option) (l : list tcp_option) : bool :=
  match v with Some 0 => existsb (tcp_option_eqb o) l | _ => true end.
Definition live_tcp_b (s : tcp_sig) : bool :=
  ttl_live (t_ittl s) && layout_live (t_olayout s) && quirks_live (t_quirks s)
  && optzero_live (t_mss s) OMss (t_olayout s) && optzero_live (t_wscale s) OWs (t_olayout s) && window_live s.

(* why a signature is not live: the first failing condition, as a class name *)
Inductive tcp_class := CLive | CBadTtl | COddTtl | CEolPad | CQuirkOrder | COptZero | CValueWindow | CModWindow | CMtuWindow | CMssWide.
Definition tcp_class_of (s : tcp_sig) : tcp_class :=
  if negb (ttl_live (t_ittl s)) then (match t_ittl s with TtlBad _ => CBadTtl | _ => COddTtl end)
  else if negb (layout_live (t_olayout s)) then CEolPad
  else if negb (quirks_live (t_quirks s)) then CQuirkOrder
  else if negb (optzero_live (t_mss s) OMss (t_olayout s) && optzero_live (t_wscale s) OWs (t_olayout s)) then COptZero
  else if window_live s then CLive
  else match t_wsize s with WValue _ => CValueWindow | WMod _ => CModWindow | WMtu _ => CMtuWindow | _ => CMssWide end.
Definition tcp_class_eqb (a b : tcp_class) : bool :=
  match a, b with
  | CLive, CLive | CBadTtl, CBadTtl | COddTtl, COddTtl | CEolPad, CEolPad | CQuirkOrder, CQuirkOrder | COptZero, COptZero
  | CValueWindow, CValueWindow | CModWindow, CModWindow | CMtuWindow, CMtuWindow | CMssWide, CMssWide => true
  | _, _ => false end.

(* lines of the TCP signatures of table k that fall in class c *)
Definition tcp_lines_in (db : database) (k : tkind) (c : tcp_class) : list N :=
  map fst (filter (fun e => tcp_class_eqb (tcp_class_of (snd (snd e))) c)
                  (with_lines (sig_lines (tcp_sec k)) (tcp_table db k))).
