(* SPEC side of C18-T1, written from the property text: the connection identity of a frame is
   read off the endpoints *the analyzer itself* decodes (RawFrame.analyzer_endpoints), never off
   the hash functions' own decoding:
     TCP   the source address;
     TLS   the directed 4-tuple;
     HTTP  the address/port 4-tuple irrespective of direction.
   Definitions only. *)
From Coq Require Import List NArith Bool.
From HN Require Import Base.Bytes Model.Filter Model.RawFrame.
Import ListNotations.
Open Scope N_scope.

Definition identity_tcp (f : bytes) : option ip := option_map e_src (analyzer_endpoints f).
Definition identity_tls (f : bytes) : option endpoints := analyzer_endpoints f.

(* the same connection seen from the other side *)
Definition flip (e : endpoints) : endpoints :=
  {| e_src := e_dst e; e_dst := e_src e; e_sport := e_dport e; e_dport := e_sport e |}.

(* a direction-free normal form: the smaller (family, address, port) endpoint first *)
Definition ip_key (a : ip) : N * N := match a with V4 x => (4, x) | V6 x => (6, x) end.
Definition ep_le (a : ip) (p : N) (b : ip) (q : N) : bool :=
  let '(fa, xa) := ip_key a in let '(fb, xb) := ip_key b in
  (fa <? fb) || ((fa =? fb) && ((xa <? xb) || ((xa =? xb) && (p <=? q)))).
Definition undirected (e : endpoints) : endpoints :=
  if ep_le (e_src e) (e_sport e) (e_dst e) (e_dport e) then e else flip e.
Definition identity_http (f : bytes) : option endpoints := option_map undirected (analyzer_endpoints f).
