(* C01 -- what the property demands of a model outcome.  Definitions only, independent of the models:
   an entry point is *total* on an input when it returns a value or an error value, i.e. the outcome
   is neither a panic nor an unfinished loop. *)
From Coq Require Import List NArith Bool.
From Coq Require Import Strings.Byte.
From HN Require Import Base.Bytes Model.TotalBase.
Import ListNotations.

Definition total {A} (r : R A) : Prop := r <> Panic /\ r <> OutOfFuel.
Definition totalb {A} (r : R A) : bool := match r with Ok _ | Err => true | Panic | OutOfFuel => false end.

(* SPEC column of a C01 result line: the property does not fix *which* value is returned, only that one
   is: the verdict is the model's own line when that line is a return, and NOPANIC (which no harness
   line equals) when the model line is PANIC or HANG. *)
Definition spec_col (model_line : bytes) : bytes :=
  if bytes_eqb model_line (bs "PANIC") || bytes_eqb model_line (bs "HANG") then bs "NOPANIC" else model_line.
