(* SPEC for C04: the JA4 TLS client fingerprint as published by FoxIO
   (github.com/FoxIO-LLC/ja4, technical_details/JA4.md), written over an abstract ClientHello and
   independently of the implementation, plus the wire encoding of that ClientHello (RFC 5246 7.4.1.2 /
   RFC 8446 4.1.2, extension bodies of RFC 6066, 7301, 8446, 8422) and the domain `wf` of RFC-conformant
   hellos.  GREASE values are the sixteen of RFC 8701.  Definitions only. *)
From Coq Require Import List NArith Bool Sorting.Mergesort Orders.
From Coq Require Import Strings.Byte.
From HN Require Import Base.Bytes.
Import ListNotations.
Open Scope N_scope.

(* ---------- abstract ClientHello ---------- *)
Inductive ext_body :=
| BSni (names : list (N * bytes))      (* server_name_list: (name_type, name) *)
| BAlpn (protos : list bytes)          (* protocol_name_list *)
| BVersions (vs : list N)              (* supported_versions, ClientHello form *)
| BSigAlgs (l : list N)                (* signature_algorithms *)
| BGroups (l : list N)                 (* supported_groups *)
| BPointFormats (f : bytes)            (* ec_point_formats *)
| BRaw (body : bytes).                 (* any other extension: opaque *)

Record hello := {
  h_rec_version : N;                   (* record-layer version *)
  h_version : N;                       (* ClientHello.legacy_version *)
  h_random : bytes;
  h_sid : bytes;
  h_ciphers : list N;
  h_comp : bytes;
  h_exts : list (N * ext_body);
  h_omit_ext_block : bool }.           (* no extensions block at all (only when h_exts = []) *)

Definition len {A} (l : list A) : N := N.of_nat (length l).

(* ---------- wire encoding ---------- *)
Definition enc8 (n : N) : bytes := [n2b n].
Definition enc16 (n : N) : bytes := be_bytes 2 n.
Definition enc24 (n : N) : bytes := be_bytes 3 n.
Definition enc16s (l : list N) : bytes := concat (map enc16 l).

Definition encode_sni_name (e : N * bytes) : bytes := enc8 (fst e) ++ enc16 (len (snd e)) ++ snd e.
Definition encode_proto (p : bytes) : bytes := enc8 (len p) ++ p.

Definition encode_body (b : ext_body) : bytes :=
  match b with
  | BSni names => let l := concat (map encode_sni_name names) in enc16 (len l) ++ l
  | BAlpn ps => let l := concat (map encode_proto ps) in enc16 (len l) ++ l
  | BVersions vs => enc8 (2 * len vs) ++ enc16s vs
  | BSigAlgs l => enc16 (2 * len l) ++ enc16s l
  | BGroups l => enc16 (2 * len l) ++ enc16s l
  | BPointFormats f => enc8 (len f) ++ f
  | BRaw body => body
  end.
Definition encode_ext (e : N * ext_body) : bytes :=
  let b := encode_body (snd e) in enc16 (fst e) ++ enc16 (len b) ++ b.
Definition encode_exts (l : list (N * ext_body)) : bytes := concat (map encode_ext l).

Definition encode_ch_body (h : hello) : bytes :=
  enc16 (h_version h) ++ h_random h ++ enc8 (len (h_sid h)) ++ h_sid h
  ++ enc16 (2 * len (h_ciphers h)) ++ enc16s (h_ciphers h)
  ++ enc8 (len (h_comp h)) ++ h_comp h
  ++ (match h_exts h, h_omit_ext_block h with
      | [], true => []
      | es, _ => let e := encode_exts es in enc16 (len e) ++ e
      end).
Definition encode_handshake (h : hello) : bytes :=
  let b := encode_ch_body h in enc8 1 ++ enc24 (len b) ++ b.
(* one TLS record (type 0x16 handshake) holding the ClientHello message *)
Definition encode_hello (h : hello) : bytes :=
  let m := encode_handshake h in enc8 0x16 ++ enc16 (h_rec_version h) ++ enc16 (len m) ++ m.

(* ---------- GREASE (RFC 8701) ---------- *)
Definition grease_values : list N :=
  [0x0A0A; 0x1A1A; 0x2A2A; 0x3A3A; 0x4A4A; 0x5A5A; 0x6A6A; 0x7A7A;
   0x8A8A; 0x9A9A; 0xAAAA; 0xBABA; 0xCACA; 0xDADA; 0xEAEA; 0xFAFA].
Definition grease (v : N) : bool := existsb (N.eqb v) grease_values.
Definition non_grease (l : list N) : list N := filter (fun v => negb (grease v)) l.

(* ---------- lookups ---------- *)
Definition ext_types (h : hello) : list N := map fst (h_exts h).
Fixpoint find_body (t : N) (l : list (N * ext_body)) : option ext_body :=
  match l with [] => None | (t', b) :: r => if t' =? t then Some b else find_body t r end.

Definition supported_versions (h : hello) : option (list N) :=
  match find_body 43 (h_exts h) with Some (BVersions vs) => Some vs | _ => None end.
Definition first_alpn (h : hello) : option bytes :=
  match find_body 16 (h_exts h) with Some (BAlpn (p :: _)) => Some p | _ => None end.
Definition first_server_name (h : hello) : option bytes :=
  match find_body 0 (h_exts h) with Some (BSni ((_, host) :: _)) => Some host | _ => None end.
Definition sig_algs (h : hello) : list N :=
  match find_body 13 (h_exts h) with Some (BSigAlgs l) => l | _ => [] end.
Definition groups (h : hello) : list N :=
  match find_body 10 (h_exts h) with Some (BGroups l) => l | _ => [] end.
Definition point_formats (h : hello) : bytes :=
  match find_body 11 (h_exts h) with Some (BPointFormats f) => f | _ => [] end.

(* ---------- JA4_a ---------- *)
Definition maximum (l : list N) : option N :=
  match l with [] => None | x :: r => Some (fold_left N.max r x) end.

(* "If extension 0x002b exists, the version is the highest value in the extension (ignore GREASE);
   if it doesn't exist, the version is the value of the Protocol Version."  When the extension lists
   nothing but GREASE the text gives no value; the Protocol Version is used then. *)
Definition version_code (h : hello) : N :=
  match supported_versions h with
  | Some vs => match maximum (non_grease vs) with Some m => m | None => h_version h end
  | None => h_version h
  end.
Definition version_chars (c : N) : bytes :=
  if c =? 0x0304 then bs "13" else if c =? 0x0303 then bs "12" else if c =? 0x0302 then bs "11"
  else if c =? 0x0301 then bs "10" else if c =? 0x0300 then bs "s3" else if c =? 0x0002 then bs "s2"
  else if c =? 0xfeff then bs "d1" else if c =? 0xfefd then bs "d2" else if c =? 0xfefc then bs "d3"
  else bs "00".

(* "d" if the SNI extension exists, else "i" *)
Definition sni_char (h : hello) : bytes := if existsb (N.eqb 0) (ext_types h) then bs "d" else bs "i".

(* two decimal digits, 99 when there are more *)
Definition count2 (n : N) : bytes := let m := N.min n 99 in [n2b (48 + m / 10); n2b (48 + m mod 10)].

Definition alnum (b : byte) : bool :=
  let n := b2n b in
  ((0x30 <=? n) && (n <=? 0x39)) || ((0x41 <=? n) && (n <=? 0x5A)) || ((0x61 <=? n) && (n <=? 0x7A)).
(* first and last character of the first ALPN value; "00" without ALPN or with an empty value; a single
   character is both first and last; if the first or last byte is not alphanumeric, the first and last
   character of the hex representation of the value *)
Definition alpn_chars (h : hello) : bytes :=
  match first_alpn h with
  | None => bs "00"
  | Some [] => bs "00"
  | Some (b0 :: rest) =>
      let a := b0 :: rest in
      let bl := last a b0 in
      if alnum b0 && alnum bl then [b0; bl]
      else let hx := show_hex a in [hd "0"%byte hx; last hx "0"%byte]
  end.

Definition ja4_a (h : hello) : bytes :=
  bs "t" ++ version_chars (version_code h) ++ sni_char h
  ++ count2 (len (non_grease (h_ciphers h))) ++ count2 (len (non_grease (ext_types h)))
  ++ alpn_chars h.

(* ---------- JA4_b, JA4_c ---------- *)
Module NLeb <: TotalLeBool.
  Definition t := N.
  Definition leb := N.leb.
  Theorem leb_total : forall a b, leb a b = true \/ leb b a = true.
  Proof. intros a b. unfold leb. destruct (N.leb_spec a b); [now left|]. right. apply N.leb_le. apply N.lt_le_incl. assumption. Qed.
End NLeb.
Module NSort := Sort NLeb.
Definition sorted (l : list N) : list N := NSort.sort l.

Definition hex4 (v : N) : bytes := show_hex (be_bytes 2 v).     (* four lowercase hex characters *)
Definition csv (l : list N) : bytes := join (bs ",") (map hex4 l).

Definition cipher_list (h : hello) (original : bool) : list N :=
  let l := non_grease (h_ciphers h) in if original then l else sorted l.
(* sorted: without SNI (0000) and ALPN (0010); original order: everything that is not GREASE *)
Definition ext_list (h : hello) (original : bool) : list N :=
  let l := non_grease (ext_types h) in
  if original then l else sorted (filter (fun t => negb (t =? 0) && negb (t =? 16)) l).
(* signature algorithms in the order of the hello, never sorted *)
Definition sig_list (h : hello) : list N := non_grease (sig_algs h).

Definition b_raw (h : hello) (original : bool) : bytes := csv (cipher_list h original).
Definition c_raw (h : hello) (original : bool) : bytes :=
  csv (ext_list h original) ++ (match sig_list h with [] => [] | l => bs "_" ++ csv l end).

(* first 12 hex characters of SHA-256, written {sha12:<hex of the hashed text>} (see HOWTO section 3) *)
Definition sha12 (text : bytes) : bytes := bs "{sha12:" ++ show_hex text ++ bs "}".
Definition zeros12 : bytes := bs "000000000000".
Definition b_hash (h : hello) (original : bool) : bytes :=
  match cipher_list h original with [] => zeros12 | _ => sha12 (b_raw h original) end.
Definition c_hash (h : hello) (original : bool) : bytes :=
  match ext_list h original with [] => zeros12 | _ => sha12 (c_raw h original) end.

Definition ja4_hashed (h : hello) (original : bool) : bytes :=
  ja4_a h ++ bs "_" ++ b_hash h original ++ bs "_" ++ c_hash h original.
Definition ja4_rawform (h : hello) (original : bool) : bytes :=
  ja4_a h ++ bs "_" ++ b_raw h original ++ bs "_" ++ c_raw h original.

Definition ja4 (h : hello) : bytes := ja4_hashed h false.
Definition ja4_r (h : hello) : bytes := ja4_rawform h false.
Definition ja4_o (h : hello) : bytes := ja4_hashed h true.
Definition ja4_ro (h : hello) : bytes := ja4_rawform h true.
Definition all (h : hello) : bytes * bytes * bytes * bytes := (ja4 h, ja4_r h, ja4_o h, ja4_ro h).

(* ---------- separately reported fields ---------- *)
Definition opt_hex (o : option bytes) : bytes :=
  match o with Some x => bs ":" ++ show_hex x | None => bs "-" end.
Definition csv_or_dash (l : list N) : bytes := match l with [] => bs "-" | _ => csv l end.
Definition version_token (c : N) : bytes :=
  let t := version_chars c in if bytes_eqb t (bs "00") then bs "00:" ++ hex4 c else t.

Definition fields (h : hello) : bytes :=
  bs "ver=" ++ version_token (version_code h) ++ bs " sni=" ++ opt_hex (first_server_name h)
  ++ bs " alpn=" ++ opt_hex (first_alpn h) ++ bs " ciphers=" ++ csv_or_dash (non_grease (h_ciphers h))
  ++ bs " exts=" ++ csv_or_dash (non_grease (ext_types h)) ++ bs " sigalgs=" ++ csv_or_dash (sig_algs h)
  ++ bs " groups=" ++ csv_or_dash (groups h)
  ++ bs " fmts=" ++ opt_hex (Some (point_formats h)).

Definition line (h : hello) : bytes :=
  ja4 h ++ [sp] ++ ja4_r h ++ [sp] ++ ja4_o h ++ [sp] ++ ja4_ro h ++ [sp] ++ fields h.

(* ---------- the domain: RFC-conformant ClientHello messages ---------- *)
Definition u16_ok (v : N) : bool := v <? 65536.
Definition ascii (l : bytes) : bool := forallb (fun b => b2n b <? 128) l.

(* bodies of the extensions that are opaque here, as far as their RFCs fix a format *)
Definition rfc_body_ok (t : N) (b : bytes) : bool :=
  let l := len b in
  if (t =? 1) || (t =? 15) then l =? 1                  (* max_fragment_length, heartbeat: one byte *)
  else if (t =? 22) || (t =? 23) || (t =? 49) || (t =? 13172) then l =? 0   (* flags without data *)
  else if t =? 28 then l =? 2                           (* record_size_limit: uint16 *)
  else if t =? 42 then l =? 0                           (* early_data in a ClientHello: empty *)
  else if (t =? 45) || (t =? 0xff01) then               (* psk_key_exchange_modes, renegotiation_info: opaque<0..255> *)
    match b with n :: rest => b2n n =? len rest | [] => false end
  else if (t =? 48) || (t =? 0xffce) then false         (* oid_filters is no ClientHello extension; ESNI is a draft *)
  else true.

Definition ext_wf (e : N * ext_body) : bool :=
  let t := fst e in
  u16_ok t && u16_ok (len (encode_body (snd e))) &&
  match snd e with
  | BSni names =>
      (t =? 0) && forallb (fun n => (fst n <? 256) && u16_ok (len (snd n))) names
      && match names with (_, host) :: _ => ascii host | [] => false end      (* RFC 6066: <1..>, ASCII host name *)
  | BAlpn ps => (t =? 16) && forallb (fun p => len p <? 256) ps
  | BVersions vs => (t =? 43) && (1 <=? len vs) && (len vs <=? 127) && forallb u16_ok vs
  | BSigAlgs l => (t =? 13) && forallb u16_ok l
  | BGroups l => (t =? 10) && forallb u16_ok l
  | BPointFormats f => (t =? 11) && (len f <? 256)
  | BRaw b => negb (existsb (N.eqb t) [0; 16; 43; 13; 10; 11]) && rfc_body_ok t b
  end.

Definition count_type (t : N) (l : list N) : N := len (filter (N.eqb t) l).
(* RFC 8446 4.2: no two extensions of the same type (needed here for the six decoded ones only) *)
Definition unique_structured (h : hello) : bool :=
  forallb (fun t => count_type t (ext_types h) <=? 1) [0; 16; 43; 13; 10; 11].

Definition wf (h : hello) : bool :=
  u16_ok (h_rec_version h) && u16_ok (h_version h) && (len (h_random h) =? 32) && (len (h_sid h) <=? 32)
  && forallb u16_ok (h_ciphers h) && u16_ok (2 * len (h_ciphers h)) && (len (h_comp h) <? 256)
  && forallb ext_wf (h_exts h) && unique_structured h
  && u16_ok (len (encode_exts (h_exts h)))
  && (len (encode_handshake h) <=? 16384).                (* one record: at most 2^14 bytes *)

(* ---------- classes of hellos on which the implementation is known to deviate (findings) ---------- *)
(* well-formed UTF-8 (Unicode Table 3-7) *)
Definition in_range (lo hi : N) (b : byte) : bool := (lo <=? b2n b) && (b2n b <=? hi).
Fixpoint utf8 (l : bytes) : bool :=
  match l with
  | [] => true
  | b0 :: r =>
      let n := b2n b0 in
      if n <? 0x80 then utf8 r
      else if (0xC2 <=? n) && (n <=? 0xDF) then
        match r with b1 :: r1 => in_range 0x80 0xBF b1 && utf8 r1 | _ => false end
      else if (0xE0 <=? n) && (n <=? 0xEF) then
        match r with
        | b1 :: b2 :: r2 =>
            (if n =? 0xE0 then in_range 0xA0 0xBF b1 else if n =? 0xED then in_range 0x80 0x9F b1
             else in_range 0x80 0xBF b1) && in_range 0x80 0xBF b2 && utf8 r2
        | _ => false end
      else if (0xF0 <=? n) && (n <=? 0xF4) then
        match r with
        | b1 :: b2 :: b3 :: r3 =>
            (if n =? 0xF0 then in_range 0x90 0xBF b1 else if n =? 0xF4 then in_range 0x80 0x8F b1
             else in_range 0x80 0xBF b1) && in_range 0x80 0xBF b2 && in_range 0x80 0xBF b3 && utf8 r3
        | _ => false end
      else false
  end.

(* K-alpn: the first ALPN value is a single byte, or begins or ends with a non-alphanumeric byte,
   or is not UTF-8 (the code prints x0 / keeps the character or prints 9 / treats ALPN as absent) *)
Definition known_alpn (h : hello) : bool :=
  match first_alpn h with
  | Some (b0 :: rest) =>
      let a := b0 :: rest in
      negb ((2 <=? len a) && alnum b0 && alnum (last a b0) && utf8 a)
  | _ => false
  end.
Definition known (h : hello) : bool := known_alpn h.
