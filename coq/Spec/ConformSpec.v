(* SPEC for C13: which traffic CONFORMS to a signature under the p0f field definitions, and which reported
   matches are ADMISSIBLE for it.  Written from the signature language (p0f README section 5, quoted in the doc
   comments of huginn-net-db/src/tcp.rs and http.rs, and the grammar at the top of each p0f.fp section), NOT from
   the matcher's code.  Definitions only.

   TCP traffic is a decoded segment (Spec/P0fTcp.v `segment`, i.e. RFC 791/8200/9293 header fields):
     ver      `*` admits both IP versions
     ittl     the signature's initial TTL (`54+10` = 64; at most 255) minus a plausible hop count (<= 30);
              `NN-` ("random TTL, at most NN"): any TTL from 1 to NN
     olen     length of the IPv4 options (IPv6: 0)
     mss, ws  `*` admits anything (also: option absent), a number only itself; p0f reads a missing MSS / WS option
              as 0 (signatures such as `*:64:0:*:mss*12,0:mss::0` say scale 0 for a layout without `ws`), so 0 also
              admits "option absent"
     wsize    evaluated on the RAW window field w and the MSS option m:
                literal v: w = v;   %n: n divides w;   *: anything;
                mss*k: w = k*m (m > 0), or p0f's own MSS-multiple detection (Spec.P0fTcp.spec_window: it also
                       recognises multiples of m-12 when timestamps are in use) says mss*k;
                mtu*k: w = k*(m + minimal headers), or p0f's MTU-multiple detection says mtu*k
     olayout  the option kinds in wire order, `eol+n` = end-of-options followed by n padding bytes
     quirks   a SET: the packet has exactly the listed quirks; df, id+, id-, 0+ are ignored for IPv6 and flow is
              ignored for IPv4 (README: "ignored for IPv6" / "ignored for IPv4")
     pclass   0 / + / *
   and the table: [tcp:request] signatures describe SYN segments, [tcp:response] ones SYN+ACK segments.

   HTTP traffic is a message head in the sense of Spec/Http1Grammar.v (`msg`: start line + header lines):
     ver      0 / 1 / *
     horder   the message's headers are the signature's, in signature order; a `?` header may be left out;
              `name=[value]`: the header's value CONTAINS `value`; a bare name: any value
     habsent  a SET of names none of which occurs in the message (names as written: p0f.fp distinguishes
              `User-agent` from `User-Agent`, see the Flipboard signature that lists one as present and the other as absent)
     expsw    the token is a substring of the User-Agent (request) / Server (response) value; an empty token asks
              for nothing

   admissible: the reported label is the signature's own label, or the label of an entry EARLIER in the same
   table (database order) to which the traffic conforms as well. *)
From Coq Require Import List NArith Bool.
From Coq Require Import Strings.Byte.
From HN Require Import Base.Bytes Base.Http1Text Model.SigAst Model.Match Spec.ScanSpec Spec.P0fTcp Spec.InstanceSpec
  Spec.Http1Grammar.
Import ListNotations.
Open Scope N_scope.

(* ================================================================ TCP *)
Inductive tkind := TReq | TResp.

Definition seg_ver (g : segment) : ip_version := ih_ver (sg_ip g).
Definition seg_items (g : segment) : list opt_item := options_of (sg_opts g).
Definition seg_olen (g : segment) : N := match seg_ver g with IpV4 => ih_hlen (sg_ip g) - 20 | _ => 0 end.
Definition seg_pclass (g : segment) : payload_size := if sg_payload_len g =? 0 then PZero else PNonZero.

(* SYN for [tcp:request], SYN+ACK for [tcp:response]; fragments are not fingerprinted *)
Definition conf_role (k : tkind) (g : segment) : bool :=
  negb (ih_fragment (sg_ip g)) &&
  match spec_role (th_flags (sg_tcp g)), k with
  | RClient, TReq | RServer, TResp => true
  | _, _ => false end.

Definition conf_ttl (st : ttl) (t : N) : bool :=
  match st with
  | TtlBad i => (t <=? i) && ((0 <? t) || (i =? 0))            (* a packet that arrives has TTL >= 1 *)
  | _ => let i := N.min 255 (ttl_initial st) in (t <=? i) && (i - t <=? max_hops)
  end.

(* mss / wscale: `*` anything; n: the option carries n, or n = 0 and the option is absent *)
Definition conf_optfield (sv ov : option N) : bool :=
  match sv with None => true | Some v => (match ov with Some o => o | None => 0 end) =? v end.

Definition conf_win (sw : window_size) (ver : ip_version) (w : N) (mss : option N) (ts : bool) : bool :=
  match sw with
  | WAny => true
  | WValue v => w =? v
  | WMod n => (0 <? n) && (w mod n =? 0)
  | WMss k => window_size_eqb (spec_window ver w mss ts) (WMss k)
              || match mss with Some m => (0 <? m) && (w =? k * m) | None => false end
  | WMtu k => window_size_eqb (spec_window ver w mss ts) (WMtu k)
              || match mss with Some m => (0 <? m) && (w =? k * (m + min_headers ver)) | None => false end
  end.

(* README: df / id+ / id- / 0+ "ignored for IPv6", flow "ignored for IPv4": Spec.InstanceSpec.quirk_applies *)
Definition qmem (q : quirk) (l : list quirk) : bool := existsb (quirk_eqb q) l.
Definition conf_quirks (sq : list quirk) (g : segment) : bool :=
  forallb (fun q => negb (quirk_applies (seg_ver g) q) || Bool.eqb (qmem q sq) (quirk_holds g (seg_items g) q))
          canonical_quirks.

Definition conforms_seg_b (k : tkind) (s : tcp_sig) (g : segment) : bool :=
  let items := seg_items g in
  conf_role k g
  && version_inst_b (t_version s) (seg_ver g)
  && conf_ttl (t_ittl s) (ih_ttl (sg_ip g))
  && (seg_olen g =? t_olen s)
  && conf_optfield (t_mss s) (spec_mss items)
  && conf_win (t_wsize s) (seg_ver g) (th_win (sg_tcp g)) (spec_mss items) (has_ts items)
  && conf_optfield (t_wscale s) (spec_wscale items)
  && list_eqb tcp_option_eqb (spec_layout items) (t_olayout s)
  && conf_quirks (t_quirks s) g
  && pclass_inst_b (t_pclass s) (seg_pclass g).

(* TCP traffic as it reaches the analyzer: the bytes of an IPv4 / IPv6 packet *)
Inductive tcp_traffic := T4 (p : bytes) | T6 (p : bytes).
Definition seg_of (x : tcp_traffic) : option segment := match x with T4 p => decode4 p | T6 p => decode6 p end.
Definition conforms_tcp_b (k : tkind) (s : tcp_sig) (x : tcp_traffic) : bool :=
  match seg_of x with Some g => conforms_seg_b k s g | None => false end.
Definition conforms_tcp (k : tkind) (s : tcp_sig) (x : tcp_traffic) : Prop := conforms_tcp_b k s x = true.

(* ================================================================ HTTP *)
Inductive hkind := HReq | HResp.
Definition msg_kind (m : msg) : hkind := if is_request m then HReq else HResp.
Definition hkind_eqb (a b : hkind) : bool := match a, b with HReq, HReq | HResp, HResp => true | _, _ => false end.
Definition msg_version (m : msg) : http_version :=
  match m_start m with SReq _ _ v | SResp v _ _ => if v then HV11 else HV10 end.
(* (field-name, field-value) in wire order *)
Definition msg_fields (m : msg) : list (bytes * bytes) :=
  map (fun h => (hl_name h, render_value (hl_value h))) (m_headers m).

Definition conf_value (lit : option bytes) (v : bytes) : bool :=
  match lit with Some l => substring_b l v | None => true end.
Fixpoint conf_headers (sig : list header) (hs : list (bytes * bytes)) : bool :=
  match sig with
  | [] => match hs with [] => true | _ => false end
  | sh :: sig' =>
      match hs with
      | (n, v) :: hs' => bytes_eqb n (h_name sh) && conf_value (h_value sh) v && conf_headers sig' hs'
      | [] => false
      end
      || (h_optional sh && conf_headers sig' hs)
  end.
Definition conf_absent (sig : list header) (hs : list (bytes * bytes)) : bool :=
  forallb (fun sh => negb (existsb (fun nv => bytes_eqb (fst nv) (h_name sh)) hs)) sig.
Definition software_name (k : hkind) : bytes := match k with HReq => bs "user-agent" | HResp => bs "server" end.
Definition software_value (k : hkind) (hs : list (bytes * bytes)) : option bytes :=
  option_map snd (find (fun nv => ci_eq (fst nv) (software_name k)) hs).
Definition conf_software (tok : bytes) (sw : option bytes) : bool :=
  match tok with
  | [] => true
  | _ => match sw with Some u => substring_b tok u | None => false end
  end.

Definition conforms_http_b (k : hkind) (s : http_sig) (m : msg) : bool :=
  wf m && hkind_eqb (msg_kind m) k
  && hversion_inst_b (hs_version s) (msg_version m)
  && conf_headers (hs_horder s) (msg_fields m)
  && conf_absent (hs_habsent s) (msg_fields m)
  && conf_software (hs_expsw s) (software_value k (msg_fields m)).
Definition conforms_http (k : hkind) (s : http_sig) (m : msg) : Prop := conforms_http_b k s m = true.

(* ================================================================ admissible results *)
Definition opt_bytes_eqb (a b : option bytes) : bool := option_eqb bytes_eqb a b.
Definition label_eqb (a b : label) : bool :=
  match l_ty a, l_ty b with LSpecified, LSpecified | LGeneric, LGeneric => true | _, _ => false end
  && opt_bytes_eqb (l_class a) (l_class b) && bytes_eqb (l_name a) (l_name b) && opt_bytes_eqb (l_flavor a) (l_flavor b).

Definition pos_is (li si : N) {S} (p : N * N * S) : bool := (fst (fst p) =? li) && (snd (fst p) =? si).
(* the entries in front of the first one satisfying `stop`, in database order *)
Fixpoint prefix_before {A} (stop : A -> bool) (l : list A) : list A :=
  match l with [] => [] | x :: r => if stop x then [] else x :: prefix_before stop r end.
Definition label_at {S} (tbl : list (label * list S)) (li : N) : option label :=
  option_map fst (nth_error tbl (N.to_nat li)).

Section Admissible.
  Context {S : Type}.
  Variable tbl : list (label * list S).
  Variable conf : S -> bool.          (* the traffic conforms to this signature *)
  Variables li si : N.                (* position of the signature the traffic was built for *)

  (* labels a report may carry: the own one, and those of earlier entries the traffic conforms to as well *)
  Definition admissible_labels : list label :=
    match label_at tbl li with Some l => [l] | None => [] end
    ++ flat_map (fun p => if conf (snd p) then match label_at tbl (fst (fst p)) with Some l => [l] | None => [] end else [])
                (prefix_before (pos_is li si) (positions tbl)).
  Definition admissible_b (r : fres) : bool :=
    match r with
    | FSome lj _ _ _ =>
        match label_at tbl lj with
        | Some lr => existsb (label_eqb lr) admissible_labels
        | None => false end
    | _ => false end.
  Definition admissible (r : fres) : Prop := admissible_b r = true.
End Admissible.
