(* SPEC for C12, written from the property text and the p0f signature semantics (p0f README, section
   "Fingerprint database"), NOT from the matcher's code.  Definitions only.

   "Observation o instantiates signature s": every field of o is a value the signature admits —
     * a `*` field admits anything;  an exact field admits exactly its value;
     * ittl: the observation carries the signature's TTL form literally, or an observed TTL with a
       plausible hop count (<= 30) whose sum is the signature's initial TTL;
     * wsize: literally the signature's form, or a raw window value that satisfies it
       (`mss*k` with the observed MSS m > 0: w = k*m;  `%n`: w mod n = 0);
     * HTTP header lists: the signature's headers in order, name and value literally, each `?` header kept
       or dropped;  software string: the observed string CONTAINS the signature's token.
   The property is stated at the level of observations (what the extractors hand to the matcher); how
   traffic is turned into an observation is C03/C05, which traffic conforms to a signature is C13.

   Each relation comes with a boolean decider (`…_b`) used by the case interpreter to CHECK the
   generator's claims; Proofs/MatchProofs.v proves deciders and relations equivalent. *)
From Coq Require Import List NArith Bool.
From Coq Require Import Strings.Byte.
From HN Require Import Base.Bytes Model.SigAst.
Import ListNotations.
Open Scope N_scope.

(* "any plausible hop count": the analyzer's MAX_HOPS_ACCEPTABLE, p0f's MAX_DIST is 35 *)
Definition max_hops : N := 30.

(* ---------------------------------------------------------------- TCP *)
Definition version_inst (sv ov : ip_version) : Prop := sv = IpAny \/ ov = sv.
Definition version_inst_b (sv ov : ip_version) : bool := ip_version_eqb sv IpAny || ip_version_eqb ov sv.

(* the initial TTL a signature's ittl field stands for: `64`, `54+10`, `64+?`, `64-` *)
Definition ttl_initial (t : ttl) : N :=
  match t with TtlValue i | TtlGuess i | TtlBad i => i | TtlDistance t d => t + d end.
Definition ttl_inst (st ot : ttl) : Prop :=
  ot = st \/ exists t d, ot = TtlDistance t d /\ d <= max_hops /\ t + d = ttl_initial st.
Definition ttl_inst_b (st ot : ttl) : bool :=
  ttl_eqb ot st ||
  match ot with TtlDistance t d => (d <=? max_hops) && (t + d =? ttl_initial st) | _ => false end.

(* mss / wscale: `*` (None) admits anything *)
Definition optfield_inst (sv ov : option N) : Prop := sv = None \/ ov = sv.
Definition optfield_inst_b (sv ov : option N) : bool :=
  match sv with None => true | Some _ => option_eqb N.eqb ov sv end.

Definition win_inst (sw ow : window_size) (omss : option N) : Prop :=
  sw = WAny \/ ow = sw
  \/ (exists k m, sw = WMss k /\ omss = Some m /\ 0 < m /\ ow = WValue (k * m))
  \/ (exists n w, sw = WMod n /\ 0 < n /\ ow = WValue w /\ w mod n = 0).
Definition win_inst_b (sw ow : window_size) (omss : option N) : bool :=
  window_size_eqb ow sw ||
  match sw, ow with
  | WAny, _ => true
  | WMss k, WValue w => match omss with Some m => (0 <? m) && (w =? k * m) | None => false end
  | WMod n, WValue w => (0 <? n) && (w mod n =? 0)
  | _, _ => false
  end.

Definition pclass_inst (sp op : payload_size) : Prop := sp = PAnySize \/ op = sp.
Definition pclass_inst_b (sp op : payload_size) : bool := payload_size_eqb sp PAnySize || payload_size_eqb op sp.

(* quirks: the field definitions (doc comments of tcp.rs `Quirk`, p0f README / fp_tcp.c) say df, id+, id- and 0+
   are "ignored for IPv6" and flow is "ignored for IPv4": of a signature's quirk list only the quirks that can
   apply to the packet's IP version are demanded of it *)
Definition ipv4_only_quirk (q : quirk) : bool :=
  match q with QDf | QNonZeroID | QZeroID | QMustBeZero => true | _ => false end.
Definition ipv6_only_quirk (q : quirk) : bool := match q with QFlowID => true | _ => false end.
Definition quirk_applies (v : ip_version) (q : quirk) : bool :=
  match v with IpV6 => negb (ipv4_only_quirk q) | IpV4 => negb (ipv6_only_quirk q) | IpAny => true end.
Definition sig_quirks_for (v : ip_version) (qs : list quirk) : list quirk := filter (quirk_applies v) qs.

Record tcp_instance (s o : tcp_sig) : Prop := {
  ti_version : version_inst (t_version s) (t_version o);
  ti_ittl : ttl_inst (t_ittl s) (t_ittl o);
  ti_olen : t_olen o = t_olen s;
  ti_mss : optfield_inst (t_mss s) (t_mss o);
  ti_wsize : win_inst (t_wsize s) (t_wsize o) (t_mss o);
  ti_wscale : optfield_inst (t_wscale s) (t_wscale o);
  ti_olayout : t_olayout o = t_olayout s;
  ti_quirks : t_quirks o = sig_quirks_for (t_version o) (t_quirks s);
  ti_pclass : pclass_inst (t_pclass s) (t_pclass o) }.

Definition tcp_instance_b (s o : tcp_sig) : bool :=
  version_inst_b (t_version s) (t_version o) && ttl_inst_b (t_ittl s) (t_ittl o)
  && (t_olen o =? t_olen s) && optfield_inst_b (t_mss s) (t_mss o)
  && win_inst_b (t_wsize s) (t_wsize o) (t_mss o) && optfield_inst_b (t_wscale s) (t_wscale o)
  && list_eqb tcp_option_eqb (t_olayout o) (t_olayout s) && list_eqb quirk_eqb (t_quirks o) (sig_quirks_for (t_version o) (t_quirks s))
  && pclass_inst_b (t_pclass s) (t_pclass o).

(* decisive fields: IP version, option layout, quirks (those that apply to the observed IP version), payload class.  An observation that differs from
   every instance in one of them: that field's value is one the signature does not admit. *)
Definition tcp_decisive_mismatch (s o : tcp_sig) : Prop :=
  ~ version_inst (t_version s) (t_version o) \/ t_olayout o <> t_olayout s
  \/ t_quirks o <> sig_quirks_for (t_version o) (t_quirks s) \/ ~ pclass_inst (t_pclass s) (t_pclass o).
Definition tcp_decisive_mismatch_b (s o : tcp_sig) : bool :=
  negb (version_inst_b (t_version s) (t_version o)) || negb (list_eqb tcp_option_eqb (t_olayout o) (t_olayout s))
  || negb (list_eqb quirk_eqb (t_quirks o) (sig_quirks_for (t_version o) (t_quirks s))) || negb (pclass_inst_b (t_pclass s) (t_pclass o)).

(* field ranges of the Rust types (u8 / u16) *)
Definition ttl_u8 (t : ttl) : Prop :=
  match t with TtlValue i | TtlGuess i | TtlBad i => i <= 255 | TtlDistance t d => t <= 255 /\ d <= 255 end.
(* what the TCP extractor emits for `Distance(t, d)`: d = initial - t with initial in {32,64,128,255} *)
Definition ttl_obs_wf (t : ttl) : Prop :=
  match t with TtlDistance t d => t + d <= 255 | TtlValue i | TtlGuess i | TtlBad i => i <= 255 end.

(* the fixed penalties of the non-decisive TCP fields *)
Definition pen_ttl : N := 2.
Definition pen_olen : N := 2.
Definition pen_mss : N := 2.
Definition pen_wsize : N := 2.
Definition pen_wscale : N := 1.

(* "o' differs from o in the single field f": record update of one field *)
Definition set_ittl (o : tcp_sig) (v : ttl) : tcp_sig :=
  {| t_version := t_version o; t_ittl := v; t_olen := t_olen o; t_mss := t_mss o; t_wsize := t_wsize o;
     t_wscale := t_wscale o; t_olayout := t_olayout o; t_quirks := t_quirks o; t_pclass := t_pclass o |}.
Definition set_olen (o : tcp_sig) (v : N) : tcp_sig :=
  {| t_version := t_version o; t_ittl := t_ittl o; t_olen := v; t_mss := t_mss o; t_wsize := t_wsize o;
     t_wscale := t_wscale o; t_olayout := t_olayout o; t_quirks := t_quirks o; t_pclass := t_pclass o |}.
Definition set_mss (o : tcp_sig) (v : option N) : tcp_sig :=
  {| t_version := t_version o; t_ittl := t_ittl o; t_olen := t_olen o; t_mss := v; t_wsize := t_wsize o;
     t_wscale := t_wscale o; t_olayout := t_olayout o; t_quirks := t_quirks o; t_pclass := t_pclass o |}.
Definition set_wsize (o : tcp_sig) (v : window_size) : tcp_sig :=
  {| t_version := t_version o; t_ittl := t_ittl o; t_olen := t_olen o; t_mss := t_mss o; t_wsize := v;
     t_wscale := t_wscale o; t_olayout := t_olayout o; t_quirks := t_quirks o; t_pclass := t_pclass o |}.
Definition set_wscale (o : tcp_sig) (v : option N) : tcp_sig :=
  {| t_version := t_version o; t_ittl := t_ittl o; t_olen := t_olen o; t_mss := t_mss o; t_wsize := t_wsize o;
     t_wscale := v; t_olayout := t_olayout o; t_quirks := t_quirks o; t_pclass := t_pclass o |}.

(* "comparable form" of two TTLs: both stand for an initial TTL (neither is marked bad), the signature's
   being a plain value;  of two windows: the same form *)
Definition ttl_comparable (st ot : ttl) : Prop :=
  (exists i, st = TtlValue i) /\ (forall i, ot <> TtlBad i).
Definition win_same_form (sw ow : window_size) : Prop :=
  match sw, ow with
  | WMss _, WMss _ | WMtu _, WMtu _ | WValue _, WValue _ | WMod _, WMod _ => True
  | _, _ => False end.
(* the window does not refer to the observed MSS: literally the signature's form, or the signature says `*` *)
Definition win_literal (s o : tcp_sig) : Prop := t_wsize o = t_wsize s \/ t_wsize s = WAny.


(* ---- "differs from an instance in a single non-decisive field", stated on the observation itself ---- *)
Inductive tcp_field := FTtl | FOlen | FMss | FWsize | FWscale.
Definition all_tcp_fields : list tcp_field := [FTtl; FOlen; FMss; FWsize; FWscale].
Definition tcp_field_eqb (a b : tcp_field) : bool :=
  match a, b with FTtl, FTtl | FOlen, FOlen | FMss, FMss | FWsize, FWsize | FWscale, FWscale => true | _, _ => false end.
(* the signature admits the observation's value of field f *)
Definition field_admits (f : tcp_field) (s o : tcp_sig) : bool :=
  match f with
  | FTtl => ttl_inst_b (t_ittl s) (t_ittl o)
  | FOlen => t_olen o =? t_olen s
  | FMss => optfield_inst_b (t_mss s) (t_mss o)
  | FWsize => win_inst_b (t_wsize s) (t_wsize o) (t_mss o)
  | FWscale => optfield_inst_b (t_wscale s) (t_wscale o)
  end.
(* every field but f is admitted (decisive ones included), f is not *)
Definition single_field_off (f : tcp_field) (s o : tcp_sig) : bool :=
  negb (tcp_decisive_mismatch_b s o) && negb (field_admits f s o)
  && forallb (fun g => tcp_field_eqb g f || field_admits g s o) all_tcp_fields.
(* ... and its value is of a form comparable with the signature's (and, not being admitted, differs):
   olen: always;  mss / wscale: both present;  ittl: the signature a plain value, the observation not marked
   bad and standing for another initial TTL (t + d within u8);  wsize: the same form, a raw value against
   `mss*k` with a usable observed MSS, or a raw value against `%n` *)
Definition field_differs_comparably (f : tcp_field) (s o : tcp_sig) : bool :=
  match f with
  | FOlen => true
  | FMss => match t_mss s, t_mss o with Some _, Some _ => true | _, _ => false end
  | FWscale => match t_wscale s, t_wscale o with Some _, Some _ => true | _, _ => false end
  | FTtl => match t_ittl s, t_ittl o with
            | TtlValue i, TtlValue a | TtlValue i, TtlGuess a => negb (a =? i)
            | TtlValue i, TtlDistance t d => (t + d <=? 255) && negb (t + d =? i)
            | _, _ => false end
  | FWsize => match t_wsize s, t_wsize o with
              | WMss _, WMss _ | WMtu _, WMtu _ | WValue _, WValue _ | WMod _, WMod _ => true
              | WMss _, WValue _ => match t_mss o with Some m => 0 <? m | None => false end
              | WMod _, WValue _ => true
              | _, _ => false end
  end.
Definition field_penalty (f : tcp_field) : N :=
  match f with FTtl => pen_ttl | FOlen => pen_olen | FMss => pen_mss | FWsize => pen_wsize | FWscale => pen_wscale end.
(* ---------------------------------------------------------------- HTTP *)
Definition hversion_inst (sv ov : http_version) : Prop := sv = HVAny \/ ov = sv.
Definition hversion_inst_b (sv ov : http_version) : bool := http_version_eqb sv HVAny || http_version_eqb ov sv.

(* header lists: signature headers in order; each is either present with literally its name and value,
   or — if marked `?` — left out.  (The `optional` flag of an observed header carries no meaning.) *)
Inductive hdr_inst : list header -> list header -> Prop :=
| hdr_inst_nil : hdr_inst [] []
| hdr_inst_keep sh oh sig obs :
    h_name oh = h_name sh -> h_value oh = h_value sh -> hdr_inst sig obs -> hdr_inst (sh :: sig) (oh :: obs)
| hdr_inst_drop sh sig obs :
    h_optional sh = true -> hdr_inst sig obs -> hdr_inst (sh :: sig) obs.

Fixpoint hdr_inst_b (sig obs : list header) : bool :=
  match sig with
  | [] => match obs with [] => true | _ => false end
  | sh :: sig' =>
      match obs with
      | oh :: obs' => bytes_eqb (h_name oh) (h_name sh) && option_eqb bytes_eqb (h_value oh) (h_value sh)
                      && hdr_inst_b sig' obs'
      | [] => false
      end
      || (h_optional sh && hdr_inst_b sig' obs)
  end.

(* `needle` occurs in `hay` *)
Definition substring (needle hay : bytes) : Prop := exists pre post, hay = pre ++ needle ++ post.
Fixpoint tails (l : bytes) : list bytes := l :: match l with [] => [] | _ :: r => tails r end.
Definition substring_b (needle hay : bytes) : bool := existsb (starts_with needle) (tails hay).

Record http_instance (s o : http_sig) : Prop := {
  hi_version : hversion_inst (hs_version s) (hs_version o);
  hi_horder : hdr_inst (hs_horder s) (hs_horder o);
  hi_habsent : hdr_inst (hs_habsent s) (hs_habsent o);
  hi_expsw : substring (hs_expsw s) (hs_expsw o) }.
Definition http_instance_b (s o : http_sig) : bool :=
  hversion_inst_b (hs_version s) (hs_version o) && hdr_inst_b (hs_horder s) (hs_horder o)
  && hdr_inst_b (hs_habsent s) (hs_habsent o) && substring_b (hs_expsw s) (hs_expsw o).

Definition http_decisive_mismatch (s o : http_sig) : Prop := ~ hversion_inst (hs_version s) (hs_version o).
Definition http_decisive_mismatch_b (s o : http_sig) : bool := negb (hversion_inst_b (hs_version s) (hs_version o)).

(* well-formed signature: within each list, the name of a `?` (optional) header does not occur again
   further down the list.  (Holds for all of p0f.fp — re-established on every run, case kind W; two bundled
   signatures do repeat a name, `Accept=[text/plain],Accept=[text/html]` and `Connection,..,Connection`
   in an absent list, but among required headers only.) *)
Fixpoint opt_fresh (l : list header) : Prop :=
  match l with
  | [] => True
  | sh :: r => (h_optional sh = true -> ~ In (h_name sh) (map h_name r)) /\ opt_fresh r
  end.
Fixpoint opt_fresh_b (l : list header) : bool :=
  match l with
  | [] => true
  | sh :: r => (negb (h_optional sh) || negb (existsb (bytes_eqb (h_name sh)) (map h_name r))) && opt_fresh_b r
  end.
Definition http_sig_wf (s : http_sig) : Prop := opt_fresh (hs_horder s) /\ opt_fresh (hs_habsent s).
Definition http_sig_wf_b (s : http_sig) : bool := opt_fresh_b (hs_horder s) && opt_fresh_b (hs_habsent s).

(* K3 ExpswStrict: the observed software string contains the signature's token and is longer than it.
   The matcher tests the containment the other way round (token.contains(observed)) -> penalty 3. *)
Definition expsw_strict (s o : http_sig) : bool :=
  substring_b (hs_expsw s) (hs_expsw o) && negb (bytes_eqb (hs_expsw o) (hs_expsw s)).

(* K4 OptionalNameReused: a signature that is not well-formed in the sense above (none in p0f.fp): the
   matcher's greedy two-pointer walk pairs an observed header with the optional occurrence of its name and
   then misses the required one. *)
Definition optional_name_reused (s : http_sig) : bool := negb (http_sig_wf_b s).
Definition known_http (s o : http_sig) : bool := expsw_strict s o || optional_name_reused s.

Definition set_horder (o : http_sig) (v : list header) : http_sig :=
  {| hs_version := hs_version o; hs_horder := v; hs_habsent := hs_habsent o; hs_expsw := hs_expsw o |}.
Definition set_habsent (o : http_sig) (v : list header) : http_sig :=
  {| hs_version := hs_version o; hs_horder := hs_horder o; hs_habsent := v; hs_expsw := hs_expsw o |}.
Definition set_expsw (o : http_sig) (v : bytes) : http_sig :=
  {| hs_version := hs_version o; hs_horder := hs_horder o; hs_habsent := hs_habsent o; hs_expsw := v |}.

Definition pen_expsw : N := 3.
(* the observation differs from an instance in the software string only *)
Definition expsw_off (s o : http_sig) : bool :=
  hversion_inst_b (hs_version s) (hs_version o) && hdr_inst_b (hs_horder s) (hs_horder o)
  && hdr_inst_b (hs_habsent s) (hs_habsent o) && negb (substring_b (hs_expsw s) (hs_expsw o)).
(* K3 (other direction) ExpswReversed: the observed string does not contain the token but is contained in it
   (`curl` observed against token `curl/7.`): costs nothing *)
Definition expsw_reversed (s o : http_sig) : bool :=
  substring_b (hs_expsw o) (hs_expsw s) && negb (substring_b (hs_expsw s) (hs_expsw o)).
(* number of disagreements between an observed header list and a signature's, walking both in order:
   equal name and value: both advance;  equal name, other value: both advance, an error unless the
   signature's header is `?`;  other name: the signature advances, an error unless its header is `?`;
   what is left over of the observed list, and every required header left over of the signature: an error *)
Fixpoint hdr_errors (obs sig : list header) : N :=
  match sig with
  | [] => N.of_nat (length obs)
  | sh :: sig' =>
      let miss := if h_optional sh then 0 else 1 in
      match obs with
      | [] => miss + hdr_errors [] sig'
      | oh :: obs' =>
          if bytes_eqb (h_name oh) (h_name sh) then
            (if option_eqb bytes_eqb (h_value oh) (h_value sh) then 0 else miss) + hdr_errors obs' sig'
          else miss + hdr_errors obs sig'
      end
  end.
(* header-list penalty as a function of the number of positions that disagree *)
Definition header_penalty (errors : N) : option N :=
  if errors <? 3 then Some 0 else if errors <? 6 then Some 1 else if errors <? 9 then Some 2
  else if errors <? 12 then Some 3 else None.

(* ---------------------------------------------------------------- quality laws, both tables *)
Definition quality_laws (q : N -> N) : Prop :=
  (forall d d', d <= d' -> q d' <= q d)            (* non-increasing; hundredths *)
  /\ (forall d, 5 <= q d <= 100)                   (* within [0.05, 1.0] *)
  /\ (forall d, q d = 100 <-> d = 0).              (* 1.0 exactly at distance zero *)
