(* SPEC for the database half of C06, from the property text and section 5 of the p0f README.
   A database text is a sequence of lines; after removing surrounding white space a line is
     empty | ; comment | [section] | classes = c,c,... | ua_os = n[=[v]],... | label = .. | sig = .. | sys = ..
   What a text denotes:
     classes     all names of all `classes` lines, in order
     ua_os       all rules of all `ua_os` lines, in order (p0f: name or name=[value])
     each table  (tcp:request, tcp:response, http:request, http:response, mtu): take the label/sig lines that
                 lie in sections of that name, in file order; every label opens a group, every sig belongs to
                 the nearest label before it; a sig with no label before it is an error.
   Nothing else contributes.  A text with a line that is none of the above, a key line outside any section,
   a section header other than the five, a key its section does not have (anything but label/sig/sys in the
   tcp/http sections, anything but label/sig in [mtu]), an unreadable label/signature, or a sig without label
   denotes nothing (must be rejected).
   The reader below is independent of the nom model: lines are cut at '=' / ',' / ':' first and fields
   are read whole; tables are computed one at a time by filtering, grouping is a right fold.
   Definitions only. *)
From Coq Require Import List NArith Bool.
From Coq Require Import Strings.Byte.
From HN Require Import Base.Bytes Model.SigAst Spec.SigTextSpec.
From HN Require Model.SigText.
Notation revl := Model.SigText.revl (only parsing).   (* linear-time list reversal, nothing else is used from the model *)
Import ListNotations.
Open Scope N_scope.

(* ---------- text helpers ---------- *)
Definition isspace (b : byte) : bool := let n := b2n b in ((9 <=? n) && (n <=? 13)) || (n =? 32).   (* C isspace *)
Definition isblank (b : byte) : bool := let n := b2n b in (n =? 32) || (n =? 9).
Fixpoint drop_while (p : byte -> bool) (l : bytes) : bytes :=
  match l with b :: r => if p b then drop_while p r else l | [] => [] end.
Definition trim_ascii (l : bytes) : bytes := revl (drop_while isspace (revl (drop_while isspace l))).
Definition rtrim_blank (l : bytes) : bytes := revl (drop_while isblank (revl l)).

(* text lines: pieces between line feeds, no line after a final line feed (a carriage return before the
   line feed is white space and goes away with trim_ascii) *)
Fixpoint text_lines (l cur : bytes) : list bytes :=
  match l with
  | [] => match cur with [] => [] | _ => [revl cur] end
  | b :: r => if b2n b =? 10 then revl cur :: text_lines r [] else text_lines r (b :: cur)
  end.

(* first occurrence of c: (before, after) *)
Fixpoint cut (c : byte) (l : bytes) : option (bytes * bytes) :=
  match l with
  | [] => None
  | b :: r => if beqb b c then Some ([], r)
              else match cut c r with Some (a, s) => Some (b :: a, s) | None => None end
  end.

Definition alnum (b : byte) : bool :=
  let n := b2n b in ((48 <=? n) && (n <=? 57)) || ((65 <=? n) && (n <=? 90)) || ((97 <=? n) && (n <=? 122)).
Definition alpha (b : byte) : bool :=
  let n := b2n b in ((65 <=? n) && (n <=? 90)) || ((97 <=? n) && (n <=? 122)).
Definition nonempty (l : bytes) : bool := match l with [] => false | _ => true end.
Definition word (p : byte -> bool) (l : bytes) : bool := nonempty l && forallb p l.

(* ---------- labels:  s|g : class|! : name : flavor ---------- *)
Definition rd_type (f : bytes) : option label_type :=
  if is (bs "s") f then Some LSpecified else if is (bs "g") f then Some LGeneric else None.
Definition spec_label (v : bytes) : option label :=
  match cut ":"%byte v with
  | Some (fty, r1) =>
      match cut ":"%byte r1 with
      | Some (fclass, r2) =>
          match cut ":"%byte r2 with
          | Some (fname, fflavor) =>
              match rd_type fty with
              | Some ty =>
                  let class_ok := match fclass with b :: r => negb (beqb b "!"%byte) || negb (nonempty r) | [] => true end in
                  if class_ok then
                    Some {| l_ty := ty; l_class := if is (bs "!") fclass then None else Some fclass;
                            l_name := fname; l_flavor := if nonempty fflavor then Some fflavor else None |}
                  else None
              | None => None end
          | None => None end
      | None => None end
  | None => None end.

(* ---------- classes / ua_os values ---------- *)
Definition rd_classes (v : bytes) : option (list bytes) :=
  match v with
  | [] => Some []
  | _ => all_some (map (fun f => if word alnum f then Some f else None) (split_on ","%byte v)) end.

(* p0f NAME_CHARS: alphanumerics and " ./-_!?()" *)
Definition p0f_name_char (b : byte) : bool :=
  alnum b || existsb (beqb b) (bs " ./-_!?()").
Definition rd_ua_rule (f : bytes) : option (bytes * option bytes) :=
  match cut "="%byte f with
  | None => if word p0f_name_char f then Some (f, None) else None
  | Some (name, r) =>
      match r with
      | b :: r' => match unsnoc r' with
                   | Some (v, e) => if beqb b "["%byte && beqb e "]"%byte && word p0f_name_char name && word p0f_name_char v
                                    then Some (name, Some v) else None
                   | None => None end
      | [] => None end
  end.
Definition rd_ua_os (v : bytes) : option (list (bytes * option bytes)) :=
  match v with [] => Some [] | _ => all_some (map rd_ua_rule (split_on ","%byte v)) end.

(* mtu values: a decimal u16, an explicit plus sign tolerated *)
Definition rd_mtu (v : bytes) : option N :=
  rd_num 65535 (match v with b :: r => if beqb b "+"%byte then r else v | [] => v end).

(* ---------- line classification ---------- *)
Inductive sec := SecTQ | SecTS | SecHQ | SecHS | SecMtu | SecOther.
Inductive key := KLabel | KSig | KSys | KOther.
Inductive sline :=
  | SSkip | SClasses (cs : list bytes) | SUaOs (rs : list (bytes * option bytes))
  | SSection (s : sec) | SKey (k : key) (v : bytes) | SBad.

Definition sec_eqb (a b : sec) : bool :=
  match a, b with SecTQ, SecTQ | SecTS, SecTS | SecHQ, SecHQ | SecHS, SecHS | SecMtu, SecMtu | SecOther, SecOther => true | _, _ => false end.

(* inner text of a [..] line *)
Definition rd_section (inner : bytes) : option sec :=
  if is (bs "tcp:request") inner then Some SecTQ else if is (bs "tcp:response") inner then Some SecTS
  else if is (bs "http:request") inner then Some SecHQ else if is (bs "http:response") inner then Some SecHS
  else if is (bs "mtu") inner then Some SecMtu
  else (* a well-formed name of a section this specification knows nothing about *)
    match split_on ":"%byte inner with
    | [m] => if word alpha m then Some SecOther else None
    | [m; d] => if word alpha m && word alpha d then Some SecOther else None
    | _ => None end.

Definition classify (l : bytes) : sline :=          (* l: line without surrounding white space *)
  match l with
  | [] => SSkip
  | c :: rest =>
      if beqb c ";"%byte then SSkip
      else if beqb c "["%byte && match unsnoc l with Some (_, e) => beqb e "]"%byte | None => false end then
        match unsnoc rest with
        | Some (inner, _) => match rd_section inner with Some s => SSection s | None => SBad end
        | None => SBad end
      else
        match cut "="%byte l with
        | None => SBad
        | Some (lhs, rhs) =>
            let k := rtrim_blank lhs in
            let v := drop_while isblank rhs in
            if is (bs "classes") k then match rd_classes v with Some cs => SClasses cs | None => SBad end
            else if is (bs "ua_os") k then match rd_ua_os v with Some rs => SUaOs rs | None => SBad end
            else if word alnum k then
              SKey (if is (bs "label") k then KLabel else if is (bs "sig") k then KSig
                    else if is (bs "sys") k then KSys else KOther) v
            else SBad
        end
  end.

(* every line paired with the section it lies in *)
Fixpoint annotate (cur : option sec) (ls : list sline) : list (option sec * sline) :=
  match ls with
  | [] => []
  | SSection s :: r => (Some s, SSection s) :: annotate (Some s) r
  | l :: r => (cur, l) :: annotate cur r
  end.

(* label / sig lines lying in sections named s *)
Definition items_of (s : sec) (ann : list (option sec * sline)) : list (bool * bytes) :=     (* true = label *)
  flat_map (fun e => match e with
                     | (Some s', SKey KLabel v) => if sec_eqb s s' then [(true, v)] else []
                     | (Some s', SKey KSig v) => if sec_eqb s s' then [(false, v)] else []
                     | _ => [] end) ann.

(* groups, and the sigs that precede the first label *)
Fixpoint group (items : list (bool * bytes)) : list (bytes * list bytes) * list bytes :=
  match items with
  | [] => ([], [])
  | (true, v) :: r => let (gs, lead) := group r in ((v, lead) :: gs, [])
  | (false, v) :: r => let (gs, lead) := group r in (gs, v :: lead)
  end.

Definition table {L S} (rdl : bytes -> option L) (rds : bytes -> option S) (items : list (bool * bytes))
  : option (list (L * list S)) :=
  match group items with
  | (gs, []) => all_some (map (fun g => match rdl (fst g), all_some (map rds (snd g)) with
                                        | Some l, Some ss => Some (l, ss) | _, _ => None end) gs)
  | (_, _ :: _) => None end.

Definition is_bad (l : sline) : bool := match l with SBad => true | _ => false end.
(* items the format does not have (p0f.fp: `classes` before the modules; [mtu] with label/sig; [tcp:request],
   [tcp:response], [http:request], [http:response] with label/sys/sig, `ua_os` in the http module): a module
   header other than these five, or a key the current module does not have.  p0f aborts on them
   ("Unrecognized fingerprinting module", "Unrecognized field"); a text containing one is not a database.
   (The lines below an unknown header are not looked at: the header already invalidates the text.) *)
Definition unknown_item (e : option sec * sline) : bool :=
  match e with
  | (_, SSection SecOther) => true
  | (Some SecOther, _) => false
  | (Some SecMtu, SKey KSys _) => true
  | (Some _, SKey KOther _) => true
  | _ => false end.
Definition key_outside (e : option sec * sline) : bool :=
  match e with (None, SKey _ _) => true | _ => false end.
(* a line whose first or last byte (after ASCII trimming) is not ASCII: Unicode white space is out of scope *)
Definition non_ascii_edge (raw : bytes) : bool :=
  let l := trim_ascii raw in
  match l with b :: _ => (128 <=? b2n b) || match unsnoc l with Some (_, e) => 128 <=? b2n e | None => false end
             | [] => false end.

Definition spec_load_lines (ls : list bytes) : verdict database :=
  if existsb non_ascii_edge ls then VNone else
  let sl := map (fun raw => classify (trim_ascii raw)) ls in
  let ann := annotate None sl in
  if existsb is_bad sl || existsb key_outside ann then VErr else
  match table spec_label spec_tcp (items_of SecTQ ann), table spec_label spec_tcp (items_of SecTS ann),
        table spec_label spec_http (items_of SecHQ ann), table spec_label spec_http (items_of SecHS ann),
        table (fun v => Some v) rd_mtu (items_of SecMtu ann) with
  | Some tq, Some ts, Some hq, Some hs, Some mtu =>
      if existsb unknown_item ann then VErr else
      VOk {| db_classes := flat_map (fun l => match l with SClasses cs => cs | _ => [] end) sl;
             db_mtu := mtu;
             db_ua_os := flat_map (fun l => match l with SUaOs rs => rs | _ => [] end) sl;
             db_tcp_request := tq; db_tcp_response := ts; db_http_request := hq; db_http_response := hs |}
  | _, _, _, _, _ => VErr end.

Definition spec_load (text : bytes) : verdict database := spec_load_lines (text_lines text []).

(* ---------- domain of the text-level theorem ---------- *)
(* after removing ASCII white space, no line begins or ends with a non-ASCII byte (Unicode white space at the
   line edges is what Rust's trim removes and this ASCII specification does not describe) *)
Definition ascii_edges (text : bytes) : bool := negb (existsb non_ascii_edge (text_lines text [])).
Definition verdict_opt {A} (v : verdict A) : option A := match v with VOk a => Some a | _ => None end.
