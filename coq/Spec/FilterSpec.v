(* SPEC for C14, written from the doc comments of filter.rs and the property text:
   semantics directly on the builder calls, no intermediate representation. *)
From Coq Require Import List NArith Bool.
From HN Require Import Base.Bytes Model.Filter.
Import ListNotations.
Open Scope N_scope.

(* port is listed for the destination side: a listed port, or a half-open range a..b *)
Definition dst_listed (ops : list pop) (p : N) : bool :=
  existsb (fun o => match o with
                    | PDst q => p =? q
                    | PDstRange a b => (a <=? p) && (p <? b)
                    | PDstList l => existsb (N.eqb p) l
                    | _ => false end) ops.
Definition src_listed (ops : list pop) (p : N) : bool :=
  existsb (fun o => match o with
                    | PSrc q => p =? q
                    | PSrcRange a b => (a <=? p) && (p <? b)
                    | PSrcList l => existsb (N.eqb p) l
                    | _ => false end) ops.
(* a side "has constraints" when a port or a range was configured for it *)
Definition dst_constrained (ops : list pop) : bool :=
  existsb (fun o => match o with PDst _ | PDstRange _ _ => true | PDstList (_ :: _) => true | _ => false end) ops.
Definition src_constrained (ops : list pop) : bool :=
  existsb (fun o => match o with PSrc _ | PSrcRange _ _ => true | PSrcList (_ :: _) => true | _ => false end) ops.
Definition any_mode (ops : list pop) : bool :=
  existsb (fun o => match o with PAny => true | _ => false end) ops.

Definition port_spec (ops : list pop) (sport dport : N) : bool :=
  if any_mode ops then
    (* either port in the union of everything listed *)
    src_listed ops sport || dst_listed ops sport || src_listed ops dport || dst_listed ops dport
  else
    (implb (src_constrained ops) (src_listed ops sport)) && (implb (dst_constrained ops) (dst_listed ops dport)).

(* which sides are enabled: the last source_only/destination_only call, both by default *)
Inductive sides := Both | SrcSide | DstSide.
Definition ip_sides (ops : list iop) : sides :=
  fold_left (fun s o => match o with ISrcOnly => SrcSide | IDstOnly => DstSide | _ => s end) ops Both.
Definition sub_sides (ops : list sop) : sides :=
  fold_left (fun s o => match o with SSrcOnly => SrcSide | SDstOnly => DstSide | _ => s end) ops Both.
Definition src_enabled (s : sides) := match s with DstSide => false | _ => true end.
Definition dst_enabled (s : sides) := match s with SrcSide => false | _ => true end.

Definition ip_eqb (a b : ip) : bool :=
  match a, b with V4 x, V4 y => x =? y | V6 x, V6 y => x =? y | _, _ => false end.
Definition addr_listed (ops : list iop) (a : ip) : bool :=
  existsb (fun o => match o with IAllow b => ip_eqb a b | _ => false end) ops.
Definition ip_spec (ops : list iop) (src dst : ip) : bool :=
  (src_enabled (ip_sides ops) && addr_listed ops src) || (dst_enabled (ip_sides ops) && addr_listed ops dst).

(* address inside a CIDR block: the leading `prefix` bits agree *)
Definition in_cidr (w : N) (net prefix x : N) : bool := x / 2 ^ (w - prefix) =? net / 2 ^ (w - prefix).
Definition in_some_cidr (ops : list sop) (a : ip) : bool :=
  existsb (fun o => match o, a with
                    | SAllow (V4 n) p, V4 x => in_cidr 32 n p x
                    | SAllow (V6 n) p, V6 x => in_cidr 128 n p x
                    | _, _ => false end) ops.
Definition sub_spec (ops : list sop) (src dst : ip) : bool :=
  (src_enabled (sub_sides ops) && in_some_cidr ops src) || (dst_enabled (sub_sides ops) && in_some_cidr ops dst).

Definition all_configured_match (c : cfg_src) (src dst : ip) (sport dport : N) : bool :=
  opt_test (c_port c) (fun ops => port_spec ops sport dport)
  && opt_test (c_ip c) (fun ops => ip_spec ops src dst)
  && opt_test (c_sub c) (fun ops => sub_spec ops src dst).

Definition spec_filter (c : cfg_src) (src dst : ip) (sport dport : N) : bool :=
  match c_port c, c_ip c, c_sub c with
  | None, None, None => true
  | _, _, _ => if c_deny c then negb (all_configured_match c src dst sport dport)
               else all_configured_match c src dst sport dport
  end.

(* well-formedness the Rust types enforce: addresses fit their width, prefixes are legal *)
Definition ip_wf (a : ip) : bool := match a with V4 x => x <? 2 ^ 32 | V6 x => x <? 2 ^ 128 end.
Definition sop_wf (o : sop) : bool :=
  match o with
  | SAllow (V4 n) p => (n <? 2 ^ 32) && (p <=? 32)
  | SAllow (V6 n) p => (n <? 2 ^ 128) && (p <=? 128)
  | _ => true end.
Definition cfg_wf (c : cfg_src) : bool := opt_test (c_sub c) (forallb sop_wf).
