(* SPEC: HTTP/2 frames on the wire (RFC 7540 section 4.1) and what a receiver has seen completely after
   n octets.  Shared by C16 and C17.  Definitions only. *)
From Coq Require Import List NArith Bool.
From Coq Require Import Strings.Byte.
From HN Require Import Base.Bytes Model.H2Text Model.H2Frames.
Import ListNotations.
Open Scope N_scope.

(* 24-bit length, type, flags, reserved bit + 31-bit stream identifier, payload *)
Definition wire1 (rf : bool * frame) : bytes :=
  let f := snd rf in
  be_bytes 3 (blen (f_payload f)) ++ [n2b (f_type f); n2b (f_flags f)]
  ++ be_bytes 4 ((if fst rf then 2 ^ 31 else 0) + f_stream f) ++ f_payload f.
Definition wire (frs : list (bool * frame)) : bytes := flat_map wire1 frs.
Definition stream_start (pre : bool) (frs : list (bool * frame)) : bytes :=
  (if pre then preface else []) ++ wire frs.

(* frames that a receiver has seen completely after n octets of `wire frs` *)
Fixpoint visible (frs : list (bool * frame)) (n : N) : list frame :=
  match frs with
  | [] => []
  | rf :: r => let sz := 9 + blen (f_payload (snd rf)) in
               if sz <=? n then snd rf :: visible r (n - sz) else []
  end.
(* ... after n octets of `stream_start pre frs` *)
Definition visible_at (pre : bool) (frs : list (bool * frame)) (n : N) : list frame :=
  if pre then (if n <? 24 then [] else visible frs (n - 24)) else visible frs n.

(* frames a sender can put on the wire and this receiver accepts (max frame size 16 KiB) *)
Definition wire_ok (rf : bool * frame) : bool :=
  let f := snd rf in
  (f_type f <? 256) && (f_flags f <? 256) && (f_stream f <? 2 ^ 31) && (blen (f_payload f) <=? 16384).

