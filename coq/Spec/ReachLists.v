(* C13: the documented status of the bundled signatures, by p0f.fp line (literal data written by
   harness/c13/tools/mk_lists.py; Proofs/ReachBundled.v recomputes the partition from Gen/Bundled.v, checks every
   witness and compares, so a signature that changes status breaks an obligation).  Definitions only. *)
From Coq Require Import List NArith.
Import ListNotations.
Open Scope N_scope.

(* ---- TCP ---- *)
(* proved reachable: every conforming packet outside the known traffic classes gets an admissible label *)
Definition live_tcp_lines : list N := [96; 97; 100; 101; 102; 103; 110; 111; 112; 115; 116; 117; 122; 123; 124; 133; 134; 137; 138; 141; 144; 149; 152; 153; 160; 163; 166; 169; 194; 199; 200; 215; 216; 273; 280; 314; 315; 316; 317; 318; 319; 353; 354; 376; 377; 378; 379; 388; 389; 390; 391; 394; 395; 396; 397; 491; 493; 497; 500; 501; 503; 507; 510; 511; 513; 535; 542].
(* proved reachable at distance 1 (scale `0` written for a layout without `ws`; certificate Spec/ReachMinSpec.v live1_cert) *)
Definition live1_tcp_lines : list N := [127; 172; 290; 344; 372; 373; 374; 375; 382; 383; 384; 385; 490; 492; 496; 498; 499; 502; 506; 508; 509; 512; 534; 543].
(* dead, class DeadBadTtl: `NN-` signatures; an observed TTL is never of the form Bad unless it is 0 *)
Definition dead_bad_ttl_lines : list N := [].
(* dead, class DeadValueWindow: a literal window that the extractor re-expresses as mss*k / %n / mtu*k for some MSS *)
Definition dead_value_window_lines : list N := [128; 154; 155; 179; 180; 181; 182; 183; 186; 187; 188; 189; 192; 193; 205; 206; 207; 208; 211; 212; 245; 248; 253; 260; 263; 270; 283; 297; 305; 306; 307; 308; 312; 347; 350; 404; 405; 406; 407; 408; 409; 410; 411; 413; 414; 415; 416; 417; 418; 419; 420; 423; 424; 425; 426; 427; 428; 429; 430; 437; 438; 440; 443; 444; 446; 449; 451; 458; 459; 460; 461; 462; 463; 464; 474; 476; 478; 520; 521; 522; 523; 524; 525; 526; 527].
(* dead, class DeadEolPad: layouts with `eol+n`, n >= 1 (rendered as a chain eol+n,..,eol+0: C03 K1) *)
Definition dead_eol_pad_lines : list N := [223; 224; 225; 226; 230; 233; 238; 330; 331; 332; 333; 334; 335; 336; 337; 439; 445; 450; 475; 477; 479; 480].
(* neither proved live nor refuted *)
Definition undecided_tcp_lines : list N := [313].
Definition dead_tcp_lines : list N := dead_bad_ttl_lines ++ dead_value_window_lines ++ dead_eol_pad_lines.
(* sizes of (live, live at distance 1, DeadBadTtl, DeadValueWindow, DeadEolPad, undecided); 199 in all *)
Definition tcp_partition_sizes : nat * nat * nat * nat * nat * nat := (67, 24, 0, 85, 22, 1)%nat.

(* ---- HTTP ---- *)
(* proved reachable by the finite abstraction (Spec/ReachHttpSpec.v; walks of at most C13_HTTP_LEAVES = 20000 leaves), split
   into the shards that Proofs/ReachHttpShardNN.v evaluate in parallel (balanced by number of leaves) *)
Definition http_shards : list (list N) := [[567]; [698]; [699]; [611]; [626]; [627]; [658]; [617; 711; 773; 794; 798; 823; 839; 873; 882]; [676; 715; 739; 749; 761; 778; 819; 868; 896]; [657; 659; 696; 706; 765; 815; 867; 890; 906; 920]; [618; 663; 740; 782; 866; 881; 895; 897; 905]; [697; 721; 727; 744; 753; 769; 777; 865; 872; 891]].
Definition live_http_lines : list N := concat http_shards.
(* dead already for messages that give every literal exactly and the bare token as software string *)
Definition dead_http_exact_lines : list N := [571; 575; 582; 583; 584; 585; 586; 590; 591; 598; 606; 910; 911].
(* dead for messages with exact literals whose software string strictly contains the token (Expsw) *)
Definition dead_http_expsw_lines : list N := [607; 641; 649; 671; 710; 811; 831; 847; 851].
(* dead for messages in which a header value strictly contains its literal (ValueEquality) *)
Definition dead_http_value_lines : list N := [628; 636; 640; 645; 672; 684; 688; 700; 701; 705; 725; 726; 731; 748; 757; 790; 802; 803; 807; 835; 843; 919; 921].
Definition undecided_http_lines : list N := [].
Definition dead_http_lines : list N := dead_http_exact_lines ++ dead_http_expsw_lines ++ dead_http_value_lines.
(* sizes of (live, dead exact, dead Expsw, dead ValueEquality, undecided); 99 in all *)
Definition http_partition_sizes : nat * nat * nat * nat * nat := (54, 13, 9, 23, 0)%nat.
