(* SPEC for C20, from the property text: when every enabled analyzer accepts the packet, the unified
   result carries, per protocol, exactly that protocol analyzer's field groups (same endpoints, labels,
   qualities); a disabled protocol contributes nothing; with matching disabled every quality is
   'disabled' and every raw signature is unchanged. *)
From Coq Require Import List NArith Bool.
From HN Require Import Base.Bytes Model.Unified.
Import ListNotations.

Definition accepts (enabled : bool) (r : pres) : bool :=
  negb enabled || match r with Some _ => true | None => false end.
Definition all_accept (c : cfg) (t h l : pres) : bool :=
  accepts (tcp_en c) t && accepts (http_en c) h && accepts (tls_en c) l.

Definition groups_of (n : nat) (r : pres) : list (option grp) :=
  match r with Some g => g | None => repeat None n end.
(* quality under the configuration: the analyzer's own when matching is on, 'disabled' (D) otherwise;
   the raw signature part is never touched *)
Definition spec_show (c : cfg) (g : option grp) : shown :=
  match g with
  | None => None
  | Some g => Some (g_sig g, if matcher_en c then g_on g
                             else if no_match_part (g_off g) then g_off g else bs "D" ++ plus_suffix (g_off g))
  end.
Definition proto_part (c : cfg) (enabled : bool) (n : nat) (r : pres) : list shown :=
  if enabled then map (spec_show c) (groups_of n r) else repeat None n.

(* None: the property gives no verdict (some enabled analyzer rejected the packet) *)
Definition spec_packet (c : cfg) (t h l : pres) : option (list shown) :=
  if all_accept c t h l
  then Some (proto_part c (tcp_en c) 5 t ++ proto_part c (http_en c) 2 h ++ proto_part c (tls_en c) 1 l)
  else None.

(* shape the protocol analyzers guarantee: 5 / 2 / 1 groups *)
Definition shape_ok (n : nat) (r : pres) : bool :=
  match r with Some g => Nat.eqb (length g) n | None => true end.
