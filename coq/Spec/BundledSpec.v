(* Statements about the bundled database (Gen/Bundled.v = the lines of huginn-net-db/config/p0f.fp as they
   are now): which lines are signature lines, the per-line round trip, the shape of the loaded database.
   Definitions only. *)
From Coq Require Import List NArith Bool.
From Coq Require Import Strings.Byte.
From HN Require Import Base.Bytes Model.SigAst Model.SigText Model.DbLoad Spec.SigTextSpec Spec.DbLoadSpec Gen.Bundled.
Import ListNotations.
Open Scope N_scope.

(* the lines of the file, classified by the reference reader and paired with their section *)
Definition bundled_ann : list (option sec * sline) :=
  annotate None (map (fun raw => classify (trim_ascii raw)) bundled_lines).
(* values of the `sig` lines lying in sections of the given names *)
Definition sig_values (ss : list sec) : list bytes :=
  flat_map (fun s => map snd (filter (fun it => negb (fst it)) (items_of s bundled_ann))) ss.
Definition label_values (ss : list sec) : list bytes :=
  flat_map (fun s => map snd (filter (fun it => fst it) (items_of s bundled_ann))) ss.
Definition bundled_tcp_sigs : list bytes := sig_values [SecTQ; SecTS].
Definition bundled_http_sigs : list bytes := sig_values [SecHQ; SecHS].

(* print (parse l) = l on the model of the Rust parser and printer *)
Definition line_rt {A} (from : bytes -> option A) (pr : A -> bytes) (l : bytes) : bool :=
  match from l with Some s => bytes_eqb (pr s) l | None => false end.
Definition tcp_line_rt : bytes -> bool := line_rt tcp_sig_from_str print_tcp_sig.
Definition http_line_rt : bytes -> bool := line_rt http_sig_from_str print_http_sig.

(* numbers of (labels, signatures) of a table *)
Definition table_counts {S} (t : list (label * list S)) : nat * nat :=
  (length t, fold_left (fun a e => a + length (snd e))%nat t O).
Definition mtu_counts (t : list (bytes * list N)) : nat * nat :=
  (length t, fold_left (fun a e => a + length (snd e))%nat t O).

Definition empty_db : database :=
  {| db_classes := []; db_mtu := []; db_ua_os := []; db_tcp_request := []; db_tcp_response := [];
     db_http_request := []; db_http_response := [] |}.
(* the database the model loads from the bundled file (empty_db only if loading fails; bundled_loads rules that out) *)
Definition bundled_db : database := match load_lines bundled_lines with Some d => d | None => empty_db end.
(* the database the specification reads from it *)
Definition bundled_spec_db : database := match spec_load_lines bundled_lines with VOk d => d | _ => empty_db end.

(* the bundled file as one text (every line terminated by a line feed) *)
Definition unlines (ls : list bytes) : bytes := concat (map (fun l => l ++ [x0a]) ls).
Definition bundled_text : bytes := unlines bundled_lines.
