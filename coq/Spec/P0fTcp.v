(* SPEC for C03, written from the property text and the p0f v3 signature language
   (p0f README section "TCP signatures": ver:ittl:olen:mss:wsize,scale:olayout:quirks:pclass, and the
   header conditions p0f's process.c attaches to each quirk), NOT from the huginn-net code.

   Layers:  decode4 / decode6   RFC 791 / RFC 8200 / RFC 9293 header layout -> abstract segment
                                 (None = not a well-formed, complete IPv4/IPv6 TCP segment: no verdict)
            render               abstract segment -> what must be reported
   Shared with the model: only byte primitives of Model/Pnet.v (byte_at, be16_at, be32_at, slice, blen),
   the AST of Model/SigAst.v and the result containers res / tcp_out of Model/TcpExtract.v.
   Definitions only. *)
From Coq Require Import List NArith Bool.
From Coq Require Import Strings.Byte.
From HN Require Import Base.Bytes Model.SigAst Model.Pnet Model.TcpExtract.
Import ListNotations.
Open Scope N_scope.

(* ---------------- abstract headers ---------------- *)
Record ip_hdr := {
  ih_ver : ip_version;
  ih_hlen : N;            (* bytes of IP header in front of the TCP header (IPv4: IHL*4, IPv6: 40) *)
  ih_ttl : N;             (* TTL / hop limit *)
  ih_tos_ecn : N;         (* the two ECN bits of TOS / traffic class *)
  ih_df : bool; ih_mbz : bool;    (* IPv4 don't-fragment and reserved ("must be zero") bits *)
  ih_id : N;              (* IPv4 identification *)
  ih_fragment : bool;     (* IPv4: more-fragments set or fragment offset non-zero *)
  ih_flow : N }.          (* IPv6 flow label *)
Record tcp_hdr := {
  th_flags : N;           (* CWR ECE URG ACK PSH RST SYN FIN = bits 7..0 *)
  th_ns : bool;           (* NS (ECN nonce) bit, the lowest reserved bit *)
  th_doff : N;            (* data offset, 32-bit words *)
  th_seq : N; th_ack : N; th_win : N; th_urg : N }.
Record segment := { sg_ip : ip_hdr; sg_tcp : tcp_hdr; sg_opts : bytes; sg_payload_len : N }.

Definition bit (n k : N) : bool := N.testbit n k.
Definition fFIN f := bit f 0. Definition fSYN f := bit f 1. Definition fRST f := bit f 2. Definition fPSH f := bit f 3.
Definition fACK f := bit f 4. Definition fURG f := bit f 5. Definition fECE f := bit f 6. Definition fCWR f := bit f 7.

(* ---------------- decoding (RFC layouts) ---------------- *)
(* RFC 9293 section 3.1, on the bytes of one complete segment *)
Definition decode_tcp (seg : bytes) : option (tcp_hdr * bytes * N) :=
  let doff := byte_at seg 12 / 16 in
  if (20 <=? blen seg) && (5 <=? doff) && (doff * 4 <=? blen seg) then
    Some ({| th_flags := byte_at seg 13; th_ns := N.odd (byte_at seg 12); th_doff := doff;
             th_seq := be32_at seg 4; th_ack := be32_at seg 8; th_win := be16_at seg 14; th_urg := be16_at seg 18 |},
          slice seg 20 (doff * 4), blen seg - doff * 4)
  else None.

(* RFC 791: version 4, IHL >= 5, header + a TCP header inside total length, datagram completely captured,
   protocol 6 *)
Definition decode4 (p : bytes) : option segment :=
  let ihl := byte_at p 0 mod 16 in
  let total := be16_at p 2 in
  if (20 <=? blen p) && (byte_at p 0 / 16 =? 4) && (5 <=? ihl) && (ihl * 4 <=? total) && (total <=? blen p)
     && (byte_at p 9 =? 6) then
    match decode_tcp (slice p (ihl * 4) total) with
    | Some (th, opts, plen) =>
        Some {| sg_ip := {| ih_ver := IpV4; ih_hlen := ihl * 4; ih_ttl := byte_at p 8; ih_tos_ecn := byte_at p 1 mod 4;
                            ih_df := bit (byte_at p 6) 6; ih_mbz := bit (byte_at p 6) 7; ih_id := be16_at p 4;
                            ih_fragment := bit (byte_at p 6) 5 || negb ((byte_at p 6 mod 32) * 256 + byte_at p 7 =? 0);
                            ih_flow := 0 |};
                sg_tcp := th; sg_opts := opts; sg_payload_len := plen |}
    | None => None end
  else None.

(* RFC 8200: version 6, next header 6 (TCP directly after the fixed header), payload completely captured *)
Definition decode6 (p : bytes) : option segment :=
  let plen := be16_at p 4 in
  if (40 <=? blen p) && (byte_at p 0 / 16 =? 6) && (40 + plen <=? blen p) && (byte_at p 6 =? 6) then
    match decode_tcp (slice p 40 (40 + plen)) with
    | Some (th, opts, dlen) =>
        Some {| sg_ip := {| ih_ver := IpV6; ih_hlen := 40; ih_ttl := byte_at p 7; ih_tos_ecn := (byte_at p 1 / 16) mod 4;
                            ih_df := false; ih_mbz := false; ih_id := 0; ih_fragment := false;
                            ih_flow := (byte_at p 1 mod 16) * 65536 + be16_at p 2 |};
                sg_tcp := th; sg_opts := opts; sg_payload_len := dlen |}
    | None => None end
  else None.

(* ---------------- ittl: the 30-hop rule ---------------- *)
(* initial TTLs in use: 32, 64, 128, 255; the sender's is taken to be the smallest one not below the observed
   value; the distance is believed when it is at most 30 hops *)
Definition initial_ttls : list N := [32; 64; 128; 255].
Definition spec_ittl (t : N) : ttl :=
  if t =? 0 then TtlBad 0 else
  match find (fun c => t <=? c) initial_ttls with
  | Some c => if c - t <=? 30 then TtlDistance t (c - t) else TtlValue t
  | None => TtlValue t end.

(* ---------------- TCP options (RFC 9293 3.1 / 7323 / 2018 as p0f reads them) ---------------- *)
Inductive opt_item :=
  | IEol (pad : bytes)              (* end of option list, followed by these bytes up to the data offset *)
  | INop | IMss (v : N) | IWs (v : N) | ISok | ISack | ITs (v1 v2 : N) | IUnknown (k : N)
  | IBad (k : N).                   (* option of kind k that is cut short or carries an impossible length *)

Definition kind_option (k : N) : tcp_option :=
  if k =? 2 then OMss else if k =? 3 then OWs else if k =? 4 then OSok else if k =? 5 then OSack
  else if k =? 8 then OTS else OUnknown k.
(* the length a kind must carry *)
Definition length_ok (k l : N) : bool :=
  if k =? 2 then l =? 4 else if k =? 3 then l =? 3 else if k =? 4 then l =? 2
  else if k =? 5 then (10 <=? l) && (l <=? 34) else if k =? 8 then l =? 10 else 2 <=? l.

Fixpoint parse_opts (fuel : nat) (b : bytes) : list opt_item :=
  match fuel with O => [] | S f =>
  match b with
  | [] => []
  | k :: rest =>
      if b2n k =? 0 then [IEol rest]
      else if b2n k =? 1 then INop :: parse_opts f rest
      else match rest with
           | [] => [IBad (b2n k)]
           | l :: _ =>
               if length_ok (b2n k) (b2n l) && (b2n l <=? blen b) then
                 let body := slice b 2 (b2n l) in
                 (if b2n k =? 2 then IMss (be16_at body 0)
                  else if b2n k =? 3 then IWs (byte_at body 0)
                  else if b2n k =? 4 then ISok
                  else if b2n k =? 5 then ISack
                  else if b2n k =? 8 then ITs (be32_at body 0) (be32_at body 4)
                  else IUnknown (b2n k)) :: parse_opts f (drop b (b2n l))
               else [IBad (b2n k)]
           end
  end end.
Definition options_of (b : bytes) : list opt_item := parse_opts (length b) b.

Definition item_option (i : opt_item) : tcp_option :=
  match i with
  | IEol pad => OEol (blen pad) | INop => ONop | IMss _ => OMss | IWs _ => OWs | ISok => OSok | ISack => OSack
  | ITs _ _ => OTS | IUnknown k => OUnknown k | IBad k => kind_option k end.
Definition spec_layout (items : list opt_item) : list tcp_option := map item_option items.
(* the value in force is the one of the last such option *)
Definition spec_mss (items : list opt_item) : option N :=
  fold_left (fun acc i => match i with IMss v => Some v | _ => acc end) items None.
Definition spec_wscale (items : list opt_item) : option N :=
  fold_left (fun acc i => match i with IWs v => Some v | _ => acc end) items None.
Definition has_ts (items : list opt_item) : bool := existsb (fun i => match i with ITs _ _ => true | _ => false end) items.
Definition opts_bad (items : list opt_item) : bool := existsb (fun i => match i with IBad _ => true | _ => false end) items.
Definition all_zero (l : bytes) : bool := forallb (fun b => b2n b =? 0) l.

(* ---------------- quirks: one header condition each ---------------- *)
Definition syn_only (f : N) : bool := fSYN f && negb (fACK f) && negb (fFIN f) && negb (fRST f).

Definition quirk_holds (s : segment) (items : list opt_item) (q : quirk) : bool :=
  let ip := sg_ip s in let th := sg_tcp s in let f := th_flags th in
  match q with
  | QDf => ih_df ip
  | QNonZeroID => ih_df ip && negb (ih_id ip =? 0)
  | QZeroID => match ih_ver ip with IpV4 => negb (ih_df ip) && (ih_id ip =? 0) | _ => false end
  | QEcn => negb (ih_tos_ecn ip =? 0) || fECE f || fCWR f || th_ns th
  | QMustBeZero => ih_mbz ip
  | QFlowID => negb (ih_flow ip =? 0)
  | QSeqNumZero => th_seq th =? 0
  | QAckNumNonZero => negb (fACK f) && negb (th_ack th =? 0) && negb (fRST f)
  | QAckNumZero => fACK f && (th_ack th =? 0)
  | QNonZeroURG => negb (fURG f) && negb (th_urg th =? 0)
  | QUrg => fURG f
  | QPush => fPSH f
  | QOwnTimestampZero => existsb (fun i => match i with ITs v1 _ => v1 =? 0 | _ => false end) items
  | QPeerTimestampNonZero => syn_only f && existsb (fun i => match i with ITs _ v2 => negb (v2 =? 0) | _ => false end) items
  | QTrailinigNonZero => existsb (fun i => match i with IEol pad => negb (all_zero pad) | _ => false end) items
  | QExcessiveWindowScaling => existsb (fun i => match i with IWs v => 14 <? v | _ => false end) items
  | QOptBad => opts_bad items
  end.
(* the order in which p0f prints quirks *)
Definition canonical_quirks : list quirk :=
  [QDf; QNonZeroID; QZeroID; QEcn; QMustBeZero; QFlowID; QSeqNumZero; QAckNumNonZero; QAckNumZero; QNonZeroURG; QUrg;
   QPush; QOwnTimestampZero; QPeerTimestampNonZero; QTrailinigNonZero; QExcessiveWindowScaling; QOptBad].
Definition spec_quirks (s : segment) (items : list opt_item) : list quirk := filter (quirk_holds s items) canonical_quirks.

(* ---------------- window ---------------- *)
Definition min_headers (v : ip_version) : N := match v with IpV6 => 60 | _ => 40 end.   (* minimal IP + TCP header *)
(* w = k * d with 1 <= d and k <= 255 *)
Definition multiple_of (w d : N) : option N :=
  if (d =? 0) then None else if (w mod d =? 0) && (w / d <=? 255) then Some (w / d) else None.
Definition first_some (l : list (option N)) : option N :=
  fold_right (fun o acc => match o with Some k => Some k | None => acc end) None l.
(* priority: MSS multiple (also of MSS - 12 when timestamps are in use), largest power-of-two modulus
   4096..256, MTU multiple (1500, 1500 - headers, that minus the 12 timestamp bytes, MSS + headers), raw value *)
Definition mss_divisors (mss : N) (ts : bool) : list N := mss :: (if ts then [mss - 12] else []).
Definition mtu_divisors (v : ip_version) (mss : N) (ts : bool) : list N :=
  [1500; 1500 - min_headers v] ++ (if ts then [1500 - min_headers v - 12] else []) ++ [mss + min_headers v].
Definition spec_window (v : ip_version) (w : N) (mss : option N) (ts : bool) : window_size :=
  let m := match mss with Some m => m | None => 0 end in
  if (w =? 0) || (m <? 100) then WValue w else
  match first_some (map (multiple_of w) (mss_divisors m ts)) with
  | Some k => WMss k
  | None =>
    match filter (fun d => w mod d =? 0) [4096; 2048; 1024; 512; 256] with
    | d :: _ => WMod d
    | [] => match first_some (map (multiple_of w) (mtu_divisors v m ts)) with
            | Some k => WMtu k
            | None => WValue w end
    end
  end.

(* ---------------- roles ---------------- *)
Inductive role := RInvalid | RClient | RServer | RNone.
Definition spec_role (f : N) : role :=
  if (fSYN f && (fFIN f || fRST f)) || (fFIN f && fRST f) || negb (fSYN f || fACK f || fFIN f || fRST f) then RInvalid
  else if fSYN f then (if fACK f then RServer else RClient) else RNone.

(* ---------------- the signature and what is reported ---------------- *)
Definition spec_sig (s : segment) : tcp_sig :=
  let items := options_of (sg_opts s) in
  let ip := sg_ip s in
  {| t_version := ih_ver ip;
     t_ittl := spec_ittl (ih_ttl ip);
     t_olen := match ih_ver ip with IpV4 => ih_hlen ip - 20 | _ => 0 end;
     t_mss := spec_mss items;
     t_wsize := spec_window (ih_ver ip) (th_win (sg_tcp s)) (spec_mss items) (has_ts items);
     t_wscale := spec_wscale items;
     t_olayout := spec_layout items;
     t_quirks := spec_quirks s items;
     t_pclass := if sg_payload_len s =? 0 then PZero else PNonZero |}.

(* link label: the first group of the [mtu] table that lists the value *)
Definition spec_link (db : list (bytes * list N)) (mtu : N) : option bytes :=
  option_map fst (find (fun g => existsb (N.eqb mtu) (snd g)) db).

Definition render (db : list (bytes * list N)) (s : segment) : res tcp_out :=
  if ih_fragment (sg_ip s) then Err else       (* fragments are not fingerprinted *)
  match spec_role (th_flags (sg_tcp s)) with
  | RInvalid => Err
  | RClient =>
      let mtu := option_map (fun m => m + min_headers (ih_ver (sg_ip s))) (t_mss (spec_sig s)) in
      Ok {| o_syn := Some (spec_sig s); o_synack := None; o_mtu := mtu;
            o_link := match mtu with Some m => spec_link db m | None => None end |}
  | RServer => Ok {| o_syn := None; o_synack := Some (spec_sig s); o_mtu := None; o_link := None |}
  | RNone => Ok out_none
  end.

(* ================= known deviation classes of the unchanged code (genuine findings, all pinned by the
   repository's golden snapshot) — stated on the decoded segment, plus K4 on the model's own quirk list ====== *)
(* K1: bytes follow an end-of-options marker inside the option area (the code keeps parsing them) *)
Definition K1 (s : segment) : bool :=
  existsb (fun i => match i with IEol (_ :: _) => true | _ => false end) (options_of (sg_opts s)).
(* K2: client MTU: the code adds the actual IP header and the TCP option bytes (or 20 when there are none)
   instead of the minimal headers *)
Definition code_mtu (s : segment) (mss : N) : N :=
  let tl := th_doff (sg_tcp s) * 4 in
  sat16 (sat16 (mss + ih_hlen (sg_ip s)) + (if 20 <? tl then tl - 20 else tl)).
Definition K2 (s : segment) : bool :=
  match spec_role (th_flags (sg_tcp s)), spec_mss (options_of (sg_opts s)) with
  | RClient, Some m => negb (code_mtu s m =? m + min_headers (ih_ver (sg_ip s)))
  | _, _ => false end.
(* K3: a segment that is not part of a handshake is reported as a server signature *)
Definition K3 (s : segment) : bool := match spec_role (th_flags (sg_tcp s)) with RNone => true | _ => false end.
(* K5: `bad` is never reported.  (Its second half — the NS bit not taken as ECN — was repaired in /repo; K5_ns is
   kept, constantly false, so that K5 keeps its shape for the files that take it apart.) *)
Definition K5_ns (s : segment) : bool := false.
Definition K5 (s : segment) : bool := opts_bad (options_of (sg_opts s)) || K5_ns s.
(* K7 (the "MSS + headers" MTU divisor formed with the IPv4 header length in 32-bit words, saturating) was repaired
   in /repo and is no longer a class of `known`.  The identifiers code_hdr and K7 remain for Proofs/Reach*.v (C13):
   code_hdr is what process_tcp_ipv4/6 still hand to visit_tcp as header length (words / 40; used by mtu.rs only),
   and `K7 s = false` now merely states that the window field is a 16-bit value, which holds for every decoded
   segment (win_u16_of_decode in Proofs/C03Main.v). *)
Definition code_hdr (s : segment) : N := match ih_ver (sg_ip s) with IpV4 => ih_hlen (sg_ip s) / 4 | _ => 40 end.
Definition win_overflow (s : segment) : bool := 65535 <? th_win (sg_tcp s).
Definition K7 (s : segment) : bool := win_overflow s.
(* K4: the quirk list the code builds (detection order, duplicates kept) is not the canonical, duplicate-free
   listing.  Stated on the list the model produces. *)
Fixpoint strictly_increasing (l : list N) : bool :=
  match l with
  | a :: ((b :: _) as r) => (a <? b) && strictly_increasing r
  | _ => true end.
Definition K4_of (quirks : list quirk) : bool := negb (strictly_increasing (map quirk_idx quirks)).
Definition out_quirks (r : res tcp_out) : list quirk :=
  match r with
  | Ok o => match o_syn o, o_synack o with Some g, _ => t_quirks g | None, Some g => t_quirks g | None, None => [] end
  | Err => [] end.
Definition K4 (model_result : res tcp_out) : bool := K4_of (out_quirks model_result).

(* a segment for which something is to be reported at all (the classes only matter there) *)
Definition reportable (s : segment) : bool :=
  negb (ih_fragment (sg_ip s)) && match spec_role (th_flags (sg_tcp s)) with RInvalid => false | _ => true end.
Definition known (s : segment) (model_result : res tcp_out) : bool :=
  reportable s && (K1 s || K2 s || K3 s || K4 model_result || K5 s).

(* ---------------- framing (documented strategy order of the analyzer: Ethernet II with an IP ethertype,
   then a bare IP packet recognised by its version nibble, then the 4-byte NULL/loopback header 1e 00 xx xx) ---- *)
Inductive framed := FV4 (p : bytes) | FV6 (p : bytes) | FNone.
Definition unframe (f : bytes) : framed :=
  let eth := if 14 <=? blen f then
               (if (be16_at f 12 =? 2048) && (20 <=? blen f - 14) then FV4 (drop f 14)
                else if (be16_at f 12 =? 34525) && (40 <=? blen f - 14) then FV6 (drop f 14) else FNone)
             else FNone in
  let by_version (d : bytes) := if (byte_at d 0 / 16 =? 4) && (20 <=? blen d) then FV4 d
                                else if (byte_at d 0 / 16 =? 6) && (40 <=? blen d) then FV6 d else FNone in
  match eth with
  | FNone => match by_version f with
             | FNone => if (24 <=? blen f) && (byte_at f 0 =? 30) && (byte_at f 1 =? 0) then by_version (drop f 4) else FNone
             | r => r end
  | r => r end.
