(* C11 specification, from the property text: "the memory an analyzer retains is bounded by its
   configured connection capacity times a fixed per-connection limit, and the work done for one
   packet is bounded by a constant plus a term proportional to that packet's size".

   The limits are fixed here once, for every analyzer: a TLS record is at most 5 + 65535 bytes, so
   L = 65540 bytes per connection is what a reassembling analyzer legitimately needs; one parse of
   one complete record (<= 64 KiB) is the constant part of the work, and each payload byte may be
   copied a small fixed number of times.  Definitions only. *)
From Coq Require Import List NArith Bool.
Import ListNotations.
Open Scope N_scope.

Definition per_conn_limit : N := 65540.
Definition work_const : N := 65540.
Definition work_factor : N := 4.

(* one observation: (retained after the packet, cost of the packet, payload length of the packet) *)
Definition obs_ok (cap : N) (o : N * N * N) : bool :=
  let '(ret, c, plen) := o in (ret <=? cap * per_conn_limit) && (c <=? work_const + work_factor * plen).
Definition within_bounds (cap : N) (profile : list (N * N * N)) : bool := forallb (obs_ok cap) profile.

Fixpoint first_violation (cap : N) (profile : list (N * N * N)) (i : N) : option N :=
  match profile with
  | [] => None
  | o :: r => if obs_ok cap o then first_violation cap r (i + 1) else Some i
  end.
