(* SPEC side of C15, from the property text: the sub-trace "of packets whose own source and
   destination (as the analyzer itself reports them) the filter admits", with "admits" the
   documented rule of C14 (FilterSpec.spec_filter, on the builder calls).  A packet for which the
   analyzer reports no endpoints is not admitted traffic.  Definitions only. *)
From Coq Require Import List NArith Bool.
From HN Require Import Base.Bytes Model.Filter Model.RawFrame Spec.FilterSpec.
Import ListNotations.

Definition spec_passes (c : cfg_src) (e : endpoints) : bool :=
  spec_filter c (e_src e) (e_dst e) (e_sport e) (e_dport e).

Definition spec_admits (c : cfg_src) (p : bytes) : bool :=
  match analyzer_endpoints p with
  | Some e => spec_passes c e
  | None => false
  end.

Definition admitted_subtrace (c : cfg_src) (tau : list bytes) : list bytes := filter (spec_admits c) tau.
