(* SPEC for the database half of C06 on *documents*: a database text as a list of items (blank lines,
   comments, `classes`, `ua_os`, section headers, labels, signatures, `sys` lines), how a document is
   written as text (the render_ functions), and what it denotes (flatten): the same reading as Spec/DbLoadSpec.v —
   each table is obtained on its own by keeping the label/signature items that lie in sections of its
   name and grouping them by a right fold (a signature belongs to the nearest label before it; a signature
   with no label before it makes the document invalid).
   Theorem shape (Props/C06.v):  doc_ok d -> load (render_text d) = flatten d.
   Definitions only. *)
From Coq Require Import List NArith Bool.
From Coq Require Import Strings.Byte.
From HN Require Import Base.Bytes Model.SigAst Model.SigText Spec.SigTextSpec Spec.DbLoadSpec.
Import ListNotations.
Open Scope N_scope.

Inductive item :=
  | IBlank
  | IComment (t : bytes)
  | IClasses (cs : list bytes)
  | IUaOs (rs : list (bytes * option bytes))
  | ISection (s : sec)
  | ILabel (l : label)              (* in tcp / http sections *)
  | IMtuLabel (name : bytes)        (* in the mtu section *)
  | ITcpSig (s : tcp_sig)
  | IHttpSig (s : http_sig)
  | IMtuSig (v : N)
  | ISys (v : bytes).

(* ---------- text form ---------- *)
Definition render_sec (s : sec) : bytes :=
  match s with
  | SecTQ => bs "[tcp:request]" | SecTS => bs "[tcp:response]" | SecHQ => bs "[http:request]"
  | SecHS => bs "[http:response]" | SecMtu => bs "[mtu]" | SecOther => bs "[other]" end.
(* database text form of a label:  s|g : class|! : name : flavor *)
Definition render_label (l : label) : bytes :=
  (match l_ty l with LSpecified => bs "s" | LGeneric => bs "g" end) ++ bs ":" ++
  (match l_class l with Some c => c | None => bs "!" end) ++ bs ":" ++ l_name l ++ bs ":" ++
  (match l_flavor l with Some f => f | None => [] end).
Definition render_rule (r : bytes * option bytes) : bytes :=
  fst r ++ match snd r with Some v => bs "=[" ++ v ++ bs "]" | None => [] end.
Definition render_item (x : item) : bytes :=
  match x with
  | IBlank => []
  | IComment t => bs ";" ++ t
  | IClasses cs => bs "classes = " ++ join (bs ",") cs
  | IUaOs rs => bs "ua_os = " ++ join (bs ",") (map render_rule rs)
  | ISection s => render_sec s
  | ILabel l => bs "label = " ++ render_label l
  | IMtuLabel n => bs "label = " ++ n
  | ITcpSig s => bs "sig = " ++ print_tcp_sig s
  | IHttpSig s => bs "sig = " ++ print_http_sig s
  | IMtuSig v => bs "sig = " ++ show_N v
  | ISys v => bs "sys = " ++ v
  end.
Definition render_doc (d : list item) : list bytes := map render_item d.
(* every line terminated by a line feed *)
Definition render_text (d : list item) : bytes := concat (map (fun l => l ++ [x0a]) (render_doc d)).

(* ---------- well-formed items ---------- *)
Definition nonempty_list {A} (l : list A) : bool := match l with [] => false | _ => true end.
Definition graph (b : byte) : bool := (33 <=? b2n b) && (b2n b <=? 126).        (* visible ASCII *)
Definition no_lf (t : bytes) : bool := forallb (fun b => negb (b2n b =? 10)) t.
Definition no_colon (t : bytes) : bool := forallb (fun b => negb (b2n b =? 58)) t.
(* free text that survives trimming: no line feed, and if not empty it starts and ends with a visible character *)
Definition clean_end (t : bytes) : bool := no_lf t && match t with [] => true | b :: _ => graph (last t b) end.
Definition clean (t : bytes) : bool := clean_end t && match t with [] => true | b :: _ => graph b end.

Definition label_ok (l : label) : bool :=
  match l_class l with
  | Some c => no_colon c && no_lf c && match c with b :: _ => negb (b2n b =? 33) | [] => true end
  | None => true end &&
  no_colon (l_name l) && no_lf (l_name l) &&
  match l_flavor l with Some f => nonempty f && clean_end f | None => true end.
Definition header_text_ok (h : header) : bool := match h_value h with Some v => no_lf v | None => true end.
Definition rule_ok (r : bytes * option bytes) : bool :=
  word p0f_name_char (fst r) && match snd r with Some v => word p0f_name_char v | None => true end.

Definition item_ok (x : item) : bool :=
  match x with
  | IBlank => true
  | IComment t => clean_end t
  | IClasses cs => nonempty_list cs && forallb (word alnum) cs
  | IUaOs rs => nonempty_list rs && forallb rule_ok rs && clean (join (bs ",") (map render_rule rs))
  | ISection s => negb (sec_eqb s SecOther)
  | ILabel l => label_ok l
  | IMtuLabel n => nonempty n && clean n
  | ITcpSig s => wf_tcp s
  | IHttpSig s => wf_http s && forallb header_text_ok (hs_horder s) && forallb header_text_ok (hs_habsent s)
                  && clean_end (hs_expsw s)
  | IMtuSig v => v <=? 65535
  | ISys v => nonempty v && clean v
  end.

(* every item lies in a section where it means something *)
Definition fits (cur : option sec) (x : item) : bool :=
  match x, cur with
  | (ILabel _ | ISys _), Some (SecTQ | SecTS | SecHQ | SecHS) => true
  | ITcpSig _, Some (SecTQ | SecTS) => true
  | IHttpSig _, Some (SecHQ | SecHS) => true
  | (IMtuLabel _ | IMtuSig _), Some SecMtu => true
  | (ILabel _ | ISys _ | ITcpSig _ | IHttpSig _ | IMtuLabel _ | IMtuSig _), _ => false
  | _, _ => true end.
Definition next_sec (cur : option sec) (x : item) : option sec :=
  match x with ISection s => Some s | _ => cur end.
Fixpoint ctx_ok (cur : option sec) (d : list item) : bool :=
  match d with
  | [] => true
  | x :: r => fits cur x && ctx_ok (next_sec cur x) r
  end.
Definition doc_ok (d : list item) : bool := forallb item_ok d && ctx_ok None d.

(* ---------- what a document denotes ---------- *)
(* what one item lying in section `cur` contributes to the table named s: a label (inl) or a signature (inr) *)
Definition tcp_contrib (s : sec) (cur : option sec) (x : item) : list (label + tcp_sig) :=
  match x, cur with
  | ILabel l, Some c => if sec_eqb s c then [inl l] else []
  | ITcpSig g, Some c => if sec_eqb s c then [inr g] else []
  | _, _ => [] end.
Definition http_contrib (s : sec) (cur : option sec) (x : item) : list (label + http_sig) :=
  match x, cur with
  | ILabel l, Some c => if sec_eqb s c then [inl l] else []
  | IHttpSig g, Some c => if sec_eqb s c then [inr g] else []
  | _, _ => [] end.
Definition mtu_contrib (cur : option sec) (x : item) : list (bytes + N) :=
  match x, cur with
  | IMtuLabel n, Some SecMtu => [inl n]
  | IMtuSig v, Some SecMtu => [inr v]
  | _, _ => [] end.
(* the label / signature items of one table, in file order *)
Fixpoint tcp_entries (s : sec) (cur : option sec) (d : list item) : list (label + tcp_sig) :=
  match d with [] => [] | x :: r => tcp_contrib s cur x ++ tcp_entries s (next_sec cur x) r end.
Fixpoint http_entries (s : sec) (cur : option sec) (d : list item) : list (label + http_sig) :=
  match d with [] => [] | x :: r => http_contrib s cur x ++ http_entries s (next_sec cur x) r end.
Fixpoint mtu_entries (cur : option sec) (d : list item) : list (bytes + N) :=
  match d with [] => [] | x :: r => mtu_contrib cur x ++ mtu_entries (next_sec cur x) r end.

(* groups (label with the signatures up to the next label), and the signatures before the first label *)
Fixpoint group_entries {L S} (es : list (L + S)) : list (L * list S) * list S :=
  match es with
  | [] => ([], [])
  | inl l :: r => let (gs, lead) := group_entries r in ((l, lead) :: gs, [])
  | inr s :: r => let (gs, lead) := group_entries r in (gs, s :: lead)
  end.
Definition table_of {L S} (es : list (L + S)) : option (list (L * list S)) :=
  match group_entries es with (gs, []) => Some gs | (_, _ :: _) => None end.

Definition classes_of (d : list item) : list bytes := flat_map (fun x => match x with IClasses cs => cs | _ => [] end) d.
Definition ua_of (d : list item) : list (bytes * option bytes) := flat_map (fun x => match x with IUaOs rs => rs | _ => [] end) d.

Definition flatten (d : list item) : option database :=
  match table_of (tcp_entries SecTQ None d), table_of (tcp_entries SecTS None d),
        table_of (http_entries SecHQ None d), table_of (http_entries SecHS None d),
        table_of (mtu_entries None d) with
  | Some tq, Some ts, Some hq, Some hs, Some mtu =>
      Some {| db_classes := classes_of d; db_mtu := mtu; db_ua_os := ua_of d;
              db_tcp_request := tq; db_tcp_response := ts; db_http_request := hq; db_http_response := hs |}
  | _, _, _, _, _ => None end.
