(* SPEC for C16, written from RFC 7541 (HPACK: 5.1 integers, 5.2 strings, Appendix A static table,
   Appendix B Huffman code, sections 2.3, 4, 6 tables and representations), RFC 7540 (4.1 frame
   layout, 6.2 HEADERS, 6.10 CONTINUATION, 8.1.2 header fields) and the p0f HTTP signature format
   (ver:horder:habsent:expsw) with huginn-net-db's header lists.  This file contains ENCODERS and the
   expected report for a header list; the property says that the analyser inverts them.
   Definitions only.  The Huffman code table itself is data regenerated from the crate
   (Gen/Huffman.v); HuffmanProofs checks that it is a complete prefix code. *)
From Coq Require Import List NArith Bool.
From Coq Require Import Strings.Byte.
From HN Require Import Base.Bytes Model.H2Text Model.H2Frames Model.Hpack Model.H2Msg Spec.H2Wire Gen.Huffman Gen.H2Lists.
Import ListNotations.
Open Scope N_scope.

(* ================================================================ RFC 7541 Appendix A *)
Definition rfc_static_table : list header :=
  [ (bs ":authority", []); (bs ":method", bs "GET"); (bs ":method", bs "POST"); (bs ":path", bs "/");
    (bs ":path", bs "/index.html"); (bs ":scheme", bs "http"); (bs ":scheme", bs "https");
    (bs ":status", bs "200"); (bs ":status", bs "204"); (bs ":status", bs "206"); (bs ":status", bs "304");
    (bs ":status", bs "400"); (bs ":status", bs "404"); (bs ":status", bs "500"); (bs "accept-charset", []);
    (bs "accept-encoding", bs "gzip, deflate"); (bs "accept-language", []); (bs "accept-ranges", []);
    (bs "accept", []); (bs "access-control-allow-origin", []); (bs "age", []); (bs "allow", []);
    (bs "authorization", []); (bs "cache-control", []); (bs "content-disposition", []);
    (bs "content-encoding", []); (bs "content-language", []); (bs "content-length", []);
    (bs "content-location", []); (bs "content-range", []); (bs "content-type", []); (bs "cookie", []);
    (bs "date", []); (bs "etag", []); (bs "expect", []); (bs "expires", []); (bs "from", []); (bs "host", []);
    (bs "if-match", []); (bs "if-modified-since", []); (bs "if-none-match", []); (bs "if-range", []);
    (bs "if-unmodified-since", []); (bs "last-modified", []); (bs "link", []); (bs "location", []);
    (bs "max-forwards", []); (bs "proxy-authenticate", []); (bs "proxy-authorization", []); (bs "range", []);
    (bs "referer", []); (bs "refresh", []); (bs "retry-after", []); (bs "server", []); (bs "set-cookie", []);
    (bs "strict-transport-security", []); (bs "transfer-encoding", []); (bs "user-agent", []); (bs "vary", []);
    (bs "via", []); (bs "www-authenticate", []) ].

(* ================================================================ RFC 7541 5.1: integers *)
(* continuation octets of I - (2^N - 1): 7 bits each, least significant group first *)
Fixpoint enc_cont (fuel : nat) (r : N) : bytes :=
  match fuel with
  | O => []
  | S f => if r <? 128 then [n2b r] else n2b (r mod 128 + 128) :: enc_cont f (r / 128)
  end.
(* `first` = the pattern bits above the N-bit prefix (a multiple of 2^N below 256) *)
Definition enc_int (v prefix first : N) : bytes :=
  let mask := 2 ^ prefix - 1 in
  if v <? mask then [n2b (first + v)]
  else n2b (first + mask) :: enc_cont (S (N.to_nat (N.size (v - mask)))) (v - mask).

(* ================================================================ RFC 7541 5.2 / Appendix B: strings *)
Definition sym_code (b : byte) : list bool := nth (N.to_nat (b2n b)) huff_codes [].
Fixpoint bits_val (bits : list bool) (acc : N) : N :=
  match bits with [] => acc | b :: r => bits_val r (2 * acc + (if b then 1 else 0)) end.
(* eight bits to an octet; a final partial group is filled with 1 bits (the EOS prefix) *)
Fixpoint pack (bits : list bool) : bytes :=
  match bits with
  | [] => []
  | b7 :: b6 :: b5 :: b4 :: b3 :: b2 :: b1 :: b0 :: r => n2b (bits_val [b7; b6; b5; b4; b3; b2; b1; b0] 0) :: pack r
  | partial => [n2b (bits_val (partial ++ repeat true (8 - length partial)) 0)]
  end.
Definition huff_encode (s : bytes) : bytes := pack (flat_map sym_code s).

(* H bit + 7-bit-prefix length + octets *)
Definition enc_string (s : bytes) (huffman : bool) : bytes :=
  if huffman then let h := huff_encode s in enc_int (blen h) 7 128 ++ h
  else enc_int (blen s) 7 0 ++ s.

(* ================================================================ RFC 7541 2.3, 4: the tables *)
Definition hsize (h : header) : N := blen (fst h) + blen (snd h) + 32.
Definition tsize (l : list header) : N := fold_right (fun h acc => hsize h + acc) 0 l.
(* entries are evicted from the end until the size fits *)
Fixpoint evict (fuel : nat) (max : N) (l : list header) : list header :=
  if tsize l <=? max then l else match fuel with O => l | S f => evict f max (removelast l) end.
Record etable := { et_dyn : list header; et_max : N }.       (* newest entry first *)
Definition et_new : etable := {| et_dyn := []; et_max := 4096 |}.
Definition et_insert (t : etable) (h : header) : etable :=
  {| et_dyn := evict (S (length (et_dyn t))) (et_max t) (h :: et_dyn t); et_max := et_max t |}.
Definition et_resize (t : etable) (n : N) : etable :=
  {| et_dyn := evict (length (et_dyn t)) n (et_dyn t); et_max := n |}.
(* index address space: 1..61 static, then the dynamic table *)
Definition et_get (t : etable) (idx : N) : option header :=
  if idx =? 0 then None
  else if idx <=? 61 then nth_error rfc_static_table (N.to_nat (idx - 1))
  else nth_error (et_dyn t) (N.to_nat (idx - 62)).

(* ================================================================ RFC 7541 6: representations *)
Inductive mode := MIncr | MWithout | MNever.
Inductive item :=
  | ISize (n : N)                                               (* 6.3 dynamic table size update *)
  | IIndexed (idx : N) (name value : bytes)                     (* 6.1 *)
  | ILitIdx (m : mode) (idx : N) (name value : bytes) (hv : bool)        (* 6.2.x, indexed name *)
  | ILitNew (m : mode) (name value : bytes) (hn hv : bool).              (* 6.2.x, new name *)

Definition mode_prefix (m : mode) : N := match m with MIncr => 6 | _ => 4 end.
Definition mode_pattern (m : mode) : N := match m with MIncr => 64 | MWithout => 0 | MNever => 16 end.

Definition enc_item (it : item) : bytes :=
  match it with
  | ISize n => enc_int n 5 32
  | IIndexed idx _ _ => enc_int idx 7 128
  | ILitIdx m idx _ v hv => enc_int idx (mode_prefix m) (mode_pattern m) ++ enc_string v hv
  | ILitNew m n v hn hv => [n2b (mode_pattern m)] ++ enc_string n hn ++ enc_string v hv
  end.
Definition hpack_encode (items : list item) : bytes := flat_map enc_item items.

Definition item_header (it : item) : option header :=
  match it with
  | ISize _ => None
  | IIndexed _ n v | ILitIdx _ _ n v _ | ILitNew _ n v _ _ => Some (n, v)
  end.
Fixpoint headers_of (items : list item) : list header :=
  match items with
  | [] => []
  | it :: r => match item_header it with Some h => h :: headers_of r | None => headers_of r end
  end.

(* what the sender's table must contain for the items to denote the header list; integers and
   string lengths below 2^28 (they fit the five octets every decoder must accept) *)
Definition lim : N := 2 ^ 28.
Definition str_ok (s : bytes) (huffman : bool) : bool := blen (if huffman then huff_encode s else s) <? lim.
Definition et_apply (t : etable) (it : item) : etable :=
  match it with
  | ISize n => et_resize t n
  | ILitIdx MIncr _ n v _ | ILitNew MIncr n v _ _ => et_insert t (n, v)
  | _ => t
  end.
Definition item_ok (t : etable) (it : item) : bool :=
  match it with
  | ISize n => n <? lim
  | IIndexed idx n v =>
      (idx <? lim) && match et_get t idx with Some (n', v') => bytes_eqb n n' && bytes_eqb v v' | None => false end
  | ILitIdx _ idx n v hv =>
      (idx <? lim) && negb (idx =? 0) && str_ok v hv
      && match et_get t idx with Some (n', _) => bytes_eqb n n' | None => false end
  | ILitNew _ n v hn hv => str_ok n hn && str_ok v hv
  end.
Fixpoint items_ok_from (t : etable) (items : list item) : bool :=
  match items with
  | [] => true
  | it :: r => item_ok t it && items_ok_from (et_apply t it) r
  end.
Definition items_ok (items : list item) : bool := items_ok_from et_new items.

(* ================================================================ RFC 7540 6.2 / 6.10: framing a block *)
Record framing := {
  fr_pad : option bytes;        (* Some padding: PADDED, Pad Length = its length *)
  fr_prio : option bytes;       (* Some 5 octets: PRIORITY flag, E + stream dependency + weight *)
  fr_extra_h : N;               (* other flag bits of the HEADERS frame (END_STREAM, undefined bits) *)
  fr_extra_c : N;               (* other flag bits of the CONTINUATION frames *)
  fr_rsv : bool }.              (* reserved bit of the frame headers *)

Definition opt_bytes (o : option bytes) : bytes := match o with Some b => b | None => [] end.
Definition flag_if (b : bool) (v : N) : N := if b then v else 0.
Definition is_some {A} (o : option A) : bool := match o with Some _ => true | None => false end.

Definition headers_frame (sid : N) (fr : framing) (fragment : bytes) (last : bool) : frame :=
  {| f_type := 1;
     f_flags := fr_extra_h fr + flag_if last 4 + flag_if (is_some (fr_pad fr)) 8 + flag_if (is_some (fr_prio fr)) 32;
     f_stream := sid;
     f_payload := match fr_pad fr with Some p => [n2b (blen p)] | None => [] end
                  ++ opt_bytes (fr_prio fr) ++ fragment ++ opt_bytes (fr_pad fr) |}.
Definition continuation_frame (sid : N) (fr : framing) (fragment : bytes) (last : bool) : frame :=
  {| f_type := 9; f_flags := fr_extra_c fr + flag_if last 4; f_stream := sid; f_payload := fragment |}.

Fixpoint continuation_frames (sid : N) (fr : framing) (frags : list bytes) : list frame :=
  match frags with
  | [] => []
  | [f] => [continuation_frame sid fr f true]
  | f :: r => continuation_frame sid fr f false :: continuation_frames sid fr r
  end.
(* HEADERS with the first fragment, CONTINUATION frames with the others; END_HEADERS on the last *)
Definition frames_of (sid : N) (fr : framing) (frags : list bytes) : list frame :=
  match frags with
  | [] => []
  | f0 :: rest => headers_frame sid fr f0 (match rest with [] => true | _ => false end)
                  :: continuation_frames sid fr rest
  end.

Definition framing_ok (fr : framing) (frags : list bytes) : bool :=
  match frags with [] => false | _ => true end
  && (blen (opt_bytes (fr_pad fr)) <? 256)
  && match fr_prio fr with Some q => blen q =? 5 | None => true end
  && (fr_extra_h fr <? 256) && (N.land (fr_extra_h fr) 44 =? 0)       (* not END_HEADERS/PADDED/PRIORITY *)
  && (fr_extra_c fr <? 256) && (N.land (fr_extra_c fr) 4 =? 0)
  && forallb (fun f => blen (f_payload f) <=? 16384) (frames_of 1 fr frags).

(* frames that may precede the block: anything a sender can emit that is not on the request stream and
   does not open another stream's header block (SETTINGS, WINDOW_UPDATE, PRIORITY, PING, ...) *)
Definition ctl_ok (sid : N) (rf : bool * frame) : bool :=
  wire_ok rf && negb (f_stream (snd rf) =? sid)
  && negb ((0 <? f_stream (snd rf)) && (f_type (snd rf) =? 1)).
(* frames after the block: anything on other streams *)
Definition trail_ok (sid : N) (rf : bool * frame) : bool :=
  wire_ok rf && negb (f_stream (snd rf) =? sid).

(* the bytes of a connection start carrying one header block *)
Definition connection_bytes (is_request : bool) (ctl : list (bool * frame)) (sid : N) (fr : framing)
           (frags : list bytes) (trail : list (bool * frame)) : bytes :=
  stream_start is_request (ctl ++ map (fun f => (fr_rsv fr, f)) (frames_of sid fr frags) ++ trail).

(* ================================================================ the expected report *)
(* RFC 7230 / 7540 8.1.2 vocabulary *)
Definition is_pseudo_name (n : bytes) : bool := match n with b :: _ => b2n b =? 58 | [] => false end.
Definition name_is (n : bytes) (h : header) : bool := bytes_eqb (fst h) n.
Definition value_of (n : bytes) (hs : list header) : option bytes := option_map snd (find (name_is n) hs).
Definition count_of (n : bytes) (hs : list header) : nat := length (filter (name_is n) hs).

(* optional whitespace (SP / HTAB) stripped on both sides *)
Definition is_ows (b : byte) : bool := (b2n b =? 32) || (b2n b =? 9).
Fixpoint drop_ows (l : bytes) : bytes := match l with b :: r => if is_ows b then drop_ows r else l | [] => [] end.
Definition strip_ows (l : bytes) : bytes := rev (drop_ows (rev (drop_ows l))).

Definition nonempty (v : bytes) : option bytes := match v with [] => None | _ => Some v end.

(* header fields with their position in the decoded list *)
Fixpoint number_from (hs : list header) (pos : N) : list (N * header) :=
  match hs with [] => [] | h :: r => (pos, h) :: number_from r (pos + 1) end.
Definition as_hhdr (ph : N * header) : hhdr :=
  {| h_name := fst (snd ph); h_value := nonempty (snd (snd ph)); h_pos := fst ph |}.

(* RFC 6265 4.2.1 / RFC 7540 8.1.2.5: cookie-pairs separated by ";" *)
Definition cookie_of_piece (piece : bytes) : option (bytes * option bytes) :=
  match strip_ows piece with
  | [] => None
  | cs => Some (match find_byte "="%byte cs with
                | Some (n, v) => (strip_ows n, Some (strip_ows v))
                | None => (cs, None)
                end)
  end.
Fixpoint opt_list {A} (l : list (option A)) : list A :=
  match l with [] => [] | Some x :: r => x :: opt_list r | None :: r => opt_list r end.
Fixpoint number_cookies (l : list (bytes * option bytes)) (pos : N) : list cookie :=
  match l with [] => [] | (n, v) :: r => {| c_name := n; c_value := v; c_pos := pos |} :: number_cookies r (pos + 1) end.
Definition spec_cookies (regular : list header) : list cookie :=
  number_cookies
    (opt_list (flat_map (fun h => map cookie_of_piece (split_on ";"%byte (snd h)))
                        (filter (fun h => negb (match snd h with [] => true | _ => false end))
                                (filter (name_is (bs "cookie")) regular)))) 0.

(* p0f-style signature: ver:horder:habsent:expsw with huginn-net-db's lists applied case-insensitively *)
Definition ci_in (n : bytes) (l : list bytes) : bool :=
  existsb (fun e => bytes_eqb (ascii_lower e) (ascii_lower n)) l.
Definition sig_item (optional skip : list bytes) (h : hhdr) : bytes :=
  if ci_in (h_name h) optional then bs "?" ++ h_name h
  else if ci_in (h_name h) skip then h_name h
  else match h_value h with Some v => h_name h ++ bs "=[" ++ v ++ bs "]" | None => h_name h end.
Definition spec_signature (is_request : bool) (hs : list hhdr) (sw : option bytes) : bytes :=
  let optional := if is_request then request_optional_headers else response_optional_headers in
  let skip := if is_request then request_skip_value_headers else response_skip_value_headers in
  let common := if is_request then request_common_headers else response_common_headers in
  bs "2:" ++ join (bs ",") (map (sig_item optional skip) hs) ++ bs ":"
  ++ join (bs ",") (filter (fun c => negb (ci_in c (map h_name hs))) common) ++ bs ":"
  ++ match sw with Some v => v | None => bs "???" end.

(* request: what must be reported for the header list hs *)
Definition spec_request (hs : list header) : option req_view :=
  match value_of (bs ":method") hs, value_of (bs ":path") hs with
  | Some m, Some p =>
      let regular := filter (fun ph => negb (is_pseudo_name (fst (snd ph)))) (number_from hs 0) in
      let plain := filter (fun ph => negb (name_is (bs "cookie") (snd ph)) && negb (name_is (bs "referer") (snd ph))) regular in
      let headers := map as_hhdr plain in
      let ua := match value_of (bs "user-agent") (map snd plain) with Some v => nonempty v | None => None end in
      Some {| v_method := m; v_path := p;
              v_authority := value_of (bs ":authority") hs; v_scheme := value_of (bs ":scheme") hs;
              v_headers := headers;
              v_cookies := spec_cookies (map snd regular);
              v_referer := match value_of (bs "referer") (map snd regular) with Some v => nonempty v | None => None end;
              v_user_agent := ua;
              v_accept_language := match value_of (bs "accept-language") (map snd plain) with Some v => nonempty v | None => None end;
              v_signature := spec_signature true headers ua |}
  | _, _ => None
  end.

(* response *)
Definition status_value (v : bytes) : option N :=
  match v with [a; b; c] => if all_digits v then Some (read_N_digits v) else None | _ => None end.
Definition spec_response (hs : list header) : option resp_view :=
  match value_of (bs ":status") hs with
  | Some sv =>
      match status_value sv with
      | Some st =>
          let regular := filter (fun ph => negb (is_pseudo_name (fst (snd ph)))) (number_from hs 0) in
          let headers := map as_hhdr regular in
          let server := match value_of (bs "server") (map snd regular) with Some v => nonempty v | None => None end in
          Some {| w_status := st; w_headers := headers; w_signature := spec_signature false headers server |}
      | None => None
      end
  | None => None
  end.

(* ---------------- header lists on which RFC 7540 8.1.2 / RFC 7230 pin the report ---------------- *)
(* field names: lowercase tokens; field values: visible ASCII, SP, HTAB *)
Definition name_char (b : byte) : bool :=
  let n := b2n b in
  (33 <=? n) && (n <=? 126) && negb ((65 <=? n) && (n <=? 90)) && negb (n =? 58) && negb (n =? 34) && negb (n =? 40)
  && negb (n =? 41) && negb (n =? 44) && negb (n =? 47) && negb (n =? 59) && negb (n =? 60) && negb (n =? 61)
  && negb (n =? 62) && negb (n =? 63) && negb (n =? 64) && negb (n =? 91) && negb (n =? 92) && negb (n =? 93)
  && negb (n =? 123) && negb (n =? 125).
Definition value_char (b : byte) : bool := let n := b2n b in ((32 <=? n) && (n <=? 126)) || (n =? 9).
Definition regular_ok (h : header) : bool :=
  negb (match fst h with [] => true | _ => false end) && forallb name_char (fst h) && forallb value_char (snd h).
Definition at_most_one (n : bytes) (hs : list header) : bool := Nat.leb (count_of n hs) 1.
Fixpoint pseudo_first (hs : list header) (seen_regular : bool) : bool :=
  match hs with
  | [] => true
  | h :: r => if is_pseudo_name (fst h) then negb seen_regular && pseudo_first r false
              else pseudo_first r true
  end.
Definition singletons (hs : list header) : bool :=
  at_most_one (bs "user-agent") hs && at_most_one (bs "accept-language") hs && at_most_one (bs "referer") hs
  && at_most_one (bs "server") hs.

Definition request_pseudo (n : bytes) : bool :=
  bytes_eqb n (bs ":method") || bytes_eqb n (bs ":path") || bytes_eqb n (bs ":authority") || bytes_eqb n (bs ":scheme").
Definition wf_request (hs : list header) : bool :=
  pseudo_first hs false
  && forallb (fun h => if is_pseudo_name (fst h) then request_pseudo (fst h) && forallb value_char (snd h) else regular_ok h) hs
  && at_most_one (bs ":method") hs && at_most_one (bs ":path") hs && at_most_one (bs ":authority") hs
  && at_most_one (bs ":scheme") hs && singletons hs
  && match value_of (bs ":method") hs, value_of (bs ":path") hs with Some (_ :: _), Some (_ :: _) => true | _, _ => false end.
Definition wf_response (hs : list header) : bool :=
  pseudo_first hs false
  && forallb (fun h => if is_pseudo_name (fst h) then bytes_eqb (fst h) (bs ":status") && forallb value_char (snd h)
                       else regular_ok h) hs
  && at_most_one (bs ":status") hs && singletons hs
  && match value_of (bs ":status") hs with Some v => is_some (status_value v) | None => false end.

(* ---------------- known deviations of the unchanged code (open findings) ---------------- *)
(* K1: the crate's static table has "accept-" at index 15 (RFC 7541: accept-charset) *)
Definition k_static15 (items : list item) : bool :=
  existsb (fun it => match it with IIndexed idx _ _ | ILitIdx _ idx _ _ _ => idx =? 15 | _ => false end) items.
