(* Algebra of the TtlCache model (Base/Cache.v). *)
From Coq Require Import List NArith Bool Lia.
From HN Require Import Base.Cache.
Import ListNotations.
Open Scope N_scope.

Lemma shorter_than_spec {A} (k : nat) : forall l : list A, shorter_than k l = (len_N l <? N.of_nat k).
Proof.
  unfold len_N. induction k as [|k IH]; intros l.
  - destruct l; cbn [shorter_than]; symmetry; apply N.ltb_ge; lia.
  - destruct l as [|x l]; cbn [shorter_than length].
    + symmetry. apply N.ltb_lt. lia.
    + rewrite IH. destruct (N.of_nat (length l) <? N.of_nat k) eqn:E; symmetry.
      * apply N.ltb_lt in E. apply N.ltb_lt. lia.
      * apply N.ltb_ge in E. apply N.ltb_ge. lia.
Qed.

Lemma frev_rev {A} (l : list A) : frev l = rev l.
Proof. unfold frev. symmetry. apply rev_alt. Qed.

Section CacheProofs.
  Context {K V : Type}.
  Variable keqb : K -> K -> bool.
  Hypothesis keqb_eq : forall a b, keqb a b = true <-> a = b.

  Lemma keqb_refl a : keqb a a = true.
  Proof. now apply keqb_eq. Qed.
  Lemma keqb_neq a b : a <> b -> keqb a b = false.
  Proof. intros H. destruct (keqb a b) eqn:E; [apply keqb_eq in E; contradiction | reflexivity]. Qed.

  Lemma get_remove_same (es : list (K * V)) k : assoc_get keqb (assoc_remove keqb es k) k = None.
  Proof.
    induction es as [|[k' v] es IH]; cbn; [reflexivity|].
    destruct (keqb k' k) eqn:E; [exact IH|]. cbn. now rewrite E.
  Qed.
  Lemma get_remove_other (es : list (K * V)) k k' :
    k <> k' -> assoc_get keqb (assoc_remove keqb es k) k' = assoc_get keqb es k'.
  Proof.
    intros N. induction es as [|[k0 v] es IH]; cbn; [reflexivity|].
    destruct (keqb k0 k) eqn:E.
    - apply keqb_eq in E. subst k0. rewrite (keqb_neq _ _ N). exact IH.
    - cbn. destruct (keqb k0 k'); [reflexivity | exact IH].
  Qed.
  Lemma remove_absent (es : list (K * V)) k : assoc_get keqb es k = None -> assoc_remove keqb es k = es.
  Proof.
    induction es as [|[k0 v] es IH]; cbn; [reflexivity|].
    destruct (keqb k0 k); [discriminate|]. intros H. now rewrite IH.
  Qed.
  Lemma get_update_same (es : list (K * V)) k v v0 :
    assoc_get keqb es k = Some v0 -> assoc_get keqb (assoc_update keqb es k v) k = Some v.
  Proof.
    induction es as [|[k0 w] es IH]; cbn; [discriminate|].
    destruct (keqb k0 k) eqn:E; cbn; rewrite E; [reflexivity | exact IH].
  Qed.
  Lemma get_update_other (es : list (K * V)) k k' v :
    k <> k' -> assoc_get keqb (assoc_update keqb es k v) k' = assoc_get keqb es k'.
  Proof.
    intros N. induction es as [|[k0 w] es IH]; cbn; [reflexivity|].
    destruct (keqb k0 k) eqn:E; cbn.
    - apply keqb_eq in E. subst k0. now rewrite (keqb_neq _ _ N).
    - destruct (keqb k0 k'); [reflexivity | exact IH].
  Qed.
  Lemma get_app_last (es : list (K * V)) k v k' :
    assoc_get keqb (es ++ [(k, v)]) k' =
    match assoc_get keqb es k' with Some x => Some x | None => if keqb k k' then Some v else None end.
  Proof.
    induction es as [|[k0 w] es IH]; cbn; [reflexivity|].
    destruct (keqb k0 k'); [reflexivity | exact IH].
  Qed.
  Lemma length_remove (es : list (K * V)) k : (length (assoc_remove keqb es k) <= length es)%nat.
  Proof. induction es as [|[k0 w] es IH]; cbn; [lia|]. destruct (keqb k0 k); cbn; lia. Qed.
  Lemma length_update (es : list (K * V)) k v : length (assoc_update keqb es k v) = length es.
  Proof. induction es as [|[k0 w] es IH]; cbn; [reflexivity|]. destruct (keqb k0 k); cbn; congruence. Qed.
  Lemma keys_remove (es : list (K * V)) k k0 v0 : In (k0, v0) (assoc_remove keqb es k) -> In (k0, v0) es.
  Proof.
    induction es as [|[k1 w] es IH]; cbn; [tauto|].
    destruct (keqb k1 k); cbn; intuition.
  Qed.
  Lemma keys_update (es : list (K * V)) k v k0 v0 :
    In (k0, v0) (assoc_update keqb es k v) -> exists v1, In (k0, v1) es.
  Proof.
    induction es as [|[k1 w] es IH]; cbn; [tauto|].
    destruct (keqb k1 k) eqn:E; cbn.
    - intros [H|H]; [inversion H; subst; eexists; left; reflexivity | eexists; right; exact H].
    - intros [H|H]; [eexists; left; exact H | destruct (IH H) as [v1 H1]; eexists; right; exact H1].
  Qed.

  (* ---- cache level ---- *)
  Lemma cache_remove_absent (c : cache K V) k : cache_get keqb c k = None -> cache_remove keqb c k = c.
  Proof. destruct c as [cap es]. unfold cache_get, cache_remove. cbn. intros H. now rewrite remove_absent. Qed.

  (* the capacity bound, for every operation *)
  Definition within (c : cache K V) : Prop := cache_len c <= c_cap c.
  Lemma within_new cap : within (cache_new cap).
  Proof. unfold within, cache_len, len_N. cbn. lia. Qed.
  Lemma within_remove c k : within c -> within (cache_remove keqb c k).
  Proof. unfold within, cache_len, cache_remove, len_N. cbn. pose proof (length_remove (c_entries c) k). lia. Qed.
  Lemma within_update c k v : within c -> within (cache_update keqb c k v).
  Proof. unfold within, cache_len, cache_update, len_N. cbn. now rewrite length_update. Qed.
  Lemma within_insert c k v : within c -> within (cache_insert keqb c k v).
  Proof.
    unfold within, cache_len, cache_insert, len_N. cbn. intros H.
    pose proof (length_remove (c_entries c) k) as L.
    destruct (c_cap c <? N.of_nat (length (assoc_remove keqb (c_entries c) k ++ [(k, v)]))) eqn:E.
    - rewrite app_length in *. cbn in *.
      destruct (assoc_remove keqb (c_entries c) k ++ [(k, v)]) eqn:E2.
      + cbn. lia.
      + cbn. assert (length (p :: l) = (length (assoc_remove keqb (c_entries c) k) + 1)%nat) by (rewrite <- E2, app_length; reflexivity).
        cbn in H0. lia.
    - apply N.ltb_ge in E. exact E.
  Qed.
  Lemma cap_remove (c : cache K V) k : c_cap (cache_remove keqb c k) = c_cap c. Proof. reflexivity. Qed.
  Lemma cap_update (c : cache K V) k v : c_cap (cache_update keqb c k v) = c_cap c. Proof. reflexivity. Qed.
  Lemma cap_insert (c : cache K V) k v : c_cap (cache_insert keqb c k v) = c_cap c. Proof. reflexivity. Qed.

  (* insert without eviction *)
  Lemma insert_no_evict (c : cache K V) k v :
    N.of_nat (length (c_entries c)) + 1 <= c_cap c ->
    c_entries (cache_insert keqb c k v) = assoc_remove keqb (c_entries c) k ++ [(k, v)].
  Proof.
    intros H. unfold cache_insert, len_N. cbn.
    pose proof (length_remove (c_entries c) k) as L.
    destruct (c_cap c <? _) eqn:E; [|reflexivity].
    apply N.ltb_lt in E. rewrite app_length in E. cbn in E. lia.
  Qed.
End CacheProofs.
