(* The two frame models agree.  Model/Pnet.v (N offsets; used by the C03 extraction model and by the
   packet-level analyzers Model/TlsAnalyzer.v, Model/TcpAnalyzer.v) and Model/RawFrame.v (nat offsets;
   used by the C15/C18 filter and dispatch-hash work) transcribe the same packet_parser.rs and the same
   pnet views independently.  Proved here: same framing decision, same IP payload, same header fields;
   hence the flow key of the TLS analyzer model and the tracker key of the TCP analyzer model are
   functions of the endpoints that RawFrame.analyzer_endpoints reports (the identity C18 is stated on). *)
From Coq Require Import List NArith ZArith Bool Arith Lia.
From Coq Require Import Strings.Byte.
From HN Require Import Base.Bytes Model.Filter Model.RawFrame Proofs.RawFrameProofs.
From HN Require Model.Pnet Model.TlsAnalyzer Model.TcpAnalyzer Model.Uptime.
Import ListNotations.
Open Scope N_scope.

(* ------------------------------------------------------------------ bytes and lists *)
Definition pb (l : bytes) (i : nat) : N := b2n (nth i l x00).

Lemma pb_lt l i : pb l i < 256.
Proof. apply b2n_lt. Qed.

Lemma pbyte_at l i : Pnet.byte_at l (N.of_nat i) = pb l i.
Proof. unfold Pnet.byte_at, pb. now rewrite Nat2N.id. Qed.
Lemma rbyte_at l i : byte_at l i = pb l i.
Proof. reflexivity. Qed.

Lemma pbe16_at l i : Pnet.be16_at l (N.of_nat i) = pb l i * 256 + pb l (S i).
Proof.
  unfold Pnet.be16_at. rewrite pbyte_at. replace (N.of_nat i + 1) with (N.of_nat (S i)) by lia.
  now rewrite pbyte_at.
Qed.
Lemma ru16_at l i : u16_at l i = pb l i * 256 + pb l (S i).
Proof. reflexivity. Qed.
Lemma be16_u16 l i : Pnet.be16_at l (N.of_nat i) = u16_at l i.
Proof. now rewrite pbe16_at, ru16_at. Qed.

Lemma pbe32_at l i :
  Pnet.be32_at l (N.of_nat i) = (pb l i * 256 + pb l (S i)) * 65536 + (pb l (S (S i)) * 256 + pb l (S (S (S i)))).
Proof.
  unfold Pnet.be32_at. rewrite pbe16_at. replace (N.of_nat i + 2) with (N.of_nat (S (S i))) by lia.
  now rewrite pbe16_at.
Qed.

Lemma slice_snoc f s n : (s + S n <= length f)%nat -> slice f s (S n) = slice f s n ++ [nth (s + n) f x00].
Proof.
  unfold slice. intro H. rewrite <- (nth_skipn_add s n f x00).
  assert (L : (S n <= length (skipn s f))%nat) by (rewrite skipn_length; lia).
  generalize dependent (skipn s f). clear. intros l. revert l. induction n as [|n IH]; intros l L.
  - destruct l as [|x l]; [cbn in L; lia | reflexivity].
  - destruct l as [|x l]; [cbn in L; lia|]. cbn [firstn nth app]. f_equal. apply IH. cbn in L. lia.
Qed.

Lemma be_N_slice4 f s : (s + 4 <= length f)%nat ->
  be_N (slice f s 4) = (pb f s * 256 + pb f (S s)) * 65536 + (pb f (S (S s)) * 256 + pb f (S (S (S s)))).
Proof.
  intro H. rewrite (slice_snoc f s 3) by lia. rewrite (slice_snoc f s 2) by lia.
  rewrite (slice_snoc f s 1) by lia. rewrite (slice_snoc f s 0) by lia.
  rewrite !be_N_app. unfold slice. cbn [firstn app]. unfold be_N. cbn [fold_left]. unfold pb.
  replace (s + 0)%nat with s by lia. replace (s + 1)%nat with (S s) by lia.
  replace (s + 2)%nat with (S (S s)) by lia. replace (s + 3)%nat with (S (S (S s))) by lia. lia.
Qed.
Lemma be32_slice f s : (s + 4 <= length f)%nat -> Pnet.be32_at f (N.of_nat s) = be_N (slice f s 4).
Proof. intro H. now rewrite pbe32_at, be_N_slice4. Qed.

Lemma be_N_append a b : be_N (a ++ b) = be_N a * 256 ^ N.of_nat (length b) + be_N b.
Proof.
  induction b as [|x b IH] using rev_ind.
  - rewrite app_nil_r. cbn. lia.
  - rewrite app_assoc, !be_N_app, IH, app_length, Nat.add_1_r, Nat2N.inj_succ, N.pow_succ_r'. lia.
Qed.
Lemma slice_add f s a b : slice f s (a + b) = slice f s a ++ slice f (s + a) b.
Proof.
  unfold slice. rewrite <- (skipn_add a s f). generalize (skipn s f). clear. intro l. revert l.
  induction a as [|a IH]; intro l; [reflexivity|].
  destruct l as [|x l]; cbn [plus firstn skipn app]; [now rewrite firstn_nil | f_equal; apply IH].
Qed.
Lemma slice_len f s n : (s + n <= length f)%nat -> length (slice f s n) = n.
Proof. intros H. unfold slice. rewrite firstn_length, skipn_length. lia. Qed.
Lemma be_N_slice16 f s : (s + 16 <= length f)%nat ->
  be_N (slice f s 16) =
  ((be_N (slice f s 4) * 4294967296 + be_N (slice f (s + 4) 4)) * 4294967296 + be_N (slice f (s + 8) 4)) * 4294967296
  + be_N (slice f (s + 12) 4).
Proof.
  intro H. change 16%nat with (4 + (4 + (4 + 4)))%nat. rewrite !slice_add, !be_N_append, !app_length.
  rewrite !slice_len by lia. replace (s + 4 + 4)%nat with (s + 8)%nat by lia.
  replace (s + 8 + 4)%nat with (s + 12)%nat by lia.
  change (N.of_nat 4) with 4. change (N.of_nat (4 + 4)) with 8. change (N.of_nat (4 + (4 + 4))) with 12.
  change (256 ^ 4) with 4294967296. change (256 ^ 8) with 18446744073709551616.
  change (256 ^ 12) with 79228162514264337593543950336. lia.
Qed.

(* ------------------------------------------------------------------ comparisons N / nat *)
Lemma blen_ltb f (k : N) : (Pnet.blen f <? k) = (length f <? N.to_nat k)%nat.
Proof.
  unfold Pnet.blen. destruct (length f <? N.to_nat k)%nat eqn:E.
  - apply Nat.ltb_lt in E. apply N.ltb_lt. lia.
  - apply Nat.ltb_ge in E. apply N.ltb_ge. lia.
Qed.
Lemma blen_leb f (k : N) : (k <=? Pnet.blen f) = (N.to_nat k <=? length f)%nat.
Proof.
  unfold Pnet.blen. destruct (N.to_nat k <=? length f)%nat eqn:E.
  - apply Nat.leb_le in E. apply N.leb_le. lia.
  - apply Nat.leb_gt in E. apply N.leb_gt. lia.
Qed.
Lemma drop_skipn f (k : N) : Pnet.drop f k = skipn (N.to_nat k) f.
Proof. reflexivity. Qed.
Lemma tn4 : N.to_nat 4 = 4%nat. Proof. reflexivity. Qed.
Lemma tn14 : N.to_nat 14 = 14%nat. Proof. reflexivity. Qed.
Lemma tn20 : N.to_nat 20 = 20%nat. Proof. reflexivity. Qed.
Lemma tn24 : N.to_nat 24 = 24%nat. Proof. reflexivity. Qed.
Lemma tn40 : N.to_nat 40 = 40%nat. Proof. reflexivity. Qed.
Ltac lits := rewrite ?tn4, ?tn14, ?tn20, ?tn24, ?tn40.

(* ------------------------------------------------------------------ packet_parser.rs *)
Definition conv (o : option ipview) : option Pnet.ip_packet :=
  match o with Some (View4 ip) => Some (Pnet.Ipv4 ip) | Some (View6 ip) => Some (Pnet.Ipv6 ip) | None => None end.

Lemma version_bridge f : Pnet.byte_at f 0 / 16 = version_of f.
Proof. reflexivity. Qed.

Lemma eth_bridge f : Pnet.try_ethernet f = conv (try_ethernet_format f).
Proof.
  unfold Pnet.try_ethernet, try_ethernet_format, Pnet.ipv4_min, Pnet.ipv6_min.
  rewrite !blen_ltb, !drop_skipn, !blen_leb. lits.
  change (Pnet.be16_at f 12) with (ethertype f).
  destruct (length f <? 14)%nat; [reflexivity|]. unfold ET_IPV4, ET_IPV6.
  destruct (ethertype f =? 2048); [destruct (20 <=? length (skipn 14 f))%nat; reflexivity|].
  destruct (ethertype f =? 34525); [destruct (40 <=? length (skipn 14 f))%nat; reflexivity|reflexivity].
Qed.
Lemma raw_bridge f : Pnet.try_raw_ip f = conv (try_raw_ip_format f).
Proof.
  unfold Pnet.try_raw_ip, try_raw_ip_format, Pnet.ipv4_min, Pnet.ipv6_min.
  rewrite !blen_ltb, !blen_leb, version_bridge. lits.
  destruct (length f <? 20)%nat eqn:E; [reflexivity|]. apply Nat.ltb_ge in E.
  destruct (version_of f =? 4).
  - destruct (20 <=? length f)%nat eqn:E2; [reflexivity | apply Nat.leb_gt in E2; lia].
  - destruct (version_of f =? 6); [destruct (40 <=? length f)%nat; reflexivity | reflexivity].
Qed.
Lemma null_bridge f : Pnet.try_null f = conv (try_null_format f).
Proof.
  unfold Pnet.try_null, try_null_format, Pnet.ipv4_min, Pnet.ipv6_min.
  rewrite !blen_ltb, !drop_skipn, !blen_leb, version_bridge. lits.
  change (Pnet.byte_at f 0) with (byte_at f 0). change (Pnet.byte_at f 1) with (byte_at f 1).
  destruct (length f <? 24)%nat eqn:E; [reflexivity|]. apply Nat.ltb_ge in E. cbn [orb].
  destruct (negb (byte_at f 0 =? 30) || negb (byte_at f 1 =? 0)); [reflexivity|].
  destruct (version_of (skipn 4 f) =? 4).
  - destruct (20 <=? length (skipn 4 f))%nat eqn:E2; [reflexivity|].
    apply Nat.leb_gt in E2. rewrite skipn_length in E2. lia.
  - destruct (version_of (skipn 4 f) =? 6); [destruct (40 <=? length (skipn 4 f))%nat; reflexivity | reflexivity].
Qed.

Theorem parse_bridge f :
  Pnet.parse_packet f =
  match parse_packet f with
  | Some (_, View4 ip) => Pnet.Ipv4 ip
  | Some (_, View6 ip) => Pnet.Ipv6 ip
  | None => Pnet.NoIp
  end.
Proof.
  unfold Pnet.parse_packet, parse_packet. rewrite eth_bridge, raw_bridge, null_bridge.
  destruct (try_ethernet_format f) as [[ip|ip]|]; cbn [conv]; try reflexivity.
  destruct (try_raw_ip_format f) as [[ip|ip]|]; cbn [conv]; try reflexivity.
  destruct (try_null_format f) as [[ip|ip]|]; reflexivity.
Qed.

(* ------------------------------------------------------------------ pnet payload() *)
Lemma pslice_range l a b : Pnet.slice l (N.of_nat a) (N.of_nat b) = range l a b.
Proof.
  unfold Pnet.slice, range. rewrite Nat2N.id. f_equal. lia.
Qed.

Theorem v4_payload_bridge ip : Pnet.v4_payload ip = ipv4_payload ip.
Proof.
  unfold Pnet.v4_payload, Pnet.payload_bounded, ipv4_payload, Pnet.ipv4_options_length,
         Pnet.ipv4_payload_length, Pnet.sat_sub, Pnet.v4_header_length, Pnet.v4_total_length, ihl_of.
  change (Pnet.byte_at ip 0) with (byte_at ip 0). change (Pnet.be16_at ip 2) with (u16_at ip 2).
  set (h := byte_at ip 0 mod 16). set (t := u16_at ip 2).
  set (start := (20 + (4 * N.to_nat h - 20))%nat).
  set (plen := (N.to_nat t - 4 * N.to_nat h)%nat).
  replace (20 + (h * 4 - 20)) with (N.of_nat start) by (unfold start; lia).
  replace (t - h * 4) with (N.of_nat plen) by (unfold plen; lia).
  unfold Pnet.blen.
  assert (E : (N.of_nat (length ip) <=? N.of_nat start) = (length ip <=? start)%nat).
  { destruct (length ip <=? start)%nat eqn:E1; [apply Nat.leb_le in E1; apply N.leb_le; lia
                                                | apply Nat.leb_gt in E1; apply N.leb_gt; lia]. }
  rewrite E. destruct (length ip <=? start)%nat; [reflexivity|].
  replace (N.min (N.of_nat start + N.of_nat plen) (N.of_nat (length ip)))
    with (N.of_nat (Nat.min (start + plen) (length ip))) by lia.
  apply pslice_range.
Qed.

Theorem v6_payload_bridge ip : Pnet.v6_payload ip = ipv6_payload ip.
Proof.
  unfold Pnet.v6_payload, Pnet.payload_bounded, ipv6_payload, Pnet.v6_payload_length.
  change (Pnet.be16_at ip 4) with (u16_at ip 4). set (t := u16_at ip 4). unfold Pnet.blen.
  assert (E : (N.of_nat (length ip) <=? 40) = (length ip <=? 40)%nat).
  { destruct (length ip <=? 40)%nat eqn:E1; [apply Nat.leb_le in E1; apply N.leb_le; lia
                                             | apply Nat.leb_gt in E1; apply N.leb_gt; lia]. }
  rewrite E. destruct (length ip <=? 40)%nat; [reflexivity|].
  replace (N.min (40 + t) (N.of_nat (length ip))) with (N.of_nat (Nat.min (40 + N.to_nat t) (length ip))) by lia.
  apply (pslice_range ip 40).
Qed.

(* ------------------------------------------------------------------ endpoints as numbers *)
Definition ip_fam (a : ip) : N := match a with V4 _ => 4 | V6 _ => 6 end.
Definition ip_val (a : ip) : N := match a with V4 x => x | V6 x => x end.

(* what analyzer_endpoints can return: both addresses of one family, values in range *)
Definition wf_endpoints (e : endpoints) : Prop :=
  ((exists a b, e_src e = V4 a /\ e_dst e = V4 b /\ a < 4294967296 /\ b < 4294967296) \/
   (exists a b, e_src e = V6 a /\ e_dst e = V6 b /\ a < TlsAnalyzer.P128 /\ b < TlsAnalyzer.P128))
  /\ e_sport e < 65536 /\ e_dport e < 65536.

Lemma u16_at_lt l i : u16_at l i < 65536.
Proof. rewrite ru16_at. pose proof (pb_lt l i). pose proof (pb_lt l (S i)). lia. Qed.

Lemma view_endpoints_wf v e : view_endpoints v = Some e -> wf_endpoints e.
Proof.
  destruct v as [ip|ip]; cbn [view_endpoints].
  - destruct (negb (byte_at ip 9 =? 6)); [discriminate|].
    destruct (length (ipv4_payload ip) <? 20)%nat; [discriminate|].
    intros H; injection H as <-. unfold wf_endpoints. cbn [e_src e_dst e_sport e_dport].
    split; [|split; apply u16_at_lt]. left. unfold v4_at. do 2 eexists. split; [reflexivity|]. split; [reflexivity|].
    split; apply (be_N_slice_bound _ _ 4).
  - destruct (negb (byte_at ip 6 =? 6)); [discriminate|].
    destruct (length (ipv6_payload ip) <? 20)%nat; [discriminate|].
    intros H; injection H as <-. unfold wf_endpoints. cbn [e_src e_dst e_sport e_dport].
    split; [|split; apply u16_at_lt]. right. unfold v6_at. do 2 eexists. split; [reflexivity|]. split; [reflexivity|].
    split; apply (be_N_slice_bound _ _ 16).
Qed.
Lemma analyzer_endpoints_wf f e : analyzer_endpoints f = Some e -> wf_endpoints e.
Proof.
  unfold analyzer_endpoints. destruct (parse_packet f) as [[l v]|]; [|discriminate]. apply view_endpoints_wf.
Qed.

Ltac rw_lit L := let E := fresh "E" in pose proof L as E; cbn [N.of_nat Pos.of_succ_nat Pos.succ] in E; rewrite E; clear E.

(* ------------------------------------------------------------------ TLS: the flow key *)
Definition tls_enc (e : endpoints) : N :=
  TlsAnalyzer.tls_flow_key (ip_fam (e_src e)) (ip_val (e_src e)) (ip_val (e_dst e)) (e_sport e) (e_dport e).

Lemma tls_enc_inj e e' : wf_endpoints e -> wf_endpoints e' -> tls_enc e = tls_enc e' -> e = e'.
Proof.
  intros [F [S1 D1]] [F' [S2 D2]] H. unfold tls_enc in H.
  destruct e as [s d sp dp], e' as [s' d' sp' dp']. cbn [e_src e_dst e_sport e_dport] in *.
  assert (B : forall x y, ((exists a b, x = V4 a /\ y = V4 b /\ a < 4294967296 /\ b < 4294967296) \/
                           (exists a b, x = V6 a /\ y = V6 b /\ a < TlsAnalyzer.P128 /\ b < TlsAnalyzer.P128)) ->
              ip_val x < TlsAnalyzer.P128 /\ ip_val y < TlsAnalyzer.P128 /\ ip_fam x = ip_fam y).
  { intros x y [(a & b & -> & -> & Ha & Hb)|(a & b & -> & -> & Ha & Hb)]; cbn [ip_val ip_fam];
      unfold TlsAnalyzer.P128 in *; repeat split; lia. }
  destruct (B _ _ F) as (B1 & B2 & B3). destruct (B _ _ F') as (B1' & B2' & B3').
  unfold TlsAnalyzer.tls_flow_key, TlsAnalyzer.P128 in *.
  assert (E : ip_fam s = ip_fam s' /\ ip_val s = ip_val s' /\ ip_val d = ip_val d' /\ sp = sp' /\ dp = dp') by lia.
  destruct E as (E1 & E2 & E3 & -> & ->).
  assert (Hs : s = s') by (destruct s, s'; cbn in *; try discriminate; congruence).
  assert (Hd : d = d').
  { rewrite B3, B3' in E1. destruct d, d'; cbn in *; try discriminate; congruence. }
  now subst.
Qed.

Lemma v6_addr_slice p s : (s + 16 <= length p)%nat -> TlsAnalyzer.v6_addr p (N.of_nat s) = be_N (slice p s 16).
Proof.
  intro H. unfold TlsAnalyzer.v6_addr, TlsAnalyzer.P32. rewrite be_N_slice16 by exact H.
  replace (N.of_nat s + 4) with (N.of_nat (s + 4)) by lia.
  replace (N.of_nat s + 8) with (N.of_nat (s + 8)) by lia.
  replace (N.of_nat s + 12) with (N.of_nat (s + 12)) by lia.
  rewrite !be32_slice by lia. reflexivity.
Qed.

Theorem tls_class_bridge f e :
  analyzer_endpoints f = Some e ->
  exists g, TlsAnalyzer.tls_frame_class f = TlsAnalyzer.CSeg g /\ TlsAnalyzer.g_key g = tls_enc e.
Proof.
  unfold analyzer_endpoints, TlsAnalyzer.tls_frame_class. rewrite parse_bridge.
  destruct (parse_packet f) as [[l [ip|ip]]|]; [| |discriminate]; intro Hv.
  - pose proof (view4_long _ _ Hv) as Hl. revert Hv. cbn [view_endpoints].
    unfold TlsAnalyzer.classify4, Pnet.v4_protocol, Pnet.tcp_min. rewrite v4_payload_bridge.
    change (Pnet.byte_at ip 9) with (byte_at ip 9).
    destruct (negb (byte_at ip 9 =? 6)); [discriminate|].
    rewrite blen_ltb. lits.
    destruct (length (ipv4_payload ip) <? 20)%nat; [discriminate|].
    intros H; injection H as <-. eexists. split; [reflexivity|].
    cbn [TlsAnalyzer.g_key]. unfold tls_enc. cbn [e_src e_dst e_sport e_dport ip_fam ip_val v4_at].
    unfold TlsAnalyzer.v4_addr.
    assert (H12 : (12 + 4 <= length ip)%nat) by lia. assert (H16 : (16 + 4 <= length ip)%nat) by lia.
    rw_lit (be32_slice ip 12 H12). rw_lit (be32_slice ip 16 H16).
    rw_lit (be16_u16 (ipv4_payload ip) 0). rw_lit (be16_u16 (ipv4_payload ip) 2). reflexivity.
  - pose proof (view6_long _ _ Hv) as Hl. revert Hv. cbn [view_endpoints].
    unfold TlsAnalyzer.classify6, Pnet.v6_next_header, Pnet.tcp_min. rewrite v6_payload_bridge.
    change (Pnet.byte_at ip 6) with (byte_at ip 6).
    destruct (negb (byte_at ip 6 =? 6)); [discriminate|].
    rewrite blen_ltb. lits.
    destruct (length (ipv6_payload ip) <? 20)%nat; [discriminate|].
    intros H; injection H as <-. eexists. split; [reflexivity|].
    cbn [TlsAnalyzer.g_key]. unfold tls_enc. cbn [e_src e_dst e_sport e_dport ip_fam ip_val v6_at].
    assert (H8 : (8 + 16 <= length ip)%nat) by lia. assert (H24 : (24 + 16 <= length ip)%nat) by lia.
    rw_lit (v6_addr_slice ip 8 H8). rw_lit (v6_addr_slice ip 24 H24).
    rw_lit (be16_u16 (ipv6_payload ip) 0). rw_lit (be16_u16 (ipv6_payload ip) 2). reflexivity.
Qed.

(* equal flow keys = equal analyzer-reported directed 4-tuples *)
Theorem tls_key_identity p q e e' :
  analyzer_endpoints p = Some e -> analyzer_endpoints q = Some e' ->
  (TlsAnalyzer.tls_key p = TlsAnalyzer.tls_key q <-> e = e').
Proof.
  intros Hp Hq. destruct (tls_class_bridge p e Hp) as (g & Cg & Kg). destruct (tls_class_bridge q e' Hq) as (g' & Cg' & Kg').
  unfold TlsAnalyzer.tls_key. rewrite Cg, Cg', Kg, Kg'. split; [|now intros ->].
  apply tls_enc_inj; eapply analyzer_endpoints_wf; eassumption.
Qed.

(* ------------------------------------------------------------------ TCP: the tracker key's source address *)
Definition zenc (a : ip) : Z := match a with V4 x => Z.of_N x | V6 x => Z.of_N (TcpAnalyzer.TP128 + x) end.

Lemma zenc_inj a b : (forall x, a = V4 x -> x < 4294967296) -> (forall x, b = V4 x -> x < 4294967296) ->
  zenc a = zenc b -> a = b.
Proof.
  destruct a as [x|x], b as [y|y]; cbn [zenc]; unfold TcpAnalyzer.TP128; intros Ha Hb H.
  - f_equal. lia.
  - specialize (Ha x eq_refl). lia.
  - specialize (Hb y eq_refl). lia.
  - f_equal. lia.
Qed.

Theorem tcp_seg_bridge f e :
  analyzer_endpoints f = Some e ->
  exists q, TcpAnalyzer.frame_segment f = Some q /\ Uptime.src_ip (TcpAnalyzer.q_conn q) = zenc (e_src e).
Proof.
  unfold analyzer_endpoints, TcpAnalyzer.frame_segment. rewrite parse_bridge.
  destruct (parse_packet f) as [[l [ip|ip]]|]; [| |discriminate]; intro Hv.
  - pose proof (view4_long _ _ Hv) as Hl. revert Hv. cbn [view_endpoints].
    destruct (negb (byte_at ip 9 =? 6)); [discriminate|].
    destruct (length (ipv4_payload ip) <? 20)%nat; [discriminate|].
    intros H; injection H as <-. eexists. split; [reflexivity|].
    cbn [TcpAnalyzer.seg_of TcpAnalyzer.q_conn Uptime.src_ip e_src zenc v4_at].
    unfold TcpAnalyzer.addr4. assert (H12 : (12 + 4 <= length ip)%nat) by lia.
    rw_lit (be32_slice ip 12 H12). reflexivity.
  - pose proof (view6_long _ _ Hv) as Hl. revert Hv. cbn [view_endpoints].
    destruct (negb (byte_at ip 6 =? 6)); [discriminate|].
    destruct (length (ipv6_payload ip) <? 20)%nat; [discriminate|].
    intros H; injection H as <-. eexists. split; [reflexivity|].
    cbn [TcpAnalyzer.seg_of TcpAnalyzer.q_conn Uptime.src_ip e_src zenc v6_at].
    unfold TcpAnalyzer.addr6. f_equal. f_equal.
    assert (H8 : (8 + 16 <= length ip)%nat) by lia.
    pose proof (v6_addr_slice ip 8 H8) as A. cbn [N.of_nat Pos.of_succ_nat Pos.succ] in A.
    unfold TlsAnalyzer.v6_addr, TlsAnalyzer.P32 in A. unfold TcpAnalyzer.TP32. exact A.
Qed.
