(* Side condition of C12 on the bundled database, computed on the file as it is now (Gen/Bundled.v):
   in no bundled HTTP signature does the name of an optional header recur later in its list
   (Spec.InstanceSpec.http_sig_wf_b / opt_fresh).  Kept out of the C06 closure on purpose: it depends on C12's
   specification file. *)
From Coq Require Import List NArith Bool.
From HN Require Import Base.Bytes Model.SigAst Model.DbLoad Gen.Bundled Spec.BundledSpec Spec.InstanceSpec.
Import ListNotations.

(* the HTTP signature values the loader model reads from the bundled file, request table then response table *)
Definition bundled_http_sig_values : list http_sig :=
  flat_map snd (db_http_request bundled_db) ++ flat_map snd (db_http_response bundled_db).

Lemma bundled_http_sigs_opt_fresh :
  forallb http_sig_wf_b bundled_http_sig_values = true /\ length bundled_http_sig_values = 99%nat.
Proof. vm_compute. split; reflexivity. Qed.
