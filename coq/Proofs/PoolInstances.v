(* C10 / C08, concrete instances: the worker pools of the real TLS and TCP analyzers.
   Part 1 (generic): a pool whose workers run a CONCRETE machine that simulates a keyed machine
     (Proofs/KeyedInstances.v Section Sim) and whose dispatcher uses a packet-level function `wk`
     that agrees on equal keys, is simulated by the abstract pool of Base/Keyed.v; hence
     pool_refines_seq / pool_outputs_permutation hold for it.
   Part 2: the dispatch hash is a function of the analyzer's key (Proofs/FrameBridge.v + C18 affinity).
   Part 3: TLS pool = sequential TLS analyzer; per-worker clause of C08.
   Part 4: TCP pool = sequential TCP analyzer (key (connection, role); the source-address shard is a
     function of it). *)
From Coq Require Import List NArith ZArith Bool Lia Permutation.
From Coq Require Import Strings.Byte.
From HN Require Import Base.Bytes Base.Keyed Proofs.KeyedProofs Proofs.KeyedInstances
                       Model.Filter Model.RawFrame Model.Hash Spec.HashSpec Proofs.HashProofs Proofs.FrameBridge
                       Model.TlsHello Model.Ja4 Model.TlsReader Model.TlsAnalyzer Model.PoolConcrete
                       Spec.ReaderSpec Proofs.ReaderProofs.
From HN Require Model.TcpAnalyzer Model.Uptime Proofs.KeyedInstancesTcp Proofs.UptimeTrackProofs Model.TcpExtract.
Import ListNotations.
Open Scope N_scope.

(* ================================================================== Part 1: generic *)
Section PoolSim.
  Variables (P K S O C : Type).
  Variable key : P -> K.
  Variable keqb : K -> K -> bool.
  Hypothesis keqb_eq : forall a b, keqb a b = true <-> a = b.
  Variable lstep : option S -> P -> option S * list O.
  Variable cstep : C -> P -> C * list O.
  Variable abs : C -> K -> option S.
  Variable fits : C -> P -> bool.
  Hypothesis sim : forall c p, fits c p = true ->
    snd (cstep c p) = snd (lstep (abs c (key p)) p) /\
    forall k, abs (fst (cstep c p)) k = Keyed.upd K S keqb (abs c) (key p) (fst (lstep (abs c (key p)) p)) k.
  Variable wk : P -> nat.

  Notation cpst := (cpst P K O C).
  Notation cpstep := (cpstep P K O C key cstep wk).
  Notation cinit := (cinit P K O C).
  Notation cpwithinb := (cpwithinb P K O C key cstep wk fits).
  Notation pst := (Keyed.pst P K S O).

  (* a shard function of the KEY, read off the trace: the worker of the first packet with that key *)
  Definition shard_of (tr : list P) (k : K) : nat :=
    match find (fun p => keqb (key p) k) tr with Some p => wk p | None => 0%nat end.
  Definition key_consistent (tr : list P) : Prop :=
    forall p q, In p tr -> In q tr -> key p = key q -> wk p = wk q.

  Lemma shard_of_spec tr : key_consistent tr -> forall p, In p tr -> shard_of tr (key p) = wk p.
  Proof.
    intros Hc p Hp. unfold shard_of.
    destruct (find (fun p0 => keqb (key p0) (key p)) tr) as [p'|] eqn:F.
    - apply find_some in F. destruct F as [Hin Hk]. apply keqb_eq in Hk. now apply Hc.
    - exfalso. apply (find_none _ _ F) in Hp. cbn in Hp.
      assert (keqb (key p) (key p) = true) by now apply keqb_eq. congruence.
  Qed.

  Variable shard : K -> nat.
  Notation pstep := (Keyed.pstep P K S O key keqb lstep shard).

  Definition R (x : cpst) (ax : pst) : Prop :=
    (forall w, cq P K O C x w = Keyed.q P K S O ax w) /\
    (forall w k, abs (cws P K O C x w) k = Keyed.ws P K S O ax w k) /\
    couts P K O C x = Keyed.outs P K S O ax.

  Lemma R_step x ax e :
    R x ax ->
    (forall p, e = Disp P p -> shard (key p) = wk p) ->
    cpwithinb x [e] = true ->
    R (cpstep x e) (pstep ax e).
  Proof.
    intros (Rq & Rs & Ro) Hd Hw. destruct e as [p|w]; cbn [PoolConcrete.cpstep Keyed.pstep].
    - rewrite (Hd p eq_refl). split; [|split]; cbn; [|exact Rs|exact Ro].
      intro w. unfold updn. rewrite !Rq. reflexivity.
    - cbn [PoolConcrete.cpwithinb] in Hw. rewrite <- (Rq w).
      destruct (cq P K O C x w) as [|p rest] eqn:Eq; [split; [|split]; assumption|].
      rewrite andb_true_r in Hw. destruct (sim _ _ Hw) as [So Sa].
      unfold Keyed.step. rewrite <- (Rs w (key p)).
      destruct (cstep (cws P K O C x w) p) as [c' o]. destruct (lstep (abs (cws P K O C x w) (key p)) p) as [v o'].
      cbn [fst snd] in *. subst o'. split; [|split]; cbn.
      + intro w'. unfold updn. destruct (Nat.eqb w' w); [reflexivity | apply Rq].
      + intros w' k. unfold updn. destruct (Nat.eqb w' w); [|apply Rs].
        rewrite Sa. unfold Keyed.upd. destruct (keqb k (key p)); [reflexivity | apply Rs].
      + now rewrite Ro.
  Qed.

  Lemma cpwithinb_cons x e es : cpwithinb x (e :: es) = cpwithinb x [e] && cpwithinb (cpstep x e) es.
  Proof. cbn [PoolConcrete.cpwithinb]. now rewrite andb_true_r. Qed.

  Lemma R_run : forall es x ax,
    R x ax -> (forall p, In (Disp P p) es -> shard (key p) = wk p) -> cpwithinb x es = true ->
    R (fold_left cpstep es x) (fold_left pstep es ax).
  Proof.
    induction es as [|e es IH]; intros x ax HR Hd Hw; [exact HR|].
    rewrite cpwithinb_cons in Hw. apply andb_true_iff in Hw. destruct Hw as [Hw1 Hw2].
    cbn [fold_left]. apply IH.
    - apply R_step; [exact HR | intros p ->; apply Hd; now left | exact Hw1].
    - intros p Hp. apply Hd. now right.
    - exact Hw2.
  Qed.

  Lemma in_dispatched es p : In (Disp P p) es -> In p (Keyed.dispatched P es).
  Proof.
    unfold Keyed.dispatched. intro H. apply in_flat_map. exists (Disp P p). split; [exact H | now left].
  Qed.
End PoolSim.

Section PoolMain.
  Variables (P K S O C : Type).
  Variable key : P -> K.
  Variable keqb : K -> K -> bool.
  Hypothesis keqb_eq : forall a b, keqb a b = true <-> a = b.
  Variable lstep : option S -> P -> option S * list O.
  Variable cstep : C -> P -> C * list O.
  Variable abs : C -> K -> option S.
  Variable fits : C -> P -> bool.
  Hypothesis sim : forall c p, fits c p = true ->
    snd (cstep c p) = snd (lstep (abs c (key p)) p) /\
    forall k, abs (fst (cstep c p)) k = Keyed.upd K S keqb (abs c) (key p) (fst (lstep (abs c (key p)) p)) k.
  Variable wk : P -> nat.

  (* the concrete pool delivers, per key and as a multiset, what the keyed machine delivers sequentially on
     the dispatched trace *)
  Theorem cpool_refines (c0 : C) (es : list (ev P)) :
    let x := cprun P K O C key cstep wk c0 es in
    key_consistent P K key wk (Keyed.dispatched P es) ->
    cpwithinb P K O C key cstep wk fits (cinit P K O C c0) es = true ->
    (forall w, cq P K O C x w = []) ->
    (forall k, Keyed.proj K O keqb k (couts P K O C x)
               = Keyed.proj K O keqb k (snd (Keyed.run P K S O key keqb lstep (abs c0) (Keyed.dispatched P es))))
    /\ Permutation (couts P K O C x) (snd (Keyed.run P K S O key keqb lstep (abs c0) (Keyed.dispatched P es))).
  Proof.
    intros x Hc Hw Hq.
    set (shard := shard_of P K key keqb wk (Keyed.dispatched P es)).
    assert (HR0 : R P K S O C abs (cinit P K O C c0) (Keyed.init P K S O (abs c0))).
    { split; [|split]; reflexivity. }
    assert (Hd : forall p, In (Disp P p) es -> shard (key p) = wk p).
    { intros p Hp. apply (shard_of_spec P K key keqb keqb_eq wk _ Hc). now apply in_dispatched. }
    pose proof (R_run P K S O C key keqb lstep cstep abs fits sim wk shard es _ _ HR0 Hd Hw) as (Rq & _ & Ro).
    fold (cprun P K O C key cstep wk c0 es) in Rq, Ro. fold x in Rq, Ro.
    assert (Hqa : forall w, Keyed.q P K S O (fold_left (Keyed.pstep P K S O key keqb lstep shard) es
                                                     (Keyed.init P K S O (abs c0))) w = []).
    { intro w. rewrite <- Rq. apply Hq. }
    rewrite Ro. split.
    - intro k. exact (pool_refines_seq P K S O key keqb keqb_eq lstep shard (abs c0) es Hqa k).
    - exact (pool_outputs_permutation P K S O key keqb keqb_eq lstep shard (abs c0) es Hqa).
  Qed.
End PoolMain.

(* ================================================================== Part 2: dispatch is a function of the key *)
(* the frames the pool theorems speak about: the analyzer reports an identity (TCP segment with a TCP
   view), Ethernet or raw framing with the announced IP version, outside the open class raw_as_ethernet *)
Definition pool_dom (f : bytes) : bool :=
  c18_dom f && negb (raw_as_ethernet f) && is_some (analyzer_endpoints f).

Lemma pool_dom_spec f : pool_dom f = true ->
  c18_dom f = true /\ raw_as_ethernet f = false /\ exists e, analyzer_endpoints f = Some e.
Proof.
  unfold pool_dom. intro H. apply andb_true_iff in H. destruct H as [H H3]. apply andb_true_iff in H.
  destruct H as [H1 H2]. split; [exact H1|]. split; [now destruct (raw_as_ethernet f)|].
  destruct (analyzer_endpoints f) as [e|]; [now exists e | discriminate].
Qed.

Section Dispatch.
  Variable SipH : ident -> N.

  (* TLS: equal flow keys => same worker, and that worker exists and is valid *)
  Theorem tls_dispatch_by_key (n : N) (p q : bytes) :
    0 < n -> pool_dom p = true -> pool_dom q = true -> tls_key p = tls_key q ->
    tls_worker SipH n p = tls_worker SipH n q /\ exists w, tls_worker SipH n p = Some w /\ w < n.
  Proof.
    intros Hn Dp Dq Hk.
    destruct (pool_dom_spec p Dp) as (Cp & Rp & e & Ep). destruct (pool_dom_spec q Dq) as (Cq & Rq & e' & Eq).
    apply (affinity_tls SipH n p q Hn); try assumption.
    - unfold identity_tls. rewrite Ep, Eq. f_equal. now apply (tls_key_identity p q e e' Ep Eq).
    - unfold identity_tls. rewrite Ep. discriminate.
  Qed.

  Lemma tls_wk_consistent (n : N) (tr : list bytes) :
    0 < n -> (forall f, In f tr -> pool_dom f = true) ->
    key_consistent bytes N tls_key (tls_wk SipH n) tr.
  Proof.
    intros Hn Hd p q Hp Hq Hk. unfold tls_wk.
    now rewrite (proj1 (tls_dispatch_by_key n p q Hn (Hd p Hp) (Hd q Hq) Hk)).
  Qed.

  (* TCP: the pool shards by source address; the tracker key (connection, role) determines it *)
  Import TcpAnalyzer.
  Theorem tcp_dispatch_by_key (n : N) (p q : tcp_event) :
    0 < n -> pool_dom (fst p) = true -> pool_dom (fst q) = true -> tcp_pool_key p = tcp_pool_key q ->
    tcp_worker SipH n (fst p) = tcp_worker SipH n (fst q) /\ exists w, tcp_worker SipH n (fst p) = Some w /\ w < n.
  Proof.
    intros Hn Dp Dq Hk.
    destruct (pool_dom_spec _ Dp) as (Cp & Rp & e & Ep). destruct (pool_dom_spec _ Dq) as (Cq & Rq & e' & Eq).
    apply (affinity_tcp SipH n (fst p) (fst q) Hn); try assumption.
    - unfold identity_tcp. rewrite Ep, Eq. cbn [option_map]. f_equal.
      destruct (tcp_seg_bridge _ _ Ep) as (s & Fs & Ss). destruct (tcp_seg_bridge _ _ Eq) as (s' & Fs' & Ss').
      unfold tcp_pool_key in Hk. rewrite Fs, Fs' in Hk. injection Hk as Hc _.
      assert (Hz : zenc (e_src e) = zenc (e_src e')) by (rewrite <- Ss, <- Ss', Hc; reflexivity).
      destruct (analyzer_endpoints_wf _ _ Ep) as [F _]. destruct (analyzer_endpoints_wf _ _ Eq) as [F' _].
      apply zenc_inj; [| |exact Hz].
      + intros x Hx. destruct F as [(a & b & Ha & _ & La & _)|(a & b & Ha & _)]; rewrite Hx in Ha; [injection Ha as ->; exact La | discriminate].
      + intros x Hx. destruct F' as [(a & b & Ha & _ & La & _)|(a & b & Ha & _)]; rewrite Hx in Ha; [injection Ha as ->; exact La | discriminate].
    - unfold identity_tcp. rewrite Ep. discriminate.
  Qed.

  Lemma tcp_wk_consistent (n : N) (tr : list tcp_event) :
    0 < n -> (forall e, In e tr -> pool_dom (fst e) = true) ->
    key_consistent tcp_event Uptime.connection_key tcp_pool_key (tcp_wk SipH n) tr.
  Proof.
    intros Hn Hd p q Hp Hq Hk. unfold tcp_wk.
    now rewrite (proj1 (tcp_dispatch_by_key n p q Hn (Hd p Hp) (Hd q Hq) Hk)).
  Qed.
End Dispatch.

(* ================================================================== Part 3: the TLS pool *)
Notation tls_proj := (Keyed.proj N tls_out N.eqb).
Notation tls_fk := (Keyed.fk bytes N tls_key N.eqb).

Section TlsPoolThm.
  Variable SipH : ident -> N.

  (* the pool against the keyed machine (no sequential capacity involved) *)
  Lemma tls_pool_keyed (n capw : N) (es : list (ev bytes)) :
    let x := tls_pool_run SipH n capw es in
    0 < n -> (forall f, In f (Keyed.dispatched bytes es) -> pool_dom f = true) ->
    tls_pool_withinb SipH n capw es = true ->
    (forall w, cq bytes N tls_out tls_state x w = []) ->
    (forall k, tls_proj k (couts bytes N tls_out tls_state x)
               = tls_proj k (snd (Keyed.run bytes N reader tls_out tls_key N.eqb tls_lstep (tls_abs [])
                                    (Keyed.dispatched bytes es))))
    /\ Permutation (couts bytes N tls_out tls_state x)
                   (snd (Keyed.run bytes N reader tls_out tls_key N.eqb tls_lstep (tls_abs []) (Keyed.dispatched bytes es))).
  Proof.
    intros x Hn Hd Hw Hq.
    exact (cpool_refines bytes N reader tls_out tls_state tls_key N.eqb Neqb_iff tls_lstep
             (tls_packet_results capw) tls_abs (tls_fits capw) (tls_step_sim capw) (tls_wk SipH n) [] es
             (tls_wk_consistent SipH n _ Hn Hd) Hw Hq).
  Qed.

  (* C10 for the concrete TLS analyzer *)
  Theorem tls_pool_concrete (n capw caps : N) (es : list (ev bytes)) :
    let x := tls_pool_run SipH n capw es in
    0 < n -> (forall f, In f (Keyed.dispatched bytes es) -> pool_dom f = true) ->
    tls_pool_withinb SipH n capw es = true ->
    tls_within_capacityb caps [] (Keyed.dispatched bytes es) = true ->
    (forall w, cq bytes N tls_out tls_state x w = []) ->
    (forall k, tls_proj k (couts bytes N tls_out tls_state x)
               = tls_proj k (tls_results caps [] (Keyed.dispatched bytes es)))
    /\ Permutation (couts bytes N tls_out tls_state x) (tls_results caps [] (Keyed.dispatched bytes es)).
  Proof.
    intros x Hn Hd Hw Hs Hq. rewrite (tls_is_keyed caps _ [] Hs).
    exact (tls_pool_keyed n capw es Hn Hd Hw Hq).
  Qed.

  (* ---- C08, per-worker clause ---- *)
  (* flow key and TCP payload of a frame that reaches the flow table *)
  Definition tls_payload_of (f : bytes) : option (N * bytes) :=
    match tls_frame_class f with CSeg g => Some (g_key g, g_payload g) | _ => None end.
  Definition tls_sig_of (o : tls_out) : tls_result :=
    match o with TOSig _ _ _ _ s => RSig s | TONone => RNone | TOErr => RErr end.

  (* frames of ONE flow through the analyzer = their payloads through process_tcp_packet *)
  Lemma tls_run_one_flow cap k : forall fs cs fl,
    map tls_payload_of fs = map (fun c => Some (k, c)) cs ->
    map tls_sig_of (snd (tls_run cap fl fs)) = flow_outs cap fl (map (fun c => (k, c)) cs).
  Proof.
    induction fs as [|f fs IH]; intros [|c cs] fl H; cbn [map] in H; try discriminate; [reflexivity|].
    injection H as Hf Hr. cbn [tls_run map flow_outs]. unfold tls_packet_step.
    unfold tls_payload_of in Hf. destruct (tls_frame_class f) as [| |g]; try discriminate.
    injection Hf as Hk Hp. rewrite Hk, Hp.
    destruct (flow_step cap fl k c) as [fl' r]. specialize (IH cs fl' Hr).
    destruct (tls_run cap fl' fs) as [fl2 os]. cbn [snd map] in *. rewrite IH. f_equal.
    now destruct r.
  Qed.

  Theorem tls_per_worker (n capw : N) (es : list (ev bytes)) (k : N)
          (r tail : bytes) (cs : list bytes) (s : signature) :
    let x := tls_pool_run SipH n capw es in
    0 < n -> (forall f, In f (Keyed.dispatched bytes es) -> pool_dom f = true) ->
    tls_pool_withinb SipH n capw es = true ->
    (forall w, cq bytes N tls_out tls_state x w = []) ->
    (* the flow k: its frames, in dispatch order, carry the segments cs of the record r (+ tail) *)
    map tls_payload_of (tls_fk k (Keyed.dispatched bytes es)) = map (fun c => Some (k, c)) cs ->
    framed r -> lenN r <= READER_CAP -> admitted_version r = true -> parse_tls_client_hello r = RSig s ->
    concat cs = r ++ tail -> 5 <= lenN (hd [] cs) -> calm (after_completion 0 (lenN r) cs) = true ->
    map tls_sig_of (tls_proj k (couts bytes N tls_out tls_state x)) = exactly_once 0 (lenN r) (RSig s) cs.
  Proof.
    intros x Hn Hd Hw Hq Hfl Hfr Hcap Hver Hparse Hcat Hhd Hcalm. subst x.
    rewrite (proj1 (tls_pool_keyed n capw es Hn Hd Hw Hq) k).
    set (tr := Keyed.dispatched bytes es) in *.
    (* isolation on the keyed machine, then back to the concrete analyzer run alone with a table that holds it *)
    rewrite (Keyed.isolation bytes N reader tls_out tls_key N.eqb Neqb_iff tls_lstep tr (tls_abs []) k).
    set (capx := lenN (tls_fk k tr) + 1).
    assert (Hcx : tls_within_capacityb capx [] (tls_fk k tr) = true).
    { apply tls_within_b. apply tls_within_by_length. unfold capx. rewrite lenN_nil. lia. }
    rewrite <- (tls_is_keyed capx (tls_fk k tr) [] Hcx).
    pose proof (tls_isolation capx (tls_fk k tr) [] k Hcx) as Hiso.
    assert (Hidem : tls_fk k (tls_fk k tr) = tls_fk k tr) by apply Keyed.fk_idem.
    rewrite Hidem in Hiso. rewrite (proj2 (Hiso Hcx)).
    rewrite (tls_run_one_flow capx k _ cs [] Hfl).
    apply (analyzer_exactly_once r tail cs s capx k []); try assumption; [unfold capx; lia | reflexivity].
  Qed.
End TlsPoolThm.

(* ================================================================== Part 4: the TCP pool *)
Section TcpPoolThm.
  Import TcpAnalyzer KeyedInstancesTcp.
  Variable SipH : ident -> N.
  Variable db : list (bytes * list N).

  Notation ckey := Uptime.connection_key.
  Notation key_eqb := Uptime.key_eqb.

  (* the keyed-machine simulation also holds with the key read off every IP frame (frames that process_frame
     rejects leave the tracker alone, so any key serves) *)
  Lemma tcp_pool_key_ok (e : tcp_event) :
    tcp_pool_key e = tcp_key db e \/ TcpExtract.process_frame db (fst e) = TcpExtract.Err.
  Proof.
    unfold tcp_pool_key, tcp_key. destruct (TcpExtract.process_frame db (fst e)); [now right | now left].
  Qed.

  Lemma tcp_pool_sim cap tr e : tcp_fits db cap tr e = true ->
    snd (tcp_packet_results db cap tr e) = snd (tcp_lstep db (tcp_abs tr (tcp_pool_key e)) e) /\
    forall k, tcp_abs (fst (tcp_packet_results db cap tr e)) k
              = Keyed.upd ckey Uptime.tcp_timestamp key_eqb (tcp_abs tr) (tcp_pool_key e)
                          (fst (tcp_lstep db (tcp_abs tr (tcp_pool_key e)) e)) k.
  Proof.
    intro Hf. destruct (tcp_pool_key_ok e) as [-> | Herr]; [now apply tcp_sim|].
    destruct e as [f now]. cbn [fst] in Herr.
    unfold tcp_packet_results, tcp_packet_step, tcp_lstep. rewrite Herr. cbn [fst snd].
    split; [reflexivity|]. intro k. now rewrite upd_same.
  Qed.

  (* sequential results tagged with the pool key (the untagged results are tcp_run's) *)
  Definition tcp_results_pk (cap : N) (tr : tcp_state) (es : list tcp_event) : list (ckey * tcp_result) :=
    combine (map tcp_pool_key es) (snd (tcp_run db cap tr es)).

  Lemma tcp_results_pk_crun cap : forall es tr,
    tcp_results_pk cap tr es = snd (crun tcp_event ckey tcp_result tcp_state tcp_pool_key (tcp_packet_results db cap) tr es).
  Proof.
    unfold tcp_results_pk. induction es as [|e es IH]; intro tr; [reflexivity|].
    cbn [tcp_run crun map]. unfold tcp_packet_results.
    destruct (tcp_packet_step db cap tr e) as [tr1 o]. specialize (IH tr1).
    destruct (tcp_run db cap tr1 es) as [tr2 os].
    destruct (crun tcp_event ckey tcp_result tcp_state tcp_pool_key
                (fun tr0 e0 => let '(tr', o0) := tcp_packet_step db cap tr0 e0 in (tr', [o0])) tr1 es) as [c2 o2] eqn:E.
    cbn [snd combine map app] in *. unfold tcp_packet_results in IH. rewrite E in IH. cbn [snd] in IH.
    now rewrite IH.
  Qed.

  Theorem tcp_pool_concrete (n capw caps : N) (es : list (ev tcp_event)) :
    let x := tcp_pool_run SipH db n capw es in
    0 < n -> (forall e, In e (Keyed.dispatched tcp_event es) -> pool_dom (fst e) = true) ->
    tcp_pool_withinb SipH db n capw es = true ->
    tcp_within_capacityb db caps [] (Keyed.dispatched tcp_event es) = true ->
    (forall w, cq tcp_event ckey tcp_result tcp_state x w = []) ->
    (forall k, Keyed.proj ckey tcp_result key_eqb k (couts tcp_event ckey tcp_result tcp_state x)
               = Keyed.proj ckey tcp_result key_eqb k (tcp_results_pk caps [] (Keyed.dispatched tcp_event es)))
    /\ Permutation (couts tcp_event ckey tcp_result tcp_state x) (tcp_results_pk caps [] (Keyed.dispatched tcp_event es)).
  Proof.
    intros x Hn Hd Hw Hs Hq.
    apply tcp_within_b in Hs. unfold tcp_within in Hs.
    rewrite tcp_results_pk_crun.
    rewrite (sim_run_abs tcp_event ckey Uptime.tcp_timestamp tcp_result tcp_state tcp_pool_key key_eqb (tcp_lstep db)
               (tcp_packet_results db caps) tcp_abs (tcp_fits db caps) (tcp_pool_sim caps) _ [] Hs).
    exact (cpool_refines tcp_event ckey Uptime.tcp_timestamp tcp_result tcp_state tcp_pool_key key_eqb
             UptimeTrackProofs.key_eqb_eq (tcp_lstep db) (tcp_packet_results db capw) tcp_abs (tcp_fits db capw)
             (tcp_pool_sim capw) (tcp_wk SipH n) [] es (tcp_wk_consistent SipH n _ Hn Hd) Hw Hq).
  Qed.
End TcpPoolThm.
