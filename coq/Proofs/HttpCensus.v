(* C07 HTTP instance: "within capacity" from a census of CONNECTIONS -- if every connection the table holds or
   the trace can open is one of at most cap connections, no packet overflows the flow table.  Invariant used:
   the table holds at most one entry per connection (true of every table built by the analyzer). *)
From Coq Require Import List NArith Bool Lia.
From Coq Require Import Strings.Byte.
From HN Require Import Base.Bytes Base.Cache Base.Tcp Base.Keyed Proofs.KeyedInstances
                       Model.HttpFlow Model.HttpAnalyzer Proofs.HttpPlan Proofs.HttpKeyed.
From HN Require Model.TlsHello.
Import ListNotations.
Open Scope N_scope.

Definition nk (e : fkey * tcpflow) : fkey := norm_key (fst e).
Definition hkeys (st : http_state) : list fkey := map nk (c_entries st).
Definition http_tracked (f : bytes) : bool := match http_frame_class f with HCSeg _ => true | _ => false end.

Lemma update_keys (es : ents) k f : map nk (assoc_update fkey_eqb es k f) = map nk es.
Proof.
  induction es as [|[k0 v0] es IH]; [reflexivity|]. cbn [assoc_update]. destruct (fkey_eqb k0 k); cbn [map]; [reflexivity | now rewrite IH].
Qed.
Lemma remove_keys_incl (es : ents) k : incl (map nk (assoc_remove fkey_eqb es k)) (map nk es).
Proof.
  induction es as [|[k0 v0] es IH]; cbn [assoc_remove]; [apply incl_refl|].
  destruct (fkey_eqb k0 k); cbn [map]; [now apply incl_tl | apply incl_cons; [now left | now apply incl_tl]].
Qed.
Lemma remove_keys_nodup (es : ents) k : NoDup (map nk es) -> NoDup (map nk (assoc_remove fkey_eqb es k)).
Proof.
  induction es as [|[k0 v0] es IH]; cbn [assoc_remove map]; intro H; [constructor|].
  apply NoDup_cons_iff in H. destruct H as [Hn Hd]. destruct (fkey_eqb k0 k); [now apply IH|].
  cbn [map]. constructor; [|now apply IH]. intro Hin. apply Hn. now apply (remove_keys_incl es k).
Qed.
Lemma in_get (es : ents) k0 v : In (k0, v) es -> assoc_get fkey_eqb es k0 <> None.
Proof.
  induction es as [|[k1 v1] es IH]; [intros []|]. cbn [assoc_get]. intros [E|Hin].
  - injection E as -> ->. rewrite fkey_eqb_refl. discriminate.
  - destruct (fkey_eqb k1 k0); [discriminate | now apply IH].
Qed.
Lemma absent_norm (es : ents) k :
  assoc_get fkey_eqb es k = None -> assoc_get fkey_eqb es (flip_key k) = None -> ~ In (norm_key k) (map nk es).
Proof.
  intros G1 G2 Hin. apply in_map_iff in Hin. destruct Hin as [[k0 v] [Hn Hin]]. unfold nk in Hn. cbn [fst] in Hn.
  symmetry in Hn. destruct (norm_eq_cases k k0 Hn) as [-> | ->]; [exact (in_get es _ v Hin G1) | exact (in_get es _ v Hin G2)].
Qed.
Lemma present_norm (es : ents) k0 : assoc_get fkey_eqb es k0 <> None -> In (norm_key k0) (map nk es).
Proof.
  induction es as [|[k1 v1] es IH]; cbn [assoc_get]; [congruence|].
  destruct (fkey_eqb k1 k0) eqn:E; intro H.
  - apply fkey_eqb_eq in E. subst. now left.
  - right. now apply IH.
Qed.

Section Census.
  Context {Req Resp : Type}.
  Variable parse_req : bytes -> option Req.
  Variable parse_resp : bytes -> option Resp.
  Notation presults := (http_packet_results parse_req parse_resp).
  Notation plan := (plan parse_req parse_resp).

  Lemma eexec_noins_keys ops : forall es : ents, Forall (fun o => is_ins o = false) ops -> NoDup (map nk es) ->
    NoDup (map nk (eexec ops es)) /\ incl (map nk (eexec ops es)) (map nk es).
  Proof.
    induction ops as [|o ops IH]; intros es H Hnd; [split; [exact Hnd | apply incl_refl]|].
    inversion H as [|? ? Ho Hr]; subst. unfold eexec in *. cbn [fold_left].
    destruct o as [k f|k|k f]; try discriminate; cbn [eexec_op].
    - destruct (IH (assoc_update fkey_eqb es k f) Hr) as [A B]; [now rewrite update_keys|]. rewrite update_keys in B. auto.
    - destruct (IH (assoc_remove fkey_eqb es k) Hr (remove_keys_nodup es k Hnd)) as [A B].
      split; [exact A | eapply incl_tran; [exact B | apply remove_keys_incl]].
  Qed.

  Lemma http_keys_step st f : http_fits st f = true -> NoDup (hkeys st) ->
    NoDup (hkeys (fst (presults st f))) /\
    incl (hkeys (fst (presults st f))) (if http_tracked f then http_key f :: hkeys st else hkeys st) /\
    c_cap (fst (presults st f)) = c_cap st.
  Proof.
    unfold http_fits, http_packet_results, http_packet_step, http_tracked, http_key.
    destruct (http_frame_class f) as [| |g]; intros Hf Hnd; cbn [fst]; [split; [exact Hnd | split; [apply incl_refl | reflexivity]] ..|].
    assert (Hcap : cache_get fkey_eqb st (seg_key g) = None -> cache_get fkey_eqb st (flip_key (seg_key g)) = None -> cache_len st < c_cap st).
    { intros G1 G2. unfold cache_contains in Hf. rewrite G1, G2 in Hf. cbn [orb] in Hf. now apply N.ltb_lt. }
    destruct (step_entries parse_req parse_resp st g Hcap) as (E1 & C1 & _).
    destruct (HttpFlow.step parse_req parse_resp st g) as [st' o]. cbn [fst] in *. unfold hkeys. rewrite E1.
    destruct (plan_shape parse_req parse_resp (cache_get fkey_eqb st (seg_key g)) (cache_get fkey_eqb st (flip_key (seg_key g))) g)
      as [Hn | (F & R & E)].
    - assert (Hn' : Forall (fun o => is_ins o = false) (fst (plan (cache_get fkey_eqb st (seg_key g)) (cache_get fkey_eqb st (flip_key (seg_key g))) g))).
      { eapply Forall_impl; [|exact Hn]. cbn. tauto. }
      destruct (eexec_noins_keys _ (c_entries st) Hn' Hnd) as [A B]. split; [exact A|]. split; [now apply incl_tl | exact C1].
    - rewrite E. cbn. rewrite map_app. cbn [map nk fst].
      assert (Hab : ~ In (norm_key (seg_key g)) (map nk (c_entries st))) by (apply absent_norm; assumption).
      split; [|split; [|exact C1]].
      + apply NoDup_snoc; [now apply remove_keys_nodup|]. intro Hin. apply Hab. now apply (remove_keys_incl (c_entries st) (seg_key g)).
      + intros x Hx. apply in_app_or in Hx. destruct Hx as [Hx|[<-|[]]]; [right; now apply (remove_keys_incl (c_entries st) (seg_key g)) | now left].
  Qed.

  Lemma http_fits_fails st f : http_fits st f = false ->
    http_tracked f = true /\ ~ In (http_key f) (hkeys st) /\ c_cap st <= cache_len st.
  Proof.
    unfold http_fits, http_tracked, http_key. destruct (http_frame_class f) as [| |g]; try discriminate.
    intro H. apply orb_false_iff in H. destruct H as [H H3]. apply orb_false_iff in H. destruct H as [H1 H2].
    unfold cache_contains in H1, H2.
    destruct (cache_get fkey_eqb st (seg_key g)) eqn:G1; [discriminate|].
    destruct (cache_get fkey_eqb st (flip_key (seg_key g))) eqn:G2; [discriminate|].
    split; [reflexivity|]. split; [now apply absent_norm | now apply N.ltb_ge].
  Qed.

  Theorem http_within_by_census (U : list fkey) : forall tr st,
    NoDup (hkeys st) -> incl (hkeys st) U ->
    (forall f, In f tr -> http_tracked f = true -> In (http_key f) U) ->
    TlsHello.lenN U <= c_cap st -> http_within_capacityb parse_req parse_resp st tr = true.
  Proof.
    intros tr st Hnd Hin Htr Hlen. apply (http_within_b parse_req parse_resp). unfold http_within.
    revert st Hnd Hin Hlen Htr. induction tr as [|f tr IH]; intros st Hnd Hin Hlen Htr; cbn [within]; [exact I|].
    assert (Hf : http_fits st f = true).
    { destruct (http_fits st f) eqn:E; [reflexivity|]. destruct (http_fits_fails st f E) as [Ht [Hni Hc]].
      assert (Hnd' : NoDup (http_key f :: hkeys st)) by (constructor; assumption).
      assert (Hin' : incl (http_key f :: hkeys st) U).
      { intros x [<-|Hx]; [apply (Htr f (or_introl eq_refl) Ht) | now apply Hin]. }
      pose proof (NoDup_incl_length Hnd' Hin') as L. cbn [length] in L. unfold hkeys in L. rewrite map_length in L.
      unfold cache_len, len_N, TlsHello.lenN in *. lia. }
    split; [exact Hf|]. destruct (http_keys_step st f Hf Hnd) as (Hnd1 & Hin1 & C1). apply IH.
    - exact Hnd1.
    - intros x Hx. apply Hin1 in Hx. destruct (http_tracked f) eqn:Et.
      + destruct Hx as [<-|Hx]; [apply (Htr f (or_introl eq_refl) Et) | now apply Hin].
      + now apply Hin.
    - now rewrite C1.
    - intros q Hq. apply Htr. now right.
  Qed.

  Theorem http_capacity_by_census (U : list fkey) tr st K :
    NoDup (hkeys st) -> incl (hkeys st) U ->
    (forall f, In f tr -> http_tracked f = true -> In (http_key f) U) ->
    TlsHello.lenN U <= c_cap st ->
    http_within_capacityb parse_req parse_resp st tr = true /\
    http_within_capacityb parse_req parse_resp st (Keyed.fk bytes fkey http_key fkey_eqb K tr) = true.
  Proof.
    intros Hnd Hin Htr Hlen. split; apply (http_within_by_census U); try assumption.
    intros f Hf. apply Htr. unfold Keyed.fk in Hf. apply filter_In in Hf. tauto.
  Qed.
End Census.
