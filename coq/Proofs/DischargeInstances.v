(* Hypotheses that C15, C01 and C20 ASSUME about "the analyzer", discharged for the packet-level models of
   the TLS and TCP analyzers (Model/TlsAnalyzer.v, Model/TcpAnalyzer.v):
   (A) inertness on frames for which RawFrame.analyzer_endpoints reports nothing (C15_commutes), through the
       frame bridge (Proofs/FrameBridge.v): state unchanged, nothing reported;
   (B) recovery after an arbitrary history (C01_recovers) from the no-disable instances of C07;
   (C) the unified composition (C20_trace_union) with the TCP analyzer model and the stateless TLS path. *)
From Coq Require Import List NArith ZArith Bool Lia.
From Coq Require Import Strings.Byte.
From HN Require Import Base.Bytes Base.Keyed Model.Filter Model.RawFrame Model.FilterGlue
                       Spec.FilterSpec Spec.CommuteSpec Proofs.RawFrameProofs Proofs.CommuteProofs Proofs.FrameBridge
                       Model.TlsHello Model.Ja4 Model.TlsReader Model.TlsAnalyzer Model.AnalyzerReports
                       Proofs.KeyedInstances Model.Unified Spec.UnifiedSpec Proofs.UnifiedProofs.
From HN Require Model.Pnet Model.TcpExtract Model.TcpAnalyzer Model.Uptime Proofs.KeyedInstancesTcp.
Import ListNotations.
Open Scope N_scope.

(* ================================================================== (A) inertness *)
(* no endpoints => the frame never reaches the flow table / the tracker *)
Lemma tls_class_none f : analyzer_endpoints f = None ->
  TlsAnalyzer.tls_frame_class f = CErr \/ TlsAnalyzer.tls_frame_class f = CNoTcp.
Proof.
  unfold analyzer_endpoints, TlsAnalyzer.tls_frame_class. rewrite parse_bridge.
  destruct (parse_packet f) as [[l [ip|ip]]|]; [| |now right]; cbn [view_endpoints].
  - unfold TlsAnalyzer.classify4, Pnet.v4_protocol, Pnet.tcp_min. rewrite v4_payload_bridge.
    change (Pnet.byte_at ip 9) with (byte_at ip 9).
    destruct (negb (byte_at ip 9 =? 6)); [now left|]. rewrite blen_ltb. lits.
    destruct (length (ipv4_payload ip) <? 20)%nat; [now right | discriminate].
  - unfold TlsAnalyzer.classify6, Pnet.v6_next_header, Pnet.tcp_min. rewrite v6_payload_bridge.
    change (Pnet.byte_at ip 6) with (byte_at ip 6).
    destruct (negb (byte_at ip 6 =? 6)); [now left|]. rewrite blen_ltb. lits.
    destruct (length (ipv6_payload ip) <? 20)%nat; [now right | discriminate].
Qed.

Theorem tls_inert cap fl f : analyzer_endpoints f = None -> tls_report_step cap fl f = (fl, []).
Proof.
  intro H. unfold tls_report_step, tls_packet_step.
  destruct (tls_class_none f H) as [-> | ->]; reflexivity.
Qed.

Lemma tcp_frame_none db f : analyzer_endpoints f = None ->
  TcpExtract.process_frame db f = TcpExtract.Err \/ Pnet.parse_packet f = Pnet.NoIp.
Proof.
  unfold analyzer_endpoints, TcpExtract.process_frame. rewrite parse_bridge.
  destruct (parse_packet f) as [[l [ip|ip]]|]; [| |now right]; cbn [view_endpoints]; intro H; left.
  - unfold TcpExtract.process_ipv4_packet, Pnet.tcp_min. rewrite v4_payload_bridge, blen_ltb. lits.
    destruct (length (ipv4_payload ip) <? 20)%nat; [reflexivity|].
    unfold TcpExtract.process_tcp_ipv4, Pnet.v4_protocol, TcpExtract.PROTO_TCP.
    change (Pnet.byte_at ip 9) with (byte_at ip 9).
    destruct (negb (byte_at ip 9 =? 6)); [reflexivity | discriminate].
  - unfold TcpExtract.process_ipv6_packet, Pnet.tcp_min. rewrite v6_payload_bridge, blen_ltb. lits.
    destruct (length (ipv6_payload ip) <? 20)%nat; [reflexivity|].
    unfold TcpExtract.process_tcp_ipv6, Pnet.v6_next_header, TcpExtract.PROTO_TCP.
    change (Pnet.byte_at ip 6) with (byte_at ip 6).
    destruct (negb (byte_at ip 6 =? 6)); [reflexivity | discriminate].
Qed.

Theorem tcp_inert_event db cap tr f now : analyzer_endpoints f = None ->
  (let '(tr', r) := TcpAnalyzer.tcp_packet_step db cap tr (f, now) in (tr', tcp_reported r)) = (tr, []).
Proof.
  intro H. unfold TcpAnalyzer.tcp_packet_step.
  destruct (tcp_frame_none db f H) as [E | E].
  - rewrite E. reflexivity.
  - unfold TcpExtract.process_frame, TcpAnalyzer.frame_segment. rewrite E. reflexivity.
Qed.
Theorem tcp_inert db cap clock tr f : analyzer_endpoints f = None -> tcp_report_step db cap clock tr f = (tr, []).
Proof. intro H. unfold tcp_report_step. exact (tcp_inert_event db cap tr f (clock f) H). Qed.

(* ---- commutation over packet EVENTS (frame + clock reading): the generalisation of CommuteProofs.commute
        that the TCP analyzer needs, since the arrival time belongs to the packet ---- *)
Section CommuteEvents.
  Variables (E St Out : Type).
  Variable frame_of : E -> bytes.
  Variable step : St -> E -> St * list Out.
  Hypothesis step_inert : forall s e, analyzer_endpoints (frame_of e) = None -> step s e = (s, []).

  Fixpoint run_ev (stp : St -> E -> St * list Out) (s : St) (tau : list E) : St * list Out :=
    match tau with
    | [] => (s, [])
    | e :: t => let '(s1, o1) := stp s e in let '(s2, o2) := run_ev stp s1 t in (s2, o1 ++ o2)
    end.
  Definition with_filter_ev (c : filter_config) (s : St) (e : E) : St * list Out :=
    if raw_apply c (frame_of e) then step s e else (s, []).

  Theorem commute_events c : cfg_wf c = true -> forall tau s,
    run_ev (with_filter_ev (build c)) s tau = run_ev step s (filter (fun e => spec_admits c (frame_of e)) tau).
  Proof.
    intros Hc. induction tau as [|e t IH]; intros s; [reflexivity|].
    cbn [run_ev filter]. unfold with_filter_ev at 1. unfold spec_admits at 1.
    destruct (analyzer_endpoints (frame_of e)) as [ep|] eqn:Ea.
    - rewrite (raw_apply_spec c _ ep Hc Ea). destruct (spec_passes c ep).
      + cbn [run_ev]. destruct (step s e) as [s1 o1]. now rewrite IH.
      + rewrite IH. now destruct (run_ev step s _).
    - rewrite (step_inert s e Ea). destruct (raw_apply (build c) (frame_of e)); rewrite IH; now destruct (run_ev step s _).
  Qed.
End CommuteEvents.

Definition tcp_report_step_ev db cap (tr : TcpAnalyzer.tcp_state) (e : TcpAnalyzer.tcp_event) :=
  let '(tr', r) := TcpAnalyzer.tcp_packet_step db cap tr e in (tr', tcp_reported r).

Theorem commutes_tls_concrete (cap : N) (c : cfg_src) : cfg_wf c = true ->
  forall (tau : list bytes) (fl : tls_state),
    run (with_filter (build c) (tls_report_step cap)) fl tau = run (tls_report_step cap) fl (admitted_subtrace c tau).
Proof. intros Hc tau fl. exact (commute tls_state tls_out (tls_report_step cap) (tls_inert cap) c Hc tau fl). Qed.

Theorem commutes_tcp_concrete db (cap : N) (c : cfg_src) : cfg_wf c = true ->
  forall (tau : list TcpAnalyzer.tcp_event) (tr : TcpAnalyzer.tcp_state),
    run_ev TcpAnalyzer.tcp_event TcpAnalyzer.tcp_state TcpAnalyzer.tcp_result
           (with_filter_ev TcpAnalyzer.tcp_event TcpAnalyzer.tcp_state TcpAnalyzer.tcp_result fst (tcp_report_step_ev db cap) (build c)) tr tau
    = run_ev TcpAnalyzer.tcp_event TcpAnalyzer.tcp_state TcpAnalyzer.tcp_result (tcp_report_step_ev db cap) tr
             (filter (fun e => spec_admits c (fst e)) tau).
Proof.
  intros Hc tau tr.
  apply (commute_events TcpAnalyzer.tcp_event TcpAnalyzer.tcp_state TcpAnalyzer.tcp_result fst (tcp_report_step_ev db cap)); [|exact Hc].
  intros s [f now] H. exact (tcp_inert_event db cap s f now H).
Qed.

(* the literal instance of C15_commutes (steps over frames): the clock reading as a function of the frame *)
Theorem commutes_tcp_concrete_frames db (cap : N) (clock : bytes -> Z) (c : cfg_src) : cfg_wf c = true ->
  forall (tau : list bytes) (tr : TcpAnalyzer.tcp_state),
    run (with_filter (build c) (tcp_report_step db cap clock)) tr tau
    = run (tcp_report_step db cap clock) tr (admitted_subtrace c tau).
Proof.
  intros Hc tau tr.
  exact (commute TcpAnalyzer.tcp_state TcpAnalyzer.tcp_result (tcp_report_step db cap clock) (tcp_inert db cap clock) c Hc tau tr).
Qed.

(* ================================================================== (B) recovery *)
Notation tls_proj := (Keyed.proj N tls_out N.eqb).
Notation tls_fk := (Keyed.fk bytes N tls_key N.eqb).

Lemma fk_history_probe {P K} (key : P -> K) (keqb : K -> K -> bool) (k : K) (h probe : list P) :
  (forall p, In p h -> keqb (key p) k = false) -> (forall p, In p probe -> keqb (key p) k = true) ->
  Keyed.fk P K key keqb k (h ++ probe) = probe.
Proof.
  intros Hh Hp. unfold Keyed.fk. rewrite filter_app.
  assert (E1 : filter (fun p => keqb (key p) k) h = []).
  { induction h as [|x h IH]; [reflexivity|]. cbn [filter]. rewrite (Hh x (or_introl eq_refl)).
    apply IH. intros p Hin. apply Hh. now right. }
  assert (E2 : filter (fun p => keqb (key p) k) probe = probe).
  { induction probe as [|x t IH]; [reflexivity|]. cbn [filter]. rewrite (Hp x (or_introl eq_refl)). f_equal.
    apply IH. intros p Hin. apply Hp. now right. }
  now rewrite E1, E2.
Qed.

(* after ANY history of frames that do not belong to the probe's flow, the probe connection is analysed exactly
   as by a fresh analyzer: the results attributed to it are, in order, the results of the probe alone *)
Theorem recovers_tls (cap : N) (h probe : list bytes) (k : N) :
  (forall f, In f h -> tls_key f <> k) -> (forall f, In f probe -> tls_key f = k) ->
  tls_within_capacityb cap [] (h ++ probe) = true -> tls_within_capacityb cap [] probe = true ->
  tls_proj k (tls_results cap [] (h ++ probe)) = snd (tls_run cap [] probe).
Proof.
  intros Hh Hp W Wp.
  assert (E : tls_fk k (h ++ probe) = probe).
  { apply fk_history_probe; intros p Hin; [apply N.eqb_neq; now apply Hh | apply N.eqb_eq; now apply Hp]. }
  pose proof (tls_isolation cap (h ++ probe) [] k W) as Hiso. rewrite E in Hiso. exact (proj2 (Hiso Wp)).
Qed.

Import TcpAnalyzer KeyedInstancesTcp.
Notation ckey := Uptime.connection_key.
Theorem recovers_tcp db (cap : N) (h probe : list tcp_event) (k : ckey) :
  (forall e, In e h -> tcp_key db e <> k) -> (forall e, In e probe -> tcp_key db e = k) ->
  tcp_within_capacityb db cap [] (h ++ probe) = true -> tcp_within_capacityb db cap [] probe = true ->
  Keyed.proj ckey tcp_result Uptime.key_eqb k (tcp_results db cap [] (h ++ probe)) = snd (tcp_run db cap [] probe).
Proof.
  intros Hh Hp W Wp.
  assert (E : Keyed.fk tcp_event ckey (tcp_key db) Uptime.key_eqb k (h ++ probe) = probe).
  { apply fk_history_probe; intros p Hin; [apply UptimeTrackProofs.key_eqb_neq; now apply Hh
                                          | apply UptimeTrackProofs.key_eqb_eq; now apply Hp]. }
  pose proof (tcp_isolation db cap (h ++ probe) [] k W) as Hiso. rewrite E in Hiso. exact (proj2 (Hiso Wp)).
Qed.

(* ================================================================== (C) unified composition *)
Section UnifiedConcrete.
  Variable SH : Type.
  Variable http_step : SH -> tcp_event -> SH * pres.      (* the HTTP analyzer stays abstract *)
  Variable db : list (bytes * list N).
  Variable cap : N.

  Theorem trace_union_tcp_tls_concrete (c : cfg) (tr : list tcp_event) (st : tcp_state) (sh : SH) :
    trace_accepts tcp_event tcp_state SH (tcp_ustep db cap) http_step tls_ufn c st sh tr ->
    map Some (unified_run tcp_event tcp_state SH (tcp_ustep db cap) http_step tls_ufn c (st, sh) tr)
    = spec_run_enabled tcp_event tcp_state SH (tcp_ustep db cap) http_step tls_ufn c st sh tr.
  Proof. apply trace_union. Qed.

  (* what "every enabled analyzer accepts" means for the concrete parts: the stateless TLS path never rejects;
     the TCP analyzer rejects exactly the frames TcpExtract.process_frame rejects *)
  Lemma tls_ufn_accepts e b : accepts b (tls_ufn e) = true.
  Proof. unfold accepts, tls_ufn. now destruct b. Qed.
  Lemma tcp_ustep_accepts st e :
    TcpExtract.process_frame db (fst e) <> TcpExtract.Err -> accepts true (snd (tcp_ustep db cap st e)) = true.
  Proof.
    destruct e as [f now]. unfold tcp_ustep, tcp_packet_step. cbn [fst].
    destruct (TcpExtract.process_frame db f) as [|o]; [congruence|]. intros _.
    destruct (frame_segment f) as [q|]; [|reflexivity].
    destruct (ts_updates cap st (q_conn q) (q_from_client q) (q_tsvals q) now (None, None)) as [tr' [cli srv]]. reflexivity.
  Qed.

  (* HTTP disabled: the acceptance hypothesis is a plain condition on the frames *)
  Lemma accepts_no_http (c : cfg) : http_en c = false ->
    forall tr st sh,
    (tcp_en c = true -> forall e, In e tr -> TcpExtract.process_frame db (fst e) <> TcpExtract.Err) ->
    trace_accepts tcp_event tcp_state SH (tcp_ustep db cap) http_step tls_ufn c st sh tr.
  Proof.
    intros Hh. induction tr as [|e tr IH]; intros st sh Ht; cbn [trace_accepts]; [exact I|]. split.
    - unfold all_accept. rewrite Hh. apply andb_true_iff. split; [apply andb_true_iff; split|].
      + destruct (tcp_en c) eqn:Et; [|reflexivity]. apply tcp_ustep_accepts. apply (Ht eq_refl). now left.
      + reflexivity.
      + apply tls_ufn_accepts.
    - apply IH. intros Hc e' He'. apply (Ht Hc). now right.
  Qed.

  Theorem trace_union_no_http (c : cfg) (tr : list tcp_event) (st : tcp_state) (sh : SH) :
    http_en c = false ->
    (tcp_en c = true -> forall e, In e tr -> TcpExtract.process_frame db (fst e) <> TcpExtract.Err) ->
    map Some (unified_run tcp_event tcp_state SH (tcp_ustep db cap) http_step tls_ufn c (st, sh) tr)
    = spec_run_enabled tcp_event tcp_state SH (tcp_ustep db cap) http_step tls_ufn c st sh tr.
  Proof. intros Hh Ht. apply trace_union. now apply accepts_no_http. Qed.
End UnifiedConcrete.
