(* C13, part 1: what the extractor model reports for a handshake segment outside C03's signature-relevant known
   classes (K1, K4, K5, K7) is the p0f rendering `spec_sig` of the decoded segment, in the table of its role.
   This is C03's main theorem restricted to the signature part of the report: the MTU class K2 (which excludes most
   client packets) plays no role here.  Built from the lemmas of Proofs/C03*.v. *)
From Coq Require Import List NArith Bool Lia ZifyBool ZifyN.
From Coq Require Import Strings.Byte.
From HN Require Import Base.Bytes Model.SigAst Model.Pnet Model.TcpExtract Spec.P0fTcp Spec.InstanceSpec
  Spec.ConformSpec Spec.ReachSpec
  Proofs.C03Bytes Proofs.C03Fields Proofs.C03Options Proofs.C03Quirks Proofs.C03Main.
Import ListNotations.
Open Scope N_scope.

Definition role_of (k : tkind) : role := match k with TReq => RClient | TResp => RServer end.
Definition syn_of (k : tkind) (g : tcp_sig) : option tcp_sig := match k with TReq => Some g | TResp => None end.
Definition synack_of (k : tkind) (g : tcp_sig) : option tcp_sig := match k with TResp => Some g | TReq => None end.

Lemma conf_role_inv k g : conf_role k g = true ->
  ih_fragment (sg_ip g) = false /\ spec_role (th_flags (sg_tcp g)) = role_of k.
Proof.
  unfold conf_role. intros H. apply andb_true_iff in H. destruct H as [F R].
  apply negb_true_iff in F. split; [exact F|].
  destruct (spec_role (th_flags (sg_tcp g))), k; try discriminate; reflexivity.
Qed.

Lemma core_sig (db : list (bytes * list N)) (s : segment) (q0 : list quirk) (k : tkind) :
  let ip := sg_ip s in let th := sg_tcp s in let items := options_of (sg_opts s) in
  let model := observable_package db
                 (code_pkg (ih_ver ip) (calculate_ttl (ih_ttl ip)) (match ih_ver ip with IpV4 => ih_hlen ip - 20 | _ => 0 end)
                           (code_hdr s) (ih_hlen ip) q0 th (sg_opts s) (sg_payload_len s)) in
  ih_ver ip <> IpAny -> ih_ttl ip < 256 -> 0 < code_hdr s ->
  spec_role (th_flags th) = role_of k ->
  (forall q, memq q (code_quirks q0 th items) = quirk_holds s items q) ->
  K4_of (out_quirks model) = false -> K7 s = false ->
  exists o, model = Ok o /\ o_syn o = syn_of k (spec_sig s) /\ o_synack o = synack_of k (spec_sig s).
Proof.
  intros ip th items model Hv Ht Hh R HM HK4 HK7.
  subst model. unfold code_pkg in *. subst th. rewrite R in *.
  destruct k; cbn [role_of] in *; cbn [observable_package tcp_request tcp_response pkg_mtu out_quirks o_syn o_synack] in HK4 |- *.
  - unfold code_sig at 1 in HK4. cbn [t_quirks] in HK4.
    eexists. split; [reflexivity|]. cbn [o_syn o_synack syn_of synack_of]. split; [|reflexivity].
    f_equal. apply code_sig_spec; assumption.
  - unfold code_sig at 1 in HK4. cbn [t_quirks] in HK4.
    eexists. split; [reflexivity|]. cbn [o_syn o_synack syn_of synack_of]. split; [reflexivity|].
    f_equal. apply code_sig_spec; assumption.
Qed.

Lemma core_sig' (db : list (bytes * list N)) (s : segment) (q0 : list quirk) (k : tkind) v ittl olen hdr hbytes th opts plen :
  v = ih_ver (sg_ip s) -> ittl = calculate_ttl (ih_ttl (sg_ip s)) ->
  olen = match ih_ver (sg_ip s) with IpV4 => ih_hlen (sg_ip s) - 20 | _ => 0 end ->
  hdr = code_hdr s -> hbytes = ih_hlen (sg_ip s) -> th = sg_tcp s -> opts = sg_opts s -> plen = sg_payload_len s ->
  ih_ver (sg_ip s) <> IpAny -> ih_ttl (sg_ip s) < 256 -> 0 < code_hdr s ->
  spec_role (th_flags (sg_tcp s)) = role_of k ->
  (forall q, memq q (code_quirks q0 (sg_tcp s) (options_of (sg_opts s))) = quirk_holds s (options_of (sg_opts s)) q) ->
  K4_of (out_quirks (observable_package db (code_pkg v ittl olen hdr hbytes q0 th opts plen))) = false -> K7 s = false ->
  exists o, observable_package db (code_pkg v ittl olen hdr hbytes q0 th opts plen) = Ok o
            /\ o_syn o = syn_of k (spec_sig s) /\ o_synack o = synack_of k (spec_sig s).
Proof. intros; subst. apply core_sig; assumption. Qed.

Theorem obs_v4 (db : list (bytes * list N)) (p : bytes) (g : segment) (k : tkind) :
  decode4 p = Some g -> conf_role k g = true ->
  known_c03 g (out_quirks (process_ipv4_packet db p)) = false ->
  exists o, process_ipv4_packet db p = Ok o
            /\ o_syn o = syn_of k (spec_sig g) /\ o_synack o = synack_of k (spec_sig g).
Proof.
  intros HD HR. destruct (conf_role_inv _ _ HR) as [FR R].
  pose proof (decode4_inv p g HD) as INV. cbv zeta in INV.
  destruct INV as (L20 & I5 & I16 & IT & TL & PR & DT & HIP).
  set (ihl := byte_at p 0 mod 16) in *. set (total := be16_at p 2) in *.
  destruct (decode_tcp_inv _ _ _ _ DT) as (S20 & D5 & DL & D16 & Hth & Hopts & Hplen).
  assert (BS : blen (slice p (ihl * 4) total) = total - ihl * 4) by (apply blen_slice; lia).
  assert (PW : v4_payload p = slice p (ihl * 4) total) by (apply v4_payload_wf; fold ihl total; lia).
  assert (Hfl : th_flags (sg_tcp g) < 256) by (rewrite Hth; cbn [th_flags]; apply byte_at_lt).
  assert (M1 : process_ipv4_packet db p =
               observable_package db (visit_tcp (slice p (ihl * 4) total) IpV4 (calculate_ttl (ih_ttl (sg_ip g)))
                       ihl (ihl * 4 - 20) (ipv4_quirks p))).
  { unfold process_ipv4_packet, process_tcp_ipv4. rewrite PW.
    replace (blen (slice p (ihl * 4) total) <? tcp_min) with false by (unfold tcp_min; lia).
    unfold v4_protocol. rewrite PR. change (negb (6 =? PROTO_TCP)) with false. cbv iota.
    assert (FR' : ih_fragment (sg_ip g) = false) by exact FR. rewrite HIP in FR'. cbn [ih_fragment] in FR'.
    replace ((0 <? v4_fragment_offset p) || (N.land (v4_flags p) MoreFragments =? MoreFragments)) with false.
    2:{ unfold v4_fragment_offset, v4_flags.
        assert (MF : (N.land (byte_at p 6 / 32) MoreFragments =? MoreFragments) = bit (byte_at p 6) 5)
          by (unfold byte_at; apply v4_mf_bits).
        rewrite MF. apply orb_false_iff in FR'. destruct FR' as [A B]. rewrite A. lia. }
    rewrite olen_spec by (unfold v4_header_length; fold ihl; exact I5).
    rewrite HIP. cbn [ih_ttl]. unfold v4_ttl, v4_header_length. fold ihl. reflexivity. }
  rewrite M1. clear M1.
  assert (F1 : IpV4 = ih_ver (sg_ip g)) by (rewrite HIP; reflexivity).
  assert (F2 : ihl * 4 - 20 = match ih_ver (sg_ip g) with IpV4 => ih_hlen (sg_ip g) - 20 | _ => 0 end)
    by (rewrite HIP; reflexivity).
  assert (F3 : ihl = code_hdr g)
    by (unfold code_hdr; rewrite HIP; cbn [ih_ver ih_hlen]; rewrite N.div_mul by lia; reflexivity).
  assert (F4 : sat16 (ihl * 4) = ih_hlen (sg_ip g)) by (rewrite HIP; cbn [ih_hlen]; unfold sat16; lia).
  assert (F5 : ih_ver (sg_ip g) <> IpAny) by (rewrite <- F1; discriminate).
  assert (F6 : ih_ttl (sg_ip g) < 256) by (rewrite HIP; cbn [ih_ttl]; apply byte_at_lt).
  assert (F7 : 0 < code_hdr g) by (rewrite <- F3; lia).
  assert (F8 : ih_ver (sg_ip g) = IpV4) by (symmetry; exact F1).
  assert (F9 : ih_flow (sg_ip g) = 0) by (rewrite HIP; reflexivity).
  intros HK. assert (HK' := HK). unfold known_c03 in HK'.
  repeat (apply orb_false_iff in HK'; destruct HK' as [HK' ?]).
  rewrite (visit_tcp_nf _ _ _ _ IpV4 _ _ _ _ DT) in HK |- * by (try congruence; apply good_of_known; assumption).
  rewrite ipv4_quirks_bits in HK |- *.
  unfold known_c03 in HK. repeat (apply orb_false_iff in HK; destruct HK as [HK ?]).
  apply core_sig'; first [exact F1 | exact F2 | exact F3 | exact F4 | exact F5 | exact F6 | exact F7 | exact R
                          | assumption | reflexivity | idtac].
  replace (byte_at p 1 mod 4) with (ih_tos_ecn (sg_ip g)) by (rewrite HIP; reflexivity);
  replace (bit (byte_at p 6) 7) with (ih_mbz (sg_ip g)) by (rewrite HIP; reflexivity);
  replace (bit (byte_at p 6) 6) with (ih_df (sg_ip g)) by (rewrite HIP; reflexivity);
  replace (be16_at p 4) with (ih_id (sg_ip g)) by (rewrite HIP; reflexivity).
  apply quirk_members_v4; first [exact F8 | exact F9 | assumption | (apply ty_syn_only; exact Hfl)].
Qed.

Theorem obs_v6 (db : list (bytes * list N)) (p : bytes) (g : segment) (k : tkind) :
  decode6 p = Some g -> conf_role k g = true ->
  known_c03 g (out_quirks (process_ipv6_packet db p)) = false ->
  exists o, process_ipv6_packet db p = Ok o
            /\ o_syn o = syn_of k (spec_sig g) /\ o_synack o = synack_of k (spec_sig g).
Proof.
  intros HD HR. destruct (conf_role_inv _ _ HR) as [FR R].
  destruct (decode6_inv p g HD) as (L40 & PL & NH & DT & HIP).
  destruct (decode_tcp_inv _ _ _ _ DT) as (S20 & D5 & DL & D16 & Hth & Hopts & Hplen).
  assert (BS : blen (slice p 40 (40 + be16_at p 4)) = be16_at p 4) by (rewrite blen_slice by lia; lia).
  assert (PW : v6_payload p = slice p 40 (40 + be16_at p 4)) by (apply v6_payload_wf; lia).
  assert (Hfl : th_flags (sg_tcp g) < 256) by (rewrite Hth; cbn [th_flags]; apply byte_at_lt).
  assert (M1 : process_ipv6_packet db p =
               observable_package db (visit_tcp (slice p 40 (40 + be16_at p 4)) IpV6 (calculate_ttl (ih_ttl (sg_ip g)))
                       40 0 (ipv6_quirks p))).
  { unfold process_ipv6_packet, process_tcp_ipv6. rewrite PW.
    replace (blen (slice p 40 (40 + be16_at p 4)) <? tcp_min) with false by (unfold tcp_min; lia).
    unfold v6_next_header. rewrite NH. change (negb (6 =? PROTO_TCP)) with false. cbv iota.
    rewrite HIP. cbn [ih_ttl]. reflexivity. }
  rewrite M1. clear M1.
  assert (F1 : IpV6 = ih_ver (sg_ip g)) by (rewrite HIP; reflexivity).
  assert (F3 : 40 = code_hdr g) by (unfold code_hdr; rewrite HIP; reflexivity).
  assert (F5 : ih_ver (sg_ip g) <> IpAny) by (rewrite <- F1; discriminate).
  assert (F6 : ih_ttl (sg_ip g) < 256) by (rewrite HIP; cbn [ih_ttl]; apply byte_at_lt).
  assert (F7 : 0 < code_hdr g) by (rewrite <- F3; lia).
  assert (F8 : ih_ver (sg_ip g) = IpV6) by (symmetry; exact F1).
  assert (F9 : ih_df (sg_ip g) = false) by (rewrite HIP; reflexivity).
  assert (F10 : ih_mbz (sg_ip g) = false) by (rewrite HIP; reflexivity).
  intros HK. assert (HK' := HK). unfold known_c03 in HK'.
  repeat (apply orb_false_iff in HK'; destruct HK' as [HK' ?]).
  rewrite (visit_tcp_nf _ _ _ _ IpV6 _ _ _ _ DT) in HK |- * by (try congruence; apply good_of_known; assumption).
  rewrite ipv6_quirks_bits in HK |- *.
  unfold known_c03 in HK. repeat (apply orb_false_iff in HK; destruct HK as [HK ?]).
  apply core_sig'; first [exact F1 | exact F3 | exact F5 | exact F6 | exact F7 | exact R
                          | assumption | (rewrite HIP; reflexivity) | reflexivity | idtac].
  replace ((byte_at p 1 / 16) mod 4) with (ih_tos_ecn (sg_ip g)) by (rewrite HIP; reflexivity);
  replace ((byte_at p 1 mod 16) * 65536 + be16_at p 2) with (ih_flow (sg_ip g)) by (rewrite HIP; reflexivity).
  apply quirk_members_v6; first [exact F8 | exact F9 | exact F10 | assumption | (apply ty_syn_only; exact Hfl)].
Qed.
