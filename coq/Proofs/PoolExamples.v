(* C10 / C08 concrete pool instances: worked schedules (hypotheses satisfiable, results non-trivial). *)
From Coq Require Import List NArith ZArith Bool Lia.
From Coq Require Import Strings.Byte.
From HN Require Import Base.Bytes Base.Keyed Model.Hash Model.TlsHello Model.Ja4 Model.TlsReader Model.TlsAnalyzer
                       Model.PoolConcrete Spec.ReaderSpec Proofs.ReaderProofs Proofs.KeyedInstances Proofs.KeyedExamples
                       Proofs.PoolInstances.
From HN Require Model.TcpAnalyzer Model.Uptime.
Import ListNotations.
Open Scope N_scope.

(* a stand-in for DefaultHasher that separates the two example clients: the source address as a number *)
Definition src_hash (i : ident) : N := match i with IdBytes b => be_N b | IdFlow a _ _ _ => be_N a end.

Notation tls_proj := (Keyed.proj N tls_out N.eqb).
Notation tls_fk := (Keyed.fk bytes N tls_key N.eqb).

(* two workers; A (10.0.0.1) hashes to worker 1, B (10.0.0.2) to worker 0; A's second segment is dispatched
   after B was analysed, and worker 1 runs only at the end *)
Definition tls_sched : list (ev bytes) :=
  [Disp bytes tlsA1; Disp bytes tlsB1; Work bytes 0%nat; Disp bytes tlsA2; Work bytes 1%nat; Work bytes 1%nat].

Lemma tls_pool_example :
  let x := tls_pool_run src_hash 2 8 tls_sched in
  0 < 2 /\ (forall f, In f (dispatched bytes tls_sched) -> pool_dom f = true) /\
  tls_pool_withinb src_hash 2 8 tls_sched = true /\
  tls_within_capacityb 8 [] (dispatched bytes tls_sched) = true /\
  (forall w, cq bytes N tls_out tls_state x w = []) /\
  tls_wk src_hash 2 tlsA1 = 1%nat /\ tls_wk src_hash 2 tlsB1 = 0%nat /\
  map is_report (map snd (couts bytes N tls_out tls_state x)) = [true; false; true] /\
  map is_report (tls_proj tls_kA (couts bytes N tls_out tls_state x)) = [false; true].
Proof.
  cbv zeta. split; [reflexivity|]. split.
  { intros f [<-|[<-|[<-|[]]]]; vm_compute; reflexivity. }
  split; [vm_compute; reflexivity|]. split; [vm_compute; reflexivity|]. split.
  { intros [|[|w]]; vm_compute; reflexivity. }
  repeat split; vm_compute; reflexivity.
Qed.

(* the per-worker clause of C08 on the same schedule: flow A = the record tiny_hello in segments of 10 + 38 bytes *)
Lemma tls_per_worker_example :
  let cs := [firstn 10 tiny_hello; skipn 10 tiny_hello] in
  map (tls_payload_of) (tls_fk tls_kA (dispatched bytes tls_sched)) = map (fun c => Some (tls_kA, c)) cs /\
  concat cs = tiny_hello ++ [] /\ 5 <= lenN (hd [] cs) /\
  calm (after_completion 0 (lenN tiny_hello) cs) = true.
Proof. cbv zeta. repeat split; vm_compute; try reflexivity. discriminate. Qed.

(* ---- TCP ---- *)
Import TcpAnalyzer.
Notation ckey := Uptime.connection_key.
Definition tcp_sched : list (ev tcp_event) :=
  [Disp _ tcpA1; Disp _ tcpB1; Work _ 0%nat; Work _ 1%nat; Disp _ tcpA2; Disp _ tcpB2; Work _ 1%nat; Work _ 0%nat].

Lemma tcp_pool_example :
  let x := tcp_pool_run src_hash [] 2 8 tcp_sched in
  0 < 2 /\ (forall e, In e (dispatched tcp_event tcp_sched) -> pool_dom (fst e) = true) /\
  tcp_pool_withinb src_hash [] 2 8 tcp_sched = true /\
  tcp_within_capacityb [] 8 [] (dispatched tcp_event tcp_sched) = true /\
  (forall w, cq tcp_event ckey tcp_result tcp_state x w = []) /\
  tcp_wk src_hash 2 tcpA1 = 1%nat /\ tcp_wk src_hash 2 tcpB1 = 0%nat /\
  map up_freq (map snd (couts tcp_event ckey tcp_result tcp_state x)) = [None; None; Some 1000%Z; Some 100%Z].
Proof.
  cbv zeta. split; [reflexivity|]. split.
  { intros e [<-|[<-|[<-|[<-|[]]]]]; vm_compute; reflexivity. }
  split; [vm_compute; reflexivity|]. split; [vm_compute; reflexivity|]. split.
  { intros [|[|w]]; vm_compute; reflexivity. }
  repeat split; vm_compute; reflexivity.
Qed.
