(* C13, part 5b: the HTTP abstraction check on the bundled database, collected from the 12 shards. *)
From Coq Require Import List NArith Bool Lia.
From Coq Require Import Strings.Byte.
From HN Require Import Base.Bytes Model.SigAst Model.Match Model.Reach
  Spec.ScanSpec Spec.InstanceSpec Spec.DbLoadSpec Spec.BundledSpec Spec.Http1Grammar Spec.ConformSpec Spec.ReachSpec
  Spec.ReachHttpSpec Spec.ReachLists Proofs.ReachHttp Proofs.ReachHttpLines
  Proofs.ReachHttpShard00 Proofs.ReachHttpShard01 Proofs.ReachHttpShard02 Proofs.ReachHttpShard03 Proofs.ReachHttpShard04 Proofs.ReachHttpShard05 Proofs.ReachHttpShard06 Proofs.ReachHttpShard07 Proofs.ReachHttpShard08 Proofs.ReachHttpShard09 Proofs.ReachHttpShard10 Proofs.ReachHttpShard11.
Import ListNotations.
Open Scope N_scope.

Lemma shards_listed : http_shards = [nth 0 http_shards []; nth 1 http_shards []; nth 2 http_shards []; nth 3 http_shards []; nth 4 http_shards []; nth 5 http_shards []; nth 6 http_shards []; nth 7 http_shards []; nth 8 http_shards []; nth 9 http_shards []; nth 10 http_shards []; nth 11 http_shards []].
Proof. vm_compute. reflexivity. Qed.

Lemma all_shards_ok : forall l, In l http_shards -> http_lines_ok bundled_db http_entry l = true.
Proof.
  intros l IN. rewrite shards_listed in IN. cbn [In] in IN.
  repeat (destruct IN as [E|IN]; [rewrite <- E|]); [.. | contradiction].
  - exact ReachHttpShard00.shard_ok.
  - exact ReachHttpShard01.shard_ok.
  - exact ReachHttpShard02.shard_ok.
  - exact ReachHttpShard03.shard_ok.
  - exact ReachHttpShard04.shard_ok.
  - exact ReachHttpShard05.shard_ok.
  - exact ReachHttpShard06.shard_ok.
  - exact ReachHttpShard07.shard_ok.
  - exact ReachHttpShard08.shard_ok.
  - exact ReachHttpShard09.shard_ok.
  - exact ReachHttpShard10.shard_ok.
  - exact ReachHttpShard11.shard_ok.
Qed.

Theorem bundled_http_live (k : hkind) (line li si : N) (s : http_sig) (m : msg) (body : bytes) :
  In line live_http_lines -> http_entry k line = Some (li, si, s) ->
  conforms_http k s m -> Http1Grammar.known m = false ->
  exists f, reach_http bundled_db k (Http1Grammar.render m ++ body) = RMatch (http_table_id k) f
            /\ admissible (http_table bundled_db k) (fun t => conforms_http_b k t m) li si f.
Proof.
  apply (http_lines_sound bundled_db http_entry http_entry_in live_http_lines).
  intros ln IN. unfold live_http_lines in IN. apply in_concat in IN. destruct IN as [l [INL INLN]].
  exact (lines_ok_in bundled_db http_entry l (all_shards_ok l INL) ln INLN).
Qed.
