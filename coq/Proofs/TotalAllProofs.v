(* C01 -- the per-entry results in the shape used by Props/C01.v:  total r  :=  r <> Panic /\ r <> OutOfFuel *)
From Coq Require Import List NArith Bool Lia.
From Coq Require Import Strings.Byte.
From HN Require Import Base.Bytes Model.TotalBase Model.TotalTcpOpt Model.TotalMisc Model.TotalReader Model.TotalH2
  Model.TotalRaw Spec.TotalSpec Proofs.TotalBaseProofs Proofs.TotalTcpOptProofs Proofs.TotalMiscProofs
  Proofs.TotalReaderProofs Proofs.TotalH2Proofs Proofs.TotalRawProofs.
Import ListNotations.
Open Scope N_scope.

Lemma ok_total {A} (r : R A) : (exists v, r = Ok v) -> total r.
Proof. intros (v & ->). split; discriminate. Qed.
Lemma ok_err_total {A} (r : R A) : r = Err \/ (exists v, r = Ok v) -> total r.
Proof. intros [->|(v & ->)]; split; discriminate. Qed.

Lemma visit_tcp_v4_total flags window ihl doff opts : total (visit_tcp_v4 flags window ihl doff opts).
Proof. apply ok_err_total, visit_tcp_v4_returns. Qed.
Lemma detect_win_total w m h ts v6 : total (detect_win w m h ts v6).
Proof. apply ok_total, detect_win_ok. Qed.
Lemma ipv6_olen_total p : 40 <= len p -> total (ipv6_olen p).
Proof. intros H. apply ok_total, ipv6_olen_ok, H. Qed.
Lemma add_bytes_total parse st data : total (add_bytes parse st data).
Proof. apply ok_total. destruct (add_bytes_ok parse st data) as (s & o & E). eauto. Qed.
Lemma feed_total st chunks : total (feed st chunks).
Proof. apply ok_total, feed_ok. Qed.
Lemma parse_single_frame_total d : total (parse_single_frame d).
Proof. apply ok_err_total. destruct (parse_single_frame_ret d) as [E|(r & f & E & _)]; [left; exact E|right; eauto]. Qed.
Lemma parse_frames_total d : total (parse_frames d).
Proof. apply ok_total. destruct (parse_frames_ok d) as (fs & E & _). eauto. Qed.
Lemma parse_frames_with_offset_total d : len d <= isize_max -> total (parse_frames_with_offset d).
Proof. intros H. apply ok_total. destruct (parse_frames_with_offset_ok d H) as (fs & n & E & _). eauto. Qed.
Lemma parse_settings_payload_total p : len p <= isize_max -> total (parse_settings_payload p).
Proof. intros H. apply ok_total, parse_settings_payload_ok, H. Qed.
Lemma parse_window_update_payload_total p : total (parse_window_update_payload p).
Proof. apply ok_total, parse_window_update_payload_ok. Qed.
Lemma parse_priority_payload_total p : total (parse_priority_payload p).
Proof. apply ok_total, parse_priority_payload_ok. Qed.
Lemma x_add_bytes_total st data : x_inv st -> len (x_buf st ++ data) <= isize_max ->
  total (x_add_bytes st data) /\ forall st' b, x_add_bytes st data = Ok (st', b) -> x_inv st'.
Proof.
  intros Hi Hl. destruct (x_add_bytes_ok st data Hi Hl) as (s & b & E & Hs). split.
  - apply ok_total. eauto.
  - intros st' b' E'. rewrite E in E'. inversion E'. subst. exact Hs.
Qed.
Lemma extract_quick_info_total p : total (extract_quick_info p).
Proof. apply ok_total, extract_quick_info_ok. Qed.
Lemma hash_source_ip_total p : total (hash_source_ip p).
Proof. apply ok_total, hash_source_ip_ok. Qed.
Lemma tls_hash_flow_total p : total (tls_hash_flow p).
Proof. apply ok_total, tls_hash_flow_ok. Qed.
Lemma http_hash_flow_total p : total (http_hash_flow p).
Proof. apply ok_total, http_hash_flow_ok. Qed.

(* non-trivial evaluations of the models (the theorems have no hypotheses to satisfy, except the length bound) *)
Example ex_optwalk :
  visit_opts 2 [x02; x04; x05; xb4; x04; x02; x08; x0a; x00; x00; x00; x00; x00; x00; x00; x01; x01; x03; x03; x0f; x00; x07]
  = Ok {| os_lay := [OMss; OSok; OTs; ONop; OWs; OEol 1; OUnk 7]; os_mss := Some 1460; os_ws := Some 15;
          os_q := [QOwnTsZero; QPeerTsNZ; QExWs; QTrailNZ] |}.
Proof. vm_compute. reflexivity. Qed.
Example ex_frames :
  exists f1 f2, parse_frames_with_offset [x00; x00; x00; x04; x00; x00; x00; x00; x00; x00; x00; x04; x08; x00; x00; x00; x00; x00; x80; x00; x00; x01; xff]
  = Ok ([f1; f2], 22) /\ f_type f1 = 4 /\ f_type f2 = 8 /\ parse_window_update_payload (f_payload f2) = Ok (Some 1).
Proof. eexists _, _. vm_compute. repeat split; reflexivity. Qed.
Example ex_len_bound : len [x00; x01] <= isize_max.
Proof. vm_compute. discriminate. Qed.
