(* C01 -- the head layout of the HTTP/1 parser never panics: `&lines[1..header_end]` is reached only after the
   start-line parser accepted lines[0], which it never does for an empty line, so header_end >= 1. *)
From Coq Require Import List NArith Bool Lia ZifyBool ZifyN.
From Coq Require Import Strings.Byte.
From HN Require Import Base.Bytes Model.TotalBase Model.TotalHttp1 Spec.TotalSpec.
Import ListNotations.
Open Scope N_scope.

Lemma first_empty_bound ls p : first_empty ls = Some p -> p < llen ls.
Proof.
  revert p; induction ls as [|l r IH]; intros p; cbn [first_empty]; [discriminate|].
  destruct l; [intros H; inversion H; unfold llen; cbn [length]; rewrite Nat2N.inj_succ; apply N.lt_0_succ|].
  destruct (first_empty r) as [q|]; cbn [option_map]; [|discriminate].
  intros H; inversion H; subst. specialize (IH q eq_refl). unfold llen in *. cbn [length]. lia.
Qed.

Lemma header_end_bounds l0 ls : l0 <> [] -> 1 <= header_end (l0 :: ls) <= llen (l0 :: ls).
Proof.
  intros H. unfold header_end. cbn [first_empty]. destruct l0 as [|x l0]; [congruence|].
  destruct (first_empty ls) as [q|] eqn:E; cbn [option_map].
  - apply first_empty_bound in E. unfold llen, bytes in *. cbn [length]. lia.
  - unfold llen, bytes. cbn [length]. lia.
Qed.

Lemma lslice_ok {A} (l : list A) a b : a <= b -> b <= llen l -> exists s, lslice l a b = Ok s.
Proof. intros H1 H2. unfold lslice. replace ((a <=? b) && (b <=? llen l)) with true by lia. eauto. Qed.

Lemma parse_head_ok ok data : exists r, parse_head ok data = Ok r.
Proof.
  unfold parse_head. cbv zeta. destruct (negb (has_blank_line (head_of data))); [eauto|].
  destruct (lines_of (head_of data)) as [|l0 ls]; [eauto|].
  unfold lidx. cbn [N.to_nat nth_error bind].
  destruct (start_line_ok l0 ok) eqn:Es; cbn [negb]; [|eauto].
  assert (Hl : l0 <> []) by (destruct l0; [discriminate|congruence]).
  destruct (header_end_bounds l0 ls Hl) as [H1 H2].
  destruct (lslice_ok (l0 :: ls) 1 (header_end (l0 :: ls)) H1 H2) as (s & ->). cbn [bind]. eauto.
Qed.

Lemma parse_head_total ok data : total (parse_head ok data).
Proof. destruct (parse_head_ok ok data) as (r & ->). split; discriminate. Qed.

(* a head whose first line is empty is answered with the error value *)
Lemma parse_head_empty_first_line ok data ls :
  has_blank_line (head_of data) = true -> lines_of (head_of data) = [] :: ls -> parse_head ok data = Ok HErr.
Proof. intros Hb Hl. unfold parse_head. cbv zeta. rewrite Hb, Hl. reflexivity. Qed.

(* sensitivity: with the slice taken before the start line is parsed, "\r\n\r\n" panics in the model *)
Lemma slice_first_panics : parse_head_slice_first true [x0d; x0a; x0d; x0a] = Panic.
Proof. vm_compute. reflexivity. Qed.
Lemma as_is_returns_err : parse_head true [x0d; x0a; x0d; x0a] = Ok HErr /\ parse_head true [x0a; x0a] = Ok HErr.
Proof. split; vm_compute; reflexivity. Qed.
Example parse_head_ex :
  parse_head true (bs "GET / HTTP/1.1" ++ [x0d; x0a] ++ bs "Host: a" ++ [x0d; x0a; x0d; x0a] ++ bs "body") = Ok HSome.
Proof. vm_compute. reflexivity. Qed.
