(* C09: witnesses of the known-defect classes, evaluated on the flow model instantiated with the
   HTTP/1 recogniser (Model/HttpRecog.v).  Each trace lies inside the specification's domain, is in
   exactly one class, and the model's reports differ from the specification's. *)
From Coq Require Import List NArith Bool.
From Coq Require Import Strings.Byte.
From HN Require Import Base.Bytes Base.Cache Base.Tcp Model.HttpFlow Model.HttpRecog Spec.StreamSpec.
Import ListNotations.
Open Scope N_scope.

Definition h2b (s : bytes) : bytes := match read_hex s with Some b => b | None => [] end.
Definition ev (conn : N) (client syn fin : bool) (seq : N) (pay : bytes) : event :=
  mkEv conn client syn fin false seq pay.

Definition resp_head : bytes := bs "HTTP/1.1 200 OK" ++ crlf ++ bs "Server: x" ++ crlfcrlf.

(* FORMER witness of the wrap class (repaired by fix C09-seq-wrap): ISN = 2^32 - 10: "GET / HTT" ends exactly at 2^32, "P/1.1 CRLF Host: a CRLF CRLF" has sequence number 0 *)
Definition wrap_trace : list event :=
  [ ev 1 true true false 4294967286 [];
    ev 1 false true false 5000 [];
    ev 1 true false false 4294967287 (bs "GET / HTT");
    ev 1 true false false 0 (bs "P/1.1" ++ crlf ++ bs "Host: a" ++ crlfcrlf);
    ev 1 false false false 5001 resp_head ].

(* segments 1 and 3 of 3: "GET / HTTP/1.1 CRLF" | (lost: "Host: a CRLF") | "Accept: b CRLF CRLF" *)
Definition gap_trace : list event :=
  [ ev 1 true true false 1000 [];
    ev 1 false true false 5000 [];
    ev 1 true false false 1001 (bs "GET / HTTP/1.1" ++ crlf);
    ev 1 true false false 1026 (bs "Accept: b" ++ crlfcrlf) ].

(* FORMER witness of the dup class (repaired by fix C09-dup): the first segment is retransmitted,
   byte for byte, before the head completes *)
Definition dup_trace : list event :=
  [ ev 1 true true false 1000 [];
    ev 1 false true false 5000 [];
    ev 1 true false false 1001 (bs "GET / HTTP/1.1" ++ crlf ++ bs "Host: a" ++ crlf);
    ev 1 true false false 1001 (bs "GET / HTTP/1.1" ++ crlf ++ bs "Host: a" ++ crlf);
    ev 1 true false false 1026 crlf ].

(* FORMER witness of the fin class (repaired by fix C09-fin): the client half-closes with its request
   (FIN on the data segment that completes it); the response used to be lost, now it is reported *)
Definition fin_trace : list event :=
  [ ev 1 true true false 1000 [];
    ev 1 false true false 5000 [];
    ev 1 true false true 1001 (bs "GET / HTTP/1.0" ++ crlfcrlf);
    ev 1 false false false 5001 resp_head ].

(* the far class (the limit of 32-bit serial arithmetic, not a repairable defect): a segment that starts
   2^31 bytes beyond the ISN arrives first; by signed distance it sorts BEFORE the real first segment,
   so the head that follows is rebuilt behind it and is not recognised *)
Definition far_trace : list event :=
  [ ev 1 true true false 1000 [];
    ev 1 false true false 5000 [];
    ev 1 true false false 2147484649 (bs "zzzz");
    ev 1 true false false 1001 (bs "GET / HTTP/1.1" ++ crlf ++ bs "Host: a" ++ crlfcrlf) ].

(* what is left of the dup class: the retransmission is re-segmented ("Host: a CRLF" comes again together
   with the final CRLF), it overlaps stored bytes without being a stored segment and is stored whole *)
Definition overlap_trace : list event :=
  [ ev 1 true true false 1000 [];
    ev 1 false true false 5000 [];
    ev 1 true false false 1001 (bs "GET / HTTP/1.1" ++ crlf);
    ev 1 true false false 1017 (bs "Host: a" ++ crlf);
    ev 1 true false false 1017 (bs "Host: a" ++ crlfcrlf) ].

(* what is left of the fin class: the segment that carries the FIN overtakes the first request
   segment, the flow is dropped with the request still unreported, and the rest is ignored *)
Definition fin_early_trace : list event :=
  [ ev 1 true true false 1000 [];
    ev 1 false true false 5000 [];
    ev 1 true false true 1009 (bs "TP/1.0" ++ crlfcrlf);
    ev 1 true false false 1001 (bs "GET / HT");
    ev 1 false false false 5001 resp_head ].

Definition model_outs (tr : list event) := outs recog_req recog_resp 10 (map wire tr).
Definition spec_outs' (tr : list event) := spec_outs recog_req recog_resp tr.
Definition classes (tr : list event) := known_classes recog_req recog_resp tr.

Definition out_eqb (a b : hout bytes bytes) : bool :=
  match a, b with
  | ONone, ONone => true
  | OReq x, OReq y => bytes_eqb x y
  | OResp x, OResp y => bytes_eqb x y
  | _, _ => false
  end.
Fixpoint outs_eqb (a b : list (hout bytes bytes)) : bool :=
  match a, b with
  | [], [] => true
  | x :: a', y :: b' => out_eqb x y && outs_eqb a' b'
  | _, _ => false
  end.
Lemma outs_eqb_refl a : outs_eqb a a = true.
Proof.
  induction a as [|x a IH]; cbn; [reflexivity|].
  rewrite IH, andb_true_r. destruct x; cbn; auto using bytes_eqb_refl.
Qed.
Lemma outs_neq a b : outs_eqb a b = false -> a <> b.
Proof. intros H E. subst. rewrite outs_eqb_refl in H. discriminate. Qed.

Lemma far_refuted :
  spec_wf recog_req recog_resp far_trace = true /\ classes far_trace = (true, false, false, false)
  /\ model_outs far_trace <> spec_outs' far_trace.
Proof. split; [vm_compute; reflexivity|]. split; [vm_compute; reflexivity|]. apply outs_neq. vm_compute. reflexivity. Qed.

Lemma wrap_former_witness_agrees :
  spec_wf recog_req recog_resp wrap_trace = true /\ classes wrap_trace = (false, false, false, false)
  /\ model_outs wrap_trace = spec_outs' wrap_trace.
Proof. split; [vm_compute; reflexivity|]. split; vm_compute; reflexivity. Qed.

Lemma gap_refuted :
  spec_wf recog_req recog_resp gap_trace = true /\ classes gap_trace = (false, true, false, false)
  /\ model_outs gap_trace <> spec_outs' gap_trace.
Proof. split; [vm_compute; reflexivity|]. split; [vm_compute; reflexivity|]. apply outs_neq. vm_compute. reflexivity. Qed.

Lemma dup_refuted :
  spec_wf recog_req recog_resp overlap_trace = true /\ classes overlap_trace = (false, false, true, false)
  /\ model_outs overlap_trace <> spec_outs' overlap_trace.
Proof. split; [vm_compute; reflexivity|]. split; [vm_compute; reflexivity|]. apply outs_neq. vm_compute. reflexivity. Qed.

Lemma dup_former_witness_agrees :
  spec_wf recog_req recog_resp dup_trace = true /\ classes dup_trace = (false, false, false, false)
  /\ model_outs dup_trace = spec_outs' dup_trace.
Proof. split; [vm_compute; reflexivity|]. split; vm_compute; reflexivity. Qed.

Lemma fin_refuted :
  spec_wf recog_req recog_resp fin_early_trace = true /\ classes fin_early_trace = (false, false, false, true)
  /\ model_outs fin_early_trace <> spec_outs' fin_early_trace.
Proof. split; [vm_compute; reflexivity|]. split; [vm_compute; reflexivity|]. apply outs_neq. vm_compute. reflexivity. Qed.

Lemma fin_former_witness_agrees :
  spec_wf recog_req recog_resp fin_trace = true /\ classes fin_trace = (false, false, false, false)
  /\ model_outs fin_trace = spec_outs' fin_trace.
Proof. split; [vm_compute; reflexivity|]. split; vm_compute; reflexivity. Qed.

