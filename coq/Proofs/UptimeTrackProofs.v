(* C19, tracker level: sticky bad marker, frame/isolation of (connection, direction) entries,
   role labelling. *)
From Coq Require Import List ZArith Bool Lia.
From HN Require Import Model.Uptime Spec.UptimeSpec Proofs.UptimeProofs Proofs.UptimeEstProofs.
Import ListNotations.
Open Scope Z_scope.

(* ------------------------------------------------------------------ keys and the cache *)

Lemma conn_eqb_eq a b : conn_eqb a b = true <-> a = b.
Proof.
  unfold conn_eqb. destruct a, b; cbn [Uptime.src_ip Uptime.src_port Uptime.dst_ip Uptime.dst_port].
  rewrite !andb_true_iff, !Z.eqb_eq. split; [intros [[[-> ->] ->] ->]; reflexivity | intros E; inversion E; auto].
Qed.
Lemma conn_eqb_refl a : conn_eqb a a = true.
Proof. now apply conn_eqb_eq. Qed.

Lemma key_eqb_eq a b : key_eqb a b = true <-> a = b.
Proof.
  unfold key_eqb. destruct a as [c r], b as [c' r']; cbn [fst snd].
  rewrite andb_true_iff, conn_eqb_eq, eqb_true_iff. split; [intros [-> ->]; reflexivity | intros E; inversion E; auto].
Qed.
Lemma key_eqb_refl a : key_eqb a a = true.
Proof. now apply key_eqb_eq. Qed.
Lemma key_eqb_neq a b : a <> b -> key_eqb a b = false.
Proof. intros H. destruct (key_eqb a b) eqn:E; [apply key_eqb_eq in E; contradiction | reflexivity]. Qed.

Lemma cache_get_remove c k k' :
  cache_get (cache_remove c k) k' = if key_eqb k k' then None else cache_get c k'.
Proof.
  induction c as [|[k0 v0] c IH]; cbn [cache_remove cache_get].
  - now destruct (key_eqb k k').
  - destruct (key_eqb k0 k) eqn:E0.
    + apply key_eqb_eq in E0. subst k0. rewrite IH. destruct (key_eqb k k'); reflexivity.
    + cbn [cache_get]. rewrite IH. destruct (key_eqb k0 k') eqn:E1; [|reflexivity].
      apply key_eqb_eq in E1. subst k0. destruct (key_eqb k k') eqn:E2; [|reflexivity].
      apply key_eqb_eq in E2. subst k. rewrite key_eqb_refl in E0. discriminate.
Qed.

Lemma cache_get_app c k v k' :
  cache_get (c ++ [(k, v)]) k' =
  match cache_get c k' with Some x => Some x | None => if key_eqb k k' then Some v else None end.
Proof.
  induction c as [|[k0 v0] c IH]; cbn [app cache_get]; [reflexivity|].
  destruct (key_eqb k0 k'); [reflexivity | exact IH].
Qed.

Lemma cache_get_insert c k v k' :
  cache_get (cache_insert c k v) k' = if key_eqb k k' then Some v else cache_get c k'.
Proof.
  unfold cache_insert. rewrite cache_get_app, cache_get_remove.
  destruct (key_eqb k k'); [reflexivity|]. now destruct (cache_get c k').
Qed.

(* ------------------------------------------------------------------ check_ts_tcp: local to its key *)

Lemma check_frame tr conn r v now k' :
  k' <> (conn, r) ->
  cache_get (fst (check_ts_tcp tr conn r v now)) k' = cache_get tr k'.
Proof.
  intros Hne. unfold check_ts_tcp.
  assert (Hk : key_eqb (conn, r) k' = false) by (apply key_eqb_neq; congruence).
  destruct (cache_get tr (conn, r)) as [ref|].
  - destruct (is_bad_frequency ref); [reflexivity|].
    destruct (calculate_frequency_p0f_style _ ref); cbn [fst]; [reflexivity | reflexivity |].
    now rewrite cache_get_insert, Hk.
  - cbn [fst]. now rewrite cache_get_insert, Hk.
Qed.

Lemma check_local tr1 tr2 conn r v now :
  cache_get tr1 (conn, r) = cache_get tr2 (conn, r) ->
  snd (check_ts_tcp tr1 conn r v now) = snd (check_ts_tcp tr2 conn r v now) /\
  cache_get (fst (check_ts_tcp tr1 conn r v now)) (conn, r) = cache_get (fst (check_ts_tcp tr2 conn r v now)) (conn, r).
Proof.
  intros E. unfold check_ts_tcp. rewrite <- E.
  destruct (cache_get tr1 (conn, r)) as [ref|] eqn:G.
  - destruct (is_bad_frequency ref); [cbn [fst snd]; rewrite G; auto|].
    destruct (calculate_frequency_p0f_style _ ref); cbn [fst snd]; [rewrite G; auto | rewrite G; auto |].
    now rewrite !cache_get_insert, key_eqb_refl.
  - cbn [fst snd]. now rewrite !cache_get_insert, key_eqb_refl.
Qed.

(* key under which a segment is tracked *)
Definition seg_role (s : segment) : bool :=
  is_packet_from_client (sg_flags s) (src_port (sg_conn s)) (dst_port (sg_conn s)).
Definition seg_key (s : segment) : connection_key := (sg_conn s, seg_role s).
Definition seg_valid (s : segment) : bool :=
  is_valid (sg_flags s) (Z.land (sg_flags s) (Z.lor (Z.lor SYN ACK) (Z.lor FIN RST))).

Lemma process_unfold tr s now :
  process_segment tr s now =
  if negb (seg_valid s) then (tr, RErr)
  else (fst (check_ts_tcp tr (sg_conn s) (seg_role s) (sg_tsval s) now),
        ROut (fst (snd (check_ts_tcp tr (sg_conn s) (seg_role s) (sg_tsval s) now)))
             (snd (snd (check_ts_tcp tr (sg_conn s) (seg_role s) (sg_tsval s) now)))).
Proof.
  unfold process_segment, seg_valid, seg_role.
  destruct (negb _); [reflexivity|].
  destruct (check_ts_tcp _ _ _ _ _) as [tr' [cli srv]]. reflexivity.
Qed.

Lemma process_frame tr s now k' :
  k' <> seg_key s -> cache_get (fst (process_segment tr s now)) k' = cache_get tr k'.
Proof.
  intros Hne. rewrite process_unfold. destruct (negb (seg_valid s)); cbn [fst]; [reflexivity|].
  now apply check_frame.
Qed.

Lemma process_local tr1 tr2 s now :
  cache_get tr1 (seg_key s) = cache_get tr2 (seg_key s) ->
  snd (process_segment tr1 s now) = snd (process_segment tr2 s now) /\
  cache_get (fst (process_segment tr1 s now)) (seg_key s) = cache_get (fst (process_segment tr2 s now)) (seg_key s).
Proof.
  intros E. rewrite !process_unfold. destruct (negb (seg_valid s)); cbn [fst snd]; [auto|].
  destruct (check_local tr1 tr2 (sg_conn s) (seg_role s) (sg_tsval s) now E) as [A B].
  rewrite A. auto.
Qed.

Lemma run_history_cons tr s now h :
  run_history tr ((s, now) :: h) = snd (process_segment tr s now) :: run_history (fst (process_segment tr s now)) h.
Proof. cbn [run_history]. now destruct (process_segment tr s now). Qed.

(* ------------------------------------------------------------------ isolation of (connection, direction) entries *)

(* results of the segments tracked under key k *)
Fixpoint outputs_of (k : connection_key) (h : list (segment * Z)) (outs : list seg_result) : list seg_result :=
  match h, outs with
  | (s, _) :: h', o :: outs' => if key_eqb (seg_key s) k then o :: outputs_of k h' outs' else outputs_of k h' outs'
  | _, _ => []
  end.
Definition only_key (k : connection_key) (h : list (segment * Z)) : list (segment * Z) :=
  filter (fun e => key_eqb (seg_key (fst e)) k) h.

Theorem isolation k h : forall tr tr_k,
  cache_get tr k = cache_get tr_k k ->
  outputs_of k h (run_history tr h) = run_history tr_k (only_key k h).
Proof.
  induction h as [|[s now] h IH]; intros tr tr_k E; [reflexivity|].
  rewrite run_history_cons. cbn [outputs_of only_key filter fst].
  destruct (key_eqb (seg_key s) k) eqn:K.
  - apply key_eqb_eq in K. subst k.
    destruct (process_local tr tr_k s now E) as [A B].
    rewrite run_history_cons. rewrite A. f_equal. apply IH. exact B.
  - apply IH. rewrite process_frame; [exact E|].
    intros ->. rewrite key_eqb_refl in K. discriminate.
Qed.

(* a client-direction key and a server-direction key are different keys, whatever the connections *)
Lemma directions_distinct (c1 c2 : connection) : (c1, true) <> (c2, false).
Proof. congruence. Qed.

(* ------------------------------------------------------------------ sticky bad marker *)

Definition silent (r : seg_result) : Prop := r = RErr \/ r = ROut None None.

Lemma check_bad tr conn r v now e :
  cache_get tr (conn, r) = Some e -> is_bad_frequency e = true ->
  check_ts_tcp tr conn r v now = (tr, (None, None)).
Proof. intros G B. unfold check_ts_tcp. now rewrite G, B. Qed.

Lemma process_bad tr s now e :
  cache_get tr (seg_key s) = Some e -> is_bad_frequency e = true ->
  fst (process_segment tr s now) = tr /\ silent (snd (process_segment tr s now)).
Proof.
  intros G B. rewrite process_unfold. destruct (negb (seg_valid s)); cbn [fst snd]; [split; [reflexivity | now left]|].
  unfold seg_key in G. rewrite (check_bad _ _ _ _ _ _ G B). cbn [fst snd]. split; [reflexivity | now right].
Qed.

(* while the marker is in the tracker, every segment of that endpoint is silent and the marker stays *)
Theorem sticky_history k h : forall tr e,
  cache_get tr k = Some e -> is_bad_frequency e = true ->
  Forall silent (outputs_of k h (run_history tr h)) /\
  exists e', cache_get (final_tracker tr h) k = Some e' /\ is_bad_frequency e' = true.
Proof.
  induction h as [|[s now] h IH]; intros tr e G B.
  - split; [constructor | exists e; auto].
  - rewrite run_history_cons. cbn [outputs_of final_tracker].
    destruct (key_eqb (seg_key s) k) eqn:K.
    + apply key_eqb_eq in K. subst k. destruct (process_bad tr s now e G B) as [Etr Hs].
      rewrite Etr. destruct (IH tr e G B) as [F X]. split; [constructor; assumption | exact X].
    + apply (IH (fst (process_segment tr s now)) e); [|exact B].
      rewrite process_frame; [exact G|]. intros ->. rewrite key_eqb_refl in K. discriminate.
Qed.

(* a failed evaluation stores the marker *)
Lemma ref_is_now e : is_bad_frequency e = false -> e = ts_now (ts_val e) (recv_time_ms e).
Proof. destruct e as [v t b]; cbn. intros ->. reflexivity. Qed.

Lemma process_failed_eval tr s now ref :
  seg_valid s = true ->
  cache_get tr (seg_key s) = Some ref -> is_bad_frequency ref = false ->
  model_eval (recv_time_ms ref) (ts_val ref) now (sg_tsval s) = EvBad ->
  snd (process_segment tr s now) = ROut None None /\
  cache_get (fst (process_segment tr s now)) (seg_key s) = Some bad_frequency_marker.
Proof.
  intros V G B M. rewrite process_unfold, V. cbn [negb fst snd].
  unfold model_eval in M. rewrite <- (ref_is_now ref B) in M.
  unfold check_ts_tcp. unfold seg_key in G. rewrite G, B.
  destruct (calculate_frequency_p0f_style (ts_now (sg_tsval s) now) ref); [discriminate | discriminate |].
  cbn [fst snd]. split; [reflexivity|]. now rewrite cache_get_insert, key_eqb_refl.
Qed.

(* "keep waiting": nothing reported, tracker untouched (the reference stays, no marker) *)
Lemma process_wait tr s now ref :
  seg_valid s = true ->
  cache_get tr (seg_key s) = Some ref -> is_bad_frequency ref = false ->
  model_eval (recv_time_ms ref) (ts_val ref) now (sg_tsval s) = EvWait ->
  process_segment tr s now = (tr, ROut None None).
Proof.
  intros V G B M. rewrite process_unfold, V. cbn [negb].
  unfold model_eval in M. rewrite <- (ref_is_now ref B) in M.
  unfold check_ts_tcp. unfold seg_key in G. rewrite G, B.
  destruct (calculate_frequency_p0f_style (ts_now (sg_tsval s) now) ref); try discriminate. reflexivity.
Qed.

Theorem sticky_after_failed_eval tr s now ref h :
  seg_valid s = true ->
  cache_get tr (seg_key s) = Some ref -> is_bad_frequency ref = false ->
  model_eval (recv_time_ms ref) (ts_val ref) now (sg_tsval s) = EvBad ->
  let tr' := fst (process_segment tr s now) in
  snd (process_segment tr s now) = ROut None None /\
  Forall silent (outputs_of (seg_key s) h (run_history tr' h)) /\
  exists e', cache_get (final_tracker tr' h) (seg_key s) = Some e' /\ is_bad_frequency e' = true.
Proof.
  intros V G B M tr'. destruct (process_failed_eval tr s now ref V G B M) as [O C].
  split; [exact O|]. apply (sticky_history (seg_key s) h tr' bad_frequency_marker C). reflexivity.
Qed.

(* what check_ts_tcp reports is the pair estimator applied to the stored reference; success leaves the
   tracker unchanged (the reference stays the first observation) *)
Lemma process_eval tr s now ref :
  seg_valid s = true ->
  cache_get tr (seg_key s) = Some ref -> is_bad_frequency ref = false ->
  forall u, model_estimate (recv_time_ms ref) (ts_val ref) now (sg_tsval s) = Some u ->
  process_segment tr s now = (tr, if seg_role s then ROut (Some u) None else ROut None (Some u)).
Proof.
  intros V G B u M. rewrite process_unfold, V. cbn [negb].
  unfold model_estimate, model_eval in M. rewrite <- (ref_is_now ref B) in M.
  unfold check_ts_tcp. unfold seg_key in G. rewrite G, B.
  destruct (calculate_frequency_p0f_style (ts_now (sg_tsval s) now) ref); [|discriminate|discriminate].
  inversion M. cbn [fst snd]. now destruct (seg_role s).
Qed.

Lemma process_first tr s now :
  seg_valid s = true -> cache_get tr (seg_key s) = None ->
  snd (process_segment tr s now) = ROut None None /\
  cache_get (fst (process_segment tr s now)) (seg_key s) = Some (ts_now (sg_tsval s) now).
Proof.
  intros V G. rewrite process_unfold, V. cbn [negb]. unfold check_ts_tcp. unfold seg_key in G. rewrite G.
  cbn [fst snd]. split; [reflexivity|]. now rewrite cache_get_insert, key_eqb_refl.
Qed.

(* ------------------------------------------------------------------ role rule *)

Definition role_of_bool (b : bool) : role := if b then Client else Server.

Definition flag_bytes : list Z := map Z.of_nat (seq 0 256).
Lemma flag_bytes_complete f : 0 <= f < 256 -> In f flag_bytes.
Proof.
  intros H. unfold flag_bytes. replace f with (Z.of_nat (Z.to_nat f)) by lia.
  apply in_map, in_seq. lia.
Qed.

Definition flags_agree (f : Z) : bool :=
  Bool.eqb (from_client f) (has_syn f && negb (has_ack f)) &&
  Bool.eqb (from_server f) (has_syn f && has_ack f) &&
  Bool.eqb (is_valid f (Z.land f (Z.lor (Z.lor SYN ACK) (Z.lor FIN RST)))) (spec_analysed f).
Lemma flags_agree_all : forallb flags_agree flag_bytes = true.
Proof. vm_compute. reflexivity. Qed.

Lemma flags_agree_byte f : 0 <= f < 256 ->
  from_client f = (has_syn f && negb (has_ack f)) /\ from_server f = (has_syn f && has_ack f) /\
  is_valid f (Z.land f (Z.lor (Z.lor SYN ACK) (Z.lor FIN RST))) = spec_analysed f.
Proof.
  intros H. pose proof (proj1 (forallb_forall _ _) flags_agree_all f (flag_bytes_complete f H)) as A.
  unfold flags_agree in A. apply andb_prop in A. destruct A as [A C]. apply andb_prop in A. destruct A as [A B].
  apply eqb_prop in A, B, C. auto.
Qed.

Theorem role_rule flags sp_ dp :
  0 <= flags < 256 ->
  role_of_bool (is_packet_from_client flags sp_ dp) = spec_role flags sp_ dp.
Proof.
  intros H. destruct (flags_agree_byte flags H) as (A & B & _).
  unfold is_packet_from_client, spec_role. rewrite A, B.
  destruct (has_syn flags), (has_ack flags); cbn [andb negb]; try reflexivity.
  all: destruct ((1024 <? sp_) && (dp <=? 1024)); reflexivity.
Qed.

Lemma seg_valid_spec s : 0 <= sg_flags s < 256 -> seg_valid s = spec_analysed (sg_flags s).
Proof. intros H. unfold seg_valid. now destruct (flags_agree_byte _ H) as (_ & _ & C). Qed.

(* an estimate appears in exactly one slot, the one the role rule names *)
Theorem role_labelling tr s now tr' cli srv :
  0 <= sg_flags s < 256 ->
  process_segment tr s now = (tr', ROut cli srv) ->
  let ro := spec_role (sg_flags s) (src_port (sg_conn s)) (dst_port (sg_conn s)) in
  (cli = None \/ srv = None) /\ (cli <> None -> ro = Client) /\ (srv <> None -> ro = Server).
Proof.
  intros Hf E ro. rewrite process_unfold in E.
  destruct (negb (seg_valid s)); [discriminate|].
  pose proof (role_rule (sg_flags s) (src_port (sg_conn s)) (dst_port (sg_conn s)) Hf) as R. fold ro in R.
  fold (seg_role s) in R.
  unfold check_ts_tcp in E.
  destruct (cache_get tr (sg_conn s, seg_role s)) as [ref|].
  - destruct (is_bad_frequency ref).
    + cbn [fst snd] in E. inversion E. subst. repeat split; auto; congruence.
    + destruct (calculate_frequency_p0f_style _ ref).
      * destruct (seg_role s); cbn [fst snd role_of_bool] in *; inversion E; subst; repeat split; auto; congruence.
      * cbn [fst snd] in E. inversion E. subst. repeat split; auto; congruence.
      * cbn [fst snd] in E. inversion E. subst. repeat split; auto; congruence.
  - cbn [fst snd] in E. inversion E. subst. repeat split; auto; congruence.
Qed.

(* ------------------------------------------------------------------ the hypotheses above are satisfiable *)
Definition ex_conn : connection := {| src_ip := 167772161; src_port := 40000; dst_ip := 167772162; dst_port := 80 |}.
Definition ex_seg (fl v : Z) : segment := {| sg_flags := fl; sg_conn := ex_conn; sg_tsval := v; sg_tsecr := 0 |}.
Definition ex_tracker : cache := fst (process_segment [] (ex_seg 2 1000) 5000).

(* sticky: reference (5000 ms, 1000), next segment 10 ms later: interval too short -> marker -> silence *)
Example sticky_hypotheses_ex :
  seg_valid (ex_seg 16 1010) = true /\
  cache_get ex_tracker (seg_key (ex_seg 16 1010)) = Some (ts_now 1000 5000) /\
  model_eval 5000 1000 5010 1010 = EvBad /\
  run_history ex_tracker [(ex_seg 16 1010, 5010); (ex_seg 16 2000, 6000); (ex_seg 24 3000, 7000)]
  = [ROut None None; ROut None None; ROut None None].
Proof. vm_compute. auto. Qed.

(* isolation: the client segments report the same with the server segments of the connection deleted *)
Example isolation_ex :
  let srv := {| src_ip := 167772162; src_port := 80; dst_ip := 167772161; dst_port := 40000 |} in
  let sseg fl v := {| sg_flags := fl; sg_conn := srv; sg_tsval := v; sg_tsecr := 0 |} in
  let h := [(ex_seg 2 1000, 5000); (sseg 18 70000, 5010); (ex_seg 16 2000, 6000); (sseg 16 70100, 6010)] in
  outputs_of (ex_conn, true) h (run_history [] h) = run_history [] (only_key (ex_conn, true) h) /\
  run_history [] (only_key (ex_conn, true) h)
  = [ROut None None; ROut (Some {| u_freq := 1000; u_days := 0; u_hours := 0; u_min := 0; u_mod_days := 49 |}) None].
Proof. vm_compute. auto. Qed.

Example role_ex :
  spec_role 2 40000 8080 = Client /\ spec_role 18 80 40000 = Server /\
  spec_role 16 40000 80 = Client /\ spec_role 16 40000 8080 = Server /\ spec_role 24 80 40000 = Server.
Proof. vm_compute. auto. Qed.
