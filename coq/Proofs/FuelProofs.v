(* The fuel of the separated_list loop (Model/SigText.v sep_loop) never runs out: with any fuel >= length of
   the input the loop returns what it returns with fuel = length of the input, for every element parser
   that returns a suffix no longer than its input — which all element parsers of db_parse.rs do. *)
From Coq Require Import List NArith Bool Lia.
From Coq Require Import Strings.Byte.
From HN Require Import Base.Bytes Model.SigAst Model.SigText Model.DbLoad.
Import ListNotations.

Definition shrinks {A} (p : parser A) : Prop := forall i a r, p i = Some (a, r) -> (length r <= length i)%nat.

Lemma strip_prefix_len p : forall i r, strip_prefix p i = Some r -> (length r + length p = length i)%nat.
Proof.
  induction p as [|x p IH]; intros i r H; cbn in *.
  - inversion H. lia.
  - destruct i as [|y i]; [discriminate|]. destruct (beqb x y); [|discriminate]. apply IH in H. cbn. lia.
Qed.

Lemma span_len p l : (length (snd (span p l)) <= length l)%nat /\ (length (fst (span p l)) + length (snd (span p l)) = length l)%nat.
Proof.
  induction l as [|b l IH]; cbn; [lia|]. destruct (p b); cbn; [|lia].
  destruct (span p l) as [a c]. cbn in *. lia.
Qed.

Lemma sep_loop_fuel {A} (c : byte) (sep' : bytes) (p : parser A) : shrinks p ->
  forall n fuel i, (length i <= n)%nat -> (n <= fuel)%nat ->
  sep_loop fuel (c :: sep') p i = sep_loop n (c :: sep') p i.
Proof.
  intros Hp. induction n as [|n IH]; intros fuel i Hi Hf.
  - destruct i; [|cbn in Hi; lia]. destruct fuel; reflexivity.
  - destruct fuel as [|fuel]; [lia|]. cbn [sep_loop].
    destruct (strip_prefix (c :: sep') i) as [i1|] eqn:E1; [|reflexivity].
    apply strip_prefix_len in E1. cbn [length] in E1.
    destruct (p i1) as [[o i2]|] eqn:E2; [|reflexivity].
    apply Hp in E2. rewrite (IH fuel i2) by lia. reflexivity.
Qed.

(* the model's choice fuel = length of the input is as good as any larger fuel *)
Theorem sep_loop_fuel_suffices {A} (p : parser A) : shrinks p ->
  forall fuel i, (length i <= fuel)%nat -> sep_loop fuel comma p i = sep_loop (length i) comma p i.
Proof. intros Hp fuel i H. apply (sep_loop_fuel ","%byte [] p Hp); lia. Qed.

(* ---- the element parsers shrink ---- *)
Lemma shrinks_tag {A} t (v : A) : shrinks (tag t v).
Proof. intros i a r H. unfold tag in H. destruct (strip_prefix t i) eqn:E; inversion H; subst. apply strip_prefix_len in E. lia. Qed.

Lemma shrinks_span1 p : shrinks (span1 p).
Proof.
  intros i a r H. unfold span1 in H. pose proof (span_len p i) as L. destruct (span p i) as [d r'].
  destruct d; inversion H; subst. cbn in L. lia.
Qed.

Lemma shrinks_num max : shrinks (num max).
Proof.
  intros i a r H. unfold num in H. destruct (digit1 i) as [[d r']|] eqn:E; [|discriminate].
  apply shrinks_span1 in E. destruct (dec_max max d); inversion H; subst. exact E.
Qed.

Lemma shrinks_tag_num {A} t max (f : N -> A) : shrinks (tag_num t max f).
Proof.
  intros i a r H. unfold tag_num in H. destruct (strip_prefix t i) as [r1|] eqn:E1; [|discriminate].
  destruct (num max r1) as [[n r2]|] eqn:E2; inversion H; subst. apply strip_prefix_len in E1. apply shrinks_num in E2. lia.
Qed.

Lemma shrinks_orelse {A} (p q : parser A) : shrinks p -> shrinks q -> shrinks (fun i => orelse (p i) (q i)).
Proof. intros Hp Hq i a r H. destruct (p i) as [[a' r']|] eqn:E; cbn in H; [inversion H; subst; eauto | eauto]. Qed.

Lemma shrinks_alt_tags {A} (ts : list (bytes * A)) : shrinks (alt_tags ts).
Proof.
  induction ts as [|[t v] ts IH]; intros i a r H; cbn in H; [discriminate|].
  destruct (tag t v i) as [[a' r']|] eqn:E; cbn in H; [inversion H; subst; eapply shrinks_tag; eauto | eauto].
Qed.

Lemma shrinks_parse_quirk : shrinks parse_quirk.
Proof. apply shrinks_alt_tags. Qed.

Lemma shrinks_parse_tcp_option : shrinks parse_tcp_option.
Proof.
  unfold parse_tcp_option.
  repeat (apply shrinks_orelse; [first [apply shrinks_tag_num | apply shrinks_tag]|]). apply shrinks_tag_num.
Qed.

Lemma take_until_len c l : forall a s, take_until c l = Some (a, s) -> (length s <= length l)%nat.
Proof.
  induction l as [|b l IH]; intros a s H; cbn in H; [discriminate|].
  destruct (beqb b c); [inversion H; subst; cbn; lia|].
  destruct (take_until c l) as [[a' s']|] eqn:E; [|discriminate]. inversion H; subst.
  pose proof (IH _ _ eq_refl) as L. cbn [length]. lia.
Qed.

Lemma bracket_value_len i v r : bracket_value i = Some (v, r) -> (length r <= length i)%nat.
Proof.
  unfold bracket_value. intros H. destruct (strip_prefix (bs "=[") i) as [r1|] eqn:E1; [|discriminate].
  destruct (take_until "]"%byte r1) as [[v' r2]|] eqn:E2; [|discriminate].
  destruct (strip_prefix (bs "]") r2) as [r3|] eqn:E3; inversion H; subst.
  apply strip_prefix_len in E1, E3. apply take_until_len in E2. lia.
Qed.

Lemma kv_len i : (length (snd (parse_header_key_value i)) <= length i)%nat.
Proof.
  unfold parse_header_key_value. pose proof (span_len is_hname i) as L2. destruct (span is_hname i) as [name r1]. cbn [fst snd] in L2.
  destruct (bracket_value r1) as [[v r2]|] eqn:E; cbn [snd]; [apply bracket_value_len in E; lia | lia].
Qed.

Lemma shrinks_parse_http_header : shrinks parse_http_header.
Proof.
  intros i a r H. unfold parse_http_header in H. injection H as _ <-.
  set (i1 := match strip_prefix (bs "?") i with Some r => r | None => i end).
  change (length (snd (parse_header_key_value i1)) <= length i)%nat.
  assert (L1 : (length i1 <= length i)%nat).
  { unfold i1. destruct (strip_prefix (bs "?") i) eqn:E; [apply strip_prefix_len in E; lia | lia]. }
  pose proof (kv_len i1) as L2. lia.
Qed.

Lemma shrinks_alphanumeric1 : shrinks alphanumeric1.
Proof. apply shrinks_span1. Qed.

Lemma space0_len i : (length (space0 i) <= length i)%nat.
Proof. unfold space0. apply span_len. Qed.

Lemma shrinks_parse_key_value : shrinks parse_key_value.
Proof.
  intros i a r H. unfold parse_key_value in H. destruct (span1 is_name_char i) as [[name r0]|] eqn:E0; [|discriminate].
  apply shrinks_span1 in E0.
  destruct (strip_prefix (bs "=[") r0) as [r1|] eqn:E1; [|inversion H; subst; exact E0].
  apply strip_prefix_len in E1.
  destruct (span1 is_name_char r1) as [[v r2]|] eqn:E2; [|inversion H; subst; exact E0].
  apply shrinks_span1 in E2.
  destruct (strip_prefix (bs "]") r2) as [r3|] eqn:E3; inversion H; subst; [|exact E0].
  apply strip_prefix_len in E3. lia.
Qed.

(* every use of separated_list0/1 in the model is covered *)
Theorem model_lists_never_run_out_of_fuel :
  shrinks parse_tcp_option /\ shrinks parse_quirk /\ shrinks parse_http_header /\ shrinks alphanumeric1 /\ shrinks parse_key_value.
Proof.
  repeat split; [apply shrinks_parse_tcp_option | apply shrinks_parse_quirk | apply shrinks_parse_http_header
                 | apply shrinks_alphanumeric1 | apply shrinks_parse_key_value].
Qed.
