(* Proofs for C06, signature text: print -> parse round trips of the nom model, canonical lines. *)
From Coq Require Import List NArith Bool Lia ZifyBool ZifyN.
From Coq Require Import Strings.Byte.
From HN Require Import Base.Bytes Model.SigAst Model.SigText Spec.SigTextSpec.
Import ListNotations.
Open Scope N_scope.

(* ================= bytes ================= *)
(* cbn may compare two concrete bytes but must not unfold a comparison with a variable *)
Arguments beqb !a !b.
Arguments show_N : simpl never.
Arguments dec_max : simpl never.
Lemma beqb_refl b : beqb b b = true.
Proof. now apply beqb_eq. Qed.

Lemma beqb_neq a b : a <> b -> beqb a b = false.
Proof. intros H. destruct (beqb a b) eqn:E; [apply beqb_eq in E; contradiction | reflexivity]. Qed.

Lemma b2n_inj a b : b2n a = b2n b -> a = b.
Proof. intros H. rewrite <- (n2b_b2n a), <- (n2b_b2n b). now rewrite H. Qed.

Lemma strip_prefix_app p r : strip_prefix p (p ++ r) = Some r.
Proof. induction p as [|x p IH]; cbn; [reflexivity | now rewrite beqb_refl]. Qed.

(* a predicate fails on the first byte of k (or k is empty) *)
Definition stops (p : byte -> bool) (k : bytes) : bool :=
  match k with [] => true | b :: _ => negb (p b) end.

Lemma span_app p l k : forallb p l = true -> stops p k = true -> span p (l ++ k) = (l, k).
Proof.
  intros Hl Hk. induction l as [|b l IH]; cbn in *.
  - destruct k as [|c k]; cbn in *; [reflexivity|]. now destruct (p c).
  - apply andb_true_iff in Hl as [Hb Hl]. rewrite Hb, (IH Hl). reflexivity.
Qed.

(* ================= decimal ================= *)
Lemma digit_byte_val d : d < 10 -> digit_val (digit_byte d) = d.
Proof. intros H. unfold digit_val, digit_byte. rewrite b2n_n2b by lia. lia. Qed.

Lemma digit_byte_is_digit d : d < 10 -> is_digit (digit_byte d) = true.
Proof. intros H. unfold is_digit, digit_byte. rewrite b2n_n2b by lia. lia. Qed.

Lemma show_N_fuel_S f n acc :
  show_N_fuel (S f) n acc =
  if n <? 10 then digit_byte (n mod 10) :: acc else show_N_fuel f (n / 10) (digit_byte (n mod 10) :: acc).
Proof. reflexivity. Qed.

Lemma show_N_fuel_acc f : forall n acc, show_N_fuel f n acc = show_N_fuel f n [] ++ acc.
Proof.
  induction f as [|f IH]; intros n acc; cbn [show_N_fuel]; [reflexivity|].
  destruct (n <? 10); [reflexivity|].
  rewrite (IH (n / 10) (_ :: acc)), (IH (n / 10) [_]). now rewrite <- app_assoc.
Qed.

Lemma read_N_digits_snoc l d : read_N_digits (l ++ [d]) = read_N_digits l * 10 + digit_val d.
Proof. unfold read_N_digits. now rewrite fold_left_app. Qed.

Lemma pow2_succ f : 2 ^ N.of_nat (S f) = 2 * 2 ^ N.of_nat f.
Proof. rewrite Nat2N.inj_succ, N.pow_succ_r'. reflexivity. Qed.

Lemma show_N_fuel_spec f : forall n, n < 2 ^ N.of_nat f ->
  read_N_digits (show_N_fuel (S f) n []) = n /\ forallb is_digit (show_N_fuel (S f) n []) = true
  /\ show_N_fuel (S f) n [] <> [].
Proof.
  induction f as [|f IH]; intros n Hn.
  - assert (n = 0) by (cbn in Hn; lia). subst. vm_compute. repeat split; congruence.
  - rewrite show_N_fuel_S. destruct (n <? 10) eqn:E.
    + assert (Hm : n mod 10 = n) by (apply N.mod_small; lia). rewrite Hm.
      unfold read_N_digits; cbn [fold_left forallb]. rewrite digit_byte_val by lia. rewrite digit_byte_is_digit by lia.
      repeat split; try congruence; lia.
    + rewrite show_N_fuel_acc. rewrite pow2_succ in Hn.
      assert (Hd : n / 10 < 2 ^ N.of_nat f).
      { remember (2 ^ N.of_nat f) as P. clear HeqP IH. lia. }
      destruct (IH _ Hd) as (H1 & H2 & H3).
      assert (Hlt : n mod 10 < 10) by (apply N.mod_lt; lia).
      rewrite read_N_digits_snoc, H1, digit_byte_val by assumption.
      rewrite forallb_app, H2. cbn. rewrite digit_byte_is_digit by assumption.
      repeat split.
      * pose proof (N.div_mod n 10). lia.
      * intros C. apply app_eq_nil in C as [_ C]. discriminate.
Qed.

Lemma show_N_spec n :
  read_N_digits (show_N n) = n /\ forallb is_digit (show_N n) = true /\ show_N n <> [].
Proof.
  unfold show_N. apply show_N_fuel_spec. rewrite N2Nat.id. apply N.size_gt.
Qed.

Lemma read_show_N n : read_N_digits (show_N n) = n.
Proof. apply show_N_spec. Qed.
Lemma show_N_digits n : forallb is_digit (show_N n) = true.
Proof. apply show_N_spec. Qed.
Lemma show_N_cons n : exists c r, show_N n = c :: r /\ is_digit c = true.
Proof.
  destruct (show_N_spec n) as (_ & H2 & H3). destruct (show_N n) as [|c r]; [congruence|].
  exists c, r. cbn in H2. apply andb_true_iff in H2 as [H2 _]. auto.
Qed.

Lemma digit1_show n k : stops is_digit k = true -> digit1 (show_N n ++ k) = Some (show_N n, k).
Proof.
  intros Hk. unfold digit1, span1. rewrite span_app by (auto using show_N_digits).
  destruct (show_N_cons n) as (c & r & E & _). now rewrite E.
Qed.

Lemma dec_max_show max n : n <= max -> dec_max max (show_N n) = Some n.
Proof. intros H. unfold dec_max. rewrite read_show_N. destruct (n <=? max) eqn:E; [reflexivity | lia]. Qed.

Lemma num_show max n k : n <= max -> stops is_digit k = true -> num max (show_N n ++ k) = Some (n, k).
Proof. intros H Hk. unfold num. rewrite digit1_show by assumption. now rewrite dec_max_show. Qed.

(* a digit is different from every non-digit byte *)
Lemma digit_neq x c : is_digit c = true -> is_digit x = false -> beqb x c = false.
Proof. intros Hc Hx. apply beqb_neq. intros ->. congruence. Qed.

(* strip_prefix of a pattern starting with a non-digit fails on text starting with a digit *)
Lemma strip_prefix_digit x p c r : is_digit c = true -> is_digit x = false -> strip_prefix (x :: p) (c :: r) = None.
Proof. intros Hc Hx. cbn. now rewrite (digit_neq x c Hc Hx). Qed.

(* ================= continuation after a token ================= *)
(* what follows a token inside a signature: nothing, ':' or ',' *)
Definition term (k : bytes) : bool :=
  match k with [] => true | b :: _ => beqb b ":"%byte || beqb b ","%byte end.

Lemma term_cases k : term k = true -> k = [] \/ (exists r, k = ":"%byte :: r) \/ (exists r, k = ","%byte :: r).
Proof.
  destruct k as [|b r]; cbn; [auto|]. intros H. apply orb_true_iff in H as [H|H]; apply beqb_eq in H; subst; eauto.
Qed.

Lemma term_stops_digit k : term k = true -> stops is_digit k = true.
Proof. intros H. destruct (term_cases k H) as [->|[[r ->]|[r ->]]]; reflexivity. Qed.

Lemma term_colon r : term (colon ++ r) = true. Proof. reflexivity. Qed.
Lemma term_comma r : term (comma ++ r) = true. Proof. reflexivity. Qed.

(* ================= TCP tokens ================= *)
Lemma parse_ip_version_print v k : parse_ip_version (print_ip_version v ++ k) = Some (v, k).
Proof. destruct v; reflexivity. Qed.

Lemma parse_payload_size_print v k : parse_payload_size (print_payload_size v ++ k) = Some (v, k).
Proof. destruct v; reflexivity. Qed.

Lemma parse_quirk_print q k : parse_quirk (print_quirk q ++ k) = Some (q, k).
Proof. destruct q; reflexivity. Qed.

Lemma u8_le n : u8 n = true -> n <= U8. Proof. unfold u8, U8. lia. Qed.
Lemma u16_le n : u16 n = true -> n <= U16. Proof. unfold u16, U16. lia. Qed.

Lemma parse_ttl_print t k : wf_ttl t = true -> term k = true -> parse_ttl (print_ttl t ++ k) = Some (t, k).
Proof.
  intros Hwf Hk. pose proof (term_stops_digit k Hk) as Hs.
  unfold parse_ttl. destruct t as [n|n d|n|n]; cbn [print_ttl wf_ttl] in *.
  - (* Value *)
    apply u8_le in Hwf.
    assert (B : ttl_bad (show_N n ++ k) = None).
    { unfold ttl_bad. rewrite digit1_show by assumption.
      destruct (term_cases k Hk) as [->|[[r ->]|[r ->]]]; reflexivity. }
    assert (G : ttl_guess (show_N n ++ k) = None).
    { unfold ttl_guess. rewrite digit1_show by assumption.
      destruct (term_cases k Hk) as [->|[[r ->]|[r ->]]]; reflexivity. }
    assert (D : ttl_dist (show_N n ++ k) = None).
    { unfold ttl_dist. rewrite digit1_show by assumption.
      destruct (term_cases k Hk) as [->|[[r ->]|[r ->]]]; reflexivity. }
    rewrite B, G, D. cbn [orelse]. unfold ttl_value. now rewrite num_show.
  - (* Distance *)
    apply andb_true_iff in Hwf as [Hn Hd]. apply u8_le in Hn, Hd.
    rewrite <- !app_assoc.
    assert (B : ttl_bad (show_N n ++ bs "+" ++ show_N d ++ k) = None).
    { unfold ttl_bad. rewrite digit1_show by reflexivity. reflexivity. }
    assert (G : ttl_guess (show_N n ++ bs "+" ++ show_N d ++ k) = None).
    { unfold ttl_guess. rewrite digit1_show by reflexivity.
      destruct (show_N_cons d) as (c & r & E & Hc). rewrite E. cbn.
      rewrite (digit_neq "?"%byte c Hc) by reflexivity. reflexivity. }
    rewrite B, G. cbn [orelse]. unfold ttl_dist.
    rewrite digit1_show by reflexivity. cbn [strip_prefix bs bs_to]. cbn.
    rewrite digit1_show by assumption. now rewrite !dec_max_show.
  - (* Guess *)
    apply u8_le in Hwf. rewrite <- app_assoc.
    assert (B : ttl_bad (show_N n ++ bs "+?" ++ k) = None).
    { unfold ttl_bad. rewrite digit1_show by reflexivity. reflexivity. }
    rewrite B. cbn [orelse]. unfold ttl_guess. rewrite digit1_show by reflexivity. cbn.
    now rewrite dec_max_show.
  - (* Bad *)
    apply u8_le in Hwf. rewrite <- app_assoc.
    unfold ttl_bad. rewrite digit1_show by reflexivity. cbn. now rewrite dec_max_show.
Qed.

Lemma tag_num_show {A} (t : bytes) max (f : N -> A) n k :
  n <= max -> stops is_digit k = true -> tag_num t max f (t ++ show_N n ++ k) = Some (f n, k).
Proof. intros H Hk. unfold tag_num. rewrite strip_prefix_app, num_show by assumption. reflexivity. Qed.

(* text starting with a digit is not matched by a tag starting with a non-digit *)
Lemma tag_digit {A} x p (v : A) c r : is_digit c = true -> is_digit x = false -> tag (x :: p) v (c :: r) = None.
Proof. intros Hc Hx. unfold tag. now rewrite strip_prefix_digit. Qed.
Lemma tag_num_digit {A} x p max (f : N -> A) c r :
  is_digit c = true -> is_digit x = false -> tag_num (x :: p) max f (c :: r) = None.
Proof. intros Hc Hx. unfold tag_num. now rewrite strip_prefix_digit. Qed.

Lemma parse_window_size_print w k :
  wf_window w = true -> term k = true -> parse_window_size (print_window_size w ++ k) = Some (w, k).
Proof.
  intros Hwf Hk. pose proof (term_stops_digit k Hk) as Hs.
  unfold parse_window_size. destruct w as [n|n|n|n|]; cbn [print_window_size wf_window] in *.
  - apply u8_le in Hwf. rewrite <- app_assoc. rewrite (tag_num_show (bs "mss*")) by assumption. reflexivity.
  - apply u8_le in Hwf. rewrite <- app_assoc. rewrite (tag_num_show (bs "mtu*")) by assumption. reflexivity.
  - apply u16_le in Hwf. destruct (show_N_cons n) as (c & r & E & Hc).
    pose proof (tag_num_show [] U16 WValue n k Hwf Hs) as V. cbn [app] in V. rewrite V. rewrite E. cbn [app bs bs_to].
    rewrite (tag_digit "*"%byte), !tag_num_digit by (assumption || reflexivity). reflexivity.
  - apply u16_le in Hwf. rewrite <- app_assoc. rewrite (tag_num_show (bs "%")) by assumption. reflexivity.
  - reflexivity.
Qed.

Lemma parse_tcp_option_print o k :
  wf_option o = true -> term k = true -> parse_tcp_option (print_tcp_option o ++ k) = Some (o, k).
Proof.
  intros Hwf Hk. pose proof (term_stops_digit k Hk) as Hs.
  unfold parse_tcp_option. destruct o as [n| | | | | | |n]; cbn [print_tcp_option wf_option] in *; try reflexivity.
  - apply u8_le in Hwf. rewrite <- app_assoc. rewrite (tag_num_show (bs "eol+")) by assumption. reflexivity.
  - apply u8_le in Hwf. rewrite <- app_assoc. rewrite (tag_num_show (bs "?")) by assumption. reflexivity.
Qed.

Lemma star_or_num_print max o k :
  wf_optnum (fun n => n <=? max) o = true -> term k = true ->
  star_or_num max (print_opt_num o ++ k) = Some (o, k).
Proof.
  intros Hwf Hk. pose proof (term_stops_digit k Hk) as Hs.
  unfold star_or_num. destruct o as [n|]; cbn [print_opt_num wf_optnum] in *; [|reflexivity].
  assert (Hn : n <= max) by lia.
  rewrite (num_show max n k Hn Hs). destruct (show_N_cons n) as (c & r & E & Hc). rewrite E. cbn [app bs bs_to].
  rewrite (tag_digit "*"%byte) by (assumption || reflexivity). reflexivity.
Qed.

(* ================= lists ================= *)
(* text of the elements after the first one: ",x,y,z" *)
Definition tail_text {A} (pr : A -> bytes) (l : list A) : bytes := concat (map (fun x => comma ++ pr x) l).

Lemma join_cons2 (sep a b : bytes) r : join sep (a :: b :: r) = a ++ sep ++ join sep (b :: r).
Proof. reflexivity. Qed.

Lemma join_tail {A} (pr : A -> bytes) x l : join comma (map pr (x :: l)) = pr x ++ tail_text pr l.
Proof.
  revert x. induction l as [|y l IH]; intros x.
  - cbn. now rewrite app_nil_r.
  - cbn [map]. rewrite join_cons2. change (pr y :: map pr l) with (map pr (y :: l)). rewrite IH.
    unfold tail_text. cbn [map concat]. now rewrite <- app_assoc.
Qed.

Lemma tail_text_len {A} (pr : A -> bytes) l : (length l <= length (tail_text pr l))%nat.
Proof.
  induction l as [|x l IH]; [cbn; lia|]. unfold tail_text in *. cbn [map concat length].
  rewrite !app_length. change (length comma) with 1%nat. lia.
Qed.

(* k: what follows the list — it must not continue the list *)
Lemma sep_loop_print_gen {A} (p : parser A) (pr : A -> bytes) l : forall fuel k,
  (length l <= fuel)%nat -> term k = true -> strip_prefix comma k = None ->
  (forall x k', In x l -> term k' = true -> p (pr x ++ k') = Some (x, k')) ->
  sep_loop fuel comma p (tail_text pr l ++ k) = (l, k).
Proof.
  induction l as [|x l IH]; intros fuel k Hf Hk Hc Hp.
  - destruct fuel; [reflexivity|]. cbn [tail_text map concat app sep_loop]. now rewrite Hc.
  - destruct fuel as [|fuel]; [cbn in Hf; lia|].
    cbn [tail_text map concat]. change (concat (map (fun x => comma ++ pr x) l)) with (tail_text pr l).
    cbn [sep_loop]. rewrite <- !app_assoc. rewrite strip_prefix_app.
    rewrite Hp; [| now left |].
    + rewrite IH; [reflexivity | cbn in Hf; lia | assumption | assumption | intros; apply Hp; [now right | assumption]].
    + destruct l; [assumption | reflexivity].
Qed.

Lemma separated_list0_print_gen {A} (p : parser A) (pr : A -> bytes) l k :
  term k = true -> strip_prefix comma k = None -> (l = [] -> p k = None) ->
  (forall x k', In x l -> term k' = true -> p (pr x ++ k') = Some (x, k')) ->
  separated_list0 comma p (join comma (map pr l) ++ k) = Some (l, k).
Proof.
  intros Hk Hc Hnone Hp. unfold separated_list0. destruct l as [|x l].
  - cbn [map join app]. now rewrite Hnone.
  - rewrite join_tail, <- app_assoc. rewrite Hp; [| now left | destruct l; [assumption | reflexivity]].
    rewrite sep_loop_print_gen; [reflexivity | | assumption | assumption | intros; apply Hp; [now right | assumption]].
    rewrite app_length. pose proof (tail_text_len pr l). lia.
Qed.

Lemma sep_loop_print {A} (p : parser A) (pr : A -> bytes) l : forall fuel k,
  (length l <= fuel)%nat ->
  (forall x k', In x l -> term k' = true -> p (pr x ++ k') = Some (x, k')) ->
  sep_loop fuel comma p (tail_text pr l ++ colon ++ k) = (l, colon ++ k).
Proof. intros fuel k Hf Hp. apply sep_loop_print_gen; auto. Qed.

Lemma separated_list0_print {A} (p : parser A) (pr : A -> bytes) l k :
  p (colon ++ k) = None ->
  (forall x k', In x l -> term k' = true -> p (pr x ++ k') = Some (x, k')) ->
  separated_list0 comma p (join comma (map pr l) ++ colon ++ k) = Some (l, colon ++ k).
Proof. intros Hnone Hp. apply separated_list0_print_gen; auto. Qed.

Lemma separated_list1_print {A} (p : parser A) (pr : A -> bytes) x l k :
  (forall y k', In y (x :: l) -> term k' = true -> p (pr y ++ k') = Some (y, k')) ->
  separated_list1 comma p (join comma (map pr (x :: l)) ++ colon ++ k) = Some (x :: l, colon ++ k).
Proof.
  intros Hp. unfold separated_list1.
  rewrite join_tail, <- app_assoc. rewrite Hp; [| now left | destruct l; reflexivity].
  rewrite sep_loop_print; [reflexivity | | intros; apply Hp; [now right | assumption]].
  rewrite app_length. pose proof (tail_text_len pr l). lia.
Qed.

Lemma separated_list1_to_0 {A} (p : parser A) i :
  separated_list0 comma p i = match separated_list1 comma p i with Some r => Some r | None => Some ([], i) end.
Proof. unfold separated_list0, separated_list1. destruct (p i) as [[o i1]|]; [|reflexivity]. now destruct (sep_loop _ _ _ _). Qed.

(* ================= TCP signature ================= *)
Lemma wf_tcp_parts s : wf_tcp s = true ->
  wf_ttl (t_ittl s) = true /\ u8 (t_olen s) = true /\ wf_optnum u16 (t_mss s) = true /\
  wf_window (t_wsize s) = true /\ wf_optnum u8 (t_wscale s) = true /\ forallb wf_option (t_olayout s) = true.
Proof. unfold wf_tcp. rewrite !andb_true_iff. tauto. Qed.

Theorem parse_tcp_signature_print s k :
  wf_tcp s = true -> parse_tcp_signature (print_tcp_sig s ++ k) = Some (s, k).
Proof.
  intros Hwf. destruct (wf_tcp_parts s Hwf) as (Httl & Holen & Hmss & Hw & Hsc & Hol).
  destruct s as [ver ittl olen mss wsize wscale olayout quirks pclass]. cbn [t_version t_ittl t_olen t_mss t_wsize t_wscale t_olayout t_quirks t_pclass] in *.
  unfold print_tcp_sig, parse_tcp_signature.
  cbn [t_version t_ittl t_olen t_mss t_wsize t_wscale t_olayout t_quirks t_pclass].
  rewrite <- !app_assoc.
  rewrite parse_ip_version_print, strip_prefix_app.
  rewrite parse_ttl_print, strip_prefix_app by (assumption || reflexivity).
  rewrite num_show, strip_prefix_app by (auto using u8_le).
  rewrite (star_or_num_print U16), strip_prefix_app by (assumption || reflexivity).
  rewrite parse_window_size_print, strip_prefix_app by (assumption || reflexivity).
  rewrite (star_or_num_print U8), strip_prefix_app by (assumption || reflexivity).
  rewrite separated_list0_print, strip_prefix_app.
  - rewrite separated_list0_print, strip_prefix_app.
    + rewrite parse_payload_size_print. reflexivity.
    + reflexivity.
    + intros q k' _ _. apply parse_quirk_print.
  - reflexivity.
  - intros o k' Hin Hk'. apply parse_tcp_option_print; [|assumption].
    rewrite forallb_forall in Hol. now apply Hol.
Qed.

Theorem tcp_print_parse s : wf_tcp s = true -> tcp_sig_from_str (print_tcp_sig s) = Some s.
Proof.
  intros Hwf. unfold tcp_sig_from_str, from_str.
  rewrite <- (app_nil_r (print_tcp_sig s)). now rewrite parse_tcp_signature_print.
Qed.

(* ================= HTTP ================= *)
Lemma name_char_is_hname b : name_char b = is_hname b.
Proof. destruct b; reflexivity. Qed.

Lemma take_until_app c v k : forallb (fun b => negb (beqb b c)) v = true -> take_until c (v ++ c :: k) = Some (v, c :: k).
Proof.
  intros H. induction v as [|b v IH]; cbn [app take_until].
  - now rewrite beqb_refl.
  - cbn in H. apply andb_true_iff in H as [Hb Hv]. destruct (beqb b c); [discriminate|]. now rewrite IH.
Qed.

Lemma not_rbracket_beqb v : forallb not_rbracket v = true -> forallb (fun b => negb (beqb b "]"%byte)) v = true.
Proof.
  intros H. rewrite forallb_forall in *. intros b Hb. specialize (H b Hb). unfold not_rbracket in H.
  destruct (beqb b "]"%byte) eqn:E; [|reflexivity]. apply beqb_eq in E. subst. discriminate.
Qed.

Lemma term_not_hname k : term k = true -> stops is_hname k = true.
Proof. intros H. destruct (term_cases k H) as [->|[[r ->]|[r ->]]]; reflexivity. Qed.
Lemma term_no_bracket k : term k = true -> bracket_value k = None.
Proof. intros H. destruct (term_cases k H) as [->|[[r ->]|[r ->]]]; reflexivity. Qed.
Lemma term_no_qmark k : term k = true -> strip_prefix (bs "?") k = None.
Proof. intros H. destruct (term_cases k H) as [->|[[r ->]|[r ->]]]; reflexivity. Qed.

Lemma wf_header_parts h : wf_header h = true ->
  h_name h <> [] /\ forallb is_hname (h_name h) = true /\
  match h_value h with Some v => forallb not_rbracket v = true | None => True end.
Proof.
  unfold wf_header. rewrite !andb_true_iff. intros [[Hne Hn] Hv]. repeat split.
  - intros E. rewrite E in Hne. discriminate.
  - rewrite forallb_forall in *. intros b Hb. rewrite <- name_char_is_hname. auto.
  - destruct (h_value h); auto.
Qed.

Lemma hname_not_qmark c : is_hname c = true -> beqb "?"%byte c = false.
Proof. intros H. apply beqb_neq. intros <-. discriminate. Qed.

Lemma parse_header_kv_print name value k :
  forallb is_hname name = true ->
  match value with Some v => forallb not_rbracket v = true | None => True end ->
  term k = true ->
  parse_header_key_value (name ++ match value with Some v => bs "=[" ++ v ++ bs "]" | None => [] end ++ k)
  = ((name, value), k).
Proof.
  intros Hn Hv Hk. unfold parse_header_key_value. destruct value as [v|].
  - rewrite span_app by (assumption || reflexivity).
    unfold bracket_value. rewrite <- !app_assoc. rewrite strip_prefix_app.
    cbn [bs bs_to app]. rewrite take_until_app by (now apply not_rbracket_beqb).
    cbn [strip_prefix]. cbn. reflexivity.
  - cbn [app]. rewrite span_app by (auto using term_not_hname). now rewrite term_no_bracket.
Qed.

Lemma parse_http_header_print h k :
  wf_header h = true -> term k = true -> parse_http_header (print_header h ++ k) = Some (h, k).
Proof.
  intros Hwf Hk. destruct (wf_header_parts h Hwf) as (Hne & Hn & Hv).
  destruct h as [o name value]. cbn [h_optional h_name h_value] in *.
  unfold parse_http_header, print_header. cbn [h_optional h_name h_value].
  destruct o.
  - rewrite <- !app_assoc. rewrite strip_prefix_app.
    rewrite parse_header_kv_print by assumption. reflexivity.
  - cbn [app]. destruct name as [|c name]; [congruence|].
    assert (Hq : strip_prefix (bs "?") (((c :: name) ++ match value with Some v => bs "=[" ++ v ++ bs "]" | None => [] end) ++ k) = None).
    { cbn. cbn in Hn. apply andb_true_iff in Hn as [Hc _]. now rewrite (hname_not_qmark c Hc). }
    rewrite Hq. rewrite <- app_assoc. rewrite parse_header_kv_print by assumption. reflexivity.
Qed.

Lemma parse_http_version_print v k :
  wf_http_version v = true -> parse_http_version (print_http_version v ++ k) = Some (v, k).
Proof. destruct v; intros H; try discriminate; reflexivity. Qed.

Lemma filter_nonempty_wf l : forallb wf_header l = true -> filter name_nonempty l = l.
Proof.
  induction l as [|h l IH]; cbn; [reflexivity|]. intros H. apply andb_true_iff in H as [Hh Hl].
  destruct (wf_header_parts h Hh) as (Hne & _). unfold name_nonempty at 1. destruct (h_name h); [congruence|].
  now rewrite IH.
Qed.

Theorem parse_http_signature_print s :
  wf_http s = true -> parse_http_signature (print_http_sig s) = Some (s, []).
Proof.
  unfold wf_http. rewrite !andb_true_iff. intros [[[Hv Hne] Hho] Hha].
  destruct s as [ver horder habsent expsw]. cbn [hs_version hs_horder hs_habsent hs_expsw] in *.
  unfold print_http_sig, parse_http_signature. cbn [hs_version hs_horder hs_habsent hs_expsw].
  rewrite parse_http_version_print, strip_prefix_app by assumption.
  destruct horder as [|h horder]; [discriminate|].
  rewrite separated_list1_print, strip_prefix_app.
  2:{ intros y k' Hin Hk'. apply parse_http_header_print; [|assumption]. rewrite forallb_forall in Hho. now apply Hho. }
  destruct habsent as [|a habsent].
  - cbn [map join app]. unfold separated_list0, parse_http_header at 1.
    cbn [colon bs bs_to app strip_prefix]. cbn. reflexivity.
  - rewrite separated_list1_to_0.
    rewrite separated_list1_print.
    2:{ intros y k' Hin Hk'. apply parse_http_header_print; [|assumption]. rewrite forallb_forall in Hha. now apply Hha. }
    cbn [fst snd]. rewrite strip_prefix_app. rewrite filter_nonempty_wf by assumption. reflexivity.
Qed.

Theorem http_print_parse s : wf_http s = true -> http_sig_from_str (print_http_sig s) = Some s.
Proof. intros Hwf. unfold http_sig_from_str, from_str. now rewrite parse_http_signature_print. Qed.

(* ================= canonical lines ================= *)
(* a canonical line is the printed form of the well-formed value the reference reader finds in it *)
Lemma canonical_inv {A} (rd : bytes -> option A) wf pr l :
  canonical rd wf pr l = true -> exists s, rd l = Some s /\ wf s = true /\ pr s = l.
Proof.
  unfold canonical. destruct (rd l) as [s|]; [|discriminate]. intros H.
  apply andb_true_iff in H as [Hwf He]. apply bytes_eqb_eq in He. eauto.
Qed.

Lemma canonical_parse {A} (rd : bytes -> option A) wf pr (from : bytes -> option A) :
  (forall s, wf s = true -> from (pr s) = Some s) ->
  forall l, canonical rd wf pr l = true -> from l = rd l.
Proof.
  intros Hrt l Hc. destruct (canonical_inv _ _ _ _ Hc) as (s & Hr & Hwf & Hp).
  rewrite Hr, <- Hp. now apply Hrt.
Qed.

Lemma canonical_converse {A} (rd : bytes -> option A) wf pr (from : bytes -> option A) :
  (forall s, wf s = true -> from (pr s) = Some s) ->
  forall l s, from l = Some s -> canonical rd wf pr l = true -> pr s = l.
Proof.
  intros Hrt l s Hf Hc. destruct (canonical_inv _ _ _ _ Hc) as (s' & Hr & Hwf & Hp).
  specialize (Hrt s' Hwf). rewrite Hp in Hrt. congruence.
Qed.

Theorem tcp_canonical_line l s :
  tcp_sig_from_str l = Some s -> canonical_tcp l = true -> print_tcp_sig s = l.
Proof. apply (canonical_converse spec_tcp wf_tcp print_tcp_sig tcp_sig_from_str tcp_print_parse). Qed.

Theorem http_canonical_line l s :
  http_sig_from_str l = Some s -> canonical_http l = true -> print_http_sig s = l.
Proof. apply (canonical_converse spec_http wf_http print_http_sig http_sig_from_str http_print_parse). Qed.

(* on canonical lines the model of the Rust parser accepts, and reads the value the reference reader reads *)
Theorem tcp_canonical_accepted l : canonical_tcp l = true -> tcp_sig_from_str l = spec_tcp l.
Proof. apply (canonical_parse spec_tcp wf_tcp print_tcp_sig tcp_sig_from_str tcp_print_parse). Qed.
Theorem http_canonical_accepted l : canonical_http l = true -> http_sig_from_str l = spec_http l.
Proof. apply (canonical_parse spec_http wf_http print_http_sig http_sig_from_str http_print_parse). Qed.

(* ================= numbers that do not fit are rejected ================= *)
Lemma digit1_digits d k : d <> [] -> forallb is_digit d = true -> stops is_digit k = true -> digit1 (d ++ k) = Some (d, k).
Proof. intros Hne Hd Hk. unfold digit1, span1. rewrite span_app by assumption. destruct d; [congruence | reflexivity]. Qed.

Lemma num_overflow max d k :
  d <> [] -> forallb is_digit d = true -> stops is_digit k = true -> max < read_N_digits d -> num max (d ++ k) = None.
Proof.
  intros Hne Hd Hk Hov. unfold num. rewrite digit1_digits by assumption. unfold dec_max.
  destruct (read_N_digits d <=? max) eqn:E; [lia | reflexivity].
Qed.

(* `?300`, `eol+256`: an option number above 255 is not an option (it used to load as ?0) *)
Lemma option_number_overflow d k :
  d <> [] -> forallb is_digit d = true -> stops is_digit k = true -> 255 < read_N_digits d ->
  parse_tcp_option (bs "?" ++ d ++ k) = None /\ parse_tcp_option (bs "eol+" ++ d ++ k) = None.
Proof.
  intros Hne Hd Hk Hov. unfold parse_tcp_option. split.
  - change (tag_num (bs "eol+") U8 OEol (bs "?" ++ d ++ k)) with (@None (tcp_option * bytes)).
    change (tag (bs "nop") ONop (bs "?" ++ d ++ k)) with (@None (tcp_option * bytes)).
    change (tag (bs "mss") OMss (bs "?" ++ d ++ k)) with (@None (tcp_option * bytes)).
    change (tag (bs "ws") OWs (bs "?" ++ d ++ k)) with (@None (tcp_option * bytes)).
    change (tag (bs "sok") OSok (bs "?" ++ d ++ k)) with (@None (tcp_option * bytes)).
    change (tag (bs "sack") OSack (bs "?" ++ d ++ k)) with (@None (tcp_option * bytes)).
    change (tag (bs "ts") OTS (bs "?" ++ d ++ k)) with (@None (tcp_option * bytes)).
    cbn [orelse]. unfold tag_num. rewrite strip_prefix_app. now rewrite (num_overflow U8 d k).
  - unfold tag_num at 1. rewrite strip_prefix_app. rewrite (num_overflow U8 d k) by assumption.
    change (tag (bs "nop") ONop (bs "eol+" ++ d ++ k)) with (@None (tcp_option * bytes)).
    change (tag (bs "mss") OMss (bs "eol+" ++ d ++ k)) with (@None (tcp_option * bytes)).
    change (tag (bs "ws") OWs (bs "eol+" ++ d ++ k)) with (@None (tcp_option * bytes)).
    change (tag (bs "sok") OSok (bs "eol+" ++ d ++ k)) with (@None (tcp_option * bytes)).
    change (tag (bs "sack") OSack (bs "eol+" ++ d ++ k)) with (@None (tcp_option * bytes)).
    change (tag (bs "ts") OTS (bs "eol+" ++ d ++ k)) with (@None (tcp_option * bytes)).
    change (tag_num (bs "?") U8 OUnknown (bs "eol+" ++ d ++ k)) with (@None (tcp_option * bytes)).
    reflexivity.
Qed.

(* a TTL above 255 is rejected in every form the field can take inside a signature *)
Lemma ttl_overflow d k :
  d <> [] -> forallb is_digit d = true -> term k = true -> 255 < read_N_digits d -> parse_ttl (d ++ k) = None.
Proof.
  intros Hne Hd Hk Hov. pose proof (term_stops_digit k Hk) as Hs.
  unfold parse_ttl, ttl_bad, ttl_guess, ttl_dist, ttl_value. rewrite digit1_digits by assumption.
  rewrite (num_overflow U8 d k) by assumption.
  destruct (term_cases k Hk) as [->|[[r ->]|[r ->]]]; reflexivity.
Qed.
