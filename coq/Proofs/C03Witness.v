(* C03: witnesses.  Each known class is inhabited by a concrete packet on which the model (= the code,
   by the correspondence run) and the SPEC print different results; and the hypotheses of the main
   theorems are satisfiable on ordinary handshake packets.  All by vm_compute. *)
From Coq Require Import List NArith Bool.
From Coq Require Import Strings.Byte.
From HN Require Import Base.Bytes Model.SigAst Model.Pnet Model.TcpExtract Spec.P0fTcp Gen.Mtu.
Import ListNotations.
Open Scope N_scope.

Definition hexpkt (h : bytes) : bytes := match read_hex h with Some b => b | None => [] end.

(* the model and the SPEC disagree on an IPv4 / IPv6 packet that decodes, inside class K *)
Definition refutes4 (K : segment -> bool) (p : bytes) : bool :=
  match decode4 p with
  | Some s => K s && known s (process_ipv4_packet mtu_table p)
              && negb (bytes_eqb (show_out (process_ipv4_packet mtu_table p)) (show_out (render mtu_table s)))
  | None => false end.
Definition refutes6 (K : segment -> bool) (p : bytes) : bool :=
  match decode6 p with
  | Some s => K s && known s (process_ipv6_packet mtu_table p)
              && negb (bytes_eqb (show_out (process_ipv6_packet mtu_table p)) (show_out (render mtu_table s)))
  | None => false end.

Lemma refutes4_sound K p : refutes4 K p = true ->
  exists s, decode4 p = Some s /\ K s = true /\ known s (process_ipv4_packet mtu_table p) = true
            /\ show_out (process_ipv4_packet mtu_table p) <> show_out (render mtu_table s).
Proof.
  unfold refutes4. destruct (decode4 p) as [s|]; [|discriminate]. intros H.
  apply andb_true_iff in H. destruct H as [H H3]. apply andb_true_iff in H. destruct H as [H1 H2].
  exists s. repeat split; auto. intros E. rewrite E, bytes_eqb_refl in H3. discriminate.
Qed.
Lemma refutes6_sound K p : refutes6 K p = true ->
  exists s, decode6 p = Some s /\ K s = true /\ known s (process_ipv6_packet mtu_table p) = true
            /\ show_out (process_ipv6_packet mtu_table p) <> show_out (render mtu_table s).
Proof.
  unfold refutes6. destruct (decode6 p) as [s|]; [|discriminate]. intros H.
  apply andb_true_iff in H. destruct H as [H H3]. apply andb_true_iff in H. destruct H as [H1 H2].
  exists s. repeat split; auto. intros E. rewrite E, bytes_eqb_refl in H3. discriminate.
Qed.

(* exactly one class holds (the witness is not excused by another class) *)
Definition only (K : segment -> bool) (others : list (segment -> bool)) (s : segment) : bool :=
  K s && forallb (fun k => negb (k s)) others.

(* K1: SYN+ACK, options mss,sok,EOL + one byte of padding: code eol+1,eol+0, SPEC eol+1 *)
Definition w_K1 : bytes := hexpkt (bs "4500003012344000400612340a000001c0a801029c4001bb01020304000000077012ffffabcd0000020405b404020000").
(* K2: SYN with the 12-byte Windows option layout, MSS 1460: code MTU 1492 (DSL), SPEC 1500 (Ethernet or modem) *)
Definition w_K2 : bytes := hexpkt (bs "4500003412344000400612340a000001c0a801029c4001bb01020304000000008002ffffabcd0000020405b40103030801010402").
(* K3: plain ACK: code reports a server signature, SPEC nothing *)
Definition w_K3 : bytes := hexpkt (bs "4500002812344000400612340a000001c0a801029c4001bb01020304000000075010ffffabcd0000").
(* K4: SYN+ACK, ECN bits in TOS and DF: code ecn,df,id+, SPEC df,id+,ecn *)
Definition w_K4 : bytes := hexpkt (bs "4501002c12344000400612340a000001c0a801029c4001bb01020304000000076012ffffabcd0000020405b4").
(* K5: SYN+ACK with a 3-byte SACK-permitted option: SPEC flags bad.
   w_K5_ns (NS bit set: SPEC flags ecn) is the witness of the repaired half of K5: see *_former_witness_agrees *)
Definition w_K5_bad : bytes := hexpkt (bs "4500002c12344000400612340a000001c0a801029c4001bb01020304000000076012ffffabcd000004030100").
Definition w_K5_ns : bytes := hexpkt (bs "4500002c12344000400612340a000001c0a801029c4001bb01020304000000076112ffffabcd0000020405b4").
(* former class K7 (repaired in /repo; these are now regression packets, see *_former_witness_agrees):
   MSS 1400: window 2810 = 2*(1400+5) is mtu*2 for the code, raw for the SPEC; 2880 = 2*(1400+40) the other
   way round; IPv6: 2920 = 2*(1400+60) is raw for the code, mtu*2 for the SPEC *)
Definition w_K7_a : bytes := hexpkt (bs "4500002c12344000400612340a000001c0a801029c4001bb010203040000000760120afaabcd000002040578").
Definition w_K7_b : bytes := hexpkt (bs "4500002c12344000400612340a000001c0a801029c4001bb010203040000000760120b40abcd000002040578").
Definition w_K7_v6 : bytes := hexpkt (bs "600000000018064020010db800000000000000000000000120010db80000000000000000000000029c4001bb010203040000000760120b68abcd000002040578").

Definition K4s (p : bytes) (s : segment) : bool := K4 (process_ipv4_packet mtu_table p).

Lemma Known_K1_refuted_c : refutes4 (only K1 [K2; K3; K4s w_K1; K5]) w_K1 = true.
Proof. vm_compute. reflexivity. Qed.
Lemma Known_K2_refuted_c : refutes4 (only K2 [K1; K3; K4s w_K2; K5]) w_K2 = true.
Proof. vm_compute. reflexivity. Qed.
Lemma Known_K3_refuted_c : refutes4 (only K3 [K1; K2; K4s w_K3; K5]) w_K3 = true.
Proof. vm_compute. reflexivity. Qed.
Lemma Known_K4_refuted_c : refutes4 (only (K4s w_K4) [K1; K2; K3; K5]) w_K4 = true.
Proof. vm_compute. reflexivity. Qed.
Lemma Known_K5_bad_refuted_c : refutes4 (only K5 [K2; K3; K4s w_K5_bad])  w_K5_bad  = true.
Proof. vm_compute. reflexivity. Qed.

(* hypotheses of the main theorems are satisfiable: a Linux-style SYN (20 option bytes, MTU 1500) and an
   IPv6 SYN+ACK with a flow label decode, are in no known class, and yield a signature *)
Definition ok_syn4 : bytes := hexpkt (bs "4500003c12344000400612340a000001c0a801029c4001bb0102030400000000a002ffffabcd0000020405b40402080a000102030000000001030307").
Definition ok_synack6 : bytes := hexpkt (bs "60000005001c064020010db800000000000000000000000120010db80000000000000000000000029c4001bb010203040000000970121680abcd0000020405a001030307").
Definition in_domain4 (p : bytes) : bool :=
  match decode4 p with
  | Some s => negb (known s (process_ipv4_packet mtu_table p))
              && match process_ipv4_packet mtu_table p with Ok o => match o_syn o with Some _ => true | None => false end | Err => false end
  | None => false end.
Definition in_domain6 (p : bytes) : bool :=
  match decode6 p with
  | Some s => negb (known s (process_ipv6_packet mtu_table p))
              && match process_ipv6_packet mtu_table p with Ok o => match o_synack o with Some _ => true | None => false end | Err => false end
  | None => false end.
Lemma domain4_inhabited : in_domain4 ok_syn4 = true.
Proof. vm_compute. reflexivity. Qed.
Lemma domain6_inhabited : in_domain6 ok_synack6 = true.
Proof. vm_compute. reflexivity. Qed.
Lemma ok_syn4_shown :
  show_out (process_ipv4_packet mtu_table ok_syn4)
  = bs "syn=4:64+0:0:1460:65535,7:mss,sok,ts,nop,ws:df,id+:0 synack=- mtu=1500 link=45746865726e6574206f72206d6f64656d".
Proof. vm_compute. reflexivity. Qed.

Lemma only_sound K others s : only K others s = true -> K s = true.
Proof. unfold only. intros H. apply andb_true_iff in H. tauto. Qed.

Definition refuted4 (K : segment -> bool) : Prop :=
  exists p s, decode4 p = Some s /\ K s = true /\ known s (process_ipv4_packet mtu_table p) = true
              /\ show_out (process_ipv4_packet mtu_table p) <> show_out (render mtu_table s).
Definition refuted6 (K : segment -> bool) : Prop :=
  exists p s, decode6 p = Some s /\ K s = true /\ known s (process_ipv6_packet mtu_table p) = true
              /\ show_out (process_ipv6_packet mtu_table p) <> show_out (render mtu_table s).
Lemma refuted4_of K others p : refutes4 (only K others) p = true -> refuted4 K.
Proof.
  intros H. destruct (refutes4_sound _ _ H) as (s & A & B & C & D).
  exists p, s. split; [exact A|]. split; [eapply only_sound; exact B|]. split; [exact C | exact D].
Qed.
Lemma refuted6_of K others p : refutes6 (only K others) p = true -> refuted6 K.
Proof.
  intros H. destruct (refutes6_sound _ _ H) as (s & A & B & C & D).
  exists p, s. split; [exact A|]. split; [eapply only_sound; exact B|]. split; [exact C | exact D].
Qed.

Lemma Known_K1_refuted_l : refuted4 K1. Proof. exact (refuted4_of _ _ _ Known_K1_refuted_c). Qed.
Lemma Known_K2_refuted_l : refuted4 K2. Proof. exact (refuted4_of _ _ _ Known_K2_refuted_c). Qed.
Lemma Known_K3_refuted_l : refuted4 K3. Proof. exact (refuted4_of _ _ _ Known_K3_refuted_c). Qed.
(* K4 is a class of model results: the witness packet's result is in it *)
Lemma Known_K4_refuted_l :
  exists p s, decode4 p = Some s /\ K4 (process_ipv4_packet mtu_table p) = true
              /\ known s (process_ipv4_packet mtu_table p) = true
              /\ show_out (process_ipv4_packet mtu_table p) <> show_out (render mtu_table s).
Proof.
  destruct (refutes4_sound _ _ Known_K4_refuted_c) as (s & A & B & C & D).
  exists w_K4, s. split; [exact A|]. split; [apply only_sound in B; exact B|]. split; [exact C | exact D].
Qed.
Lemma Known_K5_bad_refuted_l : refuted4 K5. Proof. exact (refuted4_of _ _ _ Known_K5_bad_refuted_c). Qed.

(* ---- repaired classes: the old witnesses now agree (model = SPEC, in no known class) ---- *)
Definition agrees4 (p : bytes) : bool :=
  match decode4 p with
  | Some s => negb (known s (process_ipv4_packet mtu_table p))
              && bytes_eqb (show_out (process_ipv4_packet mtu_table p)) (show_out (render mtu_table s))
  | None => false end.
Definition agrees6 (p : bytes) : bool :=
  match decode6 p with
  | Some s => negb (known s (process_ipv6_packet mtu_table p))
              && bytes_eqb (show_out (process_ipv6_packet mtu_table p)) (show_out (render mtu_table s))
  | None => false end.
Lemma agrees4_sound p : agrees4 p = true ->
  exists s, decode4 p = Some s /\ known s (process_ipv4_packet mtu_table p) = false
            /\ show_out (process_ipv4_packet mtu_table p) = show_out (render mtu_table s).
Proof.
  unfold agrees4. destruct (decode4 p) as [s|]; [|discriminate]. intros H.
  apply andb_true_iff in H. destruct H as [H1 H2]. exists s. split; [reflexivity|].
  split; [apply negb_true_iff; exact H1 | apply bytes_eqb_eq; exact H2].
Qed.
Lemma agrees6_sound p : agrees6 p = true ->
  exists s, decode6 p = Some s /\ known s (process_ipv6_packet mtu_table p) = false
            /\ show_out (process_ipv6_packet mtu_table p) = show_out (render mtu_table s).
Proof.
  unfold agrees6. destruct (decode6 p) as [s|]; [|discriminate]. intros H.
  apply andb_true_iff in H. destruct H as [H1 H2]. exists s. split; [reflexivity|].
  split; [apply negb_true_iff; exact H1 | apply bytes_eqb_eq; exact H2].
Qed.
Lemma K5_ns_former_witness_agrees_l :
  exists s, decode4 w_K5_ns = Some s /\ known s (process_ipv4_packet mtu_table w_K5_ns) = false
            /\ show_out (process_ipv4_packet mtu_table w_K5_ns) = show_out (render mtu_table s).
Proof. apply agrees4_sound. vm_compute. reflexivity. Qed.
Lemma K7_a_former_witness_agrees_l :
  exists s, decode4 w_K7_a = Some s /\ known s (process_ipv4_packet mtu_table w_K7_a) = false
            /\ show_out (process_ipv4_packet mtu_table w_K7_a) = show_out (render mtu_table s).
Proof. apply agrees4_sound. vm_compute. reflexivity. Qed.
Lemma K7_b_former_witness_agrees_l :
  exists s, decode4 w_K7_b = Some s /\ known s (process_ipv4_packet mtu_table w_K7_b) = false
            /\ show_out (process_ipv4_packet mtu_table w_K7_b) = show_out (render mtu_table s).
Proof. apply agrees4_sound. vm_compute. reflexivity. Qed.
Lemma K7_v6_former_witness_agrees_l :
  exists s, decode6 w_K7_v6 = Some s /\ known s (process_ipv6_packet mtu_table w_K7_v6) = false
            /\ show_out (process_ipv6_packet mtu_table w_K7_v6) = show_out (render mtu_table s).
Proof. apply agrees6_sound. vm_compute. reflexivity. Qed.
(* what the repaired code prints on them *)
Lemma K7_a_shown : show_out (process_ipv4_packet mtu_table w_K7_a)
  = bs "syn=- synack=4:64+0:0:1400:2810,*:mss:df,id+:0 mtu=- link=-".
Proof. vm_compute. reflexivity. Qed.
Lemma K7_b_shown : show_out (process_ipv4_packet mtu_table w_K7_b)
  = bs "syn=- synack=4:64+0:0:1400:mtu*2,*:mss:df,id+:0 mtu=- link=-".
Proof. vm_compute. reflexivity. Qed.
Lemma K5_ns_shown : show_out (process_ipv4_packet mtu_table w_K5_ns)
  = bs "syn=- synack=4:64+0:0:1460:65535,*:mss:df,id+,ecn:0 mtu=- link=-".
Proof. vm_compute. reflexivity. Qed.
