(* C13: the distance-1 certificates (Spec/ReachMinSpec.v live1_cert) evaluated on the bundled database for the lines
   recorded in Spec/ReachLists.v live1_tcp_lines. *)
From Coq Require Import List NArith Bool Lia.
From Coq Require Import Strings.Byte.
From HN Require Import Base.Bytes Model.SigAst Model.Match Model.Reach
  Spec.ScanSpec Spec.DbLoadSpec Spec.BundledSpec Spec.ConformSpec Spec.ReachSpec Spec.ReachMinSpec Spec.ReachLists
  Proofs.ReachTcp Proofs.ReachBundled Proofs.ReachMin.
Import ListNotations.
Open Scope N_scope.

Section Live1Lines.
  Variable db : database.
  Variable entry : tkind -> N -> option (N * N * tcp_sig).
  Definition live1_line_ok (line : N) : bool :=
    forallb (fun k => match entry k line with
                      | Some (li, si, s) => live1_cert (tcp_table db k) li si s
                                            && opt_pos_eqb (entry_at (tcp_table db k) li si) li si s
                      | None => true end) [TReq; TResp]
    && existsb (fun k => match entry k line with Some _ => true | None => false end) [TReq; TResp].
  Lemma live1_lines_sound (lines : list N) :
    forallb live1_line_ok lines = true ->
    forall (k : tkind) (line li si : N) (s : tcp_sig) (x : tcp_traffic),
      In line lines -> entry k line = Some (li, si, s) ->
      conforms_tcp k s x -> known_tcp_traffic db s x = false ->
      exists f, reach_tcp db x = RMatch (tcp_table_id k) f
                /\ admissible (tcp_table db k) (fun t => conforms_tcp_b k t x) li si f.
  Proof.
    intros LO k line li si s x IN TE C KN.
    rewrite forallb_forall in LO. specialize (LO _ IN).
    unfold live1_line_ok in LO. apply andb_true_iff in LO. destruct LO as [LO _].
    rewrite forallb_forall in LO.
    assert (INK : In k [TReq; TResp]) by (destruct k; cbn; tauto).
    specialize (LO k INK). cbv beta in LO. rewrite TE in LO.
    apply andb_true_iff in LO. destruct LO as [LV EA].
    apply (reach_tcp_live1 db k li si s x); try assumption.
    unfold opt_pos_eqb in EA. destruct (entry_at (tcp_table db k) li si) as [[[li' si'] s']|]; [|discriminate].
    repeat (apply andb_true_iff in EA; destruct EA as [EA ?]).
    apply tcp_sig_eqb_eq in H. assert (li' = li) by lia. assert (si' = si) by lia. subst. reflexivity.
  Qed.
End Live1Lines.

Lemma live1_lines_ok : forallb (live1_line_ok bundled_db tcp_entry) live1_tcp_lines = true.
Proof. vm_compute. reflexivity. Qed.

Theorem bundled_tcp_live1 (k : tkind) (line li si : N) (s : tcp_sig) (x : tcp_traffic) :
  In line live1_tcp_lines -> tcp_entry k line = Some (li, si, s) ->
  conforms_tcp k s x -> known_tcp_traffic bundled_db s x = false ->
  exists f, reach_tcp bundled_db x = RMatch (tcp_table_id k) f
            /\ admissible (tcp_table bundled_db k) (fun t => conforms_tcp_b k t x) li si f.
Proof. exact (live1_lines_sound bundled_db tcp_entry live1_tcp_lines live1_lines_ok k line li si s x). Qed.
