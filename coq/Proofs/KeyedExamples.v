(* C07, concrete instances: worked two-connection interleavings (hypotheses of the instance theorems are
   satisfiable, results are non-trivial) and witnesses that the capacity hypothesis cannot be dropped.
   Frames are built here byte by byte (Ethernet II / IPv4 / TCP). *)
From Coq Require Import List NArith ZArith Bool Lia.
From Coq Require Import Strings.Byte.
From HN Require Import Base.Bytes Base.Keyed Model.Pnet Model.TlsHello Model.Ja4 Model.TlsReader Model.TlsAnalyzer
                       Proofs.ReaderProofs Proofs.KeyedInstances.
From HN Require Model.TcpExtract Model.TcpAnalyzer Model.Uptime Proofs.KeyedInstancesTcp.
Import ListNotations.
Open Scope N_scope.

Definition be2 (n : N) : bytes := be_bytes 2 n.
Definition be4 (n : N) : bytes := be_bytes 4 n.
(* TCP header with options (a multiple of 4 bytes) and payload; seq 1000, ack 2000, window 65535 *)
Definition tcp_bytes (sport dport flags : N) (opts payload : bytes) : bytes :=
  be2 sport ++ be2 dport ++ be4 1000 ++ be4 2000 ++ [n2b ((5 + lenN opts / 4) * 16); n2b flags]
  ++ be2 65535 ++ be2 0 ++ be2 0 ++ opts ++ payload.
(* IPv4 header: IHL 5, DF, id 0x1234, TTL 64, protocol TCP *)
Definition ip4_bytes (src dst : N) (seg : bytes) : bytes :=
  [x45; x00] ++ be2 (20 + lenN seg) ++ be2 4660 ++ [x40; x00; x40; x06] ++ be2 0 ++ be4 src ++ be4 dst ++ seg.
Definition eth4 (ip : bytes) : bytes := repeat x00 12 ++ [x08; x00] ++ ip.
Definition frame4 (src dst sport dport flags : N) (opts payload : bytes) : bytes :=
  eth4 (ip4_bytes src dst (tcp_bytes sport dport flags opts payload)).
Definition ts_opt (v e : N) : bytes := [x01; x01; x08; x0a] ++ be4 v ++ be4 e.

Definition ip_c1 : N := 167772161.   (* 10.0.0.1 *)
Definition ip_c2 : N := 167772162.   (* 10.0.0.2 *)
Definition ip_srv : N := 167772417.  (* 10.0.1.1 *)

(* ------------------------------------------------------------------ TLS *)
(* two sibling connections (same server, same ports, clients 10.0.0.1 / 10.0.0.2); A's ClientHello comes in
   two segments with B's one-segment ClientHello in between *)
Definition tlsA1 : bytes := frame4 ip_c1 ip_srv 40000 443 24 [] (firstn 10 tiny_hello).
Definition tlsA2 : bytes := frame4 ip_c1 ip_srv 40000 443 24 [] (skipn 10 tiny_hello).
Definition tlsB1 : bytes := frame4 ip_c2 ip_srv 40000 443 24 [] tiny_hello.
Definition tls_trace : list bytes := [tlsA1; tlsB1; tlsA2].
Definition tls_kA : N := tls_key tlsA1.

Notation tls_proj := (Keyed.proj N tls_out N.eqb).
Notation tls_fk := (Keyed.fk bytes N tls_key N.eqb).

Definition is_report (o : tls_out) : bool := match o with TOSig _ _ _ _ _ => true | _ => false end.

Lemma tls_example :
  tls_within_capacityb 8 [] tls_trace = true /\
  tls_within_capacityb 8 [] (tls_fk tls_kA tls_trace) = true /\
  tls_fk tls_kA tls_trace = [tlsA1; tlsA2] /\
  tls_key tlsB1 <> tls_kA /\
  map is_report (tls_proj tls_kA (tls_results 8 [] tls_trace)) = [false; true] /\
  map is_report (snd (tls_run 8 [] tls_trace)) = [false; true; true].
Proof.
  split; [vm_compute; reflexivity|]. split; [vm_compute; reflexivity|].
  split; [vm_compute; reflexivity|]. split; [apply N.eqb_neq; vm_compute; reflexivity|].
  split; vm_compute; reflexivity.
Qed.

(* with a table of ONE entry B's first segment evicts A's half-read ClientHello: A is never reported,
   although alone it is *)
Lemma tls_capacity_needed :
  tls_within_capacityb 1 [] tls_trace = false /\
  map is_report (tls_proj tls_kA (tls_results 1 [] tls_trace)) = [false; false] /\
  map is_report (snd (tls_run 1 [] (tls_fk tls_kA tls_trace))) = [false; true].
Proof. repeat split; vm_compute; reflexivity. Qed.

(* a history of other flows, then a probe connection: the probe is analysed as on a fresh analyzer *)
Lemma tls_no_disable_example :
  tls_within_capacityb 8 [] ([tlsB1; tlsB1] ++ [tlsA1; tlsA2]) = true /\
  tls_within_capacityb 8 [] [tlsA1; tlsA2] = true /\
  (forall f, In f [tlsB1; tlsB1] -> tls_key f <> tls_kA).
Proof.
  split; [vm_compute; reflexivity|]. split; [vm_compute; reflexivity|].
  intros f [<-|[<-|[]]]; apply N.eqb_neq; vm_compute; reflexivity.
Qed.

(* census form of the capacity hypothesis: two flows, a table of two entries *)
Lemma tls_census_example :
  let U := [tls_kA; tls_key tlsB1] in
  NoDup (tls_keys []) /\ incl (tls_keys []) U /\
  (forall f, In f tls_trace -> tls_tracked f = true -> In (tls_key f) U) /\ lenN U <= 2.
Proof.
  split; [constructor|]. split; [intros x []|]. split; [|vm_compute; discriminate].
  intros f [<-|[<-|[<-|[]]]] _; vm_compute; tauto.
Qed.

(* ------------------------------------------------------------------ TCP *)
Import TcpAnalyzer.
Notation ckey := Uptime.connection_key.
Notation tcp_proj := (Keyed.proj ckey tcp_result Uptime.key_eqb).
Notation tcp_fk db := (Keyed.fk tcp_event ckey (tcp_key db) Uptime.key_eqb).

(* two sibling connections towards 10.0.1.1:80 from 10.0.0.1:40000 (1000 Hz clock) and 10.0.0.2:40000 (100 Hz):
   SYNs at 1000/1010 ms, ACKs one second later *)
Definition tcpA1 : tcp_event := (frame4 ip_c1 ip_srv 40000 80 2 (ts_opt 5000 0) [], 1000%Z).
Definition tcpB1 : tcp_event := (frame4 ip_c2 ip_srv 40000 80 2 (ts_opt 9000 0) [], 1010%Z).
Definition tcpA2 : tcp_event := (frame4 ip_c1 ip_srv 40000 80 16 (ts_opt 6000 7) [], 2000%Z).
Definition tcpB2 : tcp_event := (frame4 ip_c2 ip_srv 40000 80 16 (ts_opt 9100 7) [], 2010%Z).
Definition tcp_trace : list tcp_event := [tcpA1; tcpB1; tcpA2; tcpB2].
Definition tcp_kA : ckey := tcp_key [] tcpA1.

Definition up_freq (r : tcp_result) : option Z :=
  match r with
  | TROk _ (Some u) _ => Some (Uptime.u_freq u)
  | TROk _ _ (Some u) => Some (Uptime.u_freq u)
  | _ => None
  end.

Lemma tcp_example :
  tcp_within_capacityb [] 8 [] tcp_trace = true /\
  tcp_within_capacityb [] 8 [] (tcp_fk [] tcp_kA tcp_trace) = true /\
  tcp_fk [] tcp_kA tcp_trace = [tcpA1; tcpA2] /\
  Uptime.key_eqb (tcp_key [] tcpB1) tcp_kA = false /\
  map up_freq (tcp_proj tcp_kA (tcp_results [] 8 [] tcp_trace)) = [None; Some 1000%Z] /\
  map up_freq (snd (tcp_run [] 8 [] tcp_trace)) = [None; None; Some 1000%Z; Some 100%Z].
Proof. repeat split; vm_compute; reflexivity. Qed.

(* a tracker of ONE entry: B's SYN evicts A's stored timestamp, A's ACK is stored again instead of being
   evaluated; alone, A is reported *)
Lemma tcp_capacity_needed :
  tcp_within_capacityb [] 1 [] tcp_trace = false /\
  map up_freq (tcp_proj tcp_kA (tcp_results [] 1 [] tcp_trace)) = [None; None] /\
  map up_freq (snd (tcp_run [] 1 [] (tcp_fk [] tcp_kA tcp_trace))) = [None; Some 1000%Z].
Proof. repeat split; vm_compute; reflexivity. Qed.

Lemma tcp_no_disable_example :
  tcp_within_capacityb [] 8 [] ([tcpB1; tcpB2] ++ [tcpA1; tcpA2]) = true /\
  tcp_within_capacityb [] 8 [] [tcpA1; tcpA2] = true /\
  (forall e, In e [tcpB1; tcpB2] -> tcp_key [] e <> tcp_kA).
Proof.
  split; [vm_compute; reflexivity|]. split; [vm_compute; reflexivity|].
  intros e [<-|[<-|[]]] H; apply UptimeTrackProofs.key_eqb_eq in H; vm_compute in H; discriminate.
Qed.

Lemma tcp_census_example :
  let U := [tcp_kA; tcp_key [] tcpB1] in
  NoDup (KeyedInstancesTcp.tcp_keys []) /\ incl (KeyedInstancesTcp.tcp_keys []) U /\
  (forall e, In e tcp_trace -> KeyedInstancesTcp.tcp_tracked [] e = true -> In (tcp_key [] e) U) /\ lenN U <= 2.
Proof.
  split; [constructor|]. split; [intros x []|]. split; [|vm_compute; discriminate].
  intros e [<-|[<-|[<-|[<-|[]]]]] _; vm_compute; tauto.
Qed.
