(* C09, benign reordering: the flow model reports what the stream specification demands on every
   trace outside the known-defect classes proper (Spec/StreamSpec.v `known`): each direction's
   segments before its report are pairwise disjoint and above the ISN, arrive in ANY order, and
   whenever a hole is open the bytes assembled across the hole are not accepted by the head parser.
   Needs the head parsers to be prefix-stable (a head stays a head when bytes follow it). *)
From Coq Require Import List NArith Bool Lia Permutation Arith PeanoNat.
From Coq Require Import Strings.Byte.
From HN Require Import Base.Bytes Base.Cache Base.Tcp Model.HttpFlow Spec.StreamSpec
  Proofs.CacheProofs Proofs.Serial32 Proofs.StreamProofs Proofs.CostProofs Proofs.StreamOoo.
Import ListNotations.
Open Scope N_scope.

(* ------------------------------------------------------------------ segments and the byte map *)
Definition seg := (N * bytes)%type.
Definition seg_len (x : seg) : N := N.of_nat (length (snd x)).
Definition in_seg (x : seg) (i : N) : option byte :=
  if (fst x <=? i) && (i <? fst x + seg_len x) then nth_error (snd x) (N.to_nat (i - fst x)) else None.
Fixpoint lookup_segs (l : list seg) (i : N) : option byte :=
  match l with
  | [] => None
  | x :: r => match in_seg x i with Some b => Some b | None => lookup_segs r i end
  end.
Definition map_segs (m : smap) (l : list seg) : Prop := forall i, m i = lookup_segs l i.
Definition nonempty (x : seg) : Prop := snd x <> [].
Definition disj (x y : seg) : Prop := fst x + seg_len x <= fst y \/ fst y + seg_len y <= fst x.
Fixpoint pdisj (l : list seg) : Prop :=
  match l with
  | [] => True
  | x :: r => Forall (disj x) r /\ pdisj r
  end.

Lemma in_seg_in x i : fst x <= i -> i < fst x + seg_len x -> exists b, in_seg x i = Some b.
Proof.
  intros H1 H2. unfold in_seg.
  assert ((fst x <=? i) && (i <? fst x + seg_len x) = true) as ->.
  { apply andb_true_iff. split; [now apply N.leb_le | now apply N.ltb_lt]. }
  destruct (nth_error (snd x) (N.to_nat (i - fst x))) eqn:E; [eauto|].
  apply nth_error_None in E. unfold seg_len in H2. lia.
Qed.
Lemma in_seg_out x i : (i < fst x \/ fst x + seg_len x <= i) -> in_seg x i = None.
Proof.
  intros H. unfold in_seg.
  destruct ((fst x <=? i) && (i <? fst x + seg_len x)) eqn:E; [|reflexivity].
  apply andb_true_iff in E. destruct E as [E1 E2]. apply N.leb_le in E1. apply N.ltb_lt in E2. lia.
Qed.
Lemma in_seg_some_range x i b : in_seg x i = Some b -> fst x <= i /\ i < fst x + seg_len x.
Proof.
  unfold in_seg. destruct ((fst x <=? i) && (i <? fst x + seg_len x)) eqn:E; [|discriminate].
  intros _. apply andb_true_iff in E. destruct E as [E1 E2]. apply N.leb_le in E1. apply N.ltb_lt in E2. auto.
Qed.

Lemma disj_sym x y : disj x y -> disj y x.
Proof. unfold disj. tauto. Qed.
Lemma disj_not_both x y i b b' : disj x y -> in_seg x i = Some b -> in_seg y i = Some b' -> False.
Proof.
  intros D H1 H2. apply in_seg_some_range in H1. apply in_seg_some_range in H2. unfold disj in D. lia.
Qed.

Lemma lookup_snoc l x i :
  lookup_segs (l ++ [x]) i = match lookup_segs l i with Some b => Some b | None => in_seg x i end.
Proof.
  induction l as [|y l IH]; cbn; [now destruct (in_seg x i)|].
  destruct (in_seg y i); [reflexivity | exact IH].
Qed.
Lemma map_segs_place m l off d : map_segs m l -> map_segs (place m off d) (l ++ [(off, d)]).
Proof. intros H i. rewrite lookup_snoc, <- H. unfold place, in_seg, seg_len. cbn. reflexivity. Qed.

Lemma lookup_none l i : lookup_segs l i = None <-> Forall (fun x => in_seg x i = None) l.
Proof.
  induction l as [|x l IH]; cbn; [split; auto|].
  destruct (in_seg x i) eqn:E.
  - split; [discriminate|]. intros H. inversion H; congruence.
  - rewrite IH. split; [intros H; constructor; auto | intros H; now inversion H].
Qed.
Lemma lookup_some_member l i b : lookup_segs l i = Some b -> exists x, In x l /\ in_seg x i = Some b.
Proof.
  induction l as [|x l IH]; cbn; [discriminate|].
  destruct (in_seg x i) eqn:E.
  - intros [= <-]. exists x. auto.
  - intros H. destruct (IH H) as (y & Hy & Ey). exists y. auto.
Qed.
Lemma lookup_member l : forall x i b, pdisj l -> In x l -> in_seg x i = Some b -> lookup_segs l i = Some b.
Proof.
  induction l as [|y l IH]; intros x i b P Hin E; [destruct Hin|].
  destruct P as [Fy Pl]. cbn. destruct Hin as [->|Hin]; [now rewrite E|].
  destruct (in_seg y i) eqn:Ey.
  - exfalso. rewrite Forall_forall in Fy. eapply disj_not_both; [apply (Fy x Hin) | exact Ey | exact E].
  - eapply IH; eauto.
Qed.

Lemma pdisj_perm l l' : Permutation l l' -> pdisj l -> pdisj l'.
Proof.
  induction 1 as [|x l l' P IH|x y l|l l' l'' P1 IH1 P2 IH2]; cbn; auto.
  - intros [F Pl]. split; [eapply Permutation_Forall; eauto | auto].
  - intros (Fy & Fx & Pl). inversion Fy as [|? ? Dyx Fyl]; subst.
    repeat split; auto. constructor; [now apply disj_sym | exact Fx].
Qed.
Lemma pdisj_snoc l x : pdisj l -> Forall (fun y => disj y x) l -> pdisj (l ++ [x]).
Proof.
  induction l as [|y l IH]; cbn; intros P F; [split; [constructor | exact I]|].
  destruct P as [Fy Pl]. inversion F as [|? ? Dyx Fl]; subst. split; [|now apply IH].
  apply Forall_app. split; [exact Fy | constructor; [exact Dyx | constructor]].
Qed.

Lemma lookup_perm l l' i : Permutation l l' -> pdisj l -> lookup_segs l i = lookup_segs l' i.
Proof.
  intros P D. destruct (lookup_segs l i) eqn:E.
  - destruct (lookup_some_member l i b E) as (x & Hx & Ex). symmetry.
    eapply lookup_member; [eapply pdisj_perm; eauto | eapply Permutation_in; eauto | exact Ex].
  - symmetry. apply lookup_none. apply lookup_none in E. eapply Permutation_Forall; eauto.
Qed.

Lemma nodup_offsets l : pdisj l -> Forall nonempty l -> NoDup (map fst l).
Proof.
  induction l as [|x l IH]; cbn; intros P F; [constructor|].
  destruct P as [Fx Pl]. inversion F as [|? ? Nx Fl]; subst. constructor; [|auto].
  intros Hin. apply in_map_iff in Hin. destruct Hin as (y & Ey & Hy).
  rewrite Forall_forall in Fx, Fl. specialize (Fx y Hy). specialize (Fl y Hy).
  unfold disj, seg_len, nonempty in *.
  assert (0 < length (snd x))%nat by (destruct (snd x); [congruence | cbn; lia]).
  assert (0 < length (snd y))%nat by (destruct (snd y); [congruence | cbn; lia]). lia.
Qed.

(* ------------------------------------------------------------------ sorting by offset *)
Fixpoint asc_segs (l : list seg) : Prop :=
  match l with
  | [] => True
  | x :: r => Forall (fun y => fst x <= fst y) r /\ asc_segs r
  end.
Lemma seg_insert_perm x l : Permutation (seg_insert x l) (x :: l).
Proof.
  induction l as [|y l IH]; cbn; [reflexivity|].
  destruct (fst x <? fst y); [reflexivity|].
  etransitivity; [apply perm_skip; exact IH | apply perm_swap].
Qed.
Lemma seg_sort_perm l : Permutation (seg_sort l) l.
Proof.
  induction l as [|x l IH]; cbn; [reflexivity|].
  etransitivity; [apply seg_insert_perm | now apply perm_skip].
Qed.
Lemma seg_insert_asc x l : asc_segs l -> asc_segs (seg_insert x l).
Proof.
  induction l as [|y l IH]; cbn; intros H; [split; [constructor | exact I]|].
  destruct H as [Fy Al]. destruct (fst x <? fst y) eqn:E.
  - apply N.ltb_lt in E. cbn. split; [|split; assumption].
    constructor; [lia|]. eapply Forall_impl; [|exact Fy]. cbn. intros; lia.
  - apply N.ltb_ge in E. cbn. split; [|now apply IH].
    eapply Permutation_Forall; [apply Permutation_sym, seg_insert_perm|]. constructor; [exact E | exact Fy].
Qed.
Lemma seg_sort_asc l : asc_segs (seg_sort l).
Proof. induction l as [|x l IH]; cbn; [exact I | now apply seg_insert_asc]. Qed.

Lemma concat_len_perm (l l' : list seg) :
  Permutation l l' -> length (concat (map snd l)) = length (concat (map snd l')).
Proof. induction 1; cbn; rewrite ?app_length in *; lia. Qed.

(* ------------------------------------------------------------------ the gap-free prefix of a sorted set *)
Fixpoint run_from (p : N) (s : list seg) : bytes :=
  match s with
  | [] => []
  | x :: r => if fst x =? p then snd x ++ run_from (p + seg_len x) r else []
  end.

Lemma run_from_prefix s : forall p, exists rest, concat (map snd s) = run_from p s ++ rest.
Proof.
  induction s as [|x s IH]; intros p; [exists []; reflexivity|].
  cbn [run_from map concat]. destruct (_ =? p) eqn:E0.
  - destruct (IH (p + seg_len x)) as [rest E]. exists rest. rewrite E. apply app_assoc.
  - eexists. reflexivity.
Qed.

Lemma prefix_ext_from m m' : forall f q, (forall i, q <= i -> m i = m' i) -> prefix_from m f q = prefix_from m' f q.
Proof.
  induction f as [|f IH]; intros q H; cbn; [reflexivity|].
  rewrite <- (H q) by lia. destruct (m q); [|reflexivity]. f_equal. apply IH. intros i Hi. apply H. lia.
Qed.

Lemma prefix_block m d : forall p fuel,
  (forall k, (k < length d)%nat -> m (p + N.of_nat k) = nth_error d k) -> (length d <= fuel)%nat ->
  prefix_from m fuel p = d ++ prefix_from m (fuel - length d) (p + N.of_nat (length d)).
Proof.
  induction d as [|b d IH]; intros p fuel H Hf; cbn [length app].
  - rewrite N.add_0_r, Nat.sub_0_r. reflexivity.
  - destruct fuel as [|f]; [cbn in Hf; lia|]. cbn [prefix_from].
    pose proof (H 0%nat ltac:(cbn; lia)) as H0. rewrite N.add_0_r in H0. cbn in H0. rewrite H0.
    f_equal. rewrite (IH (p + 1) f).
    + cbn [Nat.sub]. f_equal. f_equal. lia.
    + intros k Hk. specialize (H (S k) ltac:(cbn; lia)). cbn [nth_error] in H. rewrite <- H. f_equal. lia.
    + cbn in Hf. lia.
Qed.

Lemma prefix_none m fuel p : m p = None -> prefix_from m fuel p = [].
Proof. intros H. destruct fuel; cbn; [reflexivity | now rewrite H]. Qed.

Lemma prefix_run s : forall p fuel,
  asc_segs s -> pdisj s -> Forall nonempty s -> Forall (fun x => p <= fst x) s ->
  (length (concat (map snd s)) <= fuel)%nat ->
  prefix_from (lookup_segs s) fuel p = run_from p s.
Proof.
  induction s as [|x s IH]; intros p fuel A D NE LB Hf.
  - cbn. now apply prefix_none.
  - destruct A as [Ax As], D as [Dx Ds]. inversion NE as [|? ? Nx Ns]; subst. inversion LB as [|? ? Lx Ls]; subst.
    cbn [run_from]. destruct (_ =? p) eqn:E.
    + apply N.eqb_eq in E. cbn [map concat] in Hf. rewrite app_length in Hf.
      rewrite (prefix_block _ (snd x) p fuel).
      * f_equal. fold (seg_len x).
        rewrite (prefix_ext_from _ (lookup_segs s)).
        -- apply IH; auto; [|lia].
           rewrite Forall_forall in *. intros y Hy. specialize (Ax y Hy). specialize (Dx y Hy). specialize (Ns y Hy).
           unfold disj, seg_len, nonempty in *.
           assert (0 < length (snd y))%nat by (destruct (snd y); [congruence | cbn; lia]). lia.
        -- intros i Hi. cbn [lookup_segs]. rewrite in_seg_out; [reflexivity|]. right. lia.
      * intros k Hk. cbn [lookup_segs].
        destruct (in_seg_in x (p + N.of_nat k)) as [b Eb]; [lia | unfold seg_len; lia|].
        rewrite Eb. unfold in_seg in Eb.
        destruct ((fst x <=? p + N.of_nat k) && (p + N.of_nat k <? fst x + seg_len x)); [|discriminate].
        rewrite <- Eb. f_equal. lia.
      * lia.
    + apply N.eqb_neq in E. apply prefix_none. apply lookup_none. constructor.
      * apply in_seg_out. left. lia.
      * rewrite Forall_forall in *. intros y Hy. apply in_seg_out. left. specialize (Ax y Hy). lia.
Qed.

(* what the specification's prefix is, in terms of the received segments *)
Lemma spec_prefix m segs n :
  map_segs m segs -> pdisj segs -> Forall nonempty segs -> n = length (concat (map snd segs)) ->
  prefix_from m n 0 = run_from 0 (seg_sort segs) /\
  (exists rest, squeezed segs = prefix_from m n 0 ++ rest) /\ length (squeezed segs) = n.
Proof.
  intros Hm D NE Hn.
  assert (P : Permutation (seg_sort segs) segs) by apply seg_sort_perm.
  assert (E : prefix_from m n 0 = run_from 0 (seg_sort segs)).
  { rewrite (prefix_ext_from m (lookup_segs (seg_sort segs))).
    - apply prefix_run.
      + apply seg_sort_asc.
      + eapply pdisj_perm; [apply Permutation_sym; exact P | exact D].
      + eapply Permutation_Forall; [apply Permutation_sym; exact P | exact NE].
      + apply Forall_forall. intros; lia.
      + rewrite (concat_len_perm _ _ P). lia.
    - intros i _. rewrite Hm. apply lookup_perm; [now apply Permutation_sym | exact D]. }
  split; [exact E|]. split.
  - rewrite E. unfold squeezed. apply run_from_prefix.
  - unfold squeezed. rewrite (concat_len_perm _ _ P). lia.
Qed.

(* ------------------------------------------------------------------ what the model rebuilds *)
Definition seg_td (isn : N) (x : seg) : tcpdata := mkTd ((isn + 1 + fst x) mod two32) (snd x).
(* every received segment starts less than 2^31 - 1 bytes beyond the ISN *)
Definition near_segs (l : list seg) : Prop := Forall (fun x => fst x < two31 - 1) l.

Lemma seg_td_off isn x : isn < two32 -> fst x < two31 - 1 -> off32 isn (td_seq (seg_td isn x)) = 1 + fst x.
Proof. intros H1 H2. cbn. apply off32_succ_add; [exact H1 | unfold two31, two32 in *; lia]. Qed.

Lemma win_segs isn data0 segs :
  data0_ok isn data0 -> isn < two32 -> near_segs segs -> win isn (data0 ++ map (seg_td isn) segs).
Proof.
  intros H0 Hi Hn. apply Forall_app. split.
  - destruct H0 as [-> | ->]; [constructor|]. constructor; [|constructor]. cbn. rewrite off32_self by exact Hi.
    split; [exact Hi | unfold two31; lia].
  - apply Forall_forall. intros d Hd. apply in_map_iff in Hd. destruct Hd as (x & <- & Hx).
    unfold near_segs in Hn. rewrite Forall_forall in Hn. specialize (Hn x Hx).
    split; [cbn; apply mod32_lt|]. rewrite seg_td_off by assumption. unfold two31 in *. lia.
Qed.

(* ascending in the offset from r, inside the window, is ascending in the sort key *)
Lemma ascending_by_off r c : r < two32 -> win r c ->
  ascending_k (fun d => off32 r (td_seq d)) c -> ascending_k (sort_key c) c.
Proof.
  intros Hr W. assert (G : forall c', (forall x, In x c' -> In x c) ->
                          ascending_k (fun d => off32 r (td_seq d)) c' -> ascending_k (sort_key c) c').
  { induction c' as [|x c' IH]; intros Hsub Ha; [exact I|]. destruct Ha as [Hx Hl]. split.
    - intros y Hy. apply (sort_key_le r c x y Hr W); [apply Hsub; now left | apply Hsub; now right | now apply Hx].
    - apply IH; auto. intros z Hz. apply Hsub. now right. }
  apply G. auto.
Qed.

Lemma asc_segs_off isn s : isn < two32 -> near_segs s -> asc_segs s ->
  ascending_k (fun d => off32 isn (td_seq d)) (map (seg_td isn) s).
Proof.
  intros Hi. induction s as [|x s IH]; cbn [map]; intros Hn H; [exact I|]. destruct H as [Fx As].
  inversion Hn as [|? ? Nx Ns]; subst. split; [|now apply IH].
  intros y Hy. apply in_map_iff in Hy. destruct Hy as (z & <- & Hz). rewrite Forall_forall in Fx.
  unfold near_segs in Ns. rewrite Forall_forall in Ns.
  rewrite !seg_td_off; auto. specialize (Fx z Hz). lia.
Qed.

Lemma model_rebuild isn data0 segs :
  data0_ok isn data0 -> isn < two32 -> near_segs segs -> pdisj segs -> Forall nonempty segs ->
  full_data (data0 ++ map (seg_td isn) segs) = squeezed segs.
Proof.
  intros H0 Hi Hn D NE.
  assert (P : Permutation (seg_sort segs) segs) by apply seg_sort_perm.
  assert (Hn' : near_segs (seg_sort segs)) by (eapply Permutation_Forall; [apply Permutation_sym; exact P | exact Hn]).
  rewrite (rebuild_order_invariant isn _ (data0 ++ map (seg_td isn) (seg_sort segs))).
  - unfold full_data. rewrite sort_td_ascending.
    + rewrite map_app, concat_app, map_map. unfold squeezed. cbn [seg_td td_data].
      destruct H0 as [-> | ->]; reflexivity.
    + apply (ascending_by_off isn); [exact Hi | now apply win_segs|].
      pose proof (asc_segs_off isn _ Hi Hn' (seg_sort_asc segs)) as A.
      destruct H0 as [-> | ->]; cbn [app]; [exact A|]. split; [|exact A].
      intros y Hy. cbn [td_seq]. rewrite off32_self by exact Hi. apply N.le_0_l.
  - apply Permutation_app_head, Permutation_map, Permutation_sym, P.
  - exact Hi.
  - now apply win_segs.
  - (* distinct offsets give distinct sequence numbers *)
    apply (nodup_map_impl td_seq (fun d => off32 isn (td_seq d))); [intros x y _ _ E; now rewrite E|].
    rewrite map_app, map_map.
    assert (N1 : NoDup (map (fun x : seg => off32 isn (td_seq (seg_td isn x))) segs)).
    { pose proof (nodup_offsets segs D NE) as ND. unfold near_segs in Hn. clear -ND Hn Hi.
      induction segs as [|x l IH]; cbn [map]; [constructor|].
      inversion ND as [|? ? Hx Hl]; subst. inversion Hn as [|? ? Nx Nl]; subst. constructor; [|auto].
      intros Hin. apply in_map_iff in Hin. destruct Hin as (y & Ey & Hy). apply Hx. apply in_map_iff. exists y.
      rewrite Forall_forall in Nl. rewrite !seg_td_off in Ey by auto. split; [lia | exact Hy]. }
    destruct H0 as [-> | ->]; cbn [map app]; [exact N1|]. constructor; [|exact N1].
    intros Hin. apply in_map_iff in Hin. destruct Hin as (y & Ey & Hy). cbn [td_seq] in Ey.
    unfold near_segs in Hn. rewrite Forall_forall in Hn.
    rewrite off32_self in Ey by exact Hi. rewrite seg_td_off in Ey by auto. lia.
Qed.

(* ------------------------------------------------------------------ when both parse the same *)
Definition prefix_stable {R} (parse : bytes -> option R) : Prop :=
  forall d e r, parse d = Some r -> parse (d ++ e) = Some r.

Lemma parse_agree {R} (parse : bytes -> option R) sq pre rest n :
  prefix_stable parse -> sq = pre ++ rest -> length sq = n ->
  (N.of_nat (length pre) <? N.of_nat n) && opt_some (parse sq) && negb (opt_some (parse pre)) = false ->
  parse sq = parse pre.
Proof.
  intros St E L H.
  destruct (N.of_nat (length pre) <? N.of_nat n) eqn:Hh.
  - cbn [andb] in H. destruct (parse pre) eqn:Ep.
    + rewrite E. now apply St.
    + destruct (parse sq) eqn:Es; [discriminate | reflexivity].
  - apply N.ltb_ge in Hh. subst sq. rewrite app_length in L.
    assert (rest = []) as -> by (destruct rest; [reflexivity | cbn in L; lia]). now rewrite app_nil_r.
Qed.

Lemma any_placed_false m n : forall off, any_placed m off n = false ->
  forall k, (k < n)%nat -> m (off + N.of_nat k) = None.
Proof.
  induction n as [|n IH]; intros off H k Hk; [lia|].
  cbn in H. apply orb_false_iff in H. destruct H as [H1 H2].
  destruct k as [|k].
  - rewrite N.add_0_r. destruct (m off); [discriminate | reflexivity].
  - specialize (IH (off + 1) H2 k ltac:(lia)). rewrite <- IH. f_equal. lia.
Qed.

Lemma segs_disjoint_b_true l : pdisj l -> segs_disjoint_b l = true.
Proof.
  induction l as [|x l IH]; cbn; [reflexivity|]. intros [F P]. rewrite IH by exact P. rewrite andb_true_r.
  apply forallb_forall. intros y Hy. rewrite Forall_forall in F. specialize (F y Hy).
  unfold seg_disj_b, disj, seg_len in *. apply orb_true_iff. destruct F; [left | right]; now apply N.leb_le.
Qed.

(* ------------------------------------------------------------------ one direction, one segment in any order *)
Definition drel2 (data0 : list tcpdata) (d : sdir) (isn : N) (tds : list tcpdata) : Prop :=
  tds = data0 ++ map (seg_td isn) (d_segs d) /\ pdisj (d_segs d) /\ Forall nonempty (d_segs d) /\
  map_segs (d_map d) (d_segs d) /\ d_recv d = length (concat (map snd (d_segs d))) /\
  isn < two32 /\ near_segs (d_segs d).

Lemma new_seg_disjoint m (segs : list seg) off (pay : bytes) :
  map_segs m segs -> Forall nonempty segs -> pay <> [] ->
  any_placed m off (length pay) = false -> Forall (fun y => disj y (off, pay)) segs.
Proof.
  intros Hm NE Hp Ha. apply Forall_forall. intros y Hy.
  rewrite Forall_forall in NE. specialize (NE y Hy). unfold nonempty in NE.
  pose proof (any_placed_false m (length pay) off Ha) as Hn.
  unfold disj, seg_len. cbn [fst snd].
  destruct (N.le_gt_cases (fst y + N.of_nat (length (snd y))) off) as [L1|G1]; [now left|].
  destruct (N.le_gt_cases (off + N.of_nat (length pay)) (fst y)) as [L2|G2]; [now right|].
  exfalso.
  assert (0 < length (snd y))%nat by (destruct (snd y); [congruence | cbn; lia]).
  assert (0 < length pay)%nat by (destruct pay; [congruence | cbn; lia]).
  set (i := N.max (fst y) off).
  assert (Hi : m i = None).
  { replace i with (off + N.of_nat (N.to_nat (i - off))) by (unfold i; lia). apply Hn. unfold i. lia. }
  rewrite Hm in Hi. apply lookup_none in Hi. rewrite Forall_forall in Hi. specialize (Hi y Hy).
  destruct (in_seg_in y i) as [b Eb]; [unfold i; lia | unfold seg_len, i; lia | congruence].
Qed.

Lemma dir_advance2 data0 d isn tds seq (pay : bytes) :
  data0_ok isn data0 -> seq < two32 -> pay <> [] -> drel2 data0 d isn tds ->
  (two31 - 1 <=? seq_offset isn seq) = false -> any_placed (d_map d) (seq_offset isn seq) (length pay) = false ->
  let off := seq_offset isn seq in
  let m := place (d_map d) off pay in
  let n := (d_recv d + length pay)%nat in
  let sg := d_segs d ++ [(off, pay)] in
  (forall done, drel2 data0 (mkDir (d_isn d) m n done sg) isn (tds ++ [mkTd seq pay])) /\
  full_data (tds ++ [mkTd seq pay]) = squeezed sg /\
  (exists rest, squeezed sg = prefix_from m n 0 ++ rest) /\ length (squeezed sg) = n /\
  segs_disjoint_b sg = true.
Proof.
  intros H0 Hs Hp (Ht & D & NE & Hm & Hr & Hi & Hnear) Hw Ha off m n sg.
  apply N.leb_gt in Hw.
  assert (Hoff : (isn + 1 + seq_offset isn seq) mod two32 = seq) by (now apply seq_offset_inv).
  assert (Hnear' : near_segs sg) by (apply Forall_app; split; [exact Hnear | constructor; [exact Hw | constructor]]).
  assert (D' : pdisj sg) by (apply pdisj_snoc; [exact D | now apply (new_seg_disjoint (d_map d))]).
  assert (NE' : Forall nonempty sg) by (apply Forall_app; split; [exact NE | constructor; [exact Hp | constructor]]).
  assert (Hm' : map_segs m sg) by (now apply map_segs_place).
  assert (Hn : n = length (concat (map snd sg))).
  { unfold n, sg. rewrite map_app, concat_app, app_length, Hr. cbn. rewrite app_nil_r. reflexivity. }
  assert (Ht' : tds ++ [mkTd seq pay] = data0 ++ map (seg_td isn) sg).
  { unfold sg, off. rewrite Ht, map_app, <- app_assoc. cbn [map]. unfold seg_td at 3. cbn [fst snd]. now rewrite Hoff. }
  destruct (spec_prefix m sg n Hm' D' NE' Hn) as (_ & Hrest & Hlen).
  repeat split; auto.
  - rewrite Ht'. now apply model_rebuild.
  - now apply segs_disjoint_b_true.
Qed.

Definition crel2 (d : sdir) (tds : list tcpdata) : Prop :=
  d_done d = false -> exists isn, d_isn d = Some isn /\ drel2 [mkTd isn []] d isn tds.
Definition srel2 (d : sdir) (tds : list tcpdata) : Prop :=
  d_done d = false ->
  match d_isn d with
  | None => tds = [] /\ map_is (d_map d) [] /\ d_recv d = O /\ d_segs d = []
  | Some isn => drel2 [] d isn tds
  end.

Definition flow_rel2 (id : N) (c : sconn) (f : tcpflow) : Prop :=
  f_cip f = cip id /\ f_sip f = sip /\ f_cport f = cport id /\ f_sport f = 80 /\
  f_cparsed f = d_done (sc_c c) /\ f_sparsed f = d_done (sc_s c) /\
  crel2 (sc_c c) (f_cdata f) /\ srel2 (sc_s c) (f_sdata f) /\
  (d_done (sc_s c) = true -> d_isn (sc_s c) <> None).

Definition rel2 (id : N) (oc : option sconn) (fo : option tcpflow) : Prop :=
  match oc, fo with
  | None, None => True
  | None, Some _ => False
  | Some c, None => d_done (sc_c c) = true /\ d_done (sc_s c) = true /\ d_isn (sc_s c) <> None
  | Some c, Some f => flow_rel2 id c f
  end.

Definition Inv2 (st : state) (cs : list sconn) : Prop :=
  keys_ok st /\ (length (c_entries st) <= length cs)%nat /\
  forall id, rel2 id (conn_lookup id cs) (cache_get fkey_eqb st (ckey id)).

Lemma Inv2_replace st st1 cs c c' id :
  Inv2 st cs -> conn_lookup id cs = Some c -> sc_id c' = id ->
  keys_ok st1 -> (length (c_entries st1) <= length (c_entries st))%nat ->
  (forall id', id' <> id -> cache_get fkey_eqb st1 (ckey id') = cache_get fkey_eqb st (ckey id')) ->
  rel2 id (Some c') (cache_get fkey_eqb st1 (ckey id)) ->
  Inv2 st1 (conn_replace c' cs).
Proof.
  intros (K & Len & R) L Hid K1 Len1 Fr Rid. split; [exact K1|]. split; [rewrite length_replace; lia|].
  intros id'. destruct (N.eq_dec id' id) as [->|N].
  - rewrite (lookup_replace_same id cs c c' L Hid). exact Rid.
  - rewrite lookup_replace_other by congruence. rewrite Fr by exact N. apply R.
Qed.

(* ------------------------------------------------------------------ exact retransmissions (fix C09-dup) *)
Lemma all_placed_true m n : forall off, (forall k, (k < n)%nat -> m (off + N.of_nat k) <> None) -> all_placed m off n = true.
Proof.
  induction n as [|n IH]; intros off H; [reflexivity|]. cbn.
  pose proof (H 0%nat ltac:(lia)) as H0. rewrite N.add_0_r in H0.
  destruct (m off); [|congruence]. cbn. apply IH. intros k Hk.
  specialize (H (S k) ltac:(lia)). replace (off + 1 + N.of_nat k) with (off + N.of_nat (S k)) by lia. exact H.
Qed.

Lemma exact_dup_all_placed m (segs : list seg) off (pay : bytes) :
  map_segs m segs -> pdisj segs -> exact_dup segs off pay = true -> all_placed m off (length pay) = true.
Proof.
  intros Hm D E. unfold exact_dup in E. apply existsb_exists in E. destruct E as (x & Hin & Hx).
  apply andb_true_iff in Hx. destruct Hx as [H1 H2]. apply N.eqb_eq in H1. apply bytes_eqb_eq in H2.
  apply all_placed_true. intros k Hk. rewrite Hm.
  destruct (in_seg_in x (off + N.of_nat k)) as [b Eb]; [lia | unfold seg_len; rewrite H2; lia|].
  rewrite (lookup_member segs x _ b D Hin Eb). discriminate.
Qed.

Lemma retrans_exact_dup isn data0 (segs : list seg) seq (pay : bytes) :
  data0_ok isn data0 -> isn < two32 -> seq < two32 -> near_segs segs -> seq_offset isn seq < two31 - 1 ->
  is_retrans (data0 ++ map (seg_td isn) segs) (mkTd seq pay) = exact_dup segs (seq_offset isn seq) pay.
Proof.
  intros H0 Hi Hs Hn Hw. unfold is_retrans, exact_dup. rewrite existsb_app. cbn [td_seq td_data].
  assert (existsb (fun d => (td_seq d =? seq) && bytes_eqb (td_data d) pay) data0 = false) as ->.
  { destruct H0 as [-> | ->]; [reflexivity|]. cbn.
    assert (isn =? seq = false) as -> by (apply N.eqb_neq; intros E; symmetry in E; revert E; now apply seq_offset_near_neq).
    reflexivity. }
  cbn [orb]. unfold near_segs in Hn.
  induction segs as [|x l IH]; [reflexivity|]. inversion Hn as [|? ? Nx Nl]; subst.
  cbn [map existsb seg_td td_seq td_data]. rewrite (IH Nl). f_equal. f_equal.
  destruct (fst x =? seq_offset isn seq) eqn:E.
  - apply N.eqb_eq in E. apply N.eqb_eq. rewrite E. now apply seq_offset_inv.
  - apply N.eqb_neq in E. apply N.eqb_neq. intros X. apply E.
    rewrite <- (seq_offset_inv isn seq Hi Hs) in X.
    apply (add_mod_inj isn); [unfold two31, two32 in *; lia | apply seq_offset_lt32 | exact X].
Qed.

Section Reorder.
  Context {Req Resp : Type}.
  Variable parse_req : bytes -> option Req.
  Variable parse_resp : bytes -> option Resp.
  Hypothesis req_min : forall d r, parse_req d = Some r -> 4 <= len_N d.
  Hypothesis resp_min : forall d r, parse_resp d = Some r -> 4 <= len_N d.
  Hypothesis req_stable : prefix_stable parse_req.
  Hypothesis resp_stable : prefix_stable parse_resp.

  Notation stepM := (step parse_req parse_resp).

  (* the three flags of a not yet reported direction, unpacked *)
  Lemma classify_dir_false {R} (parse : bytes -> option R) d isn seq (pay : bytes) :
    d_done d = false -> classify_dir parse d isn seq pay = (false, false, false) ->
    (two31 - 1 <=? seq_offset isn seq) = false /\
    any_placed (d_map d) (seq_offset isn seq) (length pay) && negb (exact_dup (d_segs d) (seq_offset isn seq) pay) = false /\
    segs_disjoint_b (d_segs d ++ [(seq_offset isn seq, pay)])
    && (N.of_nat (length (prefix_from (place (d_map d) (seq_offset isn seq) pay) (d_recv d + length pay) 0))
        <? N.of_nat (d_recv d + length pay))
    && opt_some (parse (squeezed (d_segs d ++ [(seq_offset isn seq, pay)])))
    && negb (opt_some (parse (prefix_from (place (d_map d) (seq_offset isn seq) pay) (d_recv d + length pay) 0))) = false.
  Proof. unfold classify_dir. intros ->. intros [= -> H ->]. auto. Qed.

  (* an exact retransmission changes nothing on either side; otherwise model and specification parse
     the same thing, or both nothing *)
  Lemma step_parse {R} (parse : bytes -> option R) data0 d isn tds seq (pay : bytes) :
    prefix_stable parse ->
    data0_ok isn data0 -> seq < two32 -> pay <> [] -> d_done d = false -> drel2 data0 d isn tds ->
    classify_dir parse d isn seq pay = (false, false, false) ->
    let m := place (d_map d) (seq_offset isn seq) pay in
    let n := (d_recv d + length pay)%nat in
    let sg := d_segs d ++ [(seq_offset isn seq, pay)] in
    (is_retrans tds (mkTd seq pay) = true /\ all_placed (d_map d) (seq_offset isn seq) (length pay) = true) \/
    (is_retrans tds (mkTd seq pay) = false /\ all_placed (d_map d) (seq_offset isn seq) (length pay) = false /\
     parse (full_data (tds ++ [mkTd seq pay])) = parse (prefix_from m n 0) /\
     forall done, drel2 data0 (mkDir (d_isn d) m n done sg) isn (tds ++ [mkTd seq pay])).
  Proof.
    intros St H0 Hs Hp Hd Hrel Hc m n sg.
    destruct (classify_dir_false parse d isn seq pay Hd Hc) as (Hw & Ha & Hg).
    pose proof Hrel as (Ht & D & NE & Hm & Hr & Hi & Hnear).
    assert (Hlt : seq_offset isn seq < two31 - 1) by (now apply N.leb_gt in Hw).
    assert (Hre : is_retrans tds (mkTd seq pay) = exact_dup (d_segs d) (seq_offset isn seq) pay).
    { rewrite Ht. now apply retrans_exact_dup. }
    destruct (exact_dup (d_segs d) (seq_offset isn seq) pay) eqn:Ex.
    - left. split; [exact Hre|]. now apply (exact_dup_all_placed _ (d_segs d)).
    - right. rewrite andb_true_r in Ha. cbn [negb] in Ha.
      destruct (dir_advance2 data0 d isn tds seq pay H0 Hs Hp Hrel Hw Ha) as (Hnew & Hfull & (rest & Hrest) & Hlen & Hdb).
      split; [exact Hre|]. split.
      { destruct pay as [|b0 pay']; [congruence|]. now apply any_not_all. }
      split; [|exact Hnew].
      rewrite Hfull. cbv zeta in Hdb. rewrite Hdb in Hg. cbn [andb] in Hg.
      eapply parse_agree; eauto.
  Qed.

  Lemma sim_client_data2 st cs e c isn d ro b r :
    Inv2 st cs -> conn_lookup (e_conn e) cs = Some c ->
    e_client e = true -> e_syn e = false -> e_pay e = b :: r -> e_seq e < two32 ->
    d_isn (sc_c c) = Some isn ->
    dir_data parse_req (sc_c c) isn (e_seq e) (e_pay e) = (d, ro) ->
    let cs1 := conn_replace (mkConn (sc_id c) d (sc_s c)) cs in
    classify_dir parse_req (sc_c c) isn (e_seq e) (e_pay e) = (false, false, false) ->
    (e_rst e || (e_fin e && negb (client_done (e_conn e) cs1))) && negb (both_done (e_conn e) cs1) = false ->
    exists st1, stepM st (wire e) = (st1, match ro with Some q => OReq q | None => ONone end)
                /\ Inv2 st1 cs1 /\ c_cap st1 = c_cap st.
  Proof.
    intros HI L Hc Hsyn Hpay Hseq Hisn Hdd cs1 Hcl Hfin.
    set (id := e_conn e) in *.
    pose proof (lookup_id _ _ _ L) as Hid.
    assert (BD : both_done id cs1 = d_done d && d_done (sc_s c)).
    { unfold cs1. erewrite both_done_replace; [reflexivity | exact L | exact Hid]. }
    assert (CD : client_done id cs1 = d_done d).
    { unfold cs1. erewrite client_done_replace; [reflexivity | exact L | exact Hid]. }
    rewrite BD, CD in Hfin. clear BD CD.
    pose proof HI as (K & Len & R). specialize (R id). rewrite L in R.
    rewrite (wire_client e Hc). fold id. unfold step. cbn [g_src g_dst g_sport g_dport g_syn].
    change (cip id, sip, cport id, 80) with (ckey id). change (sip, cip id, 80, cport id) with (skey id).
    destruct (cache_get fkey_eqb st (ckey id)) as [f|] eqn:G; cbn [rel2] in R.
    - destruct R as (F1 & F2 & F3 & F4 & F5 & F6 & Rc & Rs & Rn).
      rewrite Hpay. rewrite (on_flow_client parse_req parse_resp req_min resp_min st id _ _ _ _ b r f F1 F3).
      unfold dir_data in Hdd.
      destruct (d_done (sc_c c)) eqn:Dc.
      + (* request already reported: the segment is discarded *)
        injection Hdd as <- <-. rewrite F5. cbn [negb andb]. rewrite Dc in Hfin.
        destruct (d_done (sc_s c)) eqn:Ds.
        * rewrite finish_both; [|exact F5|exact F6]. eexists. split; [reflexivity|]. split; [|reflexivity].
          eapply Inv2_replace; try eassumption.
          -- now apply keys_ok_remove.
          -- apply len_remove.
          -- intros id' N. now apply frame_remove.
          -- rewrite get_remove_ckey. cbn. auto.
        * rewrite finish_keep; [|right; exact F6|rewrite F5; fin_tac Hfin].
          eexists. split; [reflexivity|]. split; [|reflexivity].
          eapply Inv2_replace; try eassumption; [lia | reflexivity |].
          rewrite G. cbn. unfold flow_rel2. cbn [sc_c sc_s]. rewrite Dc, Ds. repeat split; auto; congruence.
      + (* request not yet reported: store, rebuild, parse *)
        destruct (Rc Dc) as (isn0 & Hisn0 & Hdrel). rewrite Hisn in Hisn0. injection Hisn0 as <-.
        rewrite F5. cbn [negb]. cbv zeta.
        assert (Hne : e_pay e <> []) by (rewrite Hpay; discriminate).
        destruct (step_parse parse_req [mkTd isn []] (sc_c c) isn (f_cdata f) (e_seq e) (e_pay e)
                    req_stable (or_intror eq_refl) Hseq Hne Dc Hdrel Hcl) as [(Hret & Hall) | (Hret & Hall & Hfull & Hnew)].
        { (* exact retransmission: nothing changes on either side *)
          rewrite Hpay in Hret, Hall, Hdd. rewrite Hall in Hdd. injection Hdd as <- <-.
          rewrite Hret. cbn [negb andb]. rewrite Dc in Hfin.
          rewrite finish_keep; [|left; exact F5|rewrite F5; fin_tac Hfin].
          eexists. split; [reflexivity|]. split; [|reflexivity].
          eapply Inv2_replace; try eassumption; [lia | reflexivity |].
          rewrite G. cbn. unfold flow_rel2. cbn [sc_c sc_s]. rewrite Dc. repeat split; auto. }
        rewrite Hpay in Hfull, Hnew, Hdd, Hret, Hall. rewrite Hall in Hdd. rewrite Hret. cbn [negb andb]. rewrite Hfull.
        destruct (parse_req (prefix_from _ _ 0)) as [q|] eqn:P.
        * injection Hdd as <- <-. cbn [d_done] in Hfin.
          destruct (d_done (sc_s c)) eqn:Ds.
          -- rewrite finish_both; [|reflexivity|exact F6]. eexists. split; [reflexivity|]. split; [|reflexivity].
             eapply Inv2_replace; try eassumption.
             ++ apply keys_ok_remove. now apply keys_ok_update.
             ++ etransitivity; [apply len_remove|]. unfold set_flow. rewrite len_update. lia.
             ++ intros id' N. unfold set_flow. rewrite frame_remove by exact N. now apply frame_update.
             ++ rewrite get_remove_ckey. cbn. auto.
          -- rewrite finish_keep; [|right; exact F6|fin_tac Hfin].
             eexists. split; [reflexivity|]. split; [|reflexivity].
             eapply Inv2_replace; try eassumption.
             ++ now apply keys_ok_update.
             ++ unfold set_flow. rewrite len_update. lia.
             ++ intros id' N. now apply frame_update.
             ++ unfold set_flow. rewrite (get_update_ckey st id _ f G). cbn. unfold flow_rel2. cbn.
                rewrite Ds. repeat split; auto; try congruence. intros X. discriminate.
        * injection Hdd as <- <-. cbn [d_done] in Hfin.
          rewrite finish_keep; [|left; reflexivity|fin_tac Hfin].
          eexists. split; [reflexivity|]. split; [|reflexivity].
          eapply Inv2_replace; try eassumption.
          -- now apply keys_ok_update.
          -- unfold set_flow. rewrite len_update. lia.
          -- intros id' N. now apply frame_update.
          -- unfold set_flow. rewrite (get_update_ckey st id _ f G). cbn. unfold flow_rel2. cbn.
             repeat split; auto. intros _. exists isn. split; [exact Hisn|]. apply Hnew.
    - (* the flow was already removed: both heads reported earlier *)
      destruct R as (Dc & Ds & Dn).
      rewrite (get_skey st id K). cbn [g_syn]. rewrite Hsyn.
      unfold dir_data in Hdd. rewrite Dc in Hdd. injection Hdd as <- <-.
      eexists. split; [reflexivity|]. split; [|reflexivity].
      eapply Inv2_replace; try eassumption; [lia | reflexivity |].
      rewrite G. cbn. auto.
  Qed.

  (* ---- a server data segment of a known connection ---- *)
  Lemma sim_server_data2 st cs e c isn d ro b r :
    Inv2 st cs -> conn_lookup (e_conn e) cs = Some c ->
    e_client e = false -> e_syn e = false -> e_pay e = b :: r -> e_seq e < two32 ->
    d_isn (sc_s c) = Some isn ->
    dir_data parse_resp (sc_s c) isn (e_seq e) (e_pay e) = (d, ro) ->
    let cs1 := conn_replace (mkConn (sc_id c) (sc_c c) d) cs in
    classify_dir parse_resp (sc_s c) isn (e_seq e) (e_pay e) = (false, false, false) ->
    exists st1, stepM st (wire e) = (st1, match ro with Some q => OResp q | None => ONone end)
                /\ Inv2 st1 cs1 /\ c_cap st1 = c_cap st.
  Proof.
    intros HI L Hc Hsyn Hpay Hseq Hisn Hdd cs1 Hcl.
    set (id := e_conn e) in *.
    pose proof (lookup_id _ _ _ L) as Hid.
    pose proof HI as (K & Len & R). specialize (R id). rewrite L in R.
    rewrite (wire_server e Hc). fold id. unfold step. cbn [g_src g_dst g_sport g_dport g_syn].
    change (cip id, sip, cport id, 80) with (ckey id). change (sip, cip id, 80, cport id) with (skey id).
    rewrite (get_skey st id K).
    destruct (cache_get fkey_eqb st (ckey id)) as [f|] eqn:G; cbn [rel2] in R.
    - destruct R as (F1 & F2 & F3 & F4 & F5 & F6 & Rc & Rs & Rn).
      rewrite Hpay. rewrite (on_flow_server parse_req parse_resp req_min resp_min st id _ _ _ _ b r f F2 F4).
      unfold dir_data in Hdd.
      destruct (d_done (sc_s c)) eqn:Ds.
      + injection Hdd as <- <-. rewrite F6. cbn [negb andb]. rewrite (finish_server st id f _ K).
        eexists. split; [reflexivity|]. split; [|reflexivity].
        eapply Inv2_replace; try eassumption; [lia | reflexivity |].
        rewrite G. cbn. unfold flow_rel2. cbn [sc_c sc_s]. rewrite Ds. repeat split; auto.
      + pose proof (Rs Ds) as Hdrel. rewrite Hisn in Hdrel.
        rewrite F6. cbn [negb]. cbv zeta.
        assert (Hne : e_pay e <> []) by (rewrite Hpay; discriminate).
        destruct (step_parse parse_resp [] (sc_s c) isn (f_sdata f) (e_seq e) (e_pay e)
                    resp_stable (or_introl eq_refl) Hseq Hne Ds Hdrel Hcl) as [(Hret & Hall) | (Hret & Hall & Hfull & Hnew)].
        { rewrite Hpay in Hret, Hall, Hdd. rewrite Hall in Hdd. injection Hdd as <- <-.
          rewrite Hret. cbn [negb andb]. rewrite (finish_server st id f _ K).
          eexists. split; [reflexivity|]. split; [|reflexivity].
          eapply Inv2_replace; try eassumption; [lia | reflexivity |].
          rewrite G. cbn. unfold flow_rel2. cbn [sc_c sc_s]. rewrite Ds. repeat split; auto. }
        rewrite Hpay in Hfull, Hnew, Hdd, Hret, Hall. rewrite Hall in Hdd. rewrite Hret. cbn [negb andb]. rewrite Hfull.
        destruct (parse_resp (prefix_from _ _ 0)) as [q|] eqn:P.
        * injection Hdd as <- <-.
          rewrite finish_server by (now apply keys_ok_update).
          eexists. split; [reflexivity|]. split; [|reflexivity].
          eapply Inv2_replace; try eassumption.
          -- now apply keys_ok_update.
          -- unfold set_flow. rewrite len_update. lia.
          -- intros id' N. now apply frame_update.
          -- unfold set_flow. rewrite (get_update_ckey st id _ f G). cbn. unfold flow_rel2. cbn.
             repeat split; auto; try congruence. intros X. discriminate.
        * injection Hdd as <- <-.
          rewrite finish_server by (now apply keys_ok_update).
          eexists. split; [reflexivity|]. split; [|reflexivity].
          eapply Inv2_replace; try eassumption.
          -- now apply keys_ok_update.
          -- unfold set_flow. rewrite len_update. lia.
          -- intros id' N. now apply frame_update.
          -- unfold set_flow. rewrite (get_update_ckey st id _ f G). cbn. unfold flow_rel2. cbn.
             repeat split; auto; try discriminate. intros _. specialize (Hnew false). rewrite Hisn in Hnew |- *. exact Hnew.
    - destruct R as (Dc & Ds & Dn).
      cbn [g_syn]. rewrite Hsyn.
      unfold dir_data in Hdd. rewrite Ds in Hdd. injection Hdd as <- <-.
      eexists. split; [reflexivity|]. split; [|reflexivity].
      eapply Inv2_replace; try eassumption; [lia | reflexivity |].
      rewrite G. cbn. auto.
  Qed.

  (* ---- packets that carry no payload, on a known connection ---- *)
  Lemma sim_no_payload2 st cs e :
    Inv2 st cs -> e_syn e = false -> e_pay e = [] ->
    stepM st (wire e) = (st, ONone).
  Proof.
    intros (K & Len & R) Hsyn Hpay. set (id := e_conn e).
    destruct (e_client e) eqn:Hc.
    - rewrite (wire_client e Hc). fold id. unfold step. cbn [g_src g_dst g_sport g_dport g_syn].
      change (cip id, sip, cport id, 80) with (ckey id). change (sip, cip id, 80, cport id) with (skey id).
      destruct (cache_get fkey_eqb st (ckey id)) as [f|].
      + unfold on_flow. cbn [g_pay]. now rewrite Hpay.
      + rewrite (get_skey st id K). now rewrite Hsyn.
    - rewrite (wire_server e Hc). fold id. unfold step. cbn [g_src g_dst g_sport g_dport g_syn].
      change (cip id, sip, cport id, 80) with (ckey id). change (sip, cip id, 80, cport id) with (skey id).
      rewrite (get_skey st id K).
      destruct (cache_get fkey_eqb st (ckey id)) as [f|].
      + unfold on_flow. cbn [g_pay]. now rewrite Hpay.
      + now rewrite Hsyn.
  Qed.

  (* ---- the opening SYN of a new connection ---- *)
  Lemma sim_open2 st cs e :
    Inv2 st cs -> conn_lookup (e_conn e) cs = None ->
    e_client e = true -> e_syn e = true -> e_pay e = [] -> e_seq e < two32 ->
    N.of_nat (S (length cs)) <= c_cap st ->
    let cs1 := mkConn (e_conn e) (dir_new (Some (e_seq e))) (dir_new None) :: cs in
    exists st1, stepM st (wire e) = (st1, ONone) /\ Inv2 st1 cs1 /\ c_cap st1 = c_cap st.
  Proof.
    intros (K & Len & R) L Hc Hsyn Hpay Hseq Hcap cs1. set (id := e_conn e) in *.
    pose proof (R id) as Rid. rewrite L in Rid.
    destruct (cache_get fkey_eqb st (ckey id)) as [f|] eqn:G; [contradiction|].
    rewrite (wire_client e Hc). fold id. unfold step. cbn [g_src g_dst g_sport g_dport g_syn].
    change (cip id, sip, cport id, 80) with (ckey id). change (sip, cip id, 80, cport id) with (skey id).
    rewrite G, (get_skey st id K), Hsyn.
    eexists. split; [reflexivity|]. split; [|reflexivity].
    assert (E : c_entries (cache_insert fkey_eqb st (ckey id)
                  (flow_init (mkSeg (cip id) sip (cport id) 80 true (e_fin e) (e_rst e) (e_seq e) (e_pay e))))
                = c_entries st ++ [(ckey id, flow_init (mkSeg (cip id) sip (cport id) 80 true (e_fin e) (e_rst e) (e_seq e) (e_pay e)))]).
    { rewrite insert_no_evict by lia. rewrite remove_absent; [reflexivity | exact G]. }
    split; [|split].
    - intros k v Hin. rewrite E in Hin. apply in_app_or in Hin. destruct Hin as [Hin|[[= Hk _]|[]]]; [eapply K; exact Hin | exists id; now symmetry].
    - rewrite E, app_length. cbn. lia.
    - intros id'. unfold cache_get. rewrite E, get_app_last. fold (cache_get fkey_eqb st (ckey id')).
      cbn [conn_lookup sc_id cs1]. specialize (R id').
      destruct (id =? id') eqn:Eid.
      + apply N.eqb_eq in Eid. subst id'. rewrite G. rewrite (keqb_refl fkey_eqb fkey_eqb_eq).
        cbn. unfold flow_rel2, flow_init. cbn. rewrite Hpay. repeat split; auto; try discriminate.
        * intros _. exists (e_seq e). split; [reflexivity|]. unfold drel2, near_segs. cbn. repeat split; auto; constructor.
        * apply map_is_empty.
      + destruct (cache_get fkey_eqb st (ckey id')); [exact R|].
        rewrite (keqb_neq fkey_eqb fkey_eqb_eq); [exact R|].
        intros X. apply ckey_inj in X. apply N.eqb_neq in Eid. contradiction.
  Qed.

  (* ---- the server's SYN of a known connection ---- *)
  Lemma sim_synack2 st cs e c :
    Inv2 st cs -> conn_lookup (e_conn e) cs = Some c ->
    e_client e = false -> e_pay e = [] -> d_isn (sc_s c) = None -> e_seq e < two32 ->
    let cs1 := conn_replace (mkConn (sc_id c) (sc_c c)
                 (mkDir (Some (e_seq e)) (d_map (sc_s c)) (d_recv (sc_s c)) (d_done (sc_s c)) (d_segs (sc_s c)))) cs in
    stepM st (wire e) = (st, ONone) /\ Inv2 st cs1.
  Proof.
    intros HI L Hc Hpay Hn Hseq cs1. set (id := e_conn e) in *.
    pose proof (lookup_id _ _ _ L) as Hid.
    pose proof HI as (K & Len & R). specialize (R id). rewrite L in R.
    rewrite (wire_server e Hc). fold id. unfold step. cbn [g_src g_dst g_sport g_dport g_syn].
    change (cip id, sip, cport id, 80) with (ckey id). change (sip, cip id, 80, cport id) with (skey id).
    rewrite (get_skey st id K).
    destruct (cache_get fkey_eqb st (ckey id)) as [f|] eqn:G; cbn [rel2] in R.
    - split; [unfold on_flow; cbn [g_pay]; now rewrite Hpay|].
      destruct R as (F1 & F2 & F3 & F4 & F5 & F6 & Rc & Rs & Rn).
      eapply Inv2_replace; try eassumption; [lia | reflexivity |].
      rewrite G. cbn [rel2]. unfold flow_rel2. cbn [sc_c sc_s d_done d_isn].
      split; [exact F1|]. split; [exact F2|]. split; [exact F3|]. split; [exact F4|].
      split; [exact F5|]. split; [exact F6|]. split; [exact Rc|]. split; [|intros _; discriminate].
      intros Ds. cbn [d_done] in Ds. specialize (Rs Ds). rewrite Hn in Rs. destruct Rs as (-> & Hm & Hr & Hsg).
      cbn [d_isn]. unfold drel2. cbn [d_segs d_map d_recv]. rewrite Hsg. cbn.
      split; [reflexivity|]. split; [exact I|]. split; [constructor|]. split; [|split; [exact Hr | split; [exact Hseq | constructor]]].
      intros i. rewrite Hm. now destruct (N.to_nat i).
    - destruct R as (_ & _ & X). contradiction.
  Qed.

  (* ---- one event ---- *)
  Lemma step_sim2 st cs e cs1 o :
    Inv2 st cs -> e_seq e < two32 ->
    sstep parse_req parse_resp cs e = (cs1, o, true) ->
    classify parse_req parse_resp cs e cs1 = (false, false, false, false) ->
    N.of_nat (length cs1) <= c_cap st ->
    exists st1, stepM st (wire e) = (st1, o) /\ Inv2 st1 cs1 /\ c_cap st1 = c_cap st.
  Proof.
    intros HI Hseq Hs Hk Hcap. unfold sstep in Hs. unfold classify in Hk.
    destruct (conn_lookup (e_conn e) cs) as [c|] eqn:L.
    - destruct (e_syn e) eqn:Hsyn.
      + (* SYN on a known connection: only the server's first SYN is inside the domain *)
        destruct (e_client e) eqn:Hc; [now inversion Hs|].
        destruct (d_isn (sc_s c)) eqn:Hn; [now inversion Hs|].
        destruct (e_pay e) eqn:Hpay; [|now inversion Hs].
        injection Hs as <- <-.
        destruct (sim_synack2 st cs e c HI L Hc Hpay Hn Hseq) as [E I1].
        exists st. auto.
      + destruct (e_pay e) as [|b r] eqn:Hpay.
        * injection Hs as <- <-. exists st. split; [exact (sim_no_payload2 st cs e HI Hsyn Hpay)|]. auto.
        * destruct (e_client e) eqn:Hc.
          -- destruct (d_isn (sc_c c)) as [isn|] eqn:Hisn; [|now inversion Hs].
             destruct (dir_data parse_req (sc_c c) isn (e_seq e) (b :: r)) as [d ro] eqn:Hdd.
             injection Hs as <- <-.
             destruct (classify_dir parse_req (sc_c c) isn (e_seq e) (b :: r)) as [[w g] u] eqn:Hcd.
             injection Hk as -> -> -> Hfin.
             rewrite <- Hpay in Hdd, Hcd.
             eapply sim_client_data2; eauto.
          -- destruct (d_isn (sc_s c)) as [isn|] eqn:Hisn; [|now inversion Hs].
             destruct (dir_data parse_resp (sc_s c) isn (e_seq e) (b :: r)) as [d ro] eqn:Hdd.
             injection Hs as <- <-.
             destruct (classify_dir parse_resp (sc_s c) isn (e_seq e) (b :: r)) as [[w g] u] eqn:Hcd.
             injection Hk as -> -> ->.
             rewrite <- Hpay in Hdd, Hcd.
             eapply sim_server_data2; eauto.
    - destruct (e_client e) eqn:Hc; [|now inversion Hs].
      destruct (e_syn e) eqn:Hsyn; [|now inversion Hs].
      destruct (e_pay e) eqn:Hpay; [|now inversion Hs].
      cbn in Hs. destruct (negb (e_fin e) && negb (e_rst e)); [|now inversion Hs].
      injection Hs as <- <-. cbn [length] in Hcap.
      eapply sim_open2; eauto.
  Qed.

  (* ---- traces ---- *)
  Lemma run_sim2 tr : forall st cs,
    Inv2 st cs -> (forall e, In e tr -> e_seq e < two32) ->
    snd (srun parse_req parse_resp cs tr) = true ->
    krun parse_req parse_resp cs tr = (false, false, false, false) ->
    N.of_nat (length (sfinal parse_req parse_resp cs tr)) <= c_cap st ->
    snd (run parse_req parse_resp st (map wire tr)) = fst (srun parse_req parse_resp cs tr).
  Proof.
    induction tr as [|e tr IH]; intros st cs HI Hseq Hwf Hk Hcap; cbn; [reflexivity|].
    cbn in Hwf, Hk, Hcap.
    destruct (sstep parse_req parse_resp cs e) as [[cs1 o] ok] eqn:Hs. cbn [fst] in Hcap.
    destruct (srun parse_req parse_resp cs1 tr) as [os ok2] eqn:Hr. cbn in Hwf.
    apply andb_true_iff in Hwf. destruct Hwf as [-> ->].
    destruct (classify parse_req parse_resp cs e cs1) as [[[w g] u] f] eqn:Hc.
    destruct (krun parse_req parse_resp cs1 tr) as [[[w2 g2] u2] f2] eqn:Hk2.
    injection Hk as Hw Hg Hu Hf.
    apply orb_false_iff in Hw, Hg, Hu, Hf.
    destruct Hw as [-> ->], Hg as [-> ->], Hu as [-> ->], Hf as [-> ->].
    destruct (step_sim2 st cs e cs1 o HI (Hseq e (or_introl eq_refl)) Hs Hc) as (st1 & E & I1 & C1).
    { etransitivity; [|exact Hcap]. pose proof (sfinal_grows parse_req parse_resp req_min resp_min tr cs1). lia. }
    rewrite E.
    specialize (IH st1 cs1 I1 (fun e' H => Hseq e' (or_intror H))).
    rewrite Hr, Hk2, C1 in IH. specialize (IH eq_refl eq_refl Hcap).
    destruct (run parse_req parse_resp st1 (map wire tr)) as [st2 os']. cbn in *. now rewrite IH.
  Qed.

  Lemma Inv2_init cap : Inv2 (cache_new cap) [].
  Proof. split; [intros k v []|]. split; [cbn; lia|]. intros id. exact I. Qed.

  Theorem reordered_model_spec cap tr :
    (forall e, In e tr -> e_seq e < two32) ->
    spec_wf parse_req parse_resp tr = true ->
    known parse_req parse_resp tr = false ->
    spec_conn_count parse_req parse_resp tr <= cap ->
    outs parse_req parse_resp cap (map wire tr) = spec_outs parse_req parse_resp tr.
  Proof.
    intros Hseq Hwf Hk Hcap. unfold outs, spec_outs.
    apply run_sim2; auto using Inv2_init.
    unfold known, known_classes in Hk.
    destruct (krun parse_req parse_resp [] tr) as [[[w g] u] f].
    apply orb_false_iff in Hk. destruct Hk as [Hk ->].
    apply orb_false_iff in Hk. destruct Hk as [Hk ->].
    apply orb_false_iff in Hk. destruct Hk as [-> ->]. reflexivity.
  Qed.
End Reorder.
