(* The HTTP flow step (Model/HttpFlow.v `step` = process_tcp_packet) factored as
     lookups of the packet's key and of the reversed key  ->  a PLAN of cache operations on those two keys
   and, from that, its locality: the step reads and writes only the entries of the packet's connection
   (the two directed keys of one undirected 4-tuple), whatever else the table holds.  Parametric in the
   two parsers. *)
From Coq Require Import List NArith Bool Lia ZifyBool.
From Coq Require Import Strings.Byte.
From HN Require Import Base.Bytes Base.Cache Base.Tcp Model.HttpFlow Model.HttpAnalyzer.
Import ListNotations.
Open Scope N_scope.

Lemma fkey_eqb_eq (a b : fkey) : fkey_eqb a b = true <-> a = b.
Proof.
  destruct a as [[[a1 a2] a3] a4], b as [[[b1 b2] b3] b4]. unfold fkey_eqb.
  rewrite !andb_true_iff, !N.eqb_eq. split; [intros [[[-> ->] ->] ->]; reflexivity | intros E; inversion E; auto].
Qed.
Lemma fkey_eqb_refl a : fkey_eqb a a = true.
Proof. now apply fkey_eqb_eq. Qed.
Lemma fkey_eqb_neq a b : a <> b -> fkey_eqb a b = false.
Proof. intro H. destruct (fkey_eqb a b) eqn:E; [apply fkey_eqb_eq in E; contradiction | reflexivity]. Qed.

(* ---- the normal form of a connection ---- *)
Lemma flip_flip k : flip_key (flip_key k) = k.
Proof. now destruct k as [[[a b] p] q]. Qed.
Lemma norm_flip k : norm_key (flip_key k) = norm_key k.
Proof.
  destruct k as [[[a b] p] q]. unfold norm_key, key_le, flip_key.
  destruct ((a <? b) || (a =? b) && (p <=? q)) eqn:E1; destruct ((b <? a) || (b =? a) && (q <=? p)) eqn:E2; try reflexivity.
  - assert (a = b /\ p = q) as [-> ->] by lia. reflexivity.
  - exfalso. lia.
Qed.
Lemma norm_cases k : norm_key k = k \/ norm_key k = flip_key k.
Proof. unfold norm_key. destruct (key_le k); auto. Qed.
(* two directed keys with the same normal form are equal or each other's reverse *)
Lemma norm_eq_cases k k' : norm_key k = norm_key k' -> k' = k \/ k' = flip_key k.
Proof.
  intro H. destruct (norm_cases k) as [E|E], (norm_cases k') as [E'|E']; rewrite E, E' in H.
  - now left.
  - right. now rewrite H, flip_flip.
  - right. now symmetry.
  - left. rewrite <- (flip_flip k), <- (flip_flip k'). now f_equal.
Qed.

Section Plan.
  Context {Req Resp : Type}.
  Variable parse_req : bytes -> option Req.
  Variable parse_resp : bytes -> option Resp.
  Notation out := (hout Req Resp).
  Notation step := (step parse_req parse_resp).
  Notation has_complete := (has_complete parse_req parse_resp).

  Inductive op := OUpd (k : fkey) (f : tcpflow) | ORem (k : fkey) | OIns (k : fkey) (f : tcpflow).
  Definition op_key (o : op) : fkey := match o with OUpd k _ => k | ORem k => k | OIns k _ => k end.
  Definition is_ins (o : op) : bool := match o with OIns _ _ => true | _ => false end.
  Definition exec_op (st : state) (o : op) : state :=
    match o with
    | OUpd k f => cache_update fkey_eqb st k f
    | ORem k => cache_remove fkey_eqb st k
    | OIns k f => cache_insert fkey_eqb st k f
    end.
  Definition exec (ops : list op) (st : state) : state := fold_left exec_op ops st.

  (* the decision of the `if let Some(flow)` branch: the flow to write back (if any), the flow the clean-up
     tests look at, the report *)
  Definition decide (p : segment) (f : tcpflow) (is_client : bool) : option (option tcpflow * tcpflow * out) :=
    match g_pay p with
    | [] => None
    | _ :: _ =>
        let td := mkTd (g_seq p) (g_pay p) in
        if is_client && (g_src p =? f_cip f) && (g_sport p =? f_cport f) then
          if negb (f_cparsed f) && negb (is_retrans (f_cdata f) td) then
            let cd := f_cdata f ++ [td] in
            let full := full_data cd in
            let f1 := mkFlow (f_cip f) (f_sip f) (f_cport f) (f_sport f) cd (f_sdata f) false (f_sparsed f) in
            match (if has_complete full then parse_req full else None) with
            | Some r =>
                let f2 := mkFlow (f_cip f) (f_sip f) (f_cport f) (f_sport f) cd (f_sdata f) true (f_sparsed f) in
                Some (Some f2, f2, OReq r)
            | None => Some (Some f1, f1, ONone)
            end
          else Some (None, f, ONone)
        else if (g_src p =? f_sip f) && (g_sport p =? f_sport f) then
          if negb (f_sparsed f) && negb (is_retrans (f_sdata f) td) then
            let sd := f_sdata f ++ [td] in
            let full := full_data (if is_client then f_cdata f else sd) in
            let f1 := mkFlow (f_cip f) (f_sip f) (f_cport f) (f_sport f) (f_cdata f) sd (f_cparsed f) false in
            match (if has_complete full then parse_resp full else None) with
            | Some r =>
                let f2 := mkFlow (f_cip f) (f_sip f) (f_cport f) (f_sport f) (f_cdata f) sd (f_cparsed f) true in
                Some (Some f2, f2, OResp r)
            | None => Some (Some f1, f1, ONone)
            end
          else Some (None, f, ONone)
        else Some (None, f, ONone)
    end.
  Definition finish_ops (pkt_key : fkey) (f : tcpflow) (p : segment) : list op :=
    if f_cparsed f && f_sparsed f then [ORem pkt_key]
    else if g_rst p || (g_fin p && negb (f_cparsed f && negb (f_sparsed f))) then [ORem pkt_key] else [].
  Definition plan_on_flow (p : segment) (flow_key k : fkey) (f : tcpflow) (is_client : bool) : list op * out :=
    match decide p f is_client with
    | None => ([], ONone)
    | Some (w, ff, o) => ((match w with Some f' => [OUpd k f'] | None => [] end) ++ finish_ops flow_key ff p, o)
    end.
  Definition plan (fo ro : option tcpflow) (p : segment) : list op * out :=
    match fo with
    | Some f => plan_on_flow p (seg_key p) (seg_key p) f true
    | None => match ro with
              | Some f => plan_on_flow p (seg_key p) (flip_key (seg_key p)) f false
              | None => if g_syn p then ([OIns (seg_key p) (flow_init p)], ONone) else ([], ONone)
              end
    end.

  Lemma finish_plan st pk f p : finish st pk f p = exec (finish_ops pk f p) st.
  Proof. unfold finish, finish_ops. destruct (f_cparsed f && f_sparsed f); [reflexivity|]. now destruct (g_rst p || _). Qed.

  Lemma on_flow_plan st p fk k f ic :
    on_flow parse_req parse_resp st p fk k f ic = (exec (fst (plan_on_flow p fk k f ic)) st, snd (plan_on_flow p fk k f ic)).
  Proof.
    unfold on_flow, plan_on_flow, decide. destruct (g_pay p) as [|b0 pl]; [reflexivity|].
    set (pay := b0 :: pl).
    destruct (ic && (g_src p =? f_cip f) && (g_sport p =? f_cport f)).
    - destruct (negb (f_cparsed f) && _).
      + destruct (if has_complete (full_data (f_cdata f ++ [mkTd (g_seq p) pay])) then parse_req (full_data (f_cdata f ++ [mkTd (g_seq p) pay])) else None);
          cbn [fst snd]; rewrite finish_plan; unfold exec, set_flow; rewrite fold_left_app; reflexivity.
      + cbn [fst snd app]. now rewrite finish_plan.
    - destruct ((g_src p =? f_sip f) && (g_sport p =? f_sport f)).
      + destruct (negb (f_sparsed f) && _).
        * destruct (if has_complete (full_data (if ic then f_cdata f else f_sdata f ++ [mkTd (g_seq p) pay]))
                    then parse_resp (full_data (if ic then f_cdata f else f_sdata f ++ [mkTd (g_seq p) pay])) else None);
            cbn [fst snd]; rewrite finish_plan; unfold exec, set_flow; rewrite fold_left_app; reflexivity.
        * cbn [fst snd app]. now rewrite finish_plan.
      + cbn [fst snd app]. now rewrite finish_plan.
  Qed.

  Theorem step_plan st p :
    let pl := plan (cache_get fkey_eqb st (seg_key p)) (cache_get fkey_eqb st (flip_key (seg_key p))) p in
    step st p = (exec (fst pl) st, snd pl).
  Proof.
    cbv zeta. unfold HttpFlow.step, plan.
    change (g_src p, g_dst p, g_sport p, g_dport p) with (seg_key p).
    change (g_dst p, g_src p, g_dport p, g_sport p) with (flip_key (seg_key p)).
    destruct (cache_get fkey_eqb st (seg_key p)) as [f|]; [apply on_flow_plan|].
    destruct (cache_get fkey_eqb st (flip_key (seg_key p))) as [f|]; [apply on_flow_plan|].
    now destruct (g_syn p).
  Qed.

  (* shape of a plan: only the packet's key and the reversed key; an insert only as the single operation of a
     packet that finds neither direction *)
  Lemma plan_on_flow_keys p fk k f ic :
    Forall (fun o => (op_key o = fk \/ op_key o = k) /\ is_ins o = false) (fst (plan_on_flow p fk k f ic)).
  Proof.
    unfold plan_on_flow. destruct (decide p f ic) as [[[w ff] o]|]; cbn [fst]; [|constructor].
    apply Forall_app. split.
    - destruct w; [apply Forall_cons; [cbn; auto | apply Forall_nil] | apply Forall_nil].
    - unfold finish_ops. destruct (f_cparsed ff && f_sparsed ff); [apply Forall_cons; [cbn; auto | apply Forall_nil]|].
      destruct (g_rst p || _); [apply Forall_cons; [cbn; auto | apply Forall_nil] | apply Forall_nil].
  Qed.
  Lemma plan_shape fo ro p :
    (Forall (fun o => (op_key o = seg_key p \/ op_key o = flip_key (seg_key p)) /\ is_ins o = false) (fst (plan fo ro p)))
    \/ (fo = None /\ ro = None /\ fst (plan fo ro p) = [OIns (seg_key p) (flow_init p)]).
  Proof.
    unfold plan. destruct fo as [f|].
    - left. eapply Forall_impl; [|apply plan_on_flow_keys]. cbn. intros o [[H|H] I]; auto.
    - destruct ro as [f|].
      + left. apply plan_on_flow_keys.
      + destruct (g_syn p); [right; auto | left; constructor].
  Qed.

  (* ---- on the entry lists ---- *)
  Notation ents := (list (fkey * tcpflow)).
  Definition eexec_op (es : ents) (o : op) : ents :=
    match o with
    | OUpd k f => assoc_update fkey_eqb es k f
    | ORem k => assoc_remove fkey_eqb es k
    | OIns k f => assoc_remove fkey_eqb es k ++ [(k, f)]
    end.
  Definition eexec (ops : list op) (es : ents) : ents := fold_left eexec_op ops es.

  Lemma exec_noins : forall ops st, Forall (fun o => is_ins o = false) ops ->
    c_entries (exec ops st) = eexec ops (c_entries st) /\ c_cap (exec ops st) = c_cap st.
  Proof.
    induction ops as [|o ops IH]; intros st H; [split; reflexivity|].
    inversion H as [|? ? Ho Hr]; subst. cbn [exec eexec fold_left].
    destruct (IH (exec_op st o) Hr) as [E1 E2]. unfold exec, eexec in *. rewrite E1, E2.
    destruct o; try discriminate; split; reflexivity.
  Qed.
  Lemma assoc_remove_len (es : ents) k : (length (assoc_remove fkey_eqb es k) <= length es)%nat.
  Proof. induction es as [|[k0 v0] es IH]; cbn [assoc_remove]; [lia|]. destruct (fkey_eqb k0 k); cbn [length]; lia. Qed.
  Lemma exec_ins st k f : cache_len st < c_cap st ->
    c_entries (exec [OIns k f] st) = eexec [OIns k f] (c_entries st) /\ c_cap (exec [OIns k f] st) = c_cap st.
  Proof.
    intro H. cbn. split; [|reflexivity].
    destruct (c_cap st <? len_N (assoc_remove fkey_eqb (c_entries st) k ++ [(k, f)])) eqn:E; [|reflexivity].
    apply N.ltb_lt in E. unfold cache_len, len_N in *. rewrite app_length in E. cbn [length] in E.
    pose proof (assoc_remove_len (c_entries st) k). lia.
  Qed.

  (* ---- locality: a class of keys closed under "same key" ---- *)
  Variable cls : fkey -> bool.
  Definition fcls (es : ents) : ents := filter (fun e => cls (fst e)) es.

  Lemma get_fcls es k : cls k = true -> assoc_get fkey_eqb (fcls es) k = assoc_get fkey_eqb es k.
  Proof.
    intro Hk. induction es as [|[k0 v0] es IH]; [reflexivity|]. cbn [fcls filter fst assoc_get].
    destruct (fkey_eqb k0 k) eqn:E.
    - apply fkey_eqb_eq in E. subst k0. rewrite Hk. cbn [assoc_get]. now rewrite fkey_eqb_refl.
    - destruct (cls k0); [cbn [assoc_get]; rewrite E|]; exact IH.
  Qed.
  Lemma remove_fcls es k : fcls (assoc_remove fkey_eqb es k) = assoc_remove fkey_eqb (fcls es) k.
  Proof.
    induction es as [|[k0 v0] es IH]; [reflexivity|]. cbn [assoc_remove fcls filter fst].
    destruct (fkey_eqb k0 k) eqn:E; destruct (cls k0) eqn:C; cbn [fcls filter fst assoc_remove]; rewrite ?C, ?E; fold (fcls es);
      fold (fcls (assoc_remove fkey_eqb es k)); rewrite ?IH; reflexivity.
  Qed.
  Lemma remove_out es k : cls k = false -> assoc_remove fkey_eqb (fcls es) k = fcls es.
  Proof.
    intro Hk. induction es as [|[k0 v0] es IH]; [reflexivity|]. cbn [fcls filter fst].
    destruct (cls k0) eqn:C; [|exact IH]. cbn [assoc_remove].
    destruct (fkey_eqb k0 k) eqn:E; [apply fkey_eqb_eq in E; congruence|]. f_equal. exact IH.
  Qed.
  Lemma update_out es k f : cls k = false -> assoc_update fkey_eqb (fcls es) k f = fcls es.
  Proof.
    intro Hk. induction es as [|[k0 v0] es IH]; [reflexivity|]. cbn [fcls filter fst].
    destruct (cls k0) eqn:C; [|exact IH]. cbn [assoc_update].
    destruct (fkey_eqb k0 k) eqn:E; [apply fkey_eqb_eq in E; congruence|]. f_equal. exact IH.
  Qed.
  Lemma update_fcls es k f : fcls (assoc_update fkey_eqb es k f) = assoc_update fkey_eqb (fcls es) k f.
  Proof.
    induction es as [|[k0 v0] es IH]; [reflexivity|]. cbn [assoc_update].
    destruct (fkey_eqb k0 k) eqn:E.
    - apply fkey_eqb_eq in E. subst k0. cbn [fcls filter fst]. destruct (cls k) eqn:C.
      + cbn [assoc_update]. now rewrite fkey_eqb_refl.
      + fold (fcls es). symmetry. now apply update_out.
    - cbn [fcls filter fst]. destruct (cls k0); fold (fcls es); fold (fcls (assoc_update fkey_eqb es k f)).
      + cbn [assoc_update]. rewrite E. now rewrite IH.
      + exact IH.
  Qed.
  Lemma fcls_app a b : fcls (a ++ b) = fcls a ++ fcls b.
  Proof. unfold fcls. apply filter_app. Qed.

  Lemma eexec_in ops : forall es, Forall (fun o => cls (op_key o) = true) ops -> fcls (eexec ops es) = eexec ops (fcls es).
  Proof.
    induction ops as [|o ops IH]; intros es H; [reflexivity|]. inversion H as [|? ? Ho Hr]; subst.
    unfold eexec in *. cbn [fold_left]. rewrite (IH _ Hr). f_equal.
    destruct o as [k f|k|k f]; cbn [eexec_op op_key] in *.
    - apply update_fcls.
    - apply remove_fcls.
    - rewrite fcls_app, remove_fcls. cbn [fcls filter fst]. now rewrite Ho.
  Qed.
  Lemma eexec_out ops : forall es, Forall (fun o => cls (op_key o) = false) ops -> fcls (eexec ops es) = fcls es.
  Proof.
    induction ops as [|o ops IH]; intros es H; [reflexivity|]. inversion H as [|? ? Ho Hr]; subst.
    unfold eexec in *. cbn [fold_left]. rewrite (IH _ Hr).
    destruct o as [k f|k|k f]; cbn [eexec_op op_key] in *.
    - rewrite update_fcls. now apply update_out.
    - rewrite remove_fcls. now apply remove_out.
    - rewrite fcls_app, remove_fcls, (remove_out _ _ Ho). cbn [fcls filter fst]. rewrite Ho. apply app_nil_r.
  Qed.
End Plan.
