(* Ties between the hand-written models and the constants / literal tables regenerated from /repo's
   sources on every run (coq/Gen/Consts.v, tools/gen/consts.py).  An edit of one of these values in the
   Rust source changes Gen/Consts.v and breaks the corresponding lemma here (a proof obligation of the
   property that uses the model), independently of what the case generators happen to sample. *)
From Coq Require Import List NArith ZArith Bool Lia.
From HN Require Import Base.Bytes Gen.Consts.
From HN Require Model.Match.
Import ListNotations.

(* ---- C12 / C02: both distance_to_score tables, for every distance ---- *)
Lemma score_tie_aux (f g : N -> N) (bound : nat) :
  forallb (fun n => N.eqb (f (N.of_nat n)) (g (N.of_nat n))) (seq 0 (S bound)) = true ->
  forall d, (d <= N.of_nat bound)%N -> f d = g d.
Proof.
  intros H d Hd. rewrite forallb_forall in H.
  specialize (H (N.to_nat d)). rewrite N2Nat.id in H. apply N.eqb_eq. apply H.
  apply in_seq. lia.
Qed.

Lemma tcp_score_tie : forall d,
  Match.tcp_score d = src_score_lookup src_tcp_score_arms src_tcp_max_distance src_tcp_score_capped src_tcp_score_default d.
Proof.
  intro d. destruct (N.le_gt_cases d 40) as [Hs|Hl].
  - apply (score_tie_aux _ _ 40); [vm_compute; reflexivity | exact Hs].
  - unfold Match.tcp_score, src_tcp_score_arms, src_tcp_max_distance, src_tcp_score_capped, src_tcp_score_default.
    cbn [src_score_lookup].
    repeat match goal with
    | |- context [(?a =? ?b)%N] => rewrite (proj2 (N.eqb_neq a b)) by lia
    | |- context [(?a <=? ?b)%N] => first [ rewrite (proj2 (N.leb_gt a b)) by lia | rewrite (proj2 (N.leb_le a b)) by lia ]
    end; cbn [andb]; reflexivity.
Qed.

Lemma http_score_tie : forall d,
  Match.http_score d = src_score_lookup src_http_score_arms src_http_max_distance src_http_score_capped src_http_score_default d.
Proof.
  intro d. destruct (N.le_gt_cases d 40) as [Hs|Hl].
  - apply (score_tie_aux _ _ 40); [vm_compute; reflexivity | exact Hs].
  - unfold Match.http_score, src_http_score_arms, src_http_max_distance, src_http_score_capped, src_http_score_default.
    cbn [src_score_lookup].
    repeat match goal with
    | |- context [(?a =? ?b)%N] => rewrite (proj2 (N.eqb_neq a b)) by lia
    | |- context [(?a <=? ?b)%N] => first [ rewrite (proj2 (N.leb_gt a b)) by lia | rewrite (proj2 (N.leb_le a b)) by lia ]
    end; cbn [andb]; reflexivity.
Qed.

