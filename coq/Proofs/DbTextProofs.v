(* Towards the text-level loader statement  known_db t = false -> load t = spec_load t  on arbitrary texts:
   the line-level readers of the loader model (Model/DbLoad.v) equal those of the reference reader
   (Spec/DbLoadSpec.v) on arbitrary input. *)
From Coq Require Import List NArith Bool Lia ZifyBool ZifyN.
From Coq Require Import Strings.Byte.
From HN Require Import Base.Bytes Model.SigAst Model.SigText Model.DbLoad Spec.SigTextSpec Spec.DbLoadSpec
  Proofs.SigTextProofs Proofs.SigSpecProofs Proofs.SigEquivProofs.
Import ListNotations.
Open Scope N_scope.

Arguments beqb !a !b.

(* ================= labels ================= *)
Lemma cut_app c a s : avoid c a = true -> cut c (a ++ c :: s) = Some (a, s).
Proof.
  induction a as [|b a IH]; intros H; cbn [app cut]; [now rewrite beqb_refl|].
  cbn in H. apply andb_true_iff in H as [Hb Ha]. destruct (beqb b c); [discriminate|]. now rewrite IH.
Qed.

Lemma cut_inv c l a s : cut c l = Some (a, s) -> l = a ++ c :: s /\ avoid c a = true.
Proof.
  revert a s. induction l as [|b l IH]; intros a s H; cbn [cut] in H; [discriminate|].
  destruct (beqb b c) eqn:E.
  - inversion H; subst. apply beqb_eq in E. subst. split; reflexivity.
  - destruct (cut c l) as [[a' s']|]; inversion H; subst. destruct (IH _ _ eq_refl) as [-> Ha].
    split; [reflexivity|]. unfold avoid in *. cbn. now rewrite E, Ha.
Qed.

Lemma take_until_avoid c a s : avoid c a = true -> take_until c (a ++ c :: s) = Some (a, c :: s).
Proof. intros H. now apply take_until_app. Qed.

Definition ty_text (t : label_type) : bytes := match t with LSpecified => bs "s" | LGeneric => bs "g" end.

(* the database text form of a label, as a relation between text and value *)
Definition label_text (v : bytes) (l : label) : Prop :=
  exists ctext ftext,
    v = ty_text (l_ty l) ++ colon ++ ctext ++ colon ++ l_name l ++ colon ++ ftext /\
    avoid colon_b ctext = true /\ avoid colon_b (l_name l) = true /\
    ((ctext = bs "!" /\ l_class l = None) \/
     (l_class l = Some ctext /\ match ctext with b :: _ => beqb "!"%byte b = false | [] => True end)) /\
    l_flavor l = (if nonempty ftext then Some ftext else None).

Lemma parse_type_inv i ty r : parse_type i = Some (ty, r) -> i = ty_text ty ++ r.
Proof.
  unfold parse_type. destruct (tag (bs "s") LSpecified i) as [[w r']|] eqn:E; cbn [orelse]; intros H.
  - inversion H; subst. now apply tag_inv in E as [-> ->].
  - now apply tag_inv in H as [-> ->].
Qed.

Lemma parse_label_text v l r : parse_label v = Some (l, r) -> r = [] /\ label_text v l.
Proof.
  unfold parse_label.
  destruct (parse_type v) as [[ty i1]|] eqn:P1; [|discriminate].
  destruct (strip_prefix colon i1) as [i2|] eqn:S1; [|discriminate].
  destruct (orelse (tag (bs "!") None i2) (match take_until ":"%byte i2 with Some (c, r) => Some (Some c, r) | None => None end))
    as [[cls i3]|] eqn:P2; [|discriminate].
  destruct (strip_prefix colon i3) as [i4|] eqn:S2; [|discriminate].
  destruct (take_until ":"%byte i4) as [[name i5]|] eqn:P3; [|discriminate].
  apply parse_type_inv in P1. apply strip_prefix_inv in S1, S2. apply take_until_inv in P3 as (E4 & Hn & s5 & E5).
  subst i5 v i1 i3 i4. cbn [strip_prefix colon bs bs_to]. change (beqb ":"%byte ":"%byte) with true. cbv iota. cbn [fst snd].
  intros H. inversion H; subst l r. split; [reflexivity|].
  assert (Hfl : match s5 with [] => None | _ :: _ => Some s5 end = (if nonempty s5 then Some s5 else None)) by now destruct s5.
  destruct (tag (bs "!") (@None bytes) i2) as [[w r']|] eqn:T; cbn [orelse] in P2.
  - inversion P2; subst. apply tag_inv in T as [-> ->]. exists (bs "!"), s5. cbn [l_ty l_class l_name l_flavor].
    split; [cbn [colon bs bs_to app]; now rewrite <- ?app_assoc|].
    split; [reflexivity|]. split; [assumption|]. split; [left; split; reflexivity | now destruct s5].
  - destruct (take_until ":"%byte i2) as [[c r']|] eqn:T2; inversion P2; subst.
    apply take_until_inv in T2 as (-> & Hc & s3 & E3). exists c, s5. cbn [l_ty l_class l_name l_flavor].
    assert (s3 = name ++ ":"%byte :: s5) by (cbn in E3; now inversion E3). subst s3.
    split; [cbn [colon bs bs_to app]; now rewrite <- ?app_assoc|].
    split; [assumption|]. split; [assumption|]. split; [|now destruct s5].
    right. split; [reflexivity|]. destruct c as [|b c]; [exact I|]. unfold tag in T. cbn in T.
      destruct (beqb "!"%byte b); [discriminate | reflexivity].
Qed.

Lemma label_text_parse v l : label_text v l -> parse_label v = Some (l, []).
Proof.
  intros (ctext & ftext & -> & Hc & Hn & Hcls & Hfl). destruct l as [ty cls name fl]. cbn [l_ty l_class l_name l_flavor] in *.
  unfold parse_label.
  assert (P1 : forall rest, parse_type (ty_text ty ++ rest) = Some (ty, rest)) by (intros; destruct ty; reflexivity).
  rewrite P1, strip_prefix_app.
  assert (P2 : orelse (tag (bs "!") None (ctext ++ colon ++ name ++ colon ++ ftext))
                 (match take_until ":"%byte (ctext ++ colon ++ name ++ colon ++ ftext) with Some (c, r) => Some (Some c, r) | None => None end)
               = Some (cls, colon ++ name ++ colon ++ ftext)).
  { destruct Hcls as [[-> ->] | [-> Hb]]; [reflexivity|].
    assert (T : tag (bs "!") (@None bytes) (ctext ++ colon ++ name ++ colon ++ ftext) = None).
    { unfold tag. destruct ctext as [|b c]; [reflexivity|]. cbn [app bs bs_to strip_prefix]. now rewrite Hb. }
    rewrite T. cbn [orelse]. change (colon ++ name ++ colon ++ ftext) with (":"%byte :: name ++ colon ++ ftext).
    now rewrite take_until_avoid. }
  rewrite P2, strip_prefix_app. change (colon ++ ftext) with (":"%byte :: ftext). rewrite take_until_avoid by assumption.
  cbn [strip_prefix colon bs bs_to]. change (beqb ":"%byte ":"%byte) with true. cbv iota. cbn [fst snd].
  rewrite Hfl. now destruct ftext.
Qed.

Lemma label_text_spec v l : label_text v l -> spec_label v = Some l.
Proof.
  intros (ctext & ftext & -> & Hc & Hn & Hcls & Hfl). destruct l as [ty cls name fl]. cbn [l_ty l_class l_name l_flavor] in *.
  unfold spec_label. change colon with [colon_b]. cbn [app].
  rewrite (cut_app colon_b (ty_text ty)) by (destruct ty; reflexivity).
  rewrite (cut_app colon_b ctext) by assumption. rewrite (cut_app colon_b name) by assumption.
  assert (R : rd_type (ty_text ty) = Some ty) by (destruct ty; reflexivity). rewrite R. subst fl.
  destruct Hcls as [[-> ->] | [-> Hb]].
  - reflexivity.
  - assert (X : match ctext with b :: r => negb (beqb b "!"%byte) || negb (nonempty r) | [] => true end = true
               /\ is (bs "!") ctext = false).
    { destruct ctext as [|b c]; [split; reflexivity|].
      assert (Y : beqb b "!"%byte = false) by (apply beqb_neq; intros ->; discriminate).
      unfold is. cbn [bytes_eqb bs bs_to]. rewrite Y. split; reflexivity. }
    destruct X as [X1 X2]. now rewrite X1, X2.
Qed.

Lemma spec_label_text v l : spec_label v = Some l -> label_text v l.
Proof.
  unfold spec_label.
  destruct (cut ":"%byte v) as [[fty r1]|] eqn:C1; [|discriminate].
  destruct (cut ":"%byte r1) as [[fclass r2]|] eqn:C2; [|discriminate].
  destruct (cut ":"%byte r2) as [[fname fflavor]|] eqn:C3; [|discriminate].
  destruct (rd_type fty) as [ty|] eqn:R; [|discriminate].
  destruct (match fclass with b :: r => negb (beqb b "!"%byte) || negb (nonempty r) | [] => true end) eqn:K; [|discriminate].
  intros H. inversion H; subst l. clear H.
  apply cut_inv in C1 as [-> _], C2 as [-> Hc], C3 as [-> Hn].
  assert (Et : fty = ty_text ty).
  { unfold rd_type in R. destruct (is (bs "s") fty) eqn:E1; [apply is_true in E1; inversion R; now subst|].
    destruct (is (bs "g") fty) eqn:E2; [apply is_true in E2; inversion R; now subst | discriminate]. }
  subst fty. exists fclass, fflavor. cbn [l_ty l_class l_name l_flavor].
  split; [reflexivity|]. split; [assumption|]. split; [assumption|]. split; [|reflexivity].
  change (is ["!"%byte] fclass) with (is (bs "!") fclass). destruct (is (bs "!") fclass) eqn:E.
  - apply is_true in E. left. split; [assumption | reflexivity].
  - right. split; [reflexivity|]. destruct fclass as [|b r]; [exact I|].
    destruct (beqb "!"%byte b) eqn:Eb; [|reflexivity]. apply beqb_eq in Eb. subst b. cbn in K.
    destruct r; [discriminate E | discriminate K].
Qed.

(* the loader's label parser and the reference label reader agree on every text *)
Theorem parse_label_eq_spec v :
  match parse_label v with Some (l, r) => r = [] /\ spec_label v = Some l | None => spec_label v = None end.
Proof.
  destruct (parse_label v) as [[l r]|] eqn:E.
  - apply parse_label_text in E as [-> T]. split; [reflexivity | now apply label_text_spec].
  - destruct (spec_label v) as [l|] eqn:E2; [|reflexivity]. apply spec_label_text, label_text_parse in E2. congruence.
Qed.

(* ================= MTU values ================= *)
Theorem u16_from_str_eq_spec v : u16_from_str v = rd_mtu v.
Proof.
  unfold u16_from_str, rd_mtu, rd_num, dec_max, all_digits, U16.
  destruct v as [|b r]; [reflexivity|]. destruct (beqb b "+"%byte); [destruct r|]; reflexivity.
Qed.

(* ================= `name = value` ================= *)
Lemma isblank_is_space b : isblank b = is_space b.
Proof. destruct b; reflexivity. Qed.
Lemma alnum_is_alnum' b : alnum b = is_alnum b.
Proof. destruct b; reflexivity. Qed.

Lemma drop_while_span p l : drop_while p l = snd (span p l).
Proof. induction l as [|b l IH]; [reflexivity|]. cbn. destruct (p b); [|reflexivity]. rewrite IH. now destruct (span p l). Qed.

Lemma space0_drop l : space0 l = drop_while isblank l.
Proof.
  unfold space0. rewrite drop_while_span. f_equal. induction l as [|b l IH]; [reflexivity|].
  cbn. rewrite isblank_is_space. destruct (is_space b); [|reflexivity]. rewrite IH. reflexivity.
Qed.

Lemma drop_while_all p l : forallb p l = true -> drop_while p l = [].
Proof. induction l as [|b l IH]; [reflexivity|]. cbn. intros H. apply andb_true_iff in H as [Hb Hl]. rewrite Hb. auto. Qed.

Lemma drop_while_app_stop p a b r : forallb p a = true -> p b = false -> drop_while p (a ++ b :: r) = b :: r.
Proof. induction a as [|x a IH]; cbn; intros Ha Hb; [now rewrite Hb|]. apply andb_true_iff in Ha as [Hx Ha]. rewrite Hx. auto. Qed.

(* rtrim_blank: what it removes is a run of blanks, what it keeps does not end with a blank *)
Lemma rtrim_blank_spec l : exists bl, l = rtrim_blank l ++ bl /\ forallb isblank bl = true /\
  (match rev (rtrim_blank l) with b :: _ => isblank b = false | [] => True end).
Proof.
  unfold rtrim_blank. rewrite !revl_rev'. destruct (span_spec isblank (rev l)) as (S1 & S2 & S3).
  rewrite drop_while_span. destruct (span isblank (rev l)) as [a c]. cbn [fst snd] in *.
  exists (rev a). repeat split.
  - rewrite <- rev_app_distr, <- S1. now rewrite rev_involutive.
  - rewrite forallb_forall in *. intros x Hx. apply S2. now apply in_rev.
  - rewrite rev_involutive. destruct c; [exact I|]. cbn in S3. now apply negb_true_iff in S3.
Qed.

Lemma word_alnum_last k : word alnum k = true -> match rev k with b :: _ => isblank b = false | [] => True end.
Proof.
  unfold word. intros H. apply andb_true_iff in H as [_ H]. destruct (rev k) as [|b r] eqn:E; [exact I|].
  assert (In b k) by (apply in_rev; rewrite E; now left). rewrite forallb_forall in H. specialize (H b H0).
  destruct b; try discriminate; reflexivity.
Qed.

Lemma rtrim_blank_app k bl : forallb isblank bl = true -> match rev k with b :: _ => isblank b = false | [] => True end ->
  rtrim_blank (k ++ bl) = k.
Proof.
  intros Hb Hk. unfold rtrim_blank. rewrite !revl_rev'. rewrite rev_app_distr.
  destruct (rev k) as [|b r] eqn:E.
  - rewrite app_nil_r. rewrite drop_while_all by (rewrite forallb_forall in *; intros x Hx; apply Hb; now apply in_rev).
    cbn. apply (f_equal (@rev byte)) in E. rewrite rev_involutive in E. now rewrite E.
  - rewrite drop_while_app_stop by (auto; rewrite forallb_forall in *; intros x Hx; apply Hb; now apply in_rev).
    rewrite <- E. apply rev_involutive.
Qed.

(* the reference's way to split a `name = value` line (Spec.DbLoadSpec.classify) *)
Definition spec_named (l : bytes) : option (bytes * bytes) :=
  match cut "="%byte l with
  | Some (lhs, rhs) => if word alnum (rtrim_blank lhs) then Some (rtrim_blank lhs, drop_while isblank rhs) else None
  | None => None end.

Definition named_text (l k v : bytes) : Prop :=
  exists bl1 bl2, l = k ++ bl1 ++ bs "=" ++ bl2 ++ v /\ word alnum k = true /\
    forallb isblank bl1 = true /\ forallb isblank bl2 = true /\ stops isblank v = true.

Lemma word_alnum_model k : word alnum k = true -> k <> [] /\ forallb is_alnum k = true.
Proof.
  unfold word. intros H. apply andb_true_iff in H as [Hne H]. split; [destruct k; [discriminate | congruence]|].
  rewrite forallb_forall in *. intros x Hx. rewrite <- alnum_is_alnum'. auto.
Qed.

Lemma blank_not_alnum bl r : forallb isblank bl = true -> stops is_alnum (bl ++ bs "=" ++ r) = true.
Proof. destruct bl as [|b bl]; [reflexivity|]. cbn. intros H. apply andb_true_iff in H as [H _]. destruct b; try discriminate; reflexivity. Qed.

Lemma span_blank bl r : forallb isblank bl = true -> stops isblank r = true -> span is_space (bl ++ r) = (bl, r).
Proof.
  intros Hb Hr. apply span_app.
  - rewrite forallb_forall in *. intros x Hx. rewrite <- isblank_is_space. auto.
  - destruct r as [|c r]; [reflexivity|]. cbn in *. now rewrite <- isblank_is_space.
Qed.

Lemma named_text_model l k v : named_text l k v -> parse_named_value l = Some (k, v).
Proof.
  intros (bl1 & bl2 & -> & Hk & H1 & H2 & Hv). destruct (word_alnum_model k Hk) as [Hne Ha].
  unfold parse_named_value, alphanumeric1, span1. rewrite span_app by (auto using blank_not_alnum).
  destruct k as [|k0 k']; [congruence|]. unfold space0.
  rewrite (span_blank bl1 (bs "=" ++ bl2 ++ v)) by (assumption || reflexivity). cbn [snd].
  rewrite strip_prefix_app. now rewrite (span_blank bl2 v).
Qed.

Lemma model_named_text l k v : parse_named_value l = Some (k, v) -> named_text l k v.
Proof.
  unfold parse_named_value, alphanumeric1, span1.
  destruct (span_spec is_alnum l) as (S1 & S2 & _). destruct (span is_alnum l) as [name r]. cbn [fst snd] in *.
  destruct name as [|n0 name']; [discriminate|].
  unfold space0. destruct (span_spec is_space r) as (B1 & B2 & _). destruct (span is_space r) as [bl1 r1]. cbn [fst snd] in *.
  destruct (strip_prefix (bs "=") r1) as [r2|] eqn:E; [|discriminate]. apply strip_prefix_inv in E.
  destruct (span_spec is_space r2) as (C1 & C2 & C3). destruct (span is_space r2) as [bl2 v']. cbn [fst snd] in *.
  intros H. inversion H; subst k v. exists bl1, bl2. repeat split.
  - now rewrite S1, B1, E, C1.
  - unfold word. cbn [nonempty andb]. rewrite forallb_forall in *. intros x Hx. rewrite alnum_is_alnum'. auto.
  - rewrite forallb_forall in *. intros x Hx. rewrite isblank_is_space. auto.
  - rewrite forallb_forall in *. intros x Hx. rewrite isblank_is_space. auto.
  - destruct v' as [|c q]; [reflexivity|]. cbn in *. now rewrite isblank_is_space.
Qed.

Lemma named_text_spec l k v : named_text l k v -> spec_named l = Some (k, v).
Proof.
  intros (bl1 & bl2 & -> & Hk & H1 & H2 & Hv). unfold spec_named.
  assert (A : avoid "="%byte (k ++ bl1) = true).
  { rewrite avoid_app. destruct (word_alnum_model k Hk) as [_ Ha].
    rewrite (avoid_of is_alnum "="%byte k), (avoid_of isblank "="%byte bl1) by (assumption || reflexivity). reflexivity. }
  rewrite app_assoc. cbn [bs bs_to app]. rewrite cut_app by assumption.
  rewrite (rtrim_blank_app k bl1 H1 (word_alnum_last k Hk)). rewrite Hk.
  destruct v as [|c q].
  - rewrite app_nil_r. now rewrite drop_while_all.
  - cbn in Hv. apply negb_true_iff in Hv. now rewrite drop_while_app_stop.
Qed.

Lemma spec_named_text l k v : spec_named l = Some (k, v) -> named_text l k v.
Proof.
  unfold spec_named. destruct (cut "="%byte l) as [[lhs rhs]|] eqn:C; [|discriminate].
  destruct (word alnum (rtrim_blank lhs)) eqn:W; [|discriminate]. intros H. inversion H; subst k v. clear H.
  apply cut_inv in C as [-> _]. destruct (rtrim_blank_spec lhs) as (bl1 & E & Hb & _).
  destruct (span_spec isblank rhs) as (R1 & R2 & R3). rewrite drop_while_span.
  exists bl1, (fst (span isblank rhs)). repeat split; auto.
  rewrite E at 1. rewrite R1 at 1. cbn [bs bs_to app]. now rewrite <- !app_assoc.
Qed.

(* the loader's `name = value` splitter and the reference's cut at '=' agree on every line *)
Theorem parse_named_value_eq_spec l : parse_named_value l = spec_named l.
Proof.
  destruct (parse_named_value l) as [[k v]|] eqn:E1.
  - symmetry. now apply named_text_spec, model_named_text.
  - destruct (spec_named l) as [[k v]|] eqn:E2; [|reflexivity]. apply spec_named_text, named_text_model in E2. congruence.
Qed.

(* ================= trim ================= *)
Lemma isspace_ascii_ws b : isspace b = ascii_ws (b2n b).
Proof. reflexivity. Qed.

(* first byte left after dropping ASCII white space is ASCII (or nothing is left) *)
Definition head_ascii (l : bytes) : bool :=
  match drop_while isspace l with b :: _ => b2n b <? 128 | [] => true end.

Lemma ws_head_ascii b r : isspace b = false -> b2n b < 128 -> ws_head (b :: r) = None.
Proof.
  intros Hs Hb. unfold ws_head. rewrite <- isspace_ascii_ws, Hs.
  assert (E2 : (b2n b =? 194) = false) by lia. assert (E3 : (b2n b =? 225) = false) by lia.
  assert (E4 : (b2n b =? 226) = false) by lia. assert (E5 : (b2n b =? 227) = false) by lia.
  destruct r as [|b2 [|c r3]]; rewrite ?E2, ?E3, ?E4, ?E5; reflexivity.
Qed.

Lemma ws_last_ascii c r : isspace c = false -> b2n c < 128 -> ws_last (c :: r) = None.
Proof.
  intros Hs Hc. unfold ws_last. rewrite <- isspace_ascii_ws, Hs.
  assert (E2 : ((b2n c =? 133) || (b2n c =? 160)) = false) by lia.
  assert (E3 : (b2n c =? 128) = false) by lia.
  assert (E4 : ((128 <=? b2n c) && (b2n c <=? 138) || (b2n c =? 168) || (b2n c =? 169) || (b2n c =? 175)) = false) by lia.
  assert (E5 : (b2n c =? 159) = false) by lia.
  destruct r as [|b [|a r3]]; rewrite ?E2, ?E3, ?E4, ?E5, ?andb_false_r; reflexivity.
Qed.

Lemma ws_head_space b r : isspace b = true -> ws_head (b :: r) = Some r.
Proof. intros H. unfold ws_head. now rewrite <- isspace_ascii_ws, H. Qed.
Lemma ws_last_space b r : isspace b = true -> ws_last (b :: r) = Some r.
Proof. intros H. unfold ws_last. now rewrite <- isspace_ascii_ws, H. Qed.

Lemma strip_while_drop hd : (forall b r, isspace b = true -> hd (b :: r) = Some r) ->
  (forall b r, isspace b = false -> b2n b < 128 -> hd (b :: r) = None) -> hd [] = None ->
  forall l fuel, (length l <= fuel)%nat -> head_ascii l = true -> strip_while fuel hd l = drop_while isspace l.
Proof.
  intros H1 H2 H0. induction l as [|b l IH]; intros fuel Hf Ha.
  - destruct fuel; cbn; [reflexivity | now rewrite H0].
  - destruct fuel as [|fuel]; [cbn in Hf; lia|]. cbn [strip_while drop_while]. unfold head_ascii in Ha. cbn [drop_while] in Ha.
    destruct (isspace b) eqn:E.
    + rewrite H1 by assumption. apply IH; [cbn in Hf; lia | exact Ha].
    + rewrite H2; [reflexivity | assumption | lia].
Qed.

Lemma drop_while_snoc_stop p l b : p b = false -> drop_while p (l ++ [b]) = drop_while p l ++ [b].
Proof. intros H. induction l as [|x l IH]; cbn; [now rewrite H|]. destruct (p x); [assumption | reflexivity]. Qed.

(* the loader's Unicode trim and the reference's ASCII trim agree on lines whose trimmed text has ASCII edges *)
Theorem trim_eq_trim_ascii raw : non_ascii_edge raw = false -> trim raw = trim_ascii raw.
Proof.
  unfold non_ascii_edge, trim_ascii, trim, trim_start, trim_end. intros H.
  set (M := drop_while isspace raw) in *.
  assert (HM : head_ascii raw = true).
  { unfold head_ascii. fold M. destruct M as [|b m] eqn:EM; [reflexivity|].
    (* b is not white space, so it is also the first byte of the trimmed text *)
    assert (Hb : isspace b = false).
    { assert (X : stops isspace M = true) by (unfold M; rewrite drop_while_span; apply span_spec). rewrite EM in X. cbn in X. now apply negb_true_iff in X. }
    rewrite !revl_rev' in H. cbn [rev] in H. rewrite drop_while_snoc_stop in H by assumption. rewrite rev_app_distr in H. cbn [rev app] in H.
    apply orb_false_iff in H as [H _]. lia. }
  rewrite (strip_while_drop ws_head ws_head_space ws_head_ascii eq_refl raw) by (auto; lia). fold M.
  assert (HR : head_ascii (revl M) = true).
  { unfold head_ascii. destruct (drop_while isspace (revl M)) as [|c q] eqn:ER; [reflexivity|].
    cbv zeta in H. destruct (revl (c :: q)) as [|b0 q0] eqn:EL.
    - rewrite revl_rev' in EL. apply (f_equal (@rev byte)) in EL. rewrite rev_involutive in EL. discriminate.
    - apply orb_false_iff in H as [_ H]. rewrite <- EL in H. rewrite revl_rev' in H. cbn [rev] in H.
      rewrite unsnoc_snoc in H. lia. }
  rewrite (strip_while_drop ws_last ws_last_space ws_last_ascii eq_refl (revl M)) by (auto; rewrite revl_rev', rev_length; lia).
  reflexivity.
Qed.
