(* C05 proofs, part 2: the report built from the parsed head equals the report the property demands
   (headers, referer, user-agent / server, p0f observation). *)
From Coq Require Import List NArith Bool Lia Arith.
From Coq Require Import Strings.Byte.
From HN Require Import Base.Bytes Base.Http1Text Model.SigAst Model.Http1 Model.Lang Model.Http1Obs
  Gen.HeaderLists Spec.Http1Grammar Proofs.Http1TextProofs Proofs.Http1Proofs.
Import ListNotations.
Open Scope N_scope.

(* ---------- names: the parser's lower-casing against ASCII case-insensitive equality ---------- *)
Lemma ascii_lower_map l : ascii_lower l = map lower_byte l.
Proof. reflexivity. Qed.

Lemma eq_lower_ci name lit : forallb is_tchar name = true -> ascii_lower lit = lit ->
  eq_lower name lit = ci_eq name lit.
Proof.
  intros Ht Hl. unfold eq_lower, ci_eq. rewrite Hl.
  rewrite lower_k_ascii by (apply vis_ascii, tchar_all_vis, Ht). reflexivity.
Qed.
Lemma eq_lower_ci_lit name c : forallb is_tchar name = true ->
  eq_lower name (lower_ascii_lit c) = ci_eq name c.
Proof.
  intros Ht. unfold eq_lower, ci_eq, lower_ascii_lit.
  rewrite lower_k_ascii by (apply vis_ascii, tchar_all_vis, Ht). reflexivity.
Qed.

(* a reported header: token name, present value *)
Definition hdr_ok (h : hdr) : Prop := forallb is_tchar (hd_name h) = true /\ hd_value h <> None.

Lemma Forall_indexed {A} (P : A -> Prop) : forall l k, Forall P l -> Forall (fun kh => P (snd kh)) (indexed l k).
Proof. induction l as [|x l IH]; intros k H; cbn [indexed]; inversion H; subst; constructor; auto. Qed.

Lemma model_headers_ok req hs k : Forall (fun h => line_ok req h = true) hs ->
  Forall hdr_ok (map report_header (indexed hs k)).
Proof.
  intros H. apply Forall_map. apply (Forall_indexed _ hs k) in H.
  eapply Forall_impl; [|exact H]. intros [i h] Hh. cbn [snd] in Hh.
  destruct (line_ok_facts _ _ Hh) as (_ & Ht & _). split; [exact Ht | discriminate].
Qed.

Lemma filter_map_comm {A B} (f : A -> B) (p : B -> bool) l :
  filter p (map f l) = map f (filter (fun x => p (f x)) l).
Proof.
  induction l as [|x l IH]; [reflexivity|]. cbn [map filter]. destruct (p (f x)); cbn [map]; now rewrite IH.
Qed.
Lemma Forall_filter {A} (P : A -> Prop) p l : Forall P l -> Forall P (filter p l).
Proof. induction 1; cbn [filter]; [constructor|]. destruct (p x); [constructor|]; assumption. Qed.

(* ---------- which headers are reported (cookie / referer split out) ---------- *)
Definition split_out (kh : nat * hline) : bool := named (bs "cookie") (snd kh) || named (bs "referer") (snd kh).
Definition spec_reported (m : msg) : list hdr :=
  map report_header (filter (fun kh => negb (split_out kh)) (indexed (m_headers m) O)).

Lemma reported_headers m : wf m = true ->
  filter (fun h => negb (is_cookie_or_referer h)) (model_headers m) = spec_reported m.
Proof.
  intros W. destruct (wf_parts m W) as (_ & _ & Hl & _).
  unfold model_headers, spec_reported. rewrite filter_map_comm. f_equal.
  apply filter_ext_in. intros [k h] Hin.
  apply (Forall_indexed _ _ O) in Hl. rewrite Forall_forall in Hl. specialize (Hl _ Hin). cbn [snd] in Hl.
  destruct (line_ok_facts _ _ Hl) as (_ & Ht & _).
  unfold is_cookie_or_referer, split_out, named, report_header. cbn [hd_name snd].
  now rewrite !eq_lower_ci by (exact Ht || reflexivity).
Qed.

Lemma spec_reported_ok m : wf m = true -> Forall hdr_ok (spec_reported m).
Proof.
  intros W. rewrite <- reported_headers by exact W. apply Forall_filter.
  destruct (wf_parts m W) as (_ & _ & Hl & _). now apply (model_headers_ok (is_request m)).
Qed.

(* ---------- first-wins lookups ---------- *)
Lemma first_value_named lit hs : ascii_lower lit = lit -> Forall hdr_ok hs ->
  first_value lit hs = first_named lit hs.
Proof.
  intros Hl. unfold first_named. induction 1 as [|h hs [Ht Hv] _ IH]; [reflexivity|].
  cbn [first_value find]. rewrite eq_lower_ci by assumption.
  destruct (ci_eq (hd_name h) lit); [|exact IH].
  destruct (hd_value h); [reflexivity | congruence].
Qed.

Lemma first_value_filter lit keep hs :
  (forall h, eq_lower (hd_name h) lit = true -> keep h = true) ->
  first_value lit (filter keep hs) = first_value lit hs.
Proof.
  intros K. induction hs as [|h hs IH]; [reflexivity|]. cbn [filter first_value].
  destruct (eq_lower (hd_name h) lit) eqn:E.
  - rewrite (K h E). cbn [first_value]. rewrite E. destruct (hd_value h); [reflexivity | exact IH].
  - destruct (keep h); [cbn [first_value]; rewrite E|]; exact IH.
Qed.

(* ---------- single-valued lookups: last-wins equals the only one ---------- *)
Lemma filter_at_most_one {A} (p : A -> bool) l : (length (filter p l) <= 1)%nat ->
  filter p l = match find p l with Some x => [x] | None => [] end.
Proof.
  induction l as [|x l IH]; [reflexivity|]. cbn [filter find]. destruct (p x) eqn:E.
  - cbn [length]. intros H. assert (H0 : filter p l = []) by (destruct (filter p l); [reflexivity | cbn in H; lia]).
    now rewrite H0.
  - exact IH.
Qed.
Lemma find_none_filter {A} (p : A -> bool) l : filter p l = [] -> find p l = None.
Proof.
  induction l as [|x l IH]; [reflexivity|]. cbn [filter find]. destruct (p x); [discriminate | exact IH].
Qed.

Lemma last_value_fold lit : forall hs acc, ascii_lower lit = lit -> Forall hdr_ok hs ->
  (length (filter (fun h => ci_eq (hd_name h) lit) hs) <= 1)%nat ->
  fold_left (fun acc h => if eq_lower (hd_name h) lit then
                            match hd_value h with Some v => Some v | None => acc end else acc) hs acc
  = match find (fun h => ci_eq (hd_name h) lit) hs with Some h => hd_value h | None => acc end.
Proof.
  induction hs as [|h hs IH]; intros acc Hl Hok Hc; [reflexivity|].
  inversion Hok as [|? ? [Ht Hv] Hok']; subst.
  cbn [fold_left find filter] in *. rewrite eq_lower_ci by assumption.
  destruct (ci_eq (hd_name h) lit) eqn:E.
  - cbn [length] in Hc. assert (H0 : filter (fun h0 => ci_eq (hd_name h0) lit) hs = [])
      by (destruct (filter _ hs); [reflexivity | cbn in Hc; lia]).
    rewrite IH; [| assumption | assumption | rewrite H0; cbn; lia].
    rewrite (find_none_filter _ _ H0). destruct (hd_value h); [reflexivity | congruence].
  - apply IH; assumption.
Qed.

Lemma last_value_unique lit hs : ascii_lower lit = lit -> Forall hdr_ok hs ->
  (length (filter (fun h => ci_eq (hd_name h) lit) hs) <= 1)%nat ->
  last_value lit hs = first_named lit hs.
Proof. intros. unfold last_value, first_named. now rewrite last_value_fold. Qed.

(* lookups in the model's header list, read back on the abstract message *)
Lemma find_model_headers lit : forall hs k,
  option_map hd_value (find (fun h => ci_eq (hd_name h) lit) (map report_header (indexed hs k)))
  = option_map (fun h => Some (render_value (hl_value h))) (find (named lit) hs).
Proof.
  induction hs as [|h hs IH]; intros k; [reflexivity|]. cbn [indexed map find].
  unfold named at 1. cbn [report_header hd_name snd]. destruct (ci_eq (hl_name h) lit); [reflexivity | apply IH].
Qed.
Lemma count_model_headers lit : forall hs k,
  length (filter (fun h => ci_eq (hd_name h) lit) (map report_header (indexed hs k))) = length (filter (named lit) hs).
Proof.
  induction hs as [|h hs IH]; intros k; [reflexivity|]. cbn [indexed map filter].
  unfold named at 1. cbn [report_header hd_name snd]. destruct (ci_eq (hl_name h) lit); cbn [length]; now rewrite IH.
Qed.
Lemma first_named_model lit m :
  first_named lit (model_headers m) = option_map (fun h => render_value (hl_value h)) (find (named lit) (m_headers m)).
Proof.
  unfold first_named, model_headers. pose proof (find_model_headers lit (m_headers m) O) as F.
  destruct (find _ (map _ _)); destruct (find (named lit) _); cbn in *; congruence.
Qed.

(* ---------- multi-valued lookup: all values joined ---------- *)
Definition add_joined (acc : option bytes) (v : bytes) : option bytes :=
  Some (match acc with Some prev => prev ++ bs "; " ++ v | None => v end).
Lemma joined_fold_vals lit : forall hs acc, ascii_lower lit = lit -> Forall hdr_ok hs ->
  fold_left (fun acc h => if eq_lower (hd_name h) lit then
                            match hd_value h with
                            | Some v => Some (match acc with Some prev => prev ++ bs "; " ++ v | None => v end)
                            | None => acc end else acc) hs acc
  = fold_left add_joined
      (flat_map (fun h => if ci_eq (hd_name h) lit then match hd_value h with Some v => [v] | None => [] end else []) hs) acc.
Proof.
  induction hs as [|h hs IH]; intros acc Hl Hok; [reflexivity|].
  inversion Hok as [|? ? [Ht Hv] Hok']; subst. cbn [fold_left flat_map].
  rewrite eq_lower_ci by assumption. destruct (ci_eq (hd_name h) lit).
  - destruct (hd_value h) as [v|]; [|congruence]. cbn [app fold_left]. now apply IH.
  - cbn [app]. now apply IH.
Qed.
Lemma vals_model_headers lit : forall hs k,
  flat_map (fun h => if ci_eq (hd_name h) lit then match hd_value h with Some v => [v] | None => [] end else [])
           (map report_header (indexed hs k))
  = map (fun h => render_value (hl_value h)) (filter (named lit) hs).
Proof.
  induction hs as [|h hs IH]; intros k; [reflexivity|]. cbn [indexed map flat_map filter].
  unfold named at 1. cbn [report_header hd_name hd_value snd]. destruct (ci_eq (hl_name h) lit); cbn [app map]; now rewrite IH.
Qed.

(* ---------- p0f observation ---------- *)
Lemma convert_header_p0f req h :
  convert_header req h =
  p0f_entry (if req then request_optional_headers else response_optional_headers)
            (if req then request_skip_value_headers else response_skip_value_headers) h.
Proof.
  unfold convert_header, p0f_entry.
  destruct (mem_bytes (hd_name h) (if req then request_optional_headers else response_optional_headers)); [reflexivity|].
  destruct (mem_bytes (hd_name h) (if req then request_skip_value_headers else response_skip_value_headers)); reflexivity.
Qed.
Lemma horder_p0f req hs :
  convert_headers_to_http_format hs req =
  map (p0f_entry (if req then request_optional_headers else response_optional_headers)
                 (if req then request_skip_value_headers else response_skip_value_headers)) hs.
Proof. unfold convert_headers_to_http_format. apply map_ext. apply convert_header_p0f. Qed.

Lemma existsb_ext_in {A} (f g : A -> bool) l : (forall x, In x l -> f x = g x) -> existsb f l = existsb g l.
Proof.
  induction l as [|x l IH]; intros H; [reflexivity|]. cbn [existsb]. rewrite (H x (or_introl eq_refl)).
  rewrite IH; [reflexivity|]. intros y Hy. apply H. now right.
Qed.
Lemma habsent_p0f req hs : Forall hdr_ok hs ->
  build_absent_headers hs req = p0f_absent (if req then request_common_headers else response_common_headers) hs.
Proof.
  intros Hok. unfold build_absent_headers, p0f_absent. f_equal. apply filter_ext. intros c. f_equal.
  apply existsb_ext_in. intros h Hh. rewrite Forall_forall in Hok. destruct (Hok h Hh) as [Ht _].
  now apply eq_lower_ci_lit.
Qed.

(* ---------- responses: complete ---------- *)
Lemma observe_response_spec m v st : wf m = true ->
  observe_response (resp_of m v st) = expect_response m v st.
Proof.
  intros W. destruct (wf_parts m W) as (_ & _ & Hl & _).
  pose proof (model_headers_ok _ _ O Hl) as Hok. fold (model_headers m) in Hok.
  unfold observe_response, expect_response, resp_of. cbn [s_status s_headers s_version s_server].
  fold (model_headers m).
  rewrite (horder_p0f false), (habsent_p0f false) by exact Hok.
  rewrite first_value_named by (reflexivity || exact Hok).
  unfold version_of, expsw_of, software. destruct v; reflexivity.
Qed.

Theorem response_faithful m v st reason body : wf m = true -> m_start m = SResp v st reason ->
  analyse_response (render m ++ body) = Ok (expect_response m v st).
Proof.
  intros W Es. rewrite (analyse_response_render m v st reason) by assumption.
  now rewrite observe_response_spec.
Qed.
