(* C01 (d) -- raw-filter quick extraction and the three dispatch-hash offset computations never panic. *)
From Coq Require Import List NArith Bool Lia ZifyBool ZifyN.
From Coq Require Import Strings.Byte.
From HN Require Import Base.Bytes Model.TotalBase Model.TotalRaw Proofs.TotalBaseProofs.
Import ListNotations.
Open Scope N_scope.

Lemma idxs_ok l : forall n a, a + N.of_nat n <= len l -> exists s, idxs l a n = Ok s.
Proof.
  induction n as [|n IH]; intros a H; cbn [idxs]; [eauto|].
  ok_idx l a. destruct (IH (a + 1)) as (s & E); [lia|]. rewrite E. cbn [bind]. eauto.
Qed.
Ltac ok_idxs l a n :=
  let s := fresh "s" in let E := fresh "Ex" in
  destruct (idxs_ok l n a) as (s & E); [cbn; lia | rewrite E; cbn [bind]].

Lemma land15 x : N.land x 15 <= 15.
Proof.
  change 15 with (N.ones 4). rewrite N.land_ones. pose proof (N.mod_upper_bound x (2 ^ 4)).
  change (2 ^ 4) with 16 in *. change (N.ones 4) with 15. lia.
Qed.

Lemma extract_ipv4_info_ok p : exists o, extract_ipv4_info p = Ok o.
Proof.
  unfold extract_ipv4_info. destruct (len p <? 20) eqn:E; [eauto|].
  ok_idx p 9. destruct (negb (b2n b =? 6)); [eauto|].
  ok_idxs p 12 4%nat. ok_idxs p 16 4%nat. ok_idx p 0.
  pose proof (land15 (b2n b0)) as Hl.
  set (ihl := N.land (b2n b0) 15) in *.
  assert (Ho : sat_mul usize_max (N.max ihl 5) 4 = N.max ihl 5 * 4) by (unfold sat_mul, usize_max; lia).
  rewrite Ho. set (off := N.max ihl 5 * 4).
  assert (Hoff : off <= 60) by (unfold off; lia).
  replace (sat_add usize_max off 4) with (off + 4) by (unfold sat_add, usize_max; lia).
  replace (sat_add usize_max off 1) with (off + 1) by (unfold sat_add, usize_max; lia).
  replace (sat_add usize_max off 2) with (off + 2) by (unfold sat_add, usize_max; lia).
  replace (sat_add usize_max off 3) with (off + 3) by (unfold sat_add, usize_max; lia).
  destruct (len p <? off + 4) eqn:E4; [eauto|].
  ok_idx p off. ok_idx p (off + 1). ok_idx p (off + 2). ok_idx p (off + 3). eauto.
Qed.

Lemma extract_ipv6_info_ok p : exists o, extract_ipv6_info p = Ok o.
Proof.
  unfold extract_ipv6_info. destruct (len p <? 40) eqn:E; [eauto|].
  ok_idx p 6. destruct (negb (b2n b =? 6)); [eauto|].
  ok_idxs p 8 16%nat. ok_idxs p 24 16%nat.
  destruct (len p <? 44) eqn:E4; [eauto|].
  ok_idx p 40. ok_idx p 41. ok_idx p 42. ok_idx p 43. eauto.
Qed.

Lemma try_ethernet_ok p : exists o, try_ethernet p = Ok o.
Proof.
  unfold try_ethernet. destruct (len p <? 14) eqn:E; [eauto|].
  ok_idx p 12. ok_idx p 13.
  destruct (be16 b b0 =? 2048).
  - ok_slice p 14 (len p). apply extract_ipv4_info_ok.
  - destruct (be16 b b0 =? 34525); [|eauto]. ok_slice p 14 (len p). apply extract_ipv6_info_ok.
Qed.

Lemma try_raw_ip_ok p : exists o, try_raw_ip p = Ok o.
Proof.
  unfold try_raw_ip. destruct p as [|x p]; [eauto|].
  destruct (idx_ok (x :: p) 0) as (b & Eb); [rewrite len_cons; lia|]. rewrite Eb. cbn [bind].
  destruct (b2n b / 16 =? 4); [apply extract_ipv4_info_ok|].
  destruct (b2n b / 16 =? 6); [apply extract_ipv6_info_ok|eauto].
Qed.

Lemma null_signature_ok p : exists s, null_signature p = Ok s /\ (s = true -> 24 <= len p).
Proof.
  unfold null_signature. destruct (24 <=? len p) eqn:E; [|exists false; split; [reflexivity|discriminate]].
  ok_idx p 0. destruct (b2n b =? 30); [|exists false; split; [reflexivity|discriminate]].
  ok_idx p 1. eexists; split; [reflexivity|intros; lia].
Qed.
Lemma try_null_datalink_ok p : exists o, try_null_datalink p = Ok o.
Proof.
  unfold try_null_datalink. destruct (len p <? 4) eqn:E; [eauto|].
  destruct (null_signature_ok p) as (sg & -> & Hs). cbn [bind]. destruct sg.
  - specialize (Hs eq_refl). ok_idx p 4.
    destruct (_ =? 4); [ok_slice p 4 (len p); apply extract_ipv4_info_ok|].
    destruct (_ =? 6); [ok_slice p 4 (len p); apply extract_ipv6_info_ok|eauto].
  - ok_idx p 0. ok_idx p 1. ok_idx p 2. ok_idx p 3.
    destruct (_ =? 2).
    + ok_slice p 4 (len p). apply extract_ipv4_info_ok.
    + destruct ((_ =? 30) || (_ =? 28)); [|eauto]. ok_slice p 4 (len p). apply extract_ipv6_info_ok.
Qed.

Lemma extract_quick_info_ok p : exists o, extract_quick_info p = Ok o.
Proof.
  unfold extract_quick_info. destruct (try_ethernet_ok p) as (a & ->). cbn [bind].
  destruct a; [eauto|]. destruct (try_raw_ip_ok p) as (b & ->). cbn [bind].
  destruct b; [eauto|]. apply try_null_datalink_ok.
Qed.

Lemma eth_announces_ok p m e0 e1 : 14 <= m -> exists b, eth_announces p m e0 e1 = Ok b /\ (b = true -> m <= len p).
Proof.
  intros Hm. unfold eth_announces. destruct (m <=? len p) eqn:E; [|exists false; split; [reflexivity|discriminate]].
  ok_idx p 12. destruct (b2n b =? e0); [|exists false; split; [reflexivity|discriminate]].
  ok_idx p 13. eexists; split; [reflexivity|intros; lia].
Qed.
Lemma ip_start_of_ok p : exists s, ip_start_of p = Ok s /\ (s = 0 \/ (s = 14 /\ 14 < len p)).
Proof.
  unfold ip_start_of. destruct (eth_announces_ok p 34 8 0) as (v4 & -> & H4); [lia|]. cbn [bind].
  destruct v4; [exists 14; split; [reflexivity|right; split; [reflexivity|specialize (H4 eq_refl); lia]]|].
  destruct (eth_announces_ok p 54 134 221) as (v6 & -> & H6); [lia|]. cbn [bind].
  destruct v6; eexists; (split; [reflexivity|]); [right; split; [reflexivity|specialize (H6 eq_refl); lia]|left; reflexivity].
Qed.

Lemma hash_source_ip_ok p : exists h, hash_source_ip p = Ok h.
Proof.
  unfold hash_source_ip. destruct (ip_start_of_ok p) as (s & -> & Hs). cbn [bind].
  replace (sat_add usize_max s 20) with (s + 20) by (unfold sat_add, usize_max; lia).
  destruct (len p <? s + 20) eqn:E; [eauto|].
  ok_slice p s (len p). ok_idx s0 0.
  destruct (_ =? 4).
  { destruct (16 <=? len s0) eqn:E16; [|eauto]. ok_slice s0 12 16. eauto. }
  destruct (_ =? 6); [|eauto].
  destruct (24 <=? len s0) eqn:E24; [|eauto]. ok_slice s0 8 24. eauto.
Qed.

Lemma hl_bound b0 : sat_mul usize_max (N.max (N.land (b2n b0) 15) 5) 4 = N.max (N.land (b2n b0) 15) 5 * 4
  /\ N.max (N.land (b2n b0) 15) 5 * 4 <= 60.
Proof. pose proof (land15 (b2n b0)). unfold sat_mul, usize_max. lia. Qed.

Lemma tls_hash_ipv4_ok ipp : exists h, tls_hash_ipv4 ipp = Ok h.
Proof.
  unfold tls_hash_ipv4. destruct (len ipp <? 20) eqn:E; [eauto|].
  ok_idx ipp 9. destruct (negb (b2n b =? 6)); [eauto|]. ok_idx ipp 0.
  destruct (hl_bound b0) as (-> & Hh). set (hl := N.max (N.land (b2n b0) 15) 5 * 4) in *.
  replace (sat_add usize_max hl 4) with (hl + 4) by (unfold sat_add, usize_max; lia).
  destruct (len ipp <? hl + 4) eqn:E4; [eauto|].
  ok_slice ipp 12 16. ok_slice ipp 16 20. ok_slice ipp hl (len ipp).
  ok_idx s1 0. ok_idx s1 1. ok_idx s1 2. ok_idx s1 3. eauto.
Qed.
Lemma tls_hash_ipv6_ok ipp : exists h, tls_hash_ipv6 ipp = Ok h.
Proof.
  unfold tls_hash_ipv6. destruct (len ipp <? 40) eqn:E; [eauto|].
  ok_idx ipp 6. destruct (negb (b2n b =? 6)); [eauto|].
  destruct (len ipp <? 44) eqn:E4; [eauto|].
  ok_slice ipp 8 24. ok_slice ipp 24 40. ok_slice ipp 40 (len ipp).
  ok_idx s1 0. ok_idx s1 1. ok_idx s1 2. ok_idx s1 3. eauto.
Qed.
Lemma tls_hash_flow_ok p : exists h, tls_hash_flow p = Ok h.
Proof.
  unfold tls_hash_flow. destruct (ip_start_of_ok p) as (s & -> & Hs). cbn [bind].
  replace (sat_add usize_max s 40) with (s + 40) by (unfold sat_add, usize_max; lia).
  destruct (len p <? s + 40) eqn:E; [eauto|].
  ok_slice p s (len p). ok_idx s0 0.
  destruct (_ =? 4); [apply tls_hash_ipv4_ok|]. destruct (_ =? 6); [apply tls_hash_ipv6_ok|eauto].
Qed.

Lemma http_hash_ipv4_ok ipp : exists h, http_hash_ipv4 ipp = Ok h.
Proof.
  unfold http_hash_ipv4. destruct (len ipp <? 20) eqn:E; [eauto|].
  ok_idx ipp 9. destruct (negb (b2n b =? 6)); [ok_slice ipp 12 16; eauto|]. ok_idx ipp 0.
  destruct (hl_bound b0) as (-> & Hh). set (hl := N.max (N.land (b2n b0) 15) 5 * 4) in *.
  replace (sat_add usize_max hl 4) with (hl + 4) by (unfold sat_add, usize_max; lia).
  destruct (len ipp <? hl + 4) eqn:E4; [ok_slice ipp 12 16; eauto|].
  ok_slice ipp 12 16. ok_slice ipp 16 20. ok_slice ipp hl (len ipp).
  ok_idx s1 0. ok_idx s1 1. ok_idx s1 2. ok_idx s1 3. eauto.
Qed.
Lemma http_hash_ipv6_ok ipp : exists h, http_hash_ipv6 ipp = Ok h.
Proof.
  unfold http_hash_ipv6. destruct (len ipp <? 40) eqn:E; [eauto|].
  ok_idx ipp 6. destruct (negb (b2n b =? 6)); [ok_slice ipp 8 24; eauto|].
  destruct (len ipp <? 44) eqn:E4; [ok_slice ipp 8 24; eauto|].
  ok_slice ipp 8 24. ok_slice ipp 24 40. ok_slice ipp 40 (len ipp).
  ok_idx s1 0. ok_idx s1 1. ok_idx s1 2. ok_idx s1 3. eauto.
Qed.
Lemma http_hash_flow_ok p : exists h, http_hash_flow p = Ok h.
Proof.
  unfold http_hash_flow. destruct (ip_start_of_ok p) as (s & -> & Hs). cbn [bind].
  replace (sat_add usize_max s 40) with (s + 40) by (unfold sat_add, usize_max; lia).
  destruct (len p <? s + 40) eqn:E; [eauto|].
  ok_slice p s (len p). ok_idx s0 0.
  destruct (_ =? 4); [apply http_hash_ipv4_ok|]. destruct (_ =? 6); [apply http_hash_ipv6_ok|eauto].
Qed.
