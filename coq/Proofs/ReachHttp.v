(* C13, part 4 (HTTP, generic in the database): soundness of the finite abstraction of Spec/ReachHttpSpec.v.
     obs_request / obs_response   what the analyzer reports for a well-formed message is `obs_of_fields` of its version
                                  and fields (from C05)
     distance_abs                 a message and its abstract message are at the same distance from every entry
     check_sound                  the walk `check_from` covers every conforming message
     abs_conf_sound               the abstract conformance test under-approximates conformance
     reach_http_live              live_http_b => every conforming message gets an admissible label. *)
From Coq Require Import List NArith Bool Lia ZifyBool ZifyN.
From Coq Require Import Strings.Byte.
From HN Require Import Base.Bytes Base.Http1Text Model.SigAst Model.Match Model.Http1 Model.Http1Obs Model.Reach
  Spec.ScanSpec Spec.InstanceSpec Spec.Http1Grammar Spec.ConformSpec Spec.ReachSpec Spec.ReachHttpSpec Gen.HeaderLists
  Proofs.MatchProofs Proofs.ScanProofs Proofs.Http1Proofs Proofs.Http1ObsProofs Proofs.C05Final Proofs.ReachTcp.
Import ListNotations.
Open Scope N_scope.

(* ================================================================ the observation as a function of the fields *)
Definition fld (h : hline) : bytes * bytes := (hl_name h, render_value (hl_value h)).
Definition nv_of (h : hdr) : bytes * bytes := (hd_name h, match hd_value h with Some v => v | None => [] end).

Lemma reported_map (Q : bytes -> bool) hs : forall i,
  map nv_of (map report_header (filter (fun kh => Q (hl_name (snd kh))) (indexed hs i)))
  = filter (fun nv => Q (fst nv)) (map fld hs).
Proof.
  induction hs as [|h hs IH]; intros i; [reflexivity|].
  cbn [indexed filter map snd]. unfold fld at 1. cbn [fst].
  destruct (Q (hl_name h)); cbn [map]; rewrite IH; reflexivity.
Qed.
Lemma reported_values hs (Q : bytes -> bool) i h :
  In h (map report_header (filter (fun kh => Q (hl_name (snd kh))) (indexed hs i))) -> hd_value h = Some (snd (nv_of h)).
Proof.
  intros IN. apply in_map_iff in IN. destruct IN as [kh [E _]]. subst h. reflexivity.
Qed.

(* the three parts of a p0f observation, on (name, value) pairs *)
Lemma horder_of_pairs k (R : list hdr) :
  (forall h, In h R -> hd_value h = Some (snd (nv_of h))) ->
  map (p0f_entry (opt_list k) (skip_list k)) R = map (pe k) (map nv_of R).
Proof.
  intros V. rewrite map_map. apply map_ext_in. intros h IN. unfold p0f_entry, pe, valued. cbn [fst snd nv_of].
  rewrite (V h IN). cbn [nv_of snd fst].
  destruct (mem_bytes (hd_name h) (opt_list k)); cbn [orb negb]; [reflexivity|].
  destruct (mem_bytes (hd_name h) (skip_list k)); reflexivity.
Qed.
Lemma habsent_of_pairs k (R : list hdr) :
  p0f_absent (common_list k) R
  = map (fun c => {| h_optional := false; h_name := c; h_value := None |})
        (filter (fun c => negb (existsb (fun nv => ci_eq (fst nv) c) (map nv_of R))) (common_list k)).
Proof.
  unfold p0f_absent. f_equal. apply filter_ext. intros c. f_equal.
  induction R as [|h R IH]; [reflexivity|]. cbn [existsb map nv_of fst]. rewrite IH. reflexivity.
Qed.
Lemma software_of_pairs lit (R : list hdr) :
  (forall h, In h R -> hd_value h = Some (snd (nv_of h))) ->
  software (first_named lit R)
  = match find (fun nv => ci_eq (fst nv) lit) (map nv_of R) with Some nv => snd nv | None => bs "???" end.
Proof.
  unfold first_named. induction R as [|h R IH]; intros V; [reflexivity|].
  cbn [find map nv_of fst]. destruct (ci_eq (hd_name h) lit) eqn:E.
  - rewrite (V h (or_introl eq_refl)). reflexivity.
  - apply IH. intros x IN. apply V. right; exact IN.
Qed.

Lemma msg_fields_fld m : msg_fields m = map fld (m_headers m).
Proof. reflexivity. Qed.

Lemma obs_request m me t v :
  q_sig (expect_request m me t v) = obs_of_fields HReq (if v then HV11 else HV10) (msg_fields m).
Proof.
  unfold expect_request. cbv zeta. cbn [q_sig].
  set (Q := fun n : bytes => negb (ci_eq n (bs "cookie") || ci_eq n (bs "referer"))).
  set (R := map report_header (filter (fun kh : nat * hline => negb (named (bs "cookie") (snd kh) || named (bs "referer") (snd kh)))
                                      (indexed (m_headers m) 0))).
  assert (RQ : R = map report_header (filter (fun kh => Q (hl_name (snd kh))) (indexed (m_headers m) 0))) by reflexivity.
  assert (NV : map nv_of R = reported HReq (msg_fields m)).
  { rewrite RQ, (reported_map Q). reflexivity. }
  assert (V : forall h, In h R -> hd_value h = Some (snd (nv_of h))).
  { intros h IN. rewrite RQ in IN. eapply reported_values; exact IN. }
  unfold obs_of_fields. cbv zeta. rewrite <- NV.
  f_equal.
  - exact (horder_of_pairs HReq R V).
  - exact (habsent_of_pairs HReq R).
  - exact (software_of_pairs (bs "user-agent") R V).
Qed.

Lemma obs_response m v st :
  p_sig (expect_response m v st) = obs_of_fields HResp (if v then HV11 else HV10) (msg_fields m).
Proof.
  unfold expect_response. cbv zeta. cbn [p_sig].
  set (R := map report_header (indexed (m_headers m) 0)).
  assert (RQ : R = map report_header (filter (fun kh => (fun _ : bytes => true) (hl_name (snd kh))) (indexed (m_headers m) 0))).
  { unfold R. f_equal. symmetry. clear. generalize 0%nat. induction (m_headers m) as [|h hs IH]; intros i; [reflexivity|].
    cbn [indexed filter]. rewrite IH. reflexivity. }
  assert (NV : map nv_of R = reported HResp (msg_fields m)).
  { rewrite RQ, (reported_map (fun _ : bytes => true)). unfold reported, dropped. reflexivity. }
  assert (V : forall h, In h R -> hd_value h = Some (snd (nv_of h))).
  { intros h IN. unfold R in IN. apply in_map_iff in IN. destruct IN as [kh [E _]]. subst h. reflexivity. }
  unfold obs_of_fields. cbv zeta. rewrite <- NV.
  f_equal.
  - exact (horder_of_pairs HResp R V).
  - exact (habsent_of_pairs HResp R).
  - exact (software_of_pairs (bs "server") R V).
Qed.

(* the composition on a well-formed message *)
Theorem reach_http_obs (db : database) (k : hkind) (m : msg) (body : bytes) :
  wf m = true -> msg_kind m = k -> Http1Grammar.known m = false ->
  reach_http db k (Http1Grammar.render m ++ body)
  = RMatch (http_table_id k) (http_find_best_match (http_table db k) (obs_of_fields k (msg_version m) (msg_fields m))).
Proof.
  intros W K KN. unfold msg_kind, is_request in K. unfold msg_version.
  destruct (m_start m) as [me t v | v st reason] eqn:ES; subst k; unfold reach_http, reach_http_request, reach_http_response.
  - rewrite (request_faithful m me t v body W ES KN). rewrite obs_request. reflexivity.
  - rewrite (response_faithful m v st reason body W ES). rewrite obs_response. reflexivity.
Qed.

(* ================================================================ small list / string facts *)
Lemma substring_b_trans a b c : substring_b a b = true -> substring_b b c = true -> substring_b a c = true.
Proof.
  rewrite !substring_b_iff. intros (p1 & q1 & E1) (p2 & q2 & E2). subst.
  exists (p2 ++ p1), (q1 ++ q2). rewrite <- !app_assoc. reflexivity.
Qed.
Lemma substring_b_nil v : substring_b [] v = true.
Proof. apply substring_b_iff. exists [], v. reflexivity. Qed.
Lemma substring_b_refl v : substring_b v v = true.
Proof. apply substring_b_iff. exists [], []. rewrite app_nil_r. reflexivity. Qed.
Lemma substring_b_nonempty_nil x l : substring_b (x :: l) [] = false.
Proof. reflexivity. Qed.

Lemma dedup_In x l : In x (dedup l) <-> In x l.
Proof.
  induction l as [|y l IH]; [cbn; tauto|]. cbn [dedup]. destruct (existsb (bytes_eqb y) l) eqn:E.
  - rewrite IH. split; [intros H; right; exact H|]. intros [H|H]; [|exact H]. subst.
    apply existsb_exists in E. destruct E as [z [IN EQ]]. apply bytes_eqb_eq in EQ. subst. exact IN.
  - cbn [In]. rewrite IH. reflexivity.
Qed.

Lemma prefixes_In p l : starts_with p l = true -> In p (prefixes l).
Proof.
  revert l; induction p as [|x p IH]; intros l H.
  - destruct l; left; reflexivity.
  - destruct l as [|y l]; [discriminate|]. cbn [starts_with] in H. apply andb_true_iff in H. destruct H as [E H].
    assert (x = y) by (unfold beqb in E; apply Byte.byte_dec_bl in E; exact E). subst.
    cbn [prefixes]. right. apply in_map. apply IH. exact H.
Qed.
Lemma substrings_In v tok : contains tok v = true -> In v (substrings tok).
Proof.
  unfold substrings. induction tok as [|x tok IH]; cbn [contains tails flat_map]; intros H.
  - rewrite orb_false_r in H. apply in_or_app. left. apply prefixes_In. exact H.
  - apply orb_true_iff in H. apply in_or_app. destruct H as [H|H]; [left; apply prefixes_In; exact H | right; apply IH; exact H].
Qed.

Lemma forall2_len {A B} (R : A -> B -> Prop) l l' : Forall2 R l l' -> length l = length l'.
Proof. induction 1; cbn; congruence. Qed.

Lemma forallb_ext_l {A} (f g : A -> bool) l : (forall x, f x = g x) -> forallb f l = forallb g l.
Proof. intros E. induction l as [|x l IH]; [reflexivity|]. cbn. rewrite E, IH. reflexivity. Qed.

Lemma scan_ext {L S O} (distance : S -> O -> option N) (score : N -> N) (db : list (L * list S)) o o' :
  (forall p, In p (positions db) -> distance (snd p) o = distance (snd p) o') ->
  scan distance score db o = scan distance score db o'.
Proof.
  intros H. unfold scan, accepting. 
  assert (E : flat_map (fun p : N * N * S => match distance (snd p) o with Some d => [(fst (fst p), snd (fst p), d)] | None => [] end) (positions db)
            = flat_map (fun p : N * N * S => match distance (snd p) o' with Some d => [(fst (fst p), snd (fst p), d)] | None => [] end) (positions db)).
  { induction (positions db) as [|p ps IH]; [reflexivity|]. cbn [flat_map].
    rewrite (H p (or_introl eq_refl)). rewrite IH; [reflexivity|]. intros q IN. apply H. right; exact IN. }
  rewrite E. reflexivity.
Qed.

Lemma admissible_b_mono {S} (tbl : list (label * list S)) (c1 c2 : S -> bool) li si r :
  (forall t, c1 t = true -> c2 t = true) -> admissible_b tbl c1 li si r = true -> admissible_b tbl c2 li si r = true.
Proof.
  intros M. unfold admissible_b. destruct r as [| |lj sj d q]; try discriminate.
  destruct (label_at tbl lj) as [lr|]; [|discriminate].
  unfold admissible_labels. rewrite !existsb_app. intros H. apply orb_true_iff in H. apply orb_true_iff.
  destruct H as [H|H]; [left; exact H | right].
  apply existsb_exists in H. destruct H as [l [IN EQ]]. apply existsb_exists. exists l. split; [|exact EQ].
  apply in_flat_map in IN. destruct IN as [p [INP INL]]. apply in_flat_map. exists p. split; [exact INP|].
  destruct (c1 (snd p)) eqn:C1; [|contradiction]. rewrite (M _ C1). exact INL.
Qed.

(* ================================================================ the abstraction *)
Section Abs.
  Variable k : hkind.
  Variable tbl : list (label * list http_sig).
  Hypothesis FOK : fresh_ok tbl = true.

  Definition rel (a : afield) (nv : bytes * bytes) : Prop :=
    fst nv = h_name (fst a) /\ conf_value (h_value (fst a)) (snd nv) = true /\
    match snd a with
    | AExact l => snd nv = l
    | AFresh => (valued k (fst nv) = true -> ~ In (snd nv) (lits tbl (fst nv)))
                /\ (swnamed k (fst nv) = true -> forall tok, In tok (tokens tbl) -> contains tok (snd nv) = false)
    end.

  Lemma rel_name a nv : rel a nv -> fst (conc a) = fst nv.
  Proof. intros (N & _). unfold conc. cbn [fst]. symmetry. exact N. Qed.

  Lemma fresh_not_lit n : ~ In fresh (lits tbl n).
  Proof.
    unfold lits. rewrite dedup_In. intros IN. apply in_flat_map in IN. destruct IN as [s [INS IN]].
    apply in_flat_map in IN. destruct IN as [h [INH IN]].
    unfold fresh_ok in FOK. rewrite forallb_forall in FOK. specialize (FOK s INS). apply andb_true_iff in FOK.
    destruct FOK as [F _]. rewrite forallb_forall in F. specialize (F h INH).
    destruct (bytes_eqb (h_name h) n); [|contradiction]. destruct (h_value h) as [l|]; [|contradiction].
    destruct IN as [E|[]]. subst l. rewrite (eqb_refl_of bytes_eqb bytes_eqb_eq) in F. discriminate.
  Qed.
  Lemma fresh_not_token tok : In tok (tokens tbl) -> contains tok fresh = false.
  Proof.
    unfold tokens. intros IN. apply in_map_iff in IN. destruct IN as [s [E INS]]. subst tok.
    unfold fresh_ok in FOK. rewrite forallb_forall in FOK. specialize (FOK s INS). apply andb_true_iff in FOK.
    destruct FOK as [_ F]. apply negb_true_iff in F. exact F.
  Qed.

  (* reported fields of related lists are related *)
  Lemma rel_reported am fields : Forall2 rel am fields ->
    Forall2 rel (filter (fun a => negb (dropped k (h_name (fst a)))) am) (reported k fields)
    /\ reported k (map conc am) = map conc (filter (fun a => negb (dropped k (h_name (fst a)))) am).
  Proof.
    induction 1 as [|a nv am fields R F IH]; [split; [constructor | reflexivity]|].
    destruct IH as [IH1 IH2]. unfold reported in *. cbn [filter map].
    assert (N : fst nv = h_name (fst a)) by (destruct R; assumption). rewrite N.
    change (fst (conc a)) with (h_name (fst a)).
    destruct (negb (dropped k (h_name (fst a)))); cbn [map]; rewrite IH2; split; try reflexivity; try constructor; assumption.
  Qed.

  Lemma existsb_names (P : bytes -> bool) am fields : Forall2 rel am fields ->
    existsb (fun nv => P (fst nv)) (map conc am) = existsb (fun nv => P (fst nv)) fields.
  Proof.
    induction 1 as [|a nv am fields R F IH]; [reflexivity|]. cbn [map existsb]. rewrite IH, (rel_name _ _ R). reflexivity.
  Qed.

  (* literals of table entries are in `lits` *)
  Lemma lit_in_lits t sh l : In t (all_sigs tbl) -> In sh (hs_horder t) -> h_value sh = Some l -> In l (lits tbl (h_name sh)).
  Proof.
    intros INT INH V. unfold lits. rewrite dedup_In. apply in_flat_map. exists t. split; [exact INT|].
    apply in_flat_map. exists sh. split; [exact INH|]. rewrite (eqb_refl_of bytes_eqb bytes_eqb_eq), V. left; reflexivity.
  Qed.

  (* same comparisons against every header of a table entry *)
  Lemma pe_same a nv sh t : rel a nv -> In t (all_sigs tbl) -> In sh (hs_horder t) ->
    hname_eqb (pe k (conc a)) sh = hname_eqb (pe k nv) sh
    /\ (hname_eqb (pe k nv) sh = true -> hvalue_eqb (pe k (conc a)) sh = hvalue_eqb (pe k nv) sh).
  Proof.
    intros (N & CV & AV) INT INH. unfold hname_eqb, hvalue_eqb, pe. cbn [h_name h_value].
    change (fst (conc a)) with (h_name (fst a)). rewrite N. split; [reflexivity|].
    intros HN. apply bytes_eqb_eq in HN.
    destruct (valued k (h_name (fst a))) eqn:VL; [|reflexivity].
    unfold conc. cbn [snd]. destruct (snd a) as [l|].
    - rewrite AV. reflexivity.
    - destruct AV as [NL _]. rewrite N in NL. specialize (NL VL).
      destruct (h_value sh) as [L|] eqn:HV; [|reflexivity]. cbn [option_eqb].
      assert (INL : In L (lits tbl (h_name (fst a)))) by (rewrite HN; eapply lit_in_lits; eassumption).
      rewrite (eqb_false_of bytes_eqb bytes_eqb_eq) by (intros E; apply (fresh_not_lit (h_name (fst a))); rewrite E; exact INL).
      rewrite (eqb_false_of bytes_eqb bytes_eqb_eq) by (intros E; apply NL; rewrite E; exact INL).
      reflexivity.
  Qed.

  Lemma hdr_rest_len e (a b : list header) : length a = length b -> hdr_rest_obs e a = hdr_rest_obs e b.
  Proof. revert e b; induction a as [|x a IH]; intros e [|y b] L; try discriminate; [reflexivity|]. cbn. apply IH. inversion L; reflexivity. Qed.

  Lemma hdr_loop_same t : In t (all_sigs tbl) -> forall sig, incl sig (hs_horder t) ->
    forall am fields e, Forall2 rel am fields ->
      hdr_loop e (map (pe k) (map conc am)) sig = hdr_loop e (map (pe k) fields) sig.
  Proof.
    intros INT. induction sig as [|sh sig IH]; intros INC am fields e F.
    - cbn [hdr_loop]. apply hdr_rest_len. rewrite !map_length. eapply forall2_len; exact F.
    - assert (INC' : incl sig (hs_horder t)) by (intros x IN; apply INC; right; exact IN).
      assert (INH : In sh (hs_horder t)) by (apply INC; left; reflexivity).
      destruct F as [|a nv am fields R F].
      + cbn [map hdr_loop]. apply (IH INC' [] [] _ (Forall2_nil _)).
      + cbn [map hdr_loop]. destruct (pe_same a nv sh t R INT INH) as [HN HV]. rewrite HN.
        destruct (hname_eqb (pe k nv) sh) eqn:E.
        * rewrite (HV eq_refl). destruct (hvalue_eqb (pe k nv) sh); cbn [andb]; apply IH; assumption.
        * cbn [andb]. destruct (h_optional sh).
          -- apply (IH INC' (a :: am) (nv :: fields) _ (Forall2_cons _ _ R F)).
          -- apply (IH INC' (a :: am) (nv :: fields) _ (Forall2_cons _ _ R F)).
  Qed.

  Lemma find_sw_rel am fields : Forall2 rel am fields ->
    match find (fun a => swnamed k (h_name (fst a))) am, find (fun nv => swnamed k (fst nv)) fields with
    | Some a, Some nv => rel a nv /\ swnamed k (fst nv) = true
    | None, None => True
    | _, _ => False end.
  Proof.
    induction 1 as [|a nv am fields R F IH]; [exact I|]. cbn [find].
    assert (N : fst nv = h_name (fst a)) by (destruct R; assumption). rewrite N.
    destruct (swnamed k (h_name (fst a))) eqn:E; [split; [exact R | rewrite N; exact E] | exact IH].
  Qed.

  (* distance to every entry of the table is the same *)
  Theorem distance_abs (ver : http_version) am fields t :
    Forall2 rel am fields -> In t (all_sigs tbl) ->
    http_distance t (obs_of_fields k ver (map conc am)) = http_distance t (obs_of_fields k ver fields).
  Proof.
    intros F INT. destruct (rel_reported am fields F) as [FR ER].
    unfold http_distance, obs_of_fields. cbv zeta. cbn [hs_version hs_horder hs_habsent hs_expsw].
    destruct (distance_http_version ver (hs_version t)) as [d0|]; [|reflexivity]. cbn [obind].
    rewrite ER.
    assert (H1 : distance_header (map (pe k) (map conc (filter (fun a => negb (dropped k (h_name (fst a)))) am))) (hs_horder t)
                 = distance_header (map (pe k) (reported k fields)) (hs_horder t)).
    { unfold distance_header. f_equal. apply (hdr_loop_same t INT); [apply incl_refl | exact FR]. }
    rewrite H1. destruct (distance_header (map (pe k) (reported k fields)) (hs_horder t)) as [d1|]; [|reflexivity]. cbn [obind].
    assert (H2 : filter (fun c => negb (existsb (fun nv => ci_eq (fst nv) c) (map conc (filter (fun a => negb (dropped k (h_name (fst a)))) am)))) (common_list k)
                 = filter (fun c => negb (existsb (fun nv => ci_eq (fst nv) c) (reported k fields))) (common_list k)).
    { apply filter_ext. intros c. f_equal. apply (existsb_names (fun n => ci_eq n c)). exact FR. }
    rewrite H2.
    destruct (distance_header _ (hs_habsent t)) as [d2|]; [|reflexivity]. cbn [obind].
    assert (H3 : distance_expsw {| hs_version := ver; hs_horder := map (pe k) (map conc (filter (fun a => negb (dropped k (h_name (fst a)))) am));
                                  hs_habsent := map (fun c => {| h_optional := false; h_name := c; h_value := None |})
                                                    (filter (fun c => negb (existsb (fun nv => ci_eq (fst nv) c) (reported k fields))) (common_list k));
                                  hs_expsw := match find (fun nv => swnamed k (fst nv)) (map conc (filter (fun a => negb (dropped k (h_name (fst a)))) am)) with
                                              | Some nv => snd nv | None => bs "???" end |} t
                 = distance_expsw {| hs_version := ver; hs_horder := map (pe k) (reported k fields);
                                     hs_habsent := map (fun c => {| h_optional := false; h_name := c; h_value := None |})
                                                       (filter (fun c => negb (existsb (fun nv => ci_eq (fst nv) c) (reported k fields))) (common_list k));
                                     hs_expsw := match find (fun nv => swnamed k (fst nv)) (reported k fields) with
                                                 | Some nv => snd nv | None => bs "???" end |} t).
    { unfold distance_expsw. cbn [hs_expsw].
      assert (FM : find (fun nv => swnamed k (fst nv)) (map conc (filter (fun a => negb (dropped k (h_name (fst a)))) am))
                   = option_map conc (find (fun a => swnamed k (h_name (fst a))) (filter (fun a => negb (dropped k (h_name (fst a)))) am))).
      { clear. induction (filter (fun a => negb (dropped k (h_name (fst a)))) am) as [|a l IH]; [reflexivity|]. cbn [map find]. change (fst (conc a)) with (h_name (fst a)).
        destruct (swnamed k (h_name (fst a))); [reflexivity | exact IH]. }
      rewrite FM. pose proof (find_sw_rel _ _ FR) as FS.
      destruct (find (fun a => swnamed k (h_name (fst a))) (filter (fun a => negb (dropped k (h_name (fst a)))) am)) as [a|];
        destruct (find (fun nv => swnamed k (fst nv)) (reported k fields)) as [nv|]; try contradiction; [|reflexivity].
      cbn [option_map]. destruct FS as [(N & CV & AV) SW]. unfold conc. cbn [snd].
      destruct (snd a) as [l|]; [rewrite AV; reflexivity|].
      destruct AV as [_ NT]. specialize (NT SW).
      assert (TK : In (hs_expsw t) (tokens tbl)) by (unfold tokens; apply in_map; exact INT).
      rewrite (fresh_not_token _ TK), (NT _ TK). reflexivity. }
    rewrite H3. reflexivity.
  Qed.
End Abs.

(* ================================================================ the walk covers every conforming message *)
Section Check.
  Variable k : hkind.
  Variable tbl : list (label * list http_sig).
  Variables li si : N.
  Variable s : http_sig.
  Variable sw_all : list bytes.
  Hypothesis SW : forall tok v, In tok (tokens tbl) -> contains tok v = true -> In v sw_all.
  Let tok := hs_expsw s.
  Let sw_own := filter (substring_b tok) sw_all.

  Lemma software_value_cons n v fields :
    software_value k ((n, v) :: fields) = if swnamed k n then Some v else software_value k fields.
  Proof. unfold software_value, swnamed. cbn [find fst]. destruct (ci_eq n (software_name k)); reflexivity. Qed.

  Lemma check_sound : forall sig pre seen fields_pre fields,
    Forall2 (rel k tbl) (rev pre) fields_pre ->
    seen = existsb (fun nv => swnamed k (fst nv)) fields_pre ->
    (seen = false -> conf_software tok (software_value k fields) = true) ->
    (forall nv, In nv fields -> value_feasible k (fst nv) (snd nv) = true) ->
    conf_headers sig fields = true ->
    check_from k tbl li si s sw_all sw_own sig pre seen = true ->
    exists am, Forall2 (rel k tbl) am (fields_pre ++ fields) /\ final_ok k tbl li si s am = true.
  Proof.
    induction sig as [|sh sig IH]; intros pre seen fields_pre fields FP SE SWC FE CH CK.
    - cbn [conf_headers] in CH. destruct fields; [|discriminate]. rewrite app_nil_r.
      cbn [check_from] in CK. exists (rev pre). split; assumption.
    - cbn [conf_headers] in CH. cbn [check_from] in CK. apply andb_true_iff in CK. destruct CK as [CK1 CK2].
      apply orb_true_iff in CH. destruct CH as [CH|CH].
      + (* the header is present *)
        destruct fields as [|[n v] fields]; [discriminate|].
        repeat (apply andb_true_iff in CH; destruct CH as [CH ?]). rename H into CHR, H0 into CV.
        apply bytes_eqb_eq in CH. subst n.
        set (swc := if seen then sw_all else sw_own) in *.
        assert (FV : value_feasible k (h_name sh) v = true) by (apply (FE (h_name sh, v)); left; reflexivity).
        set (cl := filter (fun l => conf_value (h_value sh) l && value_feasible k (h_name sh) l) (cands k tbl swc (h_name sh))).
        set (av := if existsb (bytes_eqb v) cl then AExact v else AFresh).
        assert (INC : In av (choices k tbl swc sh)).
        { unfold choices. fold cl. apply in_or_app. unfold av. destruct (existsb (bytes_eqb v) cl) eqn:EX.
          - left. apply in_map. apply existsb_exists in EX. destruct EX as [z [IN EQ]]. apply bytes_eqb_eq in EQ. subst. exact IN.
          - right. left. reflexivity. }
        rewrite forallb_forall in CK1. specialize (CK1 av INC).
        assert (RL : rel k tbl (sh, av) (h_name sh, v)).
        { unfold rel. cbn [fst snd]. split; [reflexivity|]. split; [exact CV|].
          unfold av. destruct (existsb (bytes_eqb v) cl) eqn:EX; [reflexivity|].
          assert (NC : ~ In v (cands k tbl swc (h_name sh))).
          { intros IN. assert (INCL : In v cl) by (unfold cl; apply filter_In; split; [exact IN | rewrite CV, FV; reflexivity]).
            assert (existsb (bytes_eqb v) cl = true) by (apply existsb_exists; exists v; split; [exact INCL | apply (eqb_refl_of bytes_eqb bytes_eqb_eq)]).
            congruence. }
          unfold cands in NC. split.
          - intros VL IN. apply NC. apply in_or_app. left. rewrite VL. exact IN.
          - intros SN tk INT. destruct (contains tk v) eqn:CT; [|reflexivity]. exfalso. apply NC. apply in_or_app. right. rewrite SN.
            pose proof (SW tk v INT CT) as INA. unfold swc. destruct seen; [exact INA|].
            unfold sw_own. apply filter_In. split; [exact INA|].
            specialize (SWC eq_refl). rewrite software_value_cons, SN in SWC. unfold conf_software in SWC.
            destruct tok as [|x tk'] eqn:TK; [apply substring_b_nil | exact SWC]. }
        apply (IH ((sh, av) :: pre) (seen || swnamed k (h_name sh)) (fields_pre ++ [(h_name sh, v)]) fields) in CK1.
        * destruct CK1 as [am [F OK]]. exists am. rewrite <- app_assoc in F. split; assumption.
        * cbn [rev]. apply Forall2_app; [exact FP | constructor; [exact RL | constructor]].
        * rewrite existsb_app. cbn [existsb fst]. rewrite orb_false_r, SE. reflexivity.
        * intros E. apply orb_false_iff in E. destruct E as [E1 E2]. specialize (SWC E1).
          rewrite software_value_cons, E2 in SWC. exact SWC.
        * intros nv INV. apply FE. right. exact INV.
        * exact CHR.
      + (* an optional header left out *)
        apply andb_true_iff in CH. destruct CH as [OP CH]. rewrite OP in CK2.
        apply (IH pre seen fields_pre fields); assumption.
  Qed.
End Check.

(* ================================================================ the abstract conformance test is sound *)
Section AbsConf.
  Variable k : hkind.
  Variable tbl : list (label * list http_sig).

  Lemma conf_headers_lb_sound : forall sig am fields,
    Forall2 (rel k tbl) am fields -> conf_headers_lb sig am = true -> conf_headers sig fields = true.
  Proof.
    induction sig as [|sh sig IH]; intros am fields F H.
    - destruct F; [reflexivity | discriminate].
    - cbn [conf_headers_lb] in H. cbn [conf_headers]. apply orb_true_iff.
      destruct F as [|a [n v] am fields R F].
      + right. destruct (h_optional sh); [|discriminate]. cbn [andb]. apply (IH [] []); [constructor | exact H].
      + destruct (bytes_eqb (h_name (fst a)) (h_name sh)) eqn:EN.
        * destruct (conf_value_lb (h_value sh) a) eqn:EV.
          -- destruct (conf_headers_lb sig am) eqn:ER.
             ++ left. destruct R as (N & CV & AV). cbn [fst snd] in *.
                apply andb_true_iff. split; [apply andb_true_iff; split|].
                ** subst n. exact EN.
                ** unfold conf_value_lb in EV. unfold conf_value. destruct (h_value sh) as [l|]; [|reflexivity].
                   destruct (snd a) as [x|].
                   --- subst v. exact EV.
                   --- destruct (h_value (fst a)) as [ls|]; [|discriminate]. unfold conf_value in CV. eapply substring_b_trans; eassumption.
                ** eapply IH; eassumption.
             ++ right. destruct (h_optional sh); [|discriminate]. cbn [andb]. eapply IH; [|exact H]. constructor; assumption.
          -- right. destruct (h_optional sh); [|discriminate]. cbn [andb]. eapply IH; [|exact H]. constructor; assumption.
        * right. destruct (h_optional sh); [|discriminate]. cbn [andb]. eapply IH; [|exact H]. constructor; assumption.
  Qed.

  Lemma conf_absent_names sig am fields : Forall2 (rel k tbl) am fields ->
    conf_absent sig (map conc am) = conf_absent sig fields.
  Proof.
    intros F. unfold conf_absent. apply forallb_ext_l. intros sh. f_equal.
    apply (existsb_names k tbl (fun n => bytes_eqb n (h_name sh))). exact F.
  Qed.

  (* own token: conforming => abs_sw;  another entry's token: abs_sw => conforming *)
  Lemma abs_sw_own tk am fields : Forall2 (rel k tbl) am fields ->
    conf_software tk (software_value k fields) = true -> abs_sw k tk tk am = true.
  Proof.
    intros F C. unfold abs_sw. destruct tk as [|x tk']; [reflexivity|].
    pose proof (find_sw_rel k tbl am fields F) as FS.
    change (software_value k fields) with (option_map snd (find (fun nv => swnamed k (fst nv)) fields)) in C.
    destruct (find (fun a => swnamed k (h_name (fst a))) am) as [[sh av]|];
      destruct (find (fun nv => swnamed k (fst nv)) fields) as [nv|]; try contradiction; [|cbn in C; discriminate].
    cbn [option_map conf_software] in C. destruct FS as [(N & CV & AV) _]. cbn [snd] in AV.
    destruct av as [l|]; [subst l; exact C | apply substring_b_refl].
  Qed.
  Lemma abs_sw_other tk own am fields : Forall2 (rel k tbl) am fields ->
    conf_software own (software_value k fields) = true -> abs_sw k tk own am = true ->
    conf_software tk (software_value k fields) = true.
  Proof.
    intros F CO A. unfold abs_sw in A. destruct tk as [|x tk']; [reflexivity|].
    pose proof (find_sw_rel k tbl am fields F) as FS.
    change (software_value k fields) with (option_map snd (find (fun nv => swnamed k (fst nv)) fields)) in *.
    destruct (find (fun a => swnamed k (h_name (fst a))) am) as [[sh av]|]; [|cbn in A; discriminate].
    destruct (find (fun nv => swnamed k (fst nv)) fields) as [nv|]; [|contradiction].
    cbn [option_map conf_software] in *. destruct FS as [(N & CV & AV) _]. cbn [snd] in AV.
    destruct av as [l|]; [subst l; exact A|].
    destruct own as [|y own']; [discriminate A|]. eapply substring_b_trans; eassumption.
  Qed.

  Theorem abs_conf_sound (own : bytes) (ver : http_version) am (m : msg) (t : http_sig) :
    Forall2 (rel k tbl) am (msg_fields m) -> wf m = true -> msg_kind m = k -> msg_version m = ver ->
    conf_software own (software_value k (msg_fields m)) = true ->
    abs_conf k own ver am t = true -> conforms_http_b k t m = true.
  Proof.
    intros F W K V CO A. unfold abs_conf in A. repeat (apply andb_true_iff in A; destruct A as [A ?]).
    unfold conforms_http_b. rewrite W, K, V, A. cbn [andb].
    assert (KK : hkind_eqb k k = true) by (destruct k; reflexivity). rewrite KK. cbn [andb].
    rewrite (conf_headers_lb_sound _ _ _ F H1). cbn [andb].
    rewrite <- (conf_absent_names _ _ _ F), H0. cbn [andb].
    eapply abs_sw_other; eassumption.
  Qed.
End AbsConf.

(* ================================================================ the composition *)
Lemma adm_fast_admissible tbl li si conf r : adm_fast tbl li si conf r = true -> admissible_b tbl conf li si r = true.
Proof.
  unfold adm_fast. destruct r as [| |lj sj d q]; try discriminate.
  destruct (label_at tbl lj) as [a|] eqn:LA; [|discriminate]. destruct (label_at tbl li) as [b|] eqn:LB; [|discriminate].
  destruct (label_eqb a b) eqn:H; [intros _|intros H'; exact H'].
  unfold admissible_b. rewrite LA. unfold admissible_labels. rewrite LB. cbn [app existsb]. rewrite H. reflexivity.
Qed.

Lemma check_prep_eq k tbl li si s sw_all sw_own : forall sig pre seen,
  check_prep k tbl li si s (prep k tbl sw_all sw_own sig) pre seen = check_from k tbl li si s sw_all sw_own sig pre seen.
Proof.
  induction sig as [|sh sig IH]; intros pre seen; [reflexivity|].
  cbn [prep map check_prep check_from]. fold (prep k tbl sw_all sw_own sig).
  rewrite (IH pre seen). f_equal. destruct seen; apply forallb_ext_l; intros av; apply IH.
Qed.

Lemma sw_all_complete tbl tok v : In tok (tokens tbl) -> contains tok v = true -> In v (sw_all_of tbl).
Proof.
  intros IN C. unfold sw_all_of. apply dedup_In. unfold swsubs. apply in_flat_map. exists tok. split; [exact IN|].
  apply substrings_In. exact C.
Qed.

(* well-formed messages carry feasible values *)
Lemma sep_concat_head x r : x <> [] -> exists b t, sep_concat ","%byte (x :: r) = b :: t /\ exists t', x = b :: t'.
Proof. destruct x as [|b t']; [congruence|]. intros _. destruct r; cbn [sep_concat]; eexists; eexists; (split; [reflexivity|]); eexists; reflexivity. Qed.
Lemma split_first_head t p rest : split_byte "-"%byte t = p :: rest -> p <> [] -> exists b t', t = b :: t' /\ exists p', p = b :: p'.
Proof.
  destruct t as [|b t']; cbn [split_byte]; intros E NE.
  - inversion E. congruence.
  - destruct (beqb b "-"%byte); [inversion E; congruence|].
    exists b, t'. split; [reflexivity|]. unfold cons_head in E. destruct (split_byte "-"%byte t') as [|x xs]; inversion E; eexists; reflexivity.
Qed.
Lemma wf_feasible k m : wf m = true -> msg_kind m = k -> forall nv, In nv (msg_fields m) -> value_feasible k (fst nv) (snd nv) = true.
Proof.
  intros W K nv IN. unfold value_feasible. destruct k; [|reflexivity].
  destruct (ci_eq (fst nv) (bs "accept-language")) eqn:CI; [|reflexivity].
  unfold msg_fields in IN. apply in_map_iff in IN. destruct IN as [h [E INH]]. subst nv. cbn [fst snd] in *.
  assert (R : is_request m = true) by (unfold msg_kind in K; destruct (is_request m); [reflexivity | discriminate]).
  destruct (wf_parts m W) as (_ & _ & Hl & _). rewrite R in Hl. rewrite Forall_forall in Hl.
  destruct (line_ok_special h (Hl h INH)) as [HA _]. destruct (HA CI) as (items & EI & OK).
  rewrite EI. cbn [render_value].
  destruct items as [|i items]; [reflexivity|].
  unfold items_ok in OK. apply andb_true_iff in OK. destruct OK as [OK _]. apply andb_true_iff in OK. destruct OK as [FA H0].
  cbn [forallb] in FA. apply andb_true_iff in FA. destruct FA as [IO _].
  apply bytes_eqb_eq in H0. unfold item_ok in IO. apply andb_true_iff in IO. destruct IO as [IO _].
  apply andb_true_iff in IO. destruct IO as [_ TG]. unfold tag_ok in TG.
  assert (HD : exists b t', li_tag i = b :: t' /\ (is_alpha b || beqb b "*"%byte) = true).
  { apply orb_true_iff in TG. destruct TG as [TG|TG].
    - apply bytes_eqb_eq in TG. rewrite TG. eexists; eexists; split; [reflexivity|]. reflexivity.
    - destruct (split_byte "-"%byte (li_tag i)) as [|p rest] eqn:SP; [discriminate|].
      apply andb_true_iff in TG. destruct TG as [ST _]. unfold subtag_ok in ST.
      apply andb_true_iff in ST. destruct ST as [ST ALL]. apply andb_true_iff in ST. destruct ST as [ST _]. apply negb_true_iff in ST.
      assert (PN : p <> []) by (intros EP; subst p; discriminate).
      destruct (split_first_head _ _ _ SP PN) as (b & t' & ET & p' & EP). exists b, t'. split; [exact ET|].
      subst p. cbn [forallb] in ALL. apply andb_true_iff in ALL. destruct ALL as [AL _]. rewrite AL. reflexivity. }
  destruct HD as (b & t' & ET & AB).
  assert (RI : exists tl, render_item i = b :: tl) by (unfold render_item; rewrite H0, ET; eexists; reflexivity).
  destruct RI as [tl RI].
  cbn [map]. destruct (sep_concat_head (render_item i) (map render_item items)) as (b' & t'' & SC & tl' & RB); [rewrite RI; discriminate|].
  rewrite RI in RB. inversion RB. subst b'.
  assert (G : forall l, l = b :: t'' -> match l with [] => true | b0 :: _ => is_alpha b0 || beqb b0 "*"%byte end = true) by (intros l ->; exact AB).
  exact (G _ SC).
Qed.

Theorem reach_http_live (db : database) (k : hkind) (li si : N) (s : http_sig) (m : msg) (body : bytes) :
  In (li, si, s) (positions (http_table db k)) ->
  live_http_b k (http_table db k) li si s = true ->
  conforms_http k s m -> Http1Grammar.known m = false ->
  exists f, reach_http db k (Http1Grammar.render m ++ body) = RMatch (http_table_id k) f
            /\ admissible (http_table db k) (fun t => conforms_http_b k t m) li si f.
Proof.
  intros INP LV C KN. set (tbl := http_table db k) in *.
  unfold conforms_http, conforms_http_b in C. destruct (wf m) eqn:W; [|discriminate]. cbn [andb] in C.
  repeat (apply andb_true_iff in C; destruct C as [C ?]).
  rename C into KD, H2 into CVR, H1 into CHD, H0 into CAB, H into CSW.
  assert (K : msg_kind m = k) by (destruct (msg_kind m), k; try discriminate; reflexivity).
  rewrite (reach_http_obs db k m body W K KN). fold tbl.
  eexists. split; [reflexivity|].
  unfold live_http_b, live_http_w in LV. cbv zeta in LV. apply andb_true_iff in LV. destruct LV as [FOK CK].
  rewrite check_prep_eq in CK.
  destruct (check_sound k tbl li si s (sw_all_of tbl) (sw_all_complete tbl) (hs_horder s) [] false [] (msg_fields m)
              (Forall2_nil _) eq_refl (fun _ => CSW) (wf_feasible k m W K) CHD CK) as [am [F OK]].
  cbn [app] in F.
  unfold final_ok in OK. rewrite (abs_sw_own k tbl _ _ _ F CSW) in OK. cbn [negb orb] in OK.
  rewrite forallb_forall in OK.
  assert (INV : In (msg_version m) (versions s)).
  { unfold versions. apply filter_In. split; [|exact CVR]. unfold msg_version. destruct (m_start m) as [? ? v|v ? ?]; destruct v; cbn; tauto. }
  specialize (OK _ INV). apply adm_fast_admissible in OK.
  assert (CO : concrete_http (obs_of_fields k (msg_version m) (msg_fields m))).
  { unfold concrete_http, obs_of_fields. cbn [hs_version]. unfold msg_version. destruct (m_start m) as [? ? v|v ? ?]; destruct v; discriminate. }
  rewrite http_find_best_match_is_scan by exact CO.
  assert (SE : http_scan tbl (obs_of_fields k (msg_version m) (msg_fields m))
               = http_scan tbl (obs_of_fields k (msg_version m) (map conc am))).
  { unfold http_scan. apply scan_ext. intros p IN. symmetry. apply (distance_abs k tbl FOK); [exact F|].
    unfold all_sigs. apply in_map. exact IN. }
  rewrite SE. unfold admissible.
  eapply admissible_b_mono; [|exact OK].
  intros t A. eapply (abs_conf_sound k tbl); try eassumption. reflexivity.
Qed.
