(* C01 -- facts about the checked helpers of Model/TotalBase.v: each returns [Ok] under the guard
   that the Rust code establishes before the corresponding access. *)
From Coq Require Import List NArith Bool Lia ZifyBool ZifyN.
From Coq Require Import Strings.Byte.
From HN Require Import Base.Bytes Model.TotalBase.
Import ListNotations.
Open Scope N_scope.

Lemma len_nil : len [] = 0.
Proof. reflexivity. Qed.
Lemma len_cons b l : len (b :: l) = 1 + len l.
Proof. unfold len. cbn [length]. lia. Qed.
Lemma len_app a b : len (a ++ b) = len a + len b.
Proof. unfold len. rewrite app_length. lia. Qed.
Lemma len_zero l : len l = 0 -> l = [].
Proof. destruct l; [reflexivity|]. rewrite len_cons. lia. Qed.

Lemma idx_ok l i : i < len l -> exists b, idx l i = Ok b.
Proof.
  unfold idx, len. intros H. destruct (nth_error l (N.to_nat i)) eqn:E; [eauto|].
  apply nth_error_None in E. lia.
Qed.

Lemma slice_ok l a b : a <= b -> b <= len l -> exists s, slice l a b = Ok s /\ len s = b - a.
Proof.
  intros H1 H2. unfold slice.
  replace ((a <=? b) && (b <=? len l)) with true by lia.
  eexists; split; [reflexivity|]. unfold len in *. rewrite firstn_length, skipn_length. lia.
Qed.

Lemma slice_from_ok l a : a <= len l -> exists s, slice_from l a = Ok s /\ len s = len l - a.
Proof. intros H. unfold slice_from. apply slice_ok; lia. Qed.

Lemma slice_to_ok l b : b <= len l -> exists s, slice_to l b = Ok s /\ len s = b.
Proof. intros H. unfold slice_to. destruct (slice_ok l 0 b) as (s & E & L); [lia|lia|]. exists s. split; [exact E|lia]. Qed.

Lemma add_chk_ok m a b : a + b <= m -> add_chk m a b = Ok (a + b).
Proof. intros H. unfold add_chk. replace (a + b <=? m) with true by lia. reflexivity. Qed.
Lemma sub_chk_ok a b : b <= a -> sub_chk a b = Ok (a - b).
Proof. intros H. unfold sub_chk. replace (b <=? a) with true by lia. reflexivity. Qed.
Lemma mul_chk_ok m a b : a * b <= m -> mul_chk m a b = Ok (a * b).
Proof. intros H. unfold mul_chk. replace (a * b <=? m) with true by lia. reflexivity. Qed.
Lemma rem_chk_ok a b : b <> 0 -> rem_chk a b = Ok (a mod b).
Proof. intros H. unfold rem_chk. replace (b =? 0) with false by lia. reflexivity. Qed.
Lemma div_chk_ok a b : b <> 0 -> div_chk a b = Ok (a / b).
Proof. intros H. unfold div_chk. replace (b =? 0) with false by lia. reflexivity. Qed.

Lemma len4 (s : bytes) : len s = 4 -> exists a b c d, s = [a; b; c; d].
Proof.
  destruct s as [|a [|b [|c [|d [|e s]]]]]; repeat rewrite len_cons; try rewrite len_nil; intros H; try lia.
  eauto.
Qed.

Lemma get_some l i : i < len l -> exists b, get l i = Some b.
Proof.
  unfold get, len. intros H. destruct (nth_error l (N.to_nat i)) eqn:E; [eauto|].
  apply nth_error_None in E. lia.
Qed.

(* tactics: discharge one checked access using the guards in the context *)
Ltac ok_idx l i :=
  let b := fresh "b" in let E := fresh "Ei" in
  destruct (idx_ok l i) as (b & E); [lia | rewrite E; cbn [bind]].
Ltac ok_slice l a b :=
  let s := fresh "s" in let E := fresh "Es" in let L := fresh "Ls" in
  destruct (slice_ok l a b) as (s & E & L); [lia | lia | unfold slice_to, slice_from; rewrite E; cbn [bind]].
