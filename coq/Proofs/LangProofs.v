(* C05 proofs, part 3: Accept-Language — the model's choice on a rendered RFC 7231 list is the
   first entry of greatest weight among the languages of the table (lang_is_argmax_first). *)
From Coq Require Import List NArith Bool Lia Arith.
From Coq Require Import Strings.Byte.
From HN Require Import Base.Bytes Base.Http1Text Model.Lang Gen.Languages
  Spec.Http1Grammar Proofs.Http1TextProofs Proofs.Http1Proofs.
Import ListNotations.
Open Scope N_scope.

(* ---------- the table: a HashMap built by inserts = first match, because keys are distinct ---------- *)
Fixpoint nodupb (l : list bytes) : bool :=
  match l with [] => true | x :: r => negb (mem_bytes x r) && nodupb r end.
Lemma languages_nodup : nodupb (map fst languages) = true.
Proof. vm_compute. reflexivity. Qed.

Lemma bytes_eqb_sym a b : bytes_eqb a b = bytes_eqb b a.
Proof.
  destruct (bytes_eqb a b) eqn:E.
  - apply bytes_eqb_eq in E. subst. symmetry. apply bytes_eqb_refl.
  - destruct (bytes_eqb b a) eqn:F; [|reflexivity]. apply bytes_eqb_eq in F. subst. rewrite bytes_eqb_refl in E. discriminate.
Qed.

Lemma find_notin (l : list (bytes * bytes)) code : mem_bytes code (map fst l) = false ->
  find (fun e => bytes_eqb (fst e) code) l = None.
Proof.
  induction l as [|[k v] r IH]; [reflexivity|]. cbn [map fst mem_bytes existsb find].
  unfold mem_bytes in *. cbn [existsb]. intros H. apply orb_false_iff in H as [H1 H2].
  rewrite bytes_eqb_sym, H1. now apply IH.
Qed.

Lemma fold_lookup code : forall (l : list (bytes * bytes)) acc, nodupb (map fst l) = true ->
  fold_left (fun acc kv => if bytes_eqb (fst kv) code then Some (snd kv) else acc) l acc
  = match find (fun e => bytes_eqb (fst e) code) l with Some e => Some (snd e) | None => acc end.
Proof.
  induction l as [|[k v] r IH]; intros acc H; [reflexivity|].
  cbn [map fst nodupb] in H. apply andb_true_iff in H as [H1 H2]. apply negb_true_iff in H1.
  cbn [fold_left find fst snd]. destruct (bytes_eqb k code) eqn:E.
  - apply bytes_eqb_eq in E. subst k. rewrite IH by exact H2. now rewrite find_notin.
  - now apply IH.
Qed.

Lemma lookup_agree code : lang_lookup code = language_name code.
Proof.
  unfold lang_lookup, language_name. rewrite fold_lookup by apply languages_nodup.
  now destruct (find _ languages).
Qed.

(* ---------- qvalues: the model reads every RFC qvalue as its value in thousandths ---------- *)
Definition q_fact (e : bytes * N) : bool :=
  match parse_quality (Some (bs "q=" ++ fst e)) with QThousandths n => n =? snd e | QUnspec => false end
  && match parse_quality (Some (bs "Q=" ++ fst e)) with QThousandths n => n =? snd e | QUnspec => false end
  && lacks ";"%byte (fst e) && lacks ","%byte (fst e) && forallb vis (fst e).
Lemma qvalues_facts : forallb q_fact qvalues = true.
Proof. vm_compute. reflexivity. Qed.

Lemma qvalue_facts q n : qvalue_of q = Some n ->
  parse_quality (Some (bs "q=" ++ q)) = QThousandths n /\ parse_quality (Some (bs "Q=" ++ q)) = QThousandths n
  /\ lacks ";"%byte q = true /\ lacks ","%byte q = true
  /\ forallb vis q = true.
Proof.
  unfold qvalue_of. destruct (find _ qvalues) as [e|] eqn:F; [|discriminate]. cbn [option_map]. intros [= <-].
  apply find_some in F as [Hin He]. apply bytes_eqb_eq in He. subst q.
  pose proof qvalues_facts as Q. rewrite forallb_forall in Q. specialize (Q e Hin).
  unfold q_fact in Q. apply andb_true_iff in Q as [Q Q4]. apply andb_true_iff in Q as [Q Q3]. apply andb_true_iff in Q as [Q Q2].
  apply andb_true_iff in Q as [Q1 Q1'].
  repeat split; try assumption.
  - destruct (parse_quality (Some (bs "q=" ++ fst e))); [|discriminate]. apply N.eqb_eq in Q1. now subst.
  - destruct (parse_quality (Some (bs "Q=" ++ fst e))); [|discriminate]. apply N.eqb_eq in Q1'. now subst.
Qed.

(* ---------- characters of a language-range ---------- *)
Definition tagc (b : byte) : bool := is_alnum b || beqb b "-"%byte || beqb b "*"%byte.

Lemma split_byte_forall (P : byte -> bool) c : P c = true -> forall t,
  forallb (forallb P) (split_byte c t) = true -> forallb P t = true.
Proof.
  intros Pc. induction t as [|b r IH]; [reflexivity|]. cbn [split_byte].
  destruct (beqb b c) eqn:E.
  - apply beqb_eq in E. subst b. cbn [forallb]. intros H. rewrite Pc. now apply IH.
  - destruct (split_byte c r) as [|x xs]; cbn [cons_head forallb].
    + intros H. rewrite !andb_true_r in H. rewrite H. now apply IH.
    + intros H. apply andb_true_iff in H as [H1 H2]. apply andb_true_iff in H1 as [H0 H1]. rewrite H0.
      apply IH. cbn [forallb]. now rewrite H1, H2.
Qed.

Lemma alnum_tagc b : is_alnum b = true -> tagc b = true.
Proof. unfold tagc. now intros ->. Qed.
Lemma alpha_alnum b : is_alpha b = true -> is_alnum b = true.
Proof. unfold is_alnum. now intros ->. Qed.

Lemma tag_ok_chars t : tag_ok t = true -> forallb tagc t = true /\ t <> [].
Proof.
  unfold tag_ok. intros H. apply orb_true_iff in H as [H|H].
  - apply bytes_eqb_eq in H. subst. split; [reflexivity | discriminate].
  - split.
    + apply (split_byte_forall tagc "-"%byte); [reflexivity|].
      destruct (split_byte "-"%byte t) as [|p rest]; [discriminate|].
      apply andb_true_iff in H as [Hp Hr]. cbn [forallb]. apply andb_true_iff. split.
      * unfold subtag_ok in Hp. apply andb_true_iff in Hp as [_ Hp]. rewrite forallb_forall in *.
        intros b Hb. apply alnum_tagc, alpha_alnum. now apply Hp.
      * rewrite forallb_forall in *. intros s Hs. specialize (Hr s Hs). unfold subtag_ok in Hr.
        apply andb_true_iff in Hr as [_ Hr]. rewrite forallb_forall in *. intros b Hb. apply alnum_tagc. now apply Hr.
    + intros ->. cbn in H. discriminate.
Qed.

Lemma tagc_vis b : tagc b = true -> vis b = true /\ beqb b ";"%byte = false /\ beqb b ","%byte = false.
Proof.
  unfold tagc. intros H. apply orb_true_iff in H as [H|H]; [apply orb_true_iff in H as [H|H]|].
  - unfold is_alnum, is_alpha, is_digit in H. rewrite !beqb_b2n. unfold vis.
    assert (R : (48 <= b2n b <= 57) \/ (65 <= b2n b <= 90) \/ (97 <= b2n b <= 122)).
    { repeat (apply orb_true_iff in H as [H|H]).
      all: try (apply in_rng_iff in H; lia).
      all: try (apply andb_true_iff in H as [H1 H2]; apply N.leb_le in H1, H2; lia). }
    repeat split; [apply in_rng_iff; lia | apply N.eqb_neq; cbn; lia | apply N.eqb_neq; cbn; lia].
  - apply beqb_eq in H. subst. repeat split; reflexivity.
  - apply beqb_eq in H. subst. repeat split; reflexivity.
Qed.
Lemma tagc_all t : forallb tagc t = true ->
  forallb vis t = true /\ lacks ";"%byte t = true /\ lacks ","%byte t = true.
Proof.
  unfold lacks. rewrite !forallb_forall. intros H. repeat split; intros b Hb; destruct (tagc_vis b (H b Hb)) as (A & B & C);
    [exact A | now rewrite B | now rewrite C].
Qed.
Lemma ows_lacks c l : is_ows l = true -> is_ows_byte c = false -> lacks c l = true.
Proof.
  unfold is_ows, lacks. rewrite !forallb_forall. intros H Hc b Hb. apply negb_true_iff, beqb_neq. intros ->.
  rewrite (H c Hb) in Hc. discriminate.
Qed.
Lemma lacks_app c a b : lacks c (a ++ b) = lacks c a && lacks c b.
Proof. apply forallb_app. Qed.

Lemma ascii_lower_noupper l : existsb is_upper l = false -> ascii_lower l = l.
Proof.
  induction l as [|b r IH]; [reflexivity|]. cbn [existsb]. intros H. apply orb_false_iff in H as [H1 H2].
  unfold ascii_lower. cbn [map]. rewrite H1. f_equal. now apply IH.
Qed.
Lemma hd_split_byte c l : hd [] (split_byte c l) = before_byte c l.
Proof.
  induction l as [|b r IH]; [reflexivity|]. cbn [split_byte before_byte]. destruct (beqb b c); [reflexivity|].
  destruct (split_byte c r); cbn [cons_head hd] in *; now rewrite <- IH.
Qed.

(* ---------- one list element ---------- *)
Definition entry_spec (i : lang_item) : option (qres * bytes) :=
  match language_name (ascii_lower (primary_subtag (li_tag i))) with
  | Some n => Some (QThousandths (item_weight i), n)
  | None => None end.

Lemma trim_tag pre t o : is_ows pre = true -> is_ows o = true -> forallb vis t = true -> trim (pre ++ t ++ o) = t.
Proof.
  intros H1 H2 Hv. apply trim_field; try (now apply is_ows_ascii_ws).
  - apply utf8_valid_ascii. now apply vis_ascii.
  - now apply ws_len_allvis.
  - now apply ws_len_rev_allvis.
Qed.

(* the weight parameter is trimmed before "q=" is removed *)
Lemma parse_quality_trim p p' : trim p = trim p' -> parse_quality (Some p) = parse_quality (Some p').
Proof. intros H. unfold parse_quality. now rewrite H. Qed.

Lemma lang_entry_item i : item_ok i = true ->
  lang_entry (render_item i) = entry_spec i /\ lacks ","%byte (render_item i) = true.
Proof.
  unfold item_ok. intros Hok.
  apply andb_true_iff in Hok as [Hok Hw]. apply andb_true_iff in Hok as [Hok Htag].
  apply andb_true_iff in Hok as [Hpre Hpost].
  destruct (tag_ok_chars _ Htag) as [Hc Hne]. destruct (tagc_all _ Hc) as (Vt & St & Ct).
  assert (Look : lang_lookup (lower_ascii (before_byte "-"%byte (li_tag i))) = language_name (ascii_lower (primary_subtag (li_tag i)))).
  { rewrite lookup_agree. reflexivity. }
  unfold lang_entry, entry_spec, render_item, item_weight.
  destruct (li_weight i) as [[[o1 o2] q]|].
  - apply andb_true_iff in Hw as [Hw Hq]. apply andb_true_iff in Hw as [Ho1 Ho2].
    destruct (qvalue_of q) as [n|] eqn:Q; [|discriminate].
    destruct (qvalue_facts _ _ Q) as (PQ & PQ' & Sq & Cq & Vq).
    set (lit := if li_qupper i then _ else _).
    assert (Fl : forallb vis lit = true /\ lacks ";"%byte lit = true /\ lacks ","%byte lit = true /\
                 parse_quality (Some (lit ++ q)) = QThousandths n).
    { unfold lit. destruct (li_qupper i); repeat split; try reflexivity; assumption. }
    destruct Fl as (Vlit & Slit & Clit & Plit).
    assert (Vl : forallb vis (lit ++ q) = true) by (now rewrite forallb_app, Vq, Vlit).
    split.
    + assert (R : li_pre i ++ li_tag i ++ (o1 ++ ";"%byte :: o2 ++ lit ++ q) ++ li_post i
                  = (li_pre i ++ li_tag i ++ o1) ++ ";"%byte :: (o2 ++ (lit ++ q) ++ li_post i))
        by (rewrite <- !app_assoc; cbn [app]; rewrite <- !app_assoc; reflexivity).
      rewrite R. clear R.
      rewrite split_byte_app.
      2:{ rewrite !lacks_app, St, (ows_lacks _ _ Hpre), (ows_lacks _ _ Ho1); reflexivity. }
      rewrite split_byte_lacks.
      2:{ rewrite !lacks_app, Sq, Slit, (ows_lacks _ _ Ho2), (ows_lacks _ _ Hpost); reflexivity. }
      cbn [hd nth_error]. rewrite trim_tag by assumption.
      destruct (li_tag i) eqn:Et; [congruence|]. cbn [bytes_eqb]. rewrite <- Et in *.
      rewrite hd_split_byte, Look. destruct (language_name _); [|reflexivity]. f_equal. f_equal.
      rewrite <- Plit. apply parse_quality_trim. rewrite trim_tag by assumption. symmetry. now apply trim_vis.
    + assert (R : li_pre i ++ li_tag i ++ (o1 ++ ";"%byte :: o2 ++ lit ++ q) ++ li_post i
                  = li_pre i ++ li_tag i ++ o1 ++ [";"%byte] ++ o2 ++ lit ++ q ++ li_post i)
        by (rewrite <- !app_assoc; cbn [app]; rewrite <- !app_assoc; reflexivity).
      rewrite R. clear R.
      rewrite !lacks_app, (ows_lacks _ _ Hpre), Ct, (ows_lacks _ _ Ho1), (ows_lacks _ _ Ho2), Clit, Cq, (ows_lacks _ _ Hpost) by reflexivity.
      reflexivity.
  - split.
    + cbn [app].
      rewrite split_byte_lacks.
      2:{ rewrite !lacks_app, St, (ows_lacks _ _ Hpre), (ows_lacks _ _ Hpost); reflexivity. }
      cbn [hd nth_error]. rewrite trim_tag by assumption.
      destruct (li_tag i) eqn:Et; [congruence|]. cbn [bytes_eqb]. rewrite <- Et in *.
      rewrite hd_split_byte, Look. reflexivity.
    + cbn [app]. rewrite !lacks_app, Ct, (ows_lacks _ _ Hpre), (ows_lacks _ _ Hpost); reflexivity.
Qed.

(* ---------- the list ---------- *)
Lemma split_sep_concat c : forall ls, ls <> [] -> Forall (fun l => lacks c l = true) ls ->
  split_byte c (sep_concat c ls) = ls.
Proof.
  induction ls as [|x ls IH]; intros Hne H; [congruence|].
  inversion H as [|? ? Hx Hls]; subst. destruct ls as [|y r].
  - cbn [sep_concat]. now apply split_byte_lacks.
  - change (sep_concat c (x :: y :: r)) with (x ++ c :: sep_concat c (y :: r)).
    rewrite split_byte_app by exact Hx. rewrite IH; [reflexivity | discriminate | exact Hls].
Qed.

(* the loop of max_by on entries without unspecified weights *)
Fixpoint pick (c : list (N * bytes)) (best : option (N * bytes)) : lang_res :=
  match c with
  | [] => match best with Some (_, n) => LSome n | None => LNone end
  | (q, n) :: r =>
      match best with
      | None => pick r (Some (q, n))
      | Some (bq, _) => if bq <? q then pick r (Some (q, n)) else pick r best
      end
  end.

Lemma lang_max_pick : forall items best,
  lang_max (map entry_spec items) best false = pick (candidates items) best.
Proof.
  induction items as [|i items IH]; intros best; [reflexivity|].
  cbn [map candidates flat_map]. unfold entry_spec at 1.
  destruct (language_name _) as [n|]; cbn [app lang_max pick].
  - destruct best as [[bq bn]|]; [destruct (bq <? item_weight i)|]; apply IH.
  - apply IH.
Qed.

Definition first_best (c : list (N * bytes)) : lang_res :=
  match find (fun e => fst e =? best_weight c) c with Some (_, n) => LSome n | None => LNone end.

Lemma best_weight_cons q n r : best_weight ((q, n) :: r) = N.max q (best_weight r).
Proof. reflexivity. Qed.

Lemma pick_some : forall c bq bn,
  pick c (Some (bq, bn)) = if best_weight c <=? bq then LSome bn else first_best c.
Proof.
  induction c as [|[q n] r IH]; intros bq bn.
  - cbn [pick best_weight map fold_right]. assert (Z : (0 <=? bq) = true) by (apply N.leb_le; lia). now rewrite Z.
  - cbn [pick]. unfold first_best. rewrite best_weight_cons. cbn [find fst].
    destruct (bq <? q) eqn:E.
    + apply N.ltb_lt in E. rewrite IH.
      assert (F : (N.max q (best_weight r) <=? bq) = false) by (apply N.leb_gt; lia). rewrite F.
      destruct (best_weight r <=? q) eqn:G.
      * apply N.leb_le in G. assert (Q : (q =? N.max q (best_weight r)) = true) by (apply N.eqb_eq; lia). now rewrite Q.
      * apply N.leb_gt in G. assert (Q : (q =? N.max q (best_weight r)) = false) by (apply N.eqb_neq; lia). rewrite Q.
        unfold first_best. replace (N.max q (best_weight r)) with (best_weight r) by lia. reflexivity.
    + apply N.ltb_ge in E. rewrite IH.
      destruct (best_weight r <=? bq) eqn:G.
      * apply N.leb_le in G. assert (F : (N.max q (best_weight r) <=? bq) = true) by (apply N.leb_le; lia). now rewrite F.
      * apply N.leb_gt in G. assert (F : (N.max q (best_weight r) <=? bq) = false) by (apply N.leb_gt; lia). rewrite F.
        assert (Q : (q =? N.max q (best_weight r)) = false) by (apply N.eqb_neq; lia). rewrite Q.
        unfold first_best. replace (N.max q (best_weight r)) with (best_weight r) by lia. reflexivity.
Qed.

Lemma pick_none c : pick c None = first_best c.
Proof.
  destruct c as [|[q n] r]; [reflexivity|]. cbn [pick]. rewrite pick_some.
  unfold first_best. rewrite best_weight_cons. cbn [find fst].
  destruct (best_weight r <=? q) eqn:G.
  - apply N.leb_le in G. assert (Q : (q =? N.max q (best_weight r)) = true) by (apply N.eqb_eq; lia). now rewrite Q.
  - apply N.leb_gt in G. assert (Q : (q =? N.max q (best_weight r)) = false) by (apply N.eqb_neq; lia). rewrite Q.
    unfold first_best. replace (N.max q (best_weight r)) with (best_weight r) by lia. reflexivity.
Qed.

Theorem lang_is_argmax_first items :
  items_ok items = true ->
  get_highest_quality_language (render_value (VLang items)) = spec_lang items.
Proof.
  intros Hok.
  unfold items_ok in Hok. apply andb_true_iff in Hok as [Hok _]. apply andb_true_iff in Hok as [Hok _].
  unfold get_highest_quality_language. cbn [render_value].
  destruct items as [|i0 items0] eqn:Ei; [reflexivity|]. rewrite <- Ei in *.
  assert (A : Forall (fun i => lang_entry (render_item i) = entry_spec i /\ lacks ","%byte (render_item i) = true) items).
  { apply Forall_forall. intros i Hi. rewrite forallb_forall in Hok.
    apply lang_entry_item; auto. }
  rewrite split_sep_concat.
  - rewrite map_map.
    assert (M : map (fun x => lang_entry (render_item x)) items = map entry_spec items).
    { apply map_ext_in. intros i Hi. rewrite Forall_forall in A. now destruct (A i Hi). }
    rewrite M, lang_max_pick, pick_none. reflexivity.
  - rewrite Ei. discriminate.
  - apply Forall_map. eapply Forall_impl; [|exact A]. now intros i [_ H].
Qed.
