(* The Huffman code regenerated from the crate (Gen/Huffman.v) is a complete prefix code whose tree
   the decoder model walks, and decoding inverts RFC 7541 5.2 encoding (with EOS-prefix padding). *)
From Coq Require Import List NArith ZArith Bool Lia ZifyBool ZifyN Arith.
From Coq Require Import Strings.Byte.
From HN Require Import Base.Bytes Model.H2Text Model.Hpack Spec.H2Spec Gen.Huffman.
Import ListNotations.
Open Scope N_scope.

(* ---------- table sanity (all by computation on the regenerated table) ---------- *)
Lemma table_has_257_entries : length huffman_table = 257%nat.
Proof. vm_compute. reflexivity. Qed.

(* following a bit string through internal nodes *)
Fixpoint walk (t : htree) (bits : list bool) {struct bits} : option htree :=
  match bits with
  | [] => Some t
  | b :: r => match t with HNode z o => walk (if b then o else z) r | _ => None end
  end.

(* every symbol's code leads from the root through internal nodes to exactly its own leaf:
   the 257 codes are pairwise prefix-free and the decoding tree is the code tree *)
Definition code_reaches_leaf (n : nat) : bool :=
  match nth n huff_codes [] with
  | [] => false
  | c => match walk huff_tree c with Some (HLeaf s) => s =? N.of_nat n | _ => false end
  end.
Lemma all_codes_reach_their_leaf : forallb code_reaches_leaf (seq 0 257) = true.
Proof. vm_compute. reflexivity. Qed.

(* the tree has no empty branch: the code is complete (Kraft sum 1), every bit string decodes *)
Fixpoint complete (t : htree) : bool :=
  match t with HEmpty => false | HLeaf _ => true | HNode z o => complete z && complete o end.
Lemma huff_tree_complete : complete huff_tree = true.
Proof. vm_compute. reflexivity. Qed.

(* EOS is thirty 1 bits; no code of fewer than 8 bits consists of 1 bits only (padding never decodes) *)
Lemma eos_is_30_ones : eos_bits = repeat true 30.
Proof. vm_compute. reflexivity. Qed.

Lemma sym_code_walk (b : byte) :
  sym_code b <> [] /\ walk huff_tree (sym_code b) = Some (HLeaf (b2n b)).
Proof.
  pose proof all_codes_reach_their_leaf as A. rewrite forallb_forall in A.
  pose proof (b2n_lt b) as Hb.
  specialize (A (N.to_nat (b2n b))). unfold code_reaches_leaf in A. rewrite Nnat.N2Nat.id in A.
  unfold sym_code. destruct (nth (N.to_nat (b2n b)) huff_codes []) as [|x c] eqn:E.
  - assert (H : false = true) by (apply A; apply in_seq; lia). discriminate.
  - split; [discriminate|].
    assert (H : match walk huff_tree (x :: c) with Some (HLeaf s) => s =? b2n b | _ => false end = true)
      by (apply A; apply in_seq; lia).
    destruct (walk huff_tree (x :: c)) as [[|s|]|]; try discriminate. f_equal. f_equal. lia.
Qed.

(* ---------- decoding one symbol ---------- *)
Lemma walk_leaf_nonempty t x r s : walk t (x :: r) = Some (HLeaf s) -> exists z o, t = HNode z o.
Proof. destruct t; cbn; try discriminate. eauto. Qed.

Lemma huff_loop_symbol bits1 : forall rest cur pos acc s,
  bits1 <> [] -> walk pos bits1 = Some (HLeaf s) -> s <> 256 ->
  huff_loop (bits1 ++ rest) cur pos acc = huff_loop rest [] huff_tree (n2b s :: acc).
Proof.
  induction bits1 as [|b r1 IH]; intros rest cur pos acc s Hne Hw Hs; [congruence|].
  destruct (walk_leaf_nonempty _ _ _ _ Hw) as (z & o & ->).
  cbn [app huff_loop]. cbn [walk] in Hw.
  destruct r1 as [|b' r1'].
  - change (Some (if b then o else z) = Some (HLeaf s)) in Hw. inversion Hw as [Hn]. rewrite Hn.
    replace (s =? 256) with false by lia. reflexivity.
  - destruct (walk_leaf_nonempty _ _ _ _ Hw) as (z' & o' & Hn). rewrite Hn.
    rewrite <- Hn. apply IH; [discriminate|exact Hw|exact Hs].
Qed.

(* ---------- padding ---------- *)
Lemma huff_loop_padding k acc : (k <= 7)%nat ->
  huff_loop (repeat true k) [] huff_tree acc = Some (rev acc).
Proof.
  intros H. do 8 (destruct k as [|k]; [vm_compute; reflexivity|]). lia.
Qed.

(* ---------- a whole string ---------- *)
Lemma huff_loop_string (s : bytes) : forall acc k, (k <= 7)%nat ->
  huff_loop (flat_map sym_code s ++ repeat true k) [] huff_tree acc = Some (rev acc ++ s).
Proof.
  induction s as [|b r IH]; intros acc k Hk.
  - cbn [flat_map app]. rewrite huff_loop_padding by exact Hk. now rewrite app_nil_r.
  - cbn [flat_map]. rewrite <- app_assoc.
    destruct (sym_code_walk b) as [Hne Hw]. pose proof (b2n_lt b).
    rewrite (huff_loop_symbol _ _ _ _ _ _ Hne Hw) by lia.
    rewrite n2b_b2n, IH by exact Hk. cbn [rev]. now rewrite <- app_assoc.
Qed.

(* ---------- bits <-> octets ---------- *)
Lemma byte_bits_val b7 b6 b5 b4 b3 b2 b1 b0 :
  byte_bits (n2b (bits_val [b7; b6; b5; b4; b3; b2; b1; b0] 0)) = [b7; b6; b5; b4; b3; b2; b1; b0].
Proof. destruct b7, b6, b5, b4, b3, b2, b1, b0; reflexivity. Qed.

Lemma eight_ind (P : list bool -> Prop) :
  (forall l, (length l < 8)%nat -> P l) ->
  (forall b7 b6 b5 b4 b3 b2 b1 b0 r, P r -> P (b7 :: b6 :: b5 :: b4 :: b3 :: b2 :: b1 :: b0 :: r)) ->
  forall l, P l.
Proof.
  intros Hs Hc. fix IH 1. intros l.
  destruct l as [|b7 [|b6 [|b5 [|b4 [|b3 [|b2 [|b1 [|b0 r]]]]]]]]; try (apply Hs; cbn [length]; lia).
  apply Hc. apply IH.
Qed.

Lemma pack_partial (l : list bool) : l <> [] -> (length l < 8)%nat ->
  flat_map byte_bits (pack l) = l ++ repeat true (8 - length l).
Proof.
  intros Hne Hl.
  destruct l as [|b7 [|b6 [|b5 [|b4 [|b3 [|b2 [|b1 [|b0 r]]]]]]]]; try congruence;
    try (cbn [length] in Hl; lia);
    cbn [pack length Nat.sub repeat app flat_map]; rewrite byte_bits_val; reflexivity.
Qed.

Lemma pack_bits : forall bits, exists k, (k <= 7)%nat /\ flat_map byte_bits (pack bits) = bits ++ repeat true k.
Proof.
  induction bits as [l Hl | b7 b6 b5 b4 b3 b2 b1 b0 r IH] using eight_ind.
  - destruct l as [|x l'] eqn:E.
    + exists 0%nat. split; [lia|reflexivity].
    + exists (8 - length (x :: l'))%nat. split; [cbn [length]; lia|].
      apply pack_partial; [discriminate|exact Hl].
  - destruct IH as (k & Hk & E). exists k. split; [exact Hk|].
    cbn [pack flat_map]. rewrite byte_bits_val, E. reflexivity.
Qed.

(* ---------- RFC 7541 5.2 Huffman encoding is inverted by the decoder ---------- *)
Theorem huffman_roundtrip (s : bytes) : huffman_decode (huff_encode s) = Some s.
Proof.
  unfold huffman_decode, huff_encode.
  destruct (pack_bits (flat_map sym_code s)) as (k & Hk & ->).
  now rewrite huff_loop_string.
Qed.
