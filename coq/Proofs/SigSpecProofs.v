(* The reference reader (Spec/SigTextSpec.v) reads every printed well-formed value back:
   spec_tcp (print_tcp_sig s) = Some s, spec_http (print_http_sig s) = Some s.  Hence the canonical lines
   are exactly the printed forms of the well-formed values. *)
From Coq Require Import List NArith Bool Lia ZifyBool ZifyN.
From Coq Require Import Strings.Byte.
From HN Require Import Base.Bytes Model.SigAst Model.SigText Spec.SigTextSpec Proofs.SigTextProofs.
Import ListNotations.
Open Scope N_scope.

Arguments beqb !a !b.
Arguments show_N : simpl never.

(* ================= bytes that do not occur ================= *)
Definition avoid (c : byte) (l : bytes) : bool := forallb (fun b => negb (beqb b c)) l.

Lemma avoid_app c a b : avoid c (a ++ b) = avoid c a && avoid c b.
Proof. apply forallb_app. Qed.

Lemma avoid_of (p : byte -> bool) c l : p c = false -> forallb p l = true -> avoid c l = true.
Proof.
  intros Hc H. unfold avoid. rewrite forallb_forall in *. intros b Hb.
  destruct (beqb b c) eqn:E; [|reflexivity]. apply beqb_eq in E. subst. rewrite (H c Hb) in Hc. discriminate.
Qed.

Lemma avoid_show_N c n : is_digit c = false -> avoid c (show_N n) = true.
Proof. intros H. apply (avoid_of is_digit); auto using show_N_digits. Qed.

Lemma avoid_join c sep (l : list bytes) :
  avoid c sep = true -> (forall x, In x l -> avoid c x = true) -> avoid c (join sep l) = true.
Proof.
  intros Hs. induction l as [|x l IH]; intros H; [reflexivity|].
  destruct l as [|y l]; [cbn; apply H; now left|].
  rewrite join_cons2, !avoid_app, Hs, (H x (or_introl eq_refl)). cbn [andb]. apply IH. intros z Hz. apply H. now right.
Qed.

(* ================= split_on ================= *)
Lemma split_on_aux_last c f : forall cur, avoid c f = true -> split_on_aux c f cur = [rev cur ++ f].
Proof.
  induction f as [|b f IH]; intros cur H; cbn [split_on_aux].
  - now rewrite app_nil_r.
  - cbn in H. apply andb_true_iff in H as [Hb Hf]. destruct (beqb b c); [discriminate|].
    rewrite IH by assumption. cbn [rev]. now rewrite <- app_assoc.
Qed.

Lemma split_on_aux_sep c f rest : forall cur, avoid c f = true ->
  split_on_aux c (f ++ c :: rest) cur = (rev cur ++ f) :: split_on_aux c rest [].
Proof.
  induction f as [|b f IH]; intros cur H; cbn [app split_on_aux].
  - rewrite beqb_refl. now rewrite app_nil_r.
  - cbn in H. apply andb_true_iff in H as [Hb Hf]. destruct (beqb b c); [discriminate|].
    rewrite IH by assumption. cbn [rev]. now rewrite <- app_assoc.
Qed.

Lemma split_on_join c (fs : list bytes) :
  fs <> [] -> (forall f, In f fs -> avoid c f = true) -> split_on c (join [c] fs) = fs.
Proof.
  unfold split_on. induction fs as [|f fs IH]; intros Hne H; [congruence|].
  destruct fs as [|g fs].
  - cbn [join]. rewrite split_on_aux_last by (apply H; now left). reflexivity.
  - rewrite join_cons2. cbn [app]. rewrite split_on_aux_sep by (apply H; now left). cbn [rev app].
    rewrite IH; [reflexivity | congruence | intros z Hz; apply H; now right].
Qed.

Lemma unsnoc_snoc l c : unsnoc (l ++ [c]) = Some (l, c).
Proof.
  unfold unsnoc, revl. rewrite <- !rev_alt. rewrite rev_app_distr. cbn. rewrite <- rev_alt. now rewrite rev_involutive.
Qed.

Lemma all_some_map {A} (rd : bytes -> option A) (pr : A -> bytes) l :
  (forall x, In x l -> rd (pr x) = Some x) -> all_some (map rd (map pr l)) = Some l.
Proof.
  induction l as [|x l IH]; intros H; [reflexivity|]. cbn [map all_some].
  rewrite (H x (or_introl eq_refl)). rewrite IH; [reflexivity | intros y Hy; apply H; now right].
Qed.

(* ================= numbers ================= *)
Lemma rd_num_show max n : n <= max -> rd_num max (show_N n) = Some n.
Proof.
  intros H. unfold rd_num. destruct (show_N_cons n) as (c & r & E & _).
  pose proof (show_N_digits n) as D. pose proof (read_show_N n) as R. rewrite E in *.
  change (forallb (fun b => (48 <=? b2n b) && (b2n b <=? 57)) (c :: r)) with (forallb is_digit (c :: r)). rewrite D.
  change (fold_left (fun a b => a * 10 + (b2n b - 48)) (c :: r) 0) with (read_N_digits (c :: r)). rewrite R.
  destruct (n <=? max) eqn:L; [reflexivity | lia].
Qed.

(* a printed number is not one of the non-numeric spellings *)
Lemma is_show_N t n : (match t with b :: _ => is_digit b = false | [] => True end) -> is t (show_N n) = false.
Proof.
  intros H. unfold is. destruct (show_N_cons n) as (c & r & E & Hc). rewrite E.
  destruct t as [|b t]; [reflexivity|]. cbn [bytes_eqb].
  assert (X : beqb c b = false) by (apply beqb_neq; intros ->; congruence). now rewrite X.
Qed.

Lemma forallb_last_digit l : l <> [] -> forallb is_digit l = true -> exists l' c, l = l' ++ [c] /\ is_digit c = true.
Proof.
  intros Hne H. destruct (exists_last Hne) as (l' & c & ->). exists l', c. split; [reflexivity|].
  rewrite forallb_app in H. apply andb_true_iff in H as [_ H]. cbn in H. now rewrite andb_true_r in H.
Qed.

(* ================= TCP tokens ================= *)
Lemma rd_ip_version_print v : rd_ip_version (print_ip_version v) = Some v.
Proof. destruct v; reflexivity. Qed.
Lemma rd_pclass_print v : rd_pclass (print_payload_size v) = Some v.
Proof. destruct v; reflexivity. Qed.
Lemma rd_quirk_print q : rd_quirk (print_quirk q) = Some q.
Proof. destruct q; reflexivity. Qed.

Lemma rd_ttl_print t : wf_ttl t = true -> rd_ttl (print_ttl t) = Some t.
Proof.
  intros Hwf. unfold rd_ttl. destruct t as [n|n d|n|n]; cbn [print_ttl wf_ttl] in *.
  - unfold split_on. rewrite split_on_aux_last by (now apply avoid_show_N). cbn [rev app].
    destruct (show_N_spec n) as (_ & D & Hne). destruct (forallb_last_digit _ Hne D) as (l' & c & E & Hc).
    rewrite E at 1. rewrite unsnoc_snoc.
    assert (X : beqb c "-"%byte = false) by (apply beqb_neq; intros ->; discriminate). rewrite X.
    rewrite rd_num_show by (now apply u8_le). reflexivity.
  - apply andb_true_iff in Hwf as [Hn Hd].
    unfold split_on. cbn [bs bs_to app]. rewrite split_on_aux_sep by (now apply avoid_show_N).
    rewrite split_on_aux_last by (now apply avoid_show_N). cbn [rev app].
    rewrite is_show_N by reflexivity. rewrite !rd_num_show by (now apply u8_le). reflexivity.
  - unfold split_on. cbn [bs bs_to app]. rewrite split_on_aux_sep by (now apply avoid_show_N).
    cbn [split_on_aux rev app]. change (beqb "?"%byte "+"%byte) with false. cbv iota. cbn [split_on_aux rev app].
    change (is (bs "?") [("?"%byte)]) with true. cbv iota. rewrite rd_num_show by (now apply u8_le). reflexivity.
  - unfold split_on. rewrite split_on_aux_last.
    2:{ rewrite avoid_app, avoid_show_N by reflexivity. reflexivity. }
    cbn [rev app]. change (bs "-") with [("-"%byte)]. rewrite unsnoc_snoc. change (beqb "-"%byte "-"%byte) with true. cbv iota.
    rewrite rd_num_show by (now apply u8_le). reflexivity.
Qed.

Lemma strip_prefix_show x p n : is_digit x = false -> strip_prefix (x :: p) (show_N n) = None.
Proof. intros H. destruct (show_N_cons n) as (c & r & E & Hc). rewrite E. now apply strip_prefix_digit. Qed.

Lemma rd_window_print w : wf_window w = true -> rd_window (print_window_size w) = Some w.
Proof.
  intros Hwf. unfold rd_window. destruct w as [n|n|n|n|]; cbn [print_window_size wf_window] in *.
  - change (is (bs "*") (bs "mss*" ++ show_N n)) with false. cbv iota. rewrite strip_prefix_app.
    rewrite rd_num_show by (now apply u8_le). reflexivity.
  - change (is (bs "*") (bs "mtu*" ++ show_N n)) with false. cbv iota.
    change (strip_prefix (bs "mss*") (bs "mtu*" ++ show_N n)) with (@None bytes). cbv iota.
    rewrite strip_prefix_app. rewrite rd_num_show by (now apply u8_le). reflexivity.
  - rewrite is_show_N by reflexivity. cbn [bs bs_to]. rewrite !strip_prefix_show by reflexivity.
    rewrite rd_num_show by (now apply u16_le). reflexivity.
  - change (is (bs "*") (bs "%" ++ show_N n)) with false. cbv iota.
    change (strip_prefix (bs "mss*") (bs "%" ++ show_N n)) with (@None bytes). cbv iota.
    change (strip_prefix (bs "mtu*") (bs "%" ++ show_N n)) with (@None bytes). cbv iota.
    rewrite strip_prefix_app. rewrite rd_num_show by (now apply u16_le). reflexivity.
  - reflexivity.
Qed.

Lemma rd_star_or_print max o : wf_optnum (fun n => n <=? max) o = true -> rd_star_or max (print_opt_num o) = Some o.
Proof.
  intros Hwf. unfold rd_star_or. destruct o as [n|]; cbn [print_opt_num wf_optnum] in *; [|reflexivity].
  rewrite is_show_N by reflexivity. rewrite rd_num_show by lia. reflexivity.
Qed.

Lemma rd_option_print o : wf_option o = true -> rd_option (print_tcp_option o) = Some o.
Proof.
  intros Hwf. unfold rd_option. destruct o as [n| | | | | | |n]; cbn [print_tcp_option wf_option] in *; try reflexivity.
  - change (is (bs "nop") (bs "eol+" ++ show_N n)) with false. change (is (bs "mss") (bs "eol+" ++ show_N n)) with false.
    change (is (bs "ws") (bs "eol+" ++ show_N n)) with false. change (is (bs "sok") (bs "eol+" ++ show_N n)) with false.
    change (is (bs "sack") (bs "eol+" ++ show_N n)) with false. change (is (bs "ts") (bs "eol+" ++ show_N n)) with false.
    cbv iota. rewrite strip_prefix_app. rewrite rd_num_show by (now apply u8_le). reflexivity.
  - change (is (bs "nop") (bs "?" ++ show_N n)) with false. change (is (bs "mss") (bs "?" ++ show_N n)) with false.
    change (is (bs "ws") (bs "?" ++ show_N n)) with false. change (is (bs "sok") (bs "?" ++ show_N n)) with false.
    change (is (bs "sack") (bs "?" ++ show_N n)) with false. change (is (bs "ts") (bs "?" ++ show_N n)) with false.
    cbv iota. change (strip_prefix (bs "eol+") (bs "?" ++ show_N n)) with (@None bytes). cbv iota.
    rewrite strip_prefix_app. rewrite rd_num_show by (now apply u8_le). reflexivity.
Qed.

(* ---- no ':' and no ',' inside tokens ---- *)
Definition colon_b : byte := ":"%byte.
Definition comma_b : byte := ","%byte.

Lemma avoid_print_ttl c t : is_digit c = false -> avoid c (bs "+?-") = true -> avoid c (print_ttl t) = true.
Proof.
  intros Hd Hs. destruct t; cbn [print_ttl]; rewrite ?avoid_app, ?avoid_show_N by assumption; cbn [andb];
  cbn in Hs; rewrite !andb_true_iff in Hs; destruct Hs as (H1 & H2 & H3 & _); cbn; rewrite ?H1, ?H2, ?H3; reflexivity.
Qed.

Lemma avoid_print_window c w : is_digit c = false -> avoid c (bs "mstu*%") = true -> avoid c (print_window_size w) = true.
Proof.
  intros Hd Hs. cbn in Hs. rewrite !andb_true_iff in Hs. destruct Hs as (H1 & H2 & H3 & H4 & H5 & H6 & _).
  destruct w; cbn [print_window_size]; rewrite ?avoid_app, ?avoid_show_N by assumption; cbn; rewrite ?H1, ?H2, ?H3, ?H4, ?H5, ?H6; reflexivity.
Qed.

Lemma avoid_print_opt_num c o : is_digit c = false -> avoid c (bs "*") = true -> avoid c (print_opt_num o) = true.
Proof. intros Hd Hs. destruct o; cbn [print_opt_num]; [now apply avoid_show_N | assumption]. Qed.

Lemma avoid_print_option c o : (c = colon_b \/ c = comma_b) -> avoid c (print_tcp_option o) = true.
Proof.
  intros [-> | ->]; destruct o; cbn [print_tcp_option]; rewrite ?avoid_app, ?avoid_show_N by reflexivity; reflexivity.
Qed.
Lemma avoid_print_quirk c q : (c = colon_b \/ c = comma_b) -> avoid c (print_quirk q) = true.
Proof. intros [-> | ->]; destruct q; reflexivity. Qed.

Lemma print_option_nonempty o : print_tcp_option o <> [].
Proof. destruct o; cbn [print_tcp_option bs bs_to app]; congruence. Qed.
Lemma print_quirk_nonempty q : print_quirk q <> [].
Proof. destruct q; cbn; congruence. Qed.

Lemma join_nonempty sep (l : list bytes) : l <> [] -> (forall x, In x l -> x <> []) -> join sep l <> [].
Proof.
  destruct l as [|x l]; [congruence|]. intros _ H. pose proof (H x (or_introl eq_refl)) as Hx.
  destruct l as [|y l]; [exact Hx|]. rewrite join_cons2. destruct x; [congruence | discriminate].
Qed.

Lemma rd_list_print {A} (rd : bytes -> option A) (pr : A -> bytes) l :
  (forall x, In x l -> rd (pr x) = Some x) -> (forall x, In x l -> avoid comma_b (pr x) = true) ->
  (forall x, In x l -> pr x <> []) ->
  rd_list rd (join comma (map pr l)) = Some l.
Proof.
  intros Hrd Hav Hne. unfold rd_list. destruct l as [|x l]; [reflexivity|].
  assert (J : join comma (map pr (x :: l)) <> []).
  { apply join_nonempty; [cbn; congruence|]. intros t Ht. apply in_map_iff in Ht as (y & <- & Hy). auto. }
  destruct (join comma (map pr (x :: l))) as [|b r] eqn:E; [congruence|]. rewrite <- E.
  change comma with [comma_b]. rewrite split_on_join.
  - now apply all_some_map.
  - cbn; congruence.
  - intros t Ht. apply in_map_iff in Ht as (y & <- & Hy). auto.
Qed.

Theorem spec_tcp_print s : wf_tcp s = true -> spec_tcp (print_tcp_sig s) = Some s.
Proof.
  intros Hwf. destruct (wf_tcp_parts s Hwf) as (Httl & Holen & Hmss & Hw & Hsc & Hol).
  destruct s as [ver ittl olen mss wsize wscale olayout quirks pclass].
  cbn [t_version t_ittl t_olen t_mss t_wsize t_wscale t_olayout t_quirks t_pclass] in *.
  unfold spec_tcp, print_tcp_sig. cbn [t_version t_ittl t_olen t_mss t_wsize t_wscale t_olayout t_quirks t_pclass].
  set (fw := print_window_size wsize ++ comma ++ print_opt_num wscale).
  assert (E : print_ip_version ver ++ colon ++ print_ttl ittl ++ colon ++ show_N olen ++ colon ++ print_opt_num mss ++ colon ++
              print_window_size wsize ++ comma ++ print_opt_num wscale ++ colon ++
              join comma (map print_tcp_option olayout) ++ colon ++ join comma (map print_quirk quirks) ++ colon ++
              print_payload_size pclass
            = join [colon_b] [print_ip_version ver; print_ttl ittl; show_N olen; print_opt_num mss; fw;
                              join comma (map print_tcp_option olayout); join comma (map print_quirk quirks);
                              print_payload_size pclass]).
  { unfold fw. cbn [join]. change [colon_b] with colon. now rewrite <- !app_assoc. }
  rewrite E. rewrite split_on_join.
  2:{ congruence. }
  2:{ intros f Hf. cbn [In] in Hf.
      repeat (destruct Hf as [<- | Hf]); try contradiction.
      - destruct ver; reflexivity.
      - apply avoid_print_ttl; reflexivity.
      - apply avoid_show_N; reflexivity.
      - apply avoid_print_opt_num; reflexivity.
      - unfold fw. rewrite !avoid_app. rewrite avoid_print_window, avoid_print_opt_num by reflexivity. reflexivity.
      - apply avoid_join; [reflexivity|]. intros t Ht. apply in_map_iff in Ht as (y & <- & _). apply avoid_print_option. now left.
      - apply avoid_join; [reflexivity|]. intros t Ht. apply in_map_iff in Ht as (y & <- & _). apply avoid_print_quirk. now left.
      - destruct pclass; reflexivity. }
  assert (Ew : split_on ","%byte fw = [print_window_size wsize; print_opt_num wscale]).
  { unfold fw. change (print_window_size wsize ++ comma ++ print_opt_num wscale)
      with (join [comma_b] [print_window_size wsize; print_opt_num wscale]).
    apply split_on_join; [congruence|]. intros f Hf. cbn [In] in Hf. destruct Hf as [<- | [<- | []]].
    - apply avoid_print_window; reflexivity.
    - apply avoid_print_opt_num; reflexivity. }
  rewrite Ew.
  rewrite rd_ip_version_print, rd_ttl_print, rd_num_show, (rd_star_or_print 65535), rd_window_print,
    (rd_star_or_print 255), rd_pclass_print by (assumption || now apply u8_le).
  rewrite rd_list_print.
  - rewrite rd_list_print.
    + reflexivity.
    + intros q _. apply rd_quirk_print.
    + intros q _. apply avoid_print_quirk. now right.
    + intros q _. apply print_quirk_nonempty.
  - intros o Ho. apply rd_option_print. rewrite forallb_forall in Hol. now apply Hol.
  - intros o _. apply avoid_print_option. now right.
  - intros o _. apply print_option_nonempty.
Qed.

(* canonical TCP lines are exactly the printed well-formed values *)
Theorem canonical_tcp_iff l : canonical_tcp l = true <-> exists s, wf_tcp s = true /\ print_tcp_sig s = l.
Proof.
  split.
  - intros H. destruct (canonical_inv _ _ _ _ H) as (s & _ & Hwf & Hp). eauto.
  - intros (s & Hwf & <-). unfold canonical_tcp, canonical. rewrite spec_tcp_print by assumption.
    rewrite Hwf, bytes_eqb_refl. reflexivity.
Qed.

(* ================= HTTP ================= *)
Definition prepend (t : bytes) (o : option (bytes * bytes)) : option (bytes * bytes) :=
  match o with Some (a, s) => Some (t ++ a, s) | None => None end.
(* bytes that neither separate (c) nor open a bracket *)
Definition plain (c : byte) (b : byte) : bool := negb (beqb b c) && negb (beqb b "["%byte).

Lemma prepend_app t u o : prepend t (prepend u o) = prepend (t ++ u) o.
Proof. destruct o as [[a s]|]; cbn; [now rewrite app_assoc | reflexivity]. Qed.

Lemma cut_top_plain c t r : forallb (plain c) t = true -> cut_top c false (t ++ r) = prepend t (cut_top c false r).
Proof.
  induction t as [|b t IH]; intros H; cbn [app].
  - now destruct (cut_top c false r) as [[a s]|].
  - cbn in H. apply andb_true_iff in H as [Hb Ht]. unfold plain in Hb. apply andb_true_iff in Hb as [H1 H2].
    cbn [cut_top]. destruct (beqb b c); [discriminate|]. destruct (beqb b "["%byte); [discriminate|].
    rewrite IH by assumption. now destruct (cut_top c false r) as [[a s]|].
Qed.

Lemma cut_top_inside c v r : avoid "]"%byte v = true ->
  cut_top c true (v ++ "]"%byte :: r) = prepend (v ++ ["]"%byte]) (cut_top c false r).
Proof.
  induction v as [|b v IH]; intros H; cbn [app cut_top].
  - change (negb (beqb "]"%byte "]"%byte)) with false. now destruct (cut_top c false r) as [[a s]|].
  - cbn in H. apply andb_true_iff in H as [Hb Hv]. rewrite Hb. rewrite IH by assumption.
    now destruct (cut_top c false r) as [[a s]|].
Qed.

Lemma cut_top_open c r : beqb "["%byte c = false ->
  cut_top c false ("["%byte :: r) = prepend ["["%byte] (cut_top c true r).
Proof. intros H. cbn [cut_top]. rewrite H. change (beqb "["%byte "["%byte) with true. now destruct (cut_top c true r) as [[a s]|]. Qed.

Lemma name_char_plain c l : (c = colon_b \/ c = comma_b) -> forallb name_char l = true -> forallb (plain c) l = true.
Proof.
  intros Hc H. rewrite forallb_forall in *. intros b Hb. specialize (H b Hb).
  unfold plain. destruct Hc as [-> | ->];
  (destruct (beqb b _) eqn:E1; [apply beqb_eq in E1; subst; discriminate|]);
  (destruct (beqb b "["%byte) eqn:E2; [apply beqb_eq in E2; subst; discriminate|]); reflexivity.
Qed.

Lemma not_rbracket_avoid v : forallb not_rbracket v = true -> avoid "]"%byte v = true.
Proof. apply not_rbracket_beqb. Qed.

Lemma wf_header_spec h : wf_header h = true ->
  h_name h <> [] /\ forallb name_char (h_name h) = true /\
  match h_value h with Some v => forallb not_rbracket v = true | None => True end.
Proof.
  unfold wf_header. rewrite !andb_true_iff. intros [[Hne Hn] Hv]. repeat split; auto.
  - intros E. rewrite E in Hne. discriminate.
  - destruct (h_value h); auto.
Qed.

(* a header as the grammar can express it: the name may be empty *)
Definition lwf (h : header) : bool :=
  forallb name_char (h_name h) && match h_value h with Some v => forallb not_rbracket v | None => true end.
Lemma lwf_spec h : lwf h = true ->
  forallb name_char (h_name h) = true /\ match h_value h with Some v => forallb not_rbracket v = true | None => True end.
Proof. unfold lwf. rewrite andb_true_iff. intros [Hn Hv]. split; [assumption|]. destruct (h_value h); auto. Qed.
Lemma wf_lwf h : wf_header h = true -> lwf h = true.
Proof. unfold wf_header, lwf. rewrite !andb_true_iff. tauto. Qed.
Lemma forallb_wf_lwf l : forallb wf_header l = true -> forallb lwf l = true.
Proof. rewrite !forallb_forall. intros H x Hx. apply wf_lwf. auto. Qed.

Lemma cut_top_header c h r : (c = colon_b \/ c = comma_b) -> lwf h = true ->
  cut_top c false (print_header h ++ r) = prepend (print_header h) (cut_top c false r).
Proof.
  intros Hc Hwf. destruct (lwf_spec h Hwf) as (Hn & Hv). unfold print_header.
  set (o := if h_optional h then bs "?" else []).
  assert (Ho : forallb (plain c) o = true) by (unfold o; destruct (h_optional h), Hc as [-> | ->]; reflexivity).
  rewrite <- !app_assoc. rewrite (cut_top_plain c o) by assumption.
  rewrite (cut_top_plain c (h_name h)) by (now apply name_char_plain).
  destruct (h_value h) as [v|].
  - rewrite <- !app_assoc. change (bs "=[" ++ v ++ bs "]" ++ r) with ("="%byte :: "["%byte :: v ++ "]"%byte :: r).
    assert (Heq : cut_top c false ("="%byte :: "["%byte :: v ++ "]"%byte :: r)
                  = prepend ["="%byte] (cut_top c false ("["%byte :: v ++ "]"%byte :: r))).
    { apply (cut_top_plain c ["="%byte]). destruct Hc as [-> | ->]; reflexivity. }
    rewrite Heq, cut_top_open by (destruct Hc as [-> | ->]; reflexivity).
    rewrite cut_top_inside by (now apply not_rbracket_avoid).
    rewrite !prepend_app. f_equal. cbn [bs bs_to app]. now rewrite <- !app_assoc.
  - cbn [app]. rewrite !prepend_app. now rewrite app_nil_r.
Qed.

Lemma cut_top_headers hs r : forallb lwf hs = true ->
  cut_top ":"%byte false (join comma (map print_header hs) ++ r)
  = prepend (join comma (map print_header hs)) (cut_top ":"%byte false r).
Proof.
  induction hs as [|h hs IH]; intros H.
  - cbn. now destruct (cut_top ":"%byte false r) as [[a s]|].
  - cbn in H. apply andb_true_iff in H as [Hh Hs]. destruct hs as [|g hs].
    + cbn [map join]. apply (cut_top_header colon_b); auto.
    + cbn [map]. rewrite join_cons2. rewrite <- !app_assoc.
      rewrite (cut_top_header colon_b) by auto.
      rewrite (cut_top_plain ":"%byte comma) by reflexivity.
      change (print_header g :: map print_header hs) with (map print_header (g :: hs)).
      rewrite IH by exact Hs. rewrite !prepend_app. now rewrite <- !app_assoc.
Qed.

Lemma cut_top_here c r : cut_top c false (c :: r) = Some ([], r).
Proof. cbn [cut_top]. now rewrite beqb_refl. Qed.

(* ---- splitting a header list at its top-level commas ---- *)
Lemma split_top_plain c t : forall r cur, forallb (plain c) t = true ->
  split_top c false (t ++ r) cur = split_top c false r (rev t ++ cur).
Proof.
  induction t as [|b t IH]; intros r cur H; [reflexivity|].
  cbn in H. apply andb_true_iff in H as [Hb Ht]. unfold plain in Hb. apply andb_true_iff in Hb as [H1 H2].
  cbn [app split_top]. destruct (beqb b c); [discriminate|]. destruct (beqb b "["%byte); [discriminate|].
  rewrite IH by assumption. cbn [rev]. now rewrite <- app_assoc.
Qed.

Lemma split_top_inside c v : forall r cur, avoid "]"%byte v = true ->
  split_top c true (v ++ "]"%byte :: r) cur = split_top c false r ("]"%byte :: rev v ++ cur).
Proof.
  induction v as [|b v IH]; intros r cur H; cbn [app split_top].
  - reflexivity.
  - cbn in H. apply andb_true_iff in H as [Hb Hv]. rewrite Hb. rewrite IH by assumption.
    cbn [rev]. now rewrite <- app_assoc.
Qed.

Lemma split_top_header h r cur : lwf h = true ->
  split_top ","%byte false (print_header h ++ r) cur = split_top ","%byte false r (rev (print_header h) ++ cur).
Proof.
  intros Hwf. destruct (lwf_spec h Hwf) as (Hn & Hv). unfold print_header.
  set (o := if h_optional h then bs "?" else []).
  assert (Ho : forallb (plain ","%byte) o = true) by (unfold o; destruct (h_optional h); reflexivity).
  rewrite <- !app_assoc. rewrite (split_top_plain ","%byte o) by assumption.
  rewrite (split_top_plain ","%byte (h_name h)) by (apply (name_char_plain comma_b); auto).
  destruct (h_value h) as [v|].
  - rewrite <- !app_assoc. change (bs "=[" ++ v ++ bs "]" ++ r) with ("="%byte :: "["%byte :: v ++ "]"%byte :: r).
    cbn [split_top]. change (beqb "="%byte ","%byte) with false. change (beqb "="%byte "["%byte) with false. cbv iota.
    cbn [split_top]. change (beqb "["%byte ","%byte) with false. change (beqb "["%byte "["%byte) with true. cbv iota.
    rewrite split_top_inside by (now apply not_rbracket_avoid).
    f_equal. rewrite !rev_app_distr. cbn [bs bs_to rev app]. rewrite <- !app_assoc. reflexivity.
  - cbn [app]. f_equal. rewrite app_nil_r. rewrite !rev_app_distr. now rewrite <- app_assoc.
Qed.

Lemma revl_rev' l : revl l = rev l.
Proof. unfold revl. symmetry. apply rev_alt. Qed.

Lemma split_top_headers hs : forall h, forallb lwf (h :: hs) = true ->
  split_top ","%byte false (join comma (map print_header (h :: hs))) [] = map print_header (h :: hs).
Proof.
  induction hs as [|g hs IH]; intros h H; cbn in H; apply andb_true_iff in H as [Hh Hs].
  - cbn [map join]. rewrite <- (app_nil_r (print_header h)) at 1. rewrite split_top_header by assumption.
    cbn [split_top]. rewrite app_nil_r, revl_rev', rev_involutive. reflexivity.
  - cbn [map]. rewrite join_cons2. rewrite split_top_header by assumption.
    cbn [comma bs bs_to app split_top]. change (beqb ","%byte ","%byte) with true. cbv iota.
    rewrite app_nil_r, revl_rev', rev_involutive.
    change (print_header g :: map print_header hs) with (map print_header (g :: hs)).
    rewrite IH by (cbn; assumption). reflexivity.
Qed.

(* rd_header after its decision about the leading '?' *)
Definition rd_body (optional : bool) (f1 : bytes) : option header :=
  let (name, r) := span name_char f1 in
  match r with
  | [] => Some {| h_optional := optional; h_name := name; h_value := None |}
  | _ => match strip_prefix (bs "=[") r with
         | Some v' => match unsnoc v' with
                      | Some (v, b) => if beqb b "]"%byte && forallb not_rbracket v
                                       then Some {| h_optional := optional; h_name := name; h_value := Some v |}
                                       else None
                      | None => None end
         | None => None end
  end.
Lemma rd_header_q t : rd_header ("?"%byte :: t) = rd_body true t.
Proof. reflexivity. Qed.
Lemma rd_header_nq c t : beqb c "?"%byte = false -> rd_header (c :: t) = rd_body false (c :: t).
Proof. intros H. unfold rd_header, rd_body. cbv iota beta. rewrite H. reflexivity. Qed.

Lemma rd_body_print o name value :
  forallb name_char name = true ->
  match value with Some v => forallb not_rbracket v = true | None => True end ->
  rd_body o (name ++ match value with Some v => bs "=[" ++ v ++ bs "]" | None => [] end)
  = Some {| h_optional := o; h_name := name; h_value := value |}.
Proof.
  intros Hn Hv. unfold rd_body. destruct value as [v|].
  - change (bs "=[" ++ v ++ bs "]") with ("="%byte :: "["%byte :: v ++ ["]"%byte]).
    rewrite span_app by (assumption || reflexivity).
    cbn [strip_prefix bs bs_to]. change (beqb "="%byte "="%byte) with true. change (beqb "["%byte "["%byte) with true.
    cbv iota. rewrite unsnoc_snoc. change (beqb "]"%byte "]"%byte) with true. rewrite Hv. reflexivity.
  - rewrite span_app by (assumption || reflexivity). reflexivity.
Qed.

Lemma rd_header_print h : lwf h = true -> rd_header (print_header h) = Some h.
Proof.
  intros Hwf. destruct (lwf_spec h Hwf) as (Hn & Hv).
  destruct h as [o name value]. cbn [h_optional h_name h_value] in *.
  unfold print_header. cbn [h_optional h_name h_value]. destruct o.
  - cbn [bs bs_to app]. rewrite rd_header_q. now apply rd_body_print.
  - cbn [app]. destruct name as [|c name].
    + (* empty name *) destruct value as [v|].
      * cbn [app]. change (bs "=[" ++ v ++ bs "]") with ("="%byte :: ("["%byte :: v ++ bs "]")).
        rewrite rd_header_nq by reflexivity.
        change ("="%byte :: ("["%byte :: v ++ bs "]")) with ([] ++ bs "=[" ++ v ++ bs "]").
        now apply (rd_body_print false [] (Some v)).
      * reflexivity.
    + pose proof Hn as Hn'. cbn in Hn'. apply andb_true_iff in Hn' as [Hc _].
      assert (Hq : beqb c "?"%byte = false) by (apply beqb_neq; intros ->; discriminate).
      change ((c :: name) ++ match value with Some v => bs "=[" ++ v ++ bs "]" | None => [] end)
        with (c :: (name ++ match value with Some v => bs "=[" ++ v ++ bs "]" | None => [] end)).
      rewrite rd_header_nq by assumption.
      change (c :: (name ++ match value with Some v => bs "=[" ++ v ++ bs "]" | None => [] end))
        with ((c :: name) ++ match value with Some v => bs "=[" ++ v ++ bs "]" | None => [] end).
      now apply rd_body_print.
Qed.

Lemma rd_headers_print h hs : forallb lwf (h :: hs) = true ->
  rd_headers (join comma (map print_header (h :: hs))) = Some (h :: hs).
Proof.
  intros H. unfold rd_headers. rewrite split_top_headers by assumption.
  apply all_some_map. intros x Hx. apply rd_header_print. rewrite forallb_forall in H. now apply H.
Qed.

Lemma filter_named_wf l : forallb wf_header l = true ->
  filter (fun h => negb (match h_name h with [] => true | _ => false end)) l = l.
Proof.
  induction l as [|h l IH]; cbn; [reflexivity|]. intros H. apply andb_true_iff in H as [Hh Hl].
  destruct (wf_header_spec h Hh) as (Hne & _). destruct (h_name h); [congruence|]. cbn. now rewrite IH.
Qed.

Theorem spec_http_print s : wf_http s = true -> spec_http (print_http_sig s) = Some s.
Proof.
  unfold wf_http. rewrite !andb_true_iff. intros [[[Hv Hne] Hho] Hha].
  destruct s as [ver horder habsent expsw]. cbn [hs_version hs_horder hs_habsent hs_expsw] in *.
  unfold spec_http, print_http_sig. cbn [hs_version hs_horder hs_habsent hs_expsw].
  assert (C1 : forall rest, cut_top ":"%byte false (print_http_version ver ++ colon ++ rest) = Some (print_http_version ver, rest))
    by (intros rest; destruct ver; try discriminate; reflexivity).
  rewrite C1. rewrite cut_top_headers by (now apply forallb_wf_lwf). cbn [colon bs bs_to app]. rewrite cut_top_here. cbn [prepend]. rewrite app_nil_r.
  rewrite cut_top_headers by (now apply forallb_wf_lwf). rewrite cut_top_here. cbn [prepend]. rewrite app_nil_r.
  assert (V : rd_http_version (print_http_version ver) = Some ver) by (destruct ver; try discriminate; reflexivity).
  rewrite V. destruct horder as [|h horder]; [discriminate|]. rewrite rd_headers_print by (now apply forallb_wf_lwf).
  destruct habsent as [|a habsent].
  - reflexivity.
  - rewrite rd_headers_print by (now apply forallb_wf_lwf). rewrite filter_named_wf by assumption. reflexivity.
Qed.

Theorem canonical_http_iff l : canonical_http l = true <-> exists s, wf_http s = true /\ print_http_sig s = l.
Proof.
  split.
  - intros H. destruct (canonical_inv _ _ _ _ H) as (s & _ & Hwf & Hp). eauto.
  - intros (s & Hwf & <-). unfold canonical_http, canonical. rewrite spec_http_print by assumption.
    rewrite Hwf, bytes_eqb_refl. reflexivity.
Qed.
