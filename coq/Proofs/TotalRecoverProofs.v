(* C01, recovery half: after any history of inputs that never carry the probe's identity (junk that
   carries no identity at all included), a keyed analyzer reports for the probe what a fresh instance
   reports.  Instance of the keyed-locality lemma behind C07_no_disable (Proofs/KeyedProofs.v),
   with identities  option K  (None = a frame from which no connection identity can be read). *)
From Coq Require Import List NArith Bool Lia.
From HN Require Import Base.Bytes Base.Keyed Proofs.KeyedProofs.
Import ListNotations.

Definition okeqb {K} (keqb : K -> K -> bool) (a b : option K) : bool :=
  match a, b with Some x, Some y => keqb x y | None, None => true | _, _ => false end.

Lemma okeqb_eq {K} (keqb : K -> K -> bool) :
  (forall a b, keqb a b = true <-> a = b) -> forall a b, okeqb keqb a b = true <-> a = b.
Proof.
  intros H [a|] [b|]; cbn; try (split; congruence).
  rewrite H. split; [intros ->; reflexivity | intros E; inversion E; reflexivity].
Qed.

Theorem recovers : forall (P K S O : Type) (ident : P -> option K) (keqb : K -> K -> bool),
  (forall a b, keqb a b = true <-> a = b) ->
  forall (lstep : option S -> P -> option S * list O) (h probe : list P) (s : option K -> option S) (k : K),
  (forall p, In p h -> ident p <> Some k) ->
  proj (option K) O (okeqb keqb) (Some k) (snd (run P (option K) S O ident (okeqb keqb) lstep s (h ++ probe)))
  = proj (option K) O (okeqb keqb) (Some k) (snd (run P (option K) S O ident (okeqb keqb) lstep s probe)).
Proof.
  intros P K S O ident keqb Hk lstep h probe s k Hh.
  apply (no_disable P (option K) S O ident (okeqb keqb) (okeqb_eq keqb Hk)).
  intros p Hp. destruct (okeqb keqb (ident p) (Some k)) eqn:E; [|reflexivity].
  apply (okeqb_eq keqb Hk) in E. exfalso. exact (Hh p Hp E).
Qed.

(* the hypotheses are satisfiable on a non-trivial input: a per-connection packet counter, a history with
   an identity-less frame and another connection, then a two-packet probe *)
Definition ex_ident (p : option N * N) : option N := fst p.
Definition ex_lstep (slot : option N) (p : option N * N) : option N * list N :=
  let n := match slot with Some n => n | None => 0%N end in (Some (n + 1)%N, [(n + 1)%N]).
Example recovers_ex :
  (forall p, In p [(None, 9%N); (Some 1%N, 5%N); (None, 0%N)] -> ex_ident p <> Some 2%N) /\
  proj (option N) N (okeqb N.eqb) (Some 2%N)
    (snd (run (option N * N) (option N) N N ex_ident (okeqb N.eqb) ex_lstep (fun _ => None)
           ([(None, 9%N); (Some 1%N, 5%N); (None, 0%N)] ++ [(Some 2%N, 7%N); (Some 2%N, 8%N)]))) = [1%N; 2%N].
Proof.
  split.
  - intros p [<-|[<-|[<-|[]]]]; cbn; discriminate.
  - vm_compute. reflexivity.
Qed.
