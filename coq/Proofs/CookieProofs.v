(* C05 proofs, part 4: cookie splitting.  On a cookie string whose only white space is SP / HTAB the
   parser's Unicode `trim` is OWS trimming, and parse_cookies is the RFC 6265 split. *)
From Coq Require Import List NArith Bool Lia Arith.
From Coq Require Import Strings.Byte.
From HN Require Import Base.Bytes Base.Http1Text Model.Http1
  Spec.Http1Grammar Proofs.Http1TextProofs Proofs.Http1Proofs.
Import ListNotations.
Open Scope N_scope.

Lemma ows_is_ascii_ws b : is_ows_byte b = true -> is_ascii_ws b = true.
Proof. intros H. destruct (is_ows_byte_cases b H); subst; reflexivity. Qed.

(* ---------- ws_len is decided by the bytes it has seen ---------- *)
Lemma ws_len_app_mono a b : ws_len a <> 0%nat -> ws_len (a ++ b) = ws_len a.
Proof.
  destruct a as [|b0 [|b1 [|b2 r]]]; intros H.
  - cbn in H. congruence.
  - cbn [app]. unfold ws_len in *. destruct (is_ascii_ws b0); [reflexivity | congruence].
  - cbn [app]. unfold ws_len in *. destruct (is_ascii_ws b0); [reflexivity|].
    destruct ((b2n b0 =? 194) && ((b2n b1 =? 133) || (b2n b1 =? 160))); [reflexivity | congruence].
  - reflexivity.
Qed.

Lemma plain_ws_cons x l : plain_ws (x :: l) = (match ws_len (x :: l) with O => true | _ => is_ows_byte x end) && plain_ws l.
Proof. reflexivity. Qed.

Lemma plain_ws_suffix a b : plain_ws (a ++ b) = true -> plain_ws b = true.
Proof.
  induction a as [|x a IH]; [auto|]. cbn [app]. rewrite plain_ws_cons. intros H.
  apply andb_true_iff in H as [_ H]. now apply IH.
Qed.
Lemma plain_ws_prefix a b : plain_ws (a ++ b) = true -> plain_ws a = true.
Proof.
  induction a as [|x a IH]; [reflexivity|]. cbn [app]. rewrite !plain_ws_cons. intros H.
  apply andb_true_iff in H as [H1 H2]. rewrite (IH H2), andb_true_r.
  destruct (ws_len (x :: a)) eqn:E; [reflexivity|].
  change (x :: a ++ b) with ((x :: a) ++ b) in H1. rewrite ws_len_app_mono in H1 by (rewrite E; discriminate).
  now rewrite E in H1.
Qed.
Lemma plain_ws_sub a p b : plain_ws (a ++ p ++ b) = true -> plain_ws p = true.
Proof. intros H. apply plain_ws_suffix in H. now apply plain_ws_prefix in H. Qed.

Lemma plain_head_ws x l : plain_ws (x :: l) = true -> is_ascii_ws x = true -> is_ows_byte x = true.
Proof.
  rewrite plain_ws_cons. intros H A. apply andb_true_iff in H as [H _]. now rewrite ws_len_ascii in H.
Qed.
Lemma plain_head_nows x l : plain_ws (x :: l) = true -> is_ascii_ws x = false -> ws_len (x :: l) = 0%nat.
Proof.
  rewrite plain_ws_cons. intros H A. apply andb_true_iff in H as [H _].
  destruct (ws_len (x :: l)); [reflexivity|]. apply ows_is_ascii_ws in H. congruence.
Qed.

Lemma ascii_ws_small x : is_ascii_ws x = true -> b2n x <= 32.
Proof.
  unfold is_ascii_ws. intros H. apply orb_true_iff in H as [H|H]; [apply in_rng_iff in H | apply N.eqb_eq in H]; lia.
Qed.

(* no two-byte White_Space scalar inside plain text *)
Lemma plain_no2 x y l : plain_ws (x :: y :: l) = true ->
  ((b2n x =? 194) && ((b2n y =? 133) || (b2n y =? 160))) = false.
Proof.
  intros P. destruct (is_ascii_ws x) eqn:A.
  - pose proof (ascii_ws_small x A). assert (E : (b2n x =? 194) = false) by (apply N.eqb_neq; lia). now rewrite E.
  - pose proof (plain_head_nows _ _ P A) as Z. unfold ws_len in Z. rewrite A in Z.
    destruct ((b2n x =? 194) && ((b2n y =? 133) || (b2n y =? 160))); [discriminate | reflexivity].
Qed.
(* nor a three-byte one *)
Lemma plain_no3 x y z l : plain_ws (x :: y :: z :: l) = true ->
  ((b2n x =? 225) && (b2n y =? 154) && (b2n z =? 128)) = false /\
  ((b2n x =? 226) && (b2n y =? 128) && (in_rng 128 138 z || (b2n z =? 168) || (b2n z =? 169) || (b2n z =? 175))) = false /\
  ((b2n x =? 226) && (b2n y =? 129) && (b2n z =? 159)) = false /\
  ((b2n x =? 227) && (b2n y =? 128) && (b2n z =? 128)) = false.
Proof.
  intros P. destruct (is_ascii_ws x) eqn:A.
  - pose proof (ascii_ws_small x A).
    assert (E1 : (b2n x =? 225) = false) by (apply N.eqb_neq; lia).
    assert (E2 : (b2n x =? 226) = false) by (apply N.eqb_neq; lia).
    assert (E3 : (b2n x =? 227) = false) by (apply N.eqb_neq; lia).
    rewrite E1, E2, E3. repeat split; reflexivity.
  - pose proof (plain_head_nows _ _ P A) as Z. unfold ws_len in Z. rewrite A in Z.
    destruct ((b2n x =? 194) && ((b2n y =? 133) || (b2n y =? 160))); [discriminate|].
    destruct ((b2n x =? 225) && (b2n y =? 154) && (b2n z =? 128)); [discriminate|].
    destruct ((b2n x =? 226) && (b2n y =? 128) && (in_rng 128 138 z || (b2n z =? 168) || (b2n z =? 169) || (b2n z =? 175))); [discriminate|].
    destruct ((b2n x =? 226) && (b2n y =? 129) && (b2n z =? 159)); [discriminate|].
    destruct ((b2n x =? 227) && (b2n y =? 128) && (b2n z =? 128)); [discriminate|].
    repeat split; reflexivity.
Qed.

(* looking at plain text from its end *)
Lemma plain_last y b : plain_ws (y ++ [b]) = true ->
  ws_len_rev (b :: rev y) = if is_ows_byte b then 1%nat else 0%nat.
Proof.
  intros P.
  assert (Pb : plain_ws [b] = true) by (now apply plain_ws_suffix in P).
  destruct (is_ascii_ws b) eqn:A.
  { rewrite ws_len_rev_ascii by exact A. now rewrite (plain_head_ws _ _ Pb A). }
  assert (Ob : is_ows_byte b = false).
  { destruct (is_ows_byte b) eqn:O; [|reflexivity]. apply ows_is_ascii_ws in O. congruence. }
  rewrite Ob. rewrite <- (rev_involutive y) in P. destruct (rev y) as [|b1 [|b2 r]].
  - unfold ws_len_rev. now rewrite A.
  - cbn [rev app] in P. pose proof (plain_no2 _ _ _ P) as T2.
    unfold ws_len_rev. rewrite A, T2. reflexivity.
  - cbn [rev] in P. rewrite <- !app_assoc in P. cbn [app] in P.
    pose proof (plain_ws_suffix _ _ P) as P3.
    assert (P2 : plain_ws [b1; b] = true) by (change [b2; b1; b] with ([b2] ++ [b1; b]) in P3; now apply plain_ws_suffix in P3).
    pose proof (plain_no2 _ _ _ P2) as T2. destruct (plain_no3 _ _ _ _ P3) as (Ta & Tb & Tc & Td).
    unfold ws_len_rev. rewrite A, T2, Ta, Tb, Tc, Td. reflexivity.
Qed.

(* ---------- trim on plain text is OWS trimming ---------- *)
Lemma strip_plain : forall x fuel, plain_ws x = true -> (length x <= fuel)%nat -> strip_f ws_len fuel x = drop_ows x.
Proof.
  induction x as [|b r IH]; intros fuel P L.
  - destruct fuel; reflexivity.
  - destruct fuel as [|f]; [cbn in L; lia|]. cbn [strip_f drop_ows].
    destruct (is_ascii_ws b) eqn:A.
    + rewrite ws_len_ascii by exact A. rewrite (plain_head_ws _ _ P A). cbn [skipn].
      rewrite plain_ws_cons in P. apply andb_true_iff in P as [_ P]. apply IH; [exact P | cbn in L; lia].
    + rewrite (plain_head_nows _ _ P A).
      destruct (is_ows_byte b) eqn:O; [apply ows_is_ascii_ws in O; congruence | reflexivity].
Qed.

Lemma strip_rev_plain : forall y fuel, plain_ws y = true -> (length y <= fuel)%nat ->
  strip_f ws_len_rev fuel (rev y) = drop_ows (rev y).
Proof.
  induction y as [|b y IH] using rev_ind; intros fuel P L.
  - destruct fuel; reflexivity.
  - rewrite rev_app_distr. cbn [rev app]. rewrite app_length in L. cbn [length] in L.
    destruct fuel as [|f]; [lia|]. cbn [strip_f drop_ows]. rewrite (plain_last _ _ P).
    destruct (is_ows_byte b); [|reflexivity]. cbn [skipn]. apply IH; [now apply plain_ws_prefix in P | lia].
Qed.

Lemma drop_ows_suffix l : exists a, l = a ++ drop_ows l.
Proof.
  induction l as [|b r [a IH]]; [now exists []|]. cbn [drop_ows]. destruct (is_ows_byte b).
  - exists (b :: a). cbn [app]. now rewrite <- IH.
  - now exists [].
Qed.
Lemma drop_ows_plain l : plain_ws l = true -> plain_ws (drop_ows l) = true.
Proof. intros P. destruct (drop_ows_suffix l) as [a E]. rewrite E in P. now apply plain_ws_suffix in P. Qed.

Lemma trim_plain x : plain_ws x = true -> trim x = trim_ows x.
Proof.
  intros P. unfold trim, trim_ows, trim_start, trim_end.
  rewrite strip_plain by (exact P || lia).
  rewrite !rev_fast_rev. rewrite strip_rev_plain by (now apply drop_ows_plain || lia). reflexivity.
Qed.

Lemma trim_ows_sub x : exists a b, x = a ++ trim_ows x ++ b.
Proof.
  unfold trim_ows. rewrite !rev_fast_rev.
  destruct (drop_ows_suffix x) as [a Ea]. destruct (drop_ows_suffix (rev (drop_ows x))) as [c Ec].
  exists a, (rev c). rewrite Ea at 1. f_equal.
  rewrite <- (rev_involutive (drop_ows x)) at 1. rewrite Ec at 1. now rewrite rev_app_distr.
Qed.
Lemma trim_ows_plain x : plain_ws x = true -> plain_ws (trim_ows x) = true.
Proof. intros P. destruct (trim_ows_sub x) as (a & b & E). rewrite E in P. now apply plain_ws_sub in P. Qed.

(* ---------- pieces of a split are substrings ---------- *)
Lemma before_byte_prefix c l : exists t, l = before_byte c l ++ t.
Proof.
  induction l as [|b r [t IH]]; [now exists []|]. cbn [before_byte]. destruct (beqb b c).
  - now exists (b :: r).
  - exists t. cbn [app]. now rewrite <- IH.
Qed.
Lemma hd_split_before c l : hd [] (split_byte c l) = before_byte c l.
Proof.
  induction l as [|b r IH]; [reflexivity|]. cbn [split_byte before_byte]. destruct (beqb b c); [reflexivity|].
  destruct (split_byte c r); cbn [cons_head hd] in *; now rewrite <- IH.
Qed.
Lemma split_byte_sub c : forall v p, In p (split_byte c v) -> exists a b, v = a ++ p ++ b.
Proof.
  induction v as [|b0 r IH]; intros p Hin.
  - cbn in Hin. destruct Hin as [<-|[]]. now exists [], [].
  - cbn [split_byte] in Hin. destruct (beqb b0 c) eqn:E.
    + destruct Hin as [<-|Hin]; [now exists [], (b0 :: r)|].
      destruct (IH p Hin) as (a & b & ->). now exists (b0 :: a), b.
    + pose proof (hd_split_before c r) as Hd.
      destruct (split_byte c r) as [|x xs] eqn:S.
      * cbn in Hin. destruct Hin as [<-|[]]. cbn [hd] in Hd. destruct (before_byte_prefix c r) as [t Et].
        rewrite <- Hd in Et. cbn [app] in Et. subst t. now exists [], r.
      * cbn [cons_head] in Hin. destruct Hin as [<-|Hin].
        -- cbn [hd] in Hd. destruct (before_byte_prefix c r) as [t Et]. rewrite <- Hd in Et.
           exists [], t. cbn [app]. now rewrite <- Et.
        -- destruct (IH p (or_intror Hin)) as (a & b & ->). now exists (b0 :: a), b.
Qed.

(* ---------- find_byte against before_byte / after_byte ---------- *)
Lemma find_byte_some c : forall l n, find_byte c l = Some n ->
  firstn n l = before_byte c l /\ after_byte c l = Some (skipn (S n) l).
Proof.
  induction l as [|b r IH]; intros n H; [discriminate|]. cbn [find_byte before_byte after_byte] in *.
  destruct (beqb b c).
  - injection H as <-. split; reflexivity.
  - destruct (find_byte c r) as [k|]; [|discriminate]. injection H as <-.
    destruct (IH k eq_refl) as [A B]. cbn [firstn skipn]. rewrite A. split; [reflexivity | exact B].
Qed.
Lemma find_byte_nothing c : forall l, find_byte c l = None -> after_byte c l = None.
Proof.
  induction l as [|b r IH]; [reflexivity|]. cbn [find_byte after_byte]. destruct (beqb b c); [discriminate|].
  destruct (find_byte c r); [discriminate | auto].
Qed.

(* ---------- parse_cookies ---------- *)
Definition piece_spec (piece : bytes) : list (bytes * option bytes) :=
  let c := trim_ows piece in
  if bytes_eqb c [] then [] else
  match after_byte "="%byte c with
  | Some value => [(trim_ows (before_byte "="%byte c), Some (trim_ows value))]
  | None => [(c, None)]
  end.

Lemma cookie_pieces_spec : forall ps k, Forall (fun p => plain_ws p = true) ps ->
  parse_cookie_pieces ps k = number_cookies (flat_map piece_spec ps) k.
Proof.
  induction ps as [|p r IH]; intros k H; [reflexivity|]. inversion H as [|? ? Hp Hr]; subst.
  cbn [parse_cookie_pieces flat_map]. unfold piece_spec at 1. rewrite trim_plain by exact Hp.
  pose proof (trim_ows_plain _ Hp) as Pc. set (c := trim_ows p) in *.
  destruct (bytes_eqb c []); [now apply IH|].
  destruct (find_byte "="%byte c) as [ep|] eqn:F.
  - destruct (find_byte_some _ _ _ F) as [A B]. rewrite B. cbn [app number_cookies].
    assert (P1 : plain_ws (firstn ep c) = true) by (rewrite <- (firstn_skipn ep c) in Pc; now apply plain_ws_prefix in Pc).
    assert (P2 : plain_ws (skipn (S ep) c) = true) by (rewrite <- (firstn_skipn (S ep) c) in Pc; now apply plain_ws_suffix in Pc).
    rewrite !trim_plain by assumption. rewrite A, IH by exact Hr. reflexivity.
  - rewrite (find_byte_nothing _ _ F). cbn [app number_cookies]. now rewrite IH.
Qed.

Theorem cookie_split v : plain_ws v = true -> parse_cookies v = number_cookies (cookie_pairs v) O.
Proof.
  intros P. unfold parse_cookies, cookie_pairs. apply cookie_pieces_spec.
  apply Forall_forall. intros p Hin. destruct (split_byte_sub _ _ _ Hin) as (a & b & E). rewrite E in P.
  now apply plain_ws_sub in P.
Qed.

(* ---------- several Cookie headers: their values joined by "; " ---------- *)
Definition join2 (a v : bytes) : bytes := a ++ bs "; " ++ v.
Definition joinl (vs : list bytes) : option bytes :=
  match vs with [] => None | v :: r => Some (fold_left join2 r v) end.

Lemma split_byte_nonempty c l : split_byte c l <> [].
Proof. destruct l as [|b r]; cbn [split_byte]; [discriminate|]. destruct (beqb b c); [discriminate|]. destruct (split_byte c r); discriminate. Qed.

Lemma split_byte_app_any c : forall x y, split_byte c (x ++ c :: y) = split_byte c x ++ split_byte c y.
Proof.
  induction x as [|b x IH]; intros y.
  - cbn. now rewrite beqb_refl.
  - cbn [app split_byte]. destruct (beqb b c); rewrite IH; [reflexivity|].
    pose proof (split_byte_nonempty c x) as N. destruct (split_byte c x); [congruence | reflexivity].
Qed.

Lemma split_join2 x y : split_byte ";"%byte (join2 x y) = split_byte ";"%byte x ++ split_byte ";"%byte (sp :: y).
Proof. unfold join2. change (bs "; " ++ y) with (";"%byte :: sp :: y). apply split_byte_app_any. Qed.

Lemma split_fold_join : forall r a,
  split_byte ";"%byte (fold_left join2 r a) = split_byte ";"%byte a ++ flat_map (fun v => split_byte ";"%byte (sp :: v)) r.
Proof.
  induction r as [|v r IH]; intros a; cbn [fold_left flat_map]; [now rewrite app_nil_r|].
  rewrite IH, split_join2, <- app_assoc. reflexivity.
Qed.

Lemma split_pieces_plain v : plain_ws v = true -> Forall (fun p => plain_ws p = true) (split_byte ";"%byte v).
Proof.
  intros P. apply Forall_forall. intros p Hin. destruct (split_byte_sub _ _ _ Hin) as (a & b & E). rewrite E in P.
  now apply plain_ws_sub in P.
Qed.
Lemma plain_sp v : plain_ws v = true -> plain_ws (sp :: v) = true.
Proof. intros P. rewrite plain_ws_cons, P. rewrite ws_len_ascii by reflexivity. reflexivity. Qed.

Lemma flat_piece_sp v : flat_map piece_spec (split_byte ";"%byte (sp :: v)) = cookie_pairs v.
Proof.
  unfold cookie_pairs. change (split_byte ";"%byte (sp :: v)) with (cons_head sp (split_byte ";"%byte v)).
  pose proof (split_byte_nonempty ";"%byte v) as N. destruct (split_byte ";"%byte v) as [|p0 rest]; [congruence|].
  cbn [cons_head flat_map]. f_equal.
Qed.

Theorem cookie_join_split vs : Forall (fun v => plain_ws v = true) vs ->
  match joinl vs with Some c => parse_cookies c | None => [] end = number_cookies (flat_map cookie_pairs vs) O.
Proof.
  intros H. destruct vs as [|v r]; [reflexivity|]. inversion H as [|? ? Hv Hr]; subst.
  cbn [joinl flat_map]. unfold parse_cookies. rewrite split_fold_join.
  rewrite cookie_pieces_spec.
  - rewrite flat_map_app. f_equal. f_equal.
    clear H Hv. induction r as [|w r IH]; [reflexivity|]. inversion Hr; subst.
    cbn [flat_map]. rewrite flat_map_app, flat_piece_sp, IH by assumption. reflexivity.
  - apply Forall_app. split; [now apply split_pieces_plain|].
    clear H Hv. induction r as [|w r IH]; [constructor|]. inversion Hr; subst. cbn [flat_map].
    apply Forall_app. split; [apply split_pieces_plain; now apply plain_sp | now apply IH].
Qed.
