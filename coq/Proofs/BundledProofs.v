(* C06 on the bundled p0f.fp as it is now: every statement is a closed computation (vm_compute). *)
From Coq Require Import List NArith Bool.
From Coq Require Import Strings.Byte.
From HN Require Import Base.Bytes Model.SigAst Model.SigText Model.DbLoad Spec.SigTextSpec Spec.DbLoadSpec
  Gen.Bundled Spec.BundledSpec.
Import ListNotations.
Open Scope N_scope.

Lemma bundled_loads : load_lines bundled_lines = Some bundled_db.
Proof. vm_compute. reflexivity. Qed.

Lemma bundled_spec_reads : spec_load_lines bundled_lines = VOk bundled_spec_db.
Proof. vm_compute. reflexivity. Qed.

(* same classes, MTU groups and the four label/signature tables, entry for entry, as the reference reader *)
Lemma bundled_tables_exact :
  db_classes bundled_db = db_classes bundled_spec_db /\ db_mtu bundled_db = db_mtu bundled_spec_db /\
  db_tcp_request bundled_db = db_tcp_request bundled_spec_db /\
  db_tcp_response bundled_db = db_tcp_response bundled_spec_db /\
  db_http_request bundled_db = db_http_request bundled_spec_db /\
  db_http_response bundled_db = db_http_response bundled_spec_db.
Proof. vm_compute. repeat split; reflexivity. Qed.

Lemma bundled_counts :
  length (db_classes bundled_db) = 3%nat /\ mtu_counts (db_mtu bundled_db) = (14, 25)%nat /\
  table_counts (db_tcp_request bundled_db) = (46, 98)%nat /\ table_counts (db_tcp_response bundled_db) = (17, 101)%nat /\
  table_counts (db_http_request bundled_db) = (53, 79)%nat /\ table_counts (db_http_response bundled_db) = (8, 20)%nat /\
  length bundled_tcp_sigs = 199%nat /\ length bundled_http_sigs = 99%nat.
Proof. vm_compute. repeat split; reflexivity. Qed.

Lemma bundled_sig_lines_roundtrip :
  forallb tcp_line_rt bundled_tcp_sigs = true /\ forallb http_line_rt bundled_http_sigs = true.
Proof. vm_compute. split; reflexivity. Qed.

Lemma bundled_sig_lines_canonical :
  forallb canonical_tcp bundled_tcp_sigs = true /\ forallb canonical_http bundled_http_sigs = true.
Proof. vm_compute. split; reflexivity. Qed.

Lemma bundled_sig_lines_all :
  forallb tcp_line_rt bundled_tcp_sigs = true /\ forallb http_line_rt bundled_http_sigs = true /\
  forallb canonical_tcp bundled_tcp_sigs = true /\ forallb canonical_http bundled_http_sigs = true.
Proof. vm_compute. repeat split; reflexivity. Qed.

(* the open finding on the file itself: nine ua_os rules are written, three are loaded *)
Lemma bundled_ua_os_lossy :
  length (db_ua_os bundled_spec_db) = 9%nat /\ length (db_ua_os bundled_db) = 3%nat /\
  existsb lossy_line bundled_lines = true.
Proof. vm_compute. repeat split; reflexivity. Qed.

(* ---------- known class on texts (Spec.DbLoadSpec.known_db): witnesses ---------- *)
(* ua_os with a bracketed value: the rule and everything after it is lost *)
Lemma known_ua_os_text_refuted :
  let t := bs "ua_os = Linux,iOS=[iPad],BSD" in
  known_db t = true /\ (exists d, spec_load t = VOk d /\ length (db_ua_os d) = 3%nat) /\
  (exists d, load t = Some d /\ length (db_ua_os d) = 2%nat).
Proof. vm_compute. repeat split; eexists; split; reflexivity. Qed.
(* a classes line the p0f grammar does not allow is accepted and cut short instead of rejected *)
Lemma known_classes_text_refuted :
  let t := bs "classes = win, unix" in
  known_db t = true /\ spec_load t = VErr /\ (exists d, load t = Some d /\ db_classes d = [bs "win"]).
Proof. vm_compute. repeat split. eexists; split; reflexivity. Qed.
(* text after the closing bracket of a section header is ignored *)
Lemma known_module_text_refuted :
  let t := bs "[tcp:request]x]" in
  known_db t = true /\ spec_load t = VErr /\ (exists d, load t = Some d).
Proof. vm_compute. repeat split. eexists; reflexivity. Qed.

(* ---------- known class C06-unknown-item-skipped: witnesses ---------- *)
(* a misspelt module header: p0f.fp has no such module, the text is not a database; the loader returns an
   empty database (label and signature dropped) *)
Lemma known_unknown_module_refuted :
  let t := bs "[tcp:reqeust]
label = s:unix:Linux:
sig = *:64:0:*:*,*:::0" in
  known_unknown_item t = true /\ known_db t = true /\ spec_load t = VErr /\
  (exists d, load t = Some d /\ table_counts (db_tcp_request d) = (0, 0)%nat).
Proof. vm_compute. repeat split. eexists; split; reflexivity. Qed.
(* a misspelt key inside a module: the signature is dropped, the label stays *)
Lemma known_unknown_key_refuted :
  let t := bs "[tcp:request]
label = s:unix:Linux:
sgi = *:64:0:*:*,*:::0" in
  known_unknown_item t = true /\ known_db t = true /\ spec_load t = VErr /\
  (exists d, load t = Some d /\ table_counts (db_tcp_request d) = (1, 0)%nat).
Proof. vm_compute. repeat split. eexists; split; reflexivity. Qed.
(* the same two texts spelt correctly are databases, read alike by both sides *)
Lemma unknown_item_contrast :
  let t := bs "[tcp:request]
label = s:unix:Linux:
sig = *:64:0:*:*,*:::0" in
  known_db t = false /\ (exists d, spec_load t = VOk d /\ load t = Some d /\ table_counts (db_tcp_request d) = (1, 1)%nat).
Proof. vm_compute. split; [reflexivity|]. eexists; repeat split; reflexivity. Qed.

(* ---------- the bundled file and the domain of the text-level theorem ---------- *)
Lemma bundled_text_domain :
  ascii_edges bundled_text = true /\ known_db bundled_text = true /\ known_unknown_item bundled_text = false /\
  ascii_edges bundled_text_plain = true /\ known_db bundled_text_plain = false /\
  length (filter lossy_line bundled_lines) = 1%nat.
Proof. vm_compute. repeat split; reflexivity. Qed.
