(* C06 on the bundled p0f.fp as it is now: every statement is a closed computation (vm_compute). *)
From Coq Require Import List NArith Bool.
From Coq Require Import Strings.Byte.
From HN Require Import Base.Bytes Model.SigAst Model.SigText Model.DbLoad Spec.SigTextSpec Spec.DbLoadSpec
  Gen.Bundled Spec.BundledSpec.
Import ListNotations.
Open Scope N_scope.

Lemma bundled_loads : load_lines bundled_lines = Some bundled_db.
Proof. vm_compute. reflexivity. Qed.

Lemma bundled_spec_reads : spec_load_lines bundled_lines = VOk bundled_spec_db.
Proof. vm_compute. reflexivity. Qed.

(* same classes, MTU groups and the four label/signature tables, entry for entry, as the reference reader *)
Lemma bundled_tables_exact :
  db_classes bundled_db = db_classes bundled_spec_db /\ db_mtu bundled_db = db_mtu bundled_spec_db /\
  db_tcp_request bundled_db = db_tcp_request bundled_spec_db /\
  db_tcp_response bundled_db = db_tcp_response bundled_spec_db /\
  db_http_request bundled_db = db_http_request bundled_spec_db /\
  db_http_response bundled_db = db_http_response bundled_spec_db /\
  db_ua_os bundled_db = db_ua_os bundled_spec_db.
Proof. vm_compute. repeat split; reflexivity. Qed.

Lemma bundled_counts :
  length (db_classes bundled_db) = 3%nat /\ mtu_counts (db_mtu bundled_db) = (14, 25)%nat /\
  table_counts (db_tcp_request bundled_db) = (46, 98)%nat /\ table_counts (db_tcp_response bundled_db) = (17, 101)%nat /\
  table_counts (db_http_request bundled_db) = (53, 79)%nat /\ table_counts (db_http_response bundled_db) = (8, 20)%nat /\
  length bundled_tcp_sigs = 199%nat /\ length bundled_http_sigs = 99%nat.
Proof. vm_compute. repeat split; reflexivity. Qed.

Lemma bundled_sig_lines_roundtrip :
  forallb tcp_line_rt bundled_tcp_sigs = true /\ forallb http_line_rt bundled_http_sigs = true.
Proof. vm_compute. split; reflexivity. Qed.

Lemma bundled_sig_lines_canonical :
  forallb canonical_tcp bundled_tcp_sigs = true /\ forallb canonical_http bundled_http_sigs = true.
Proof. vm_compute. split; reflexivity. Qed.

Lemma bundled_sig_lines_all :
  forallb tcp_line_rt bundled_tcp_sigs = true /\ forallb http_line_rt bundled_http_sigs = true /\
  forallb canonical_tcp bundled_tcp_sigs = true /\ forallb canonical_http bundled_http_sigs = true.
Proof. vm_compute. repeat split; reflexivity. Qed.

(* finding C06-list-remainder is repaired: the nine ua_os rules written in the file are loaded *)
Lemma bundled_ua_os_former_witness_agrees :
  length (db_ua_os bundled_spec_db) = 9%nat /\ length (db_ua_os bundled_db) = 9%nat /\
  db_ua_os bundled_db = db_ua_os bundled_spec_db.
Proof. vm_compute. repeat split; reflexivity. Qed.

(* ---------- former known class C06-list-remainder: the old witnesses now agree ---------- *)
Lemma list_remainder_former_witness_agrees :
  (let t := bs "ua_os = Linux,iOS=[iPad],BSD" in
   load t = verdict_opt (spec_load t) /\ exists d, load t = Some d /\ length (db_ua_os d) = 3%nat) /\
  (let t := bs "classes = win, unix" in spec_load t = VErr /\ load t = None) /\
  (let t := bs "[tcp:request]x]" in spec_load t = VErr /\ load t = None).
Proof. vm_compute. repeat split. eexists; split; reflexivity. Qed.

(* ---------- former known class C06-unknown-item-skipped (repaired): the old witnesses now agree ---------- *)
Lemma unknown_item_former_witness_agrees :
  (let t := bs "[tcp:reqeust]
label = s:unix:Linux:
sig = *:64:0:*:*,*:::0" in spec_load t = VErr /\ load t = None) /\
  (let t := bs "[tcp:request]
label = s:unix:Linux:
sgi = *:64:0:*:*,*:::0" in spec_load t = VErr /\ load t = None) /\
  (let t := bs "[mtu]
label = DSL
sys = x
sig = 1492" in spec_load t = VErr /\ load t = None) /\
  (let t := bs "[tcp:request]
label = s:unix:Linux:
sig = *:64:0:*:*,*:::0" in
   exists d, spec_load t = VOk d /\ load t = Some d /\ table_counts (db_tcp_request d) = (1, 1)%nat).
Proof. vm_compute. repeat split. eexists; repeat split; reflexivity. Qed.

(* ---------- the bundled file and the domain of the text-level theorem ---------- *)
Lemma bundled_text_domain : ascii_edges bundled_text = true.
Proof. vm_compute. reflexivity. Qed.
