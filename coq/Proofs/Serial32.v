(* 32-bit serial number arithmetic (RFC 1982) as used by get_full_data after fix C09-seq-wrap:
   segments are ordered by `(seq.wrapping_sub(base)) as i32`.  `skey32 base s` (Model/HttpFlow.v) is an
   unsigned key with the same order.  When all sequence numbers involved lie within 2^31 of a
   reference point r (the ISN), that order is the order of the offsets from r, whatever the base. *)
From Coq Require Import NArith Lia ZifyN ZifyBool ZArith.
From HN Require Import Base.Tcp Model.HttpFlow Spec.StreamSpec.
#[local] Ltac Zify.zify_post_hook ::= Z.div_mod_to_equations.
Open Scope N_scope.

Definition off32 (r s : N) : N := (s + two32 - r) mod two32.

Lemma skey32_window r b x : r < two32 -> b < two32 -> x < two32 -> off32 r x < two31 -> off32 r b < two31 ->
  skey32 b x = off32 r x + two31 - off32 r b.
Proof. unfold skey32, off32, two32, two31. intros. lia. Qed.

Lemma skey32_le r b x y : r < two32 -> b < two32 -> x < two32 -> y < two32 ->
  off32 r x < two31 -> off32 r y < two31 -> off32 r b < two31 ->
  (skey32 b x <= skey32 b y <-> off32 r x <= off32 r y).
Proof.
  intros. rewrite (skey32_window r b x), (skey32_window r b y) by assumption. lia.
Qed.
Lemma skey32_lt r b x y : r < two32 -> b < two32 -> x < two32 -> y < two32 ->
  off32 r x < two31 -> off32 r y < two31 -> off32 r b < two31 ->
  (skey32 b x < skey32 b y <-> off32 r x < off32 r y).
Proof.
  intros. rewrite (skey32_window r b x), (skey32_window r b y) by assumption. lia.
Qed.

Lemma off32_plain r s : r <= s -> s < two32 -> off32 r s = s - r.
Proof. unfold off32, two32. intros. lia. Qed.
Lemma off32_add r o : r < two32 -> o < two32 -> off32 r ((r + o) mod two32) = o.
Proof. unfold off32, two32. intros. lia. Qed.
Lemma off32_inj r x y : r < two32 -> x < two32 -> y < two32 -> off32 r x = off32 r y -> x = y.
Proof. unfold off32, two32. intros. lia. Qed.
Lemma mod32_lt a : a mod two32 < two32.
Proof. unfold two32. lia. Qed.

Lemma seq_offset_inv isn seq : isn < two32 -> seq < two32 -> (isn + 1 + seq_offset isn seq) mod two32 = seq.
Proof. unfold seq_offset, two32. intros. lia. Qed.
Lemma seq_offset_of isn o : isn < two32 -> o < two32 -> seq_offset isn ((isn + 1 + o) mod two32) = o.
Proof. unfold seq_offset, two32. intros. lia. Qed.
Lemma add_mod_inj isn a b : a < two32 -> b < two32 -> (isn + 1 + a) mod two32 = (isn + 1 + b) mod two32 -> a = b.
Proof. unfold two32. intros. lia. Qed.
Lemma seq_offset_lt32 isn seq : seq_offset isn seq < two32.
Proof. unfold seq_offset, two32. lia. Qed.

Lemma seq_offset_near_neq isn seq : isn < two32 -> seq < two32 -> seq_offset isn seq < two31 - 1 -> seq <> isn.
Proof. unfold seq_offset, two32, two31. intros. lia. Qed.
Lemma off32_self r : r < two32 -> off32 r r = 0.
Proof. unfold off32, two32. intros. lia. Qed.
Lemma off32_succ_add isn o : isn < two32 -> o < two32 - 1 -> off32 isn ((isn + 1 + o) mod two32) = 1 + o.
Proof. unfold off32, two32. intros. lia. Qed.
