(* Ties between the hand-written models and the constants / literal tables regenerated from /repo's
   sources on every run (coq/Gen/Consts.v, tools/gen/consts.py).  An edit of one of these values in the
   Rust source changes Gen/Consts.v and breaks the corresponding lemma here (a proof obligation of the
   property that uses the model), independently of what the case generators happen to sample. *)
From Coq Require Import List NArith ZArith Bool Lia.
From HN Require Import Base.Bytes Gen.Consts.
From HN Require Model.Ja4.
Import ListNotations.

(* ---- C04: tls.rs TLS_GREASE_VALUES ---- *)
Lemma grease_values_tie : Ja4.TLS_GREASE_VALUES = src_tls_grease_values.
Proof. reflexivity. Qed.

