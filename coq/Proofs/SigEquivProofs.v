(* The nom model of the signature parsers equals the split-based reference reader on ARBITRARY lines:
   tcp_sig_from_str l = spec_tcp l,  http_sig_from_str l = spec_http l.
   Per token two lemmas:  soundness  P i = Some (v, r) -> exists c, i = c ++ r /\ clean c /\ R c = Some v
   (the parser consumed a separator-free text that the reader reads as the same value) and completeness
   R f = Some v -> term k -> P (f ++ k) = Some (v, k). *)
From Coq Require Import List NArith Bool Lia ZifyBool ZifyN Btauto Wf_nat.
From Coq Require Import Strings.Byte.
From HN Require Import Base.Bytes Model.SigAst Model.SigText Spec.SigTextSpec Proofs.SigTextProofs Proofs.SigSpecProofs.
Import ListNotations.
Open Scope N_scope.

Arguments beqb !a !b.
Arguments show_N : simpl never.
Arguments dec_max : simpl never.

(* ================= generalities ================= *)
(* text without ':' and ',' *)
Definition clean (l : bytes) : bool := avoid colon_b l && avoid comma_b l.

Lemma clean_app a b : clean (a ++ b) = clean a && clean b.
Proof. unfold clean. rewrite !avoid_app. btauto. Qed.
Lemma clean_nil : clean [] = true. Proof. reflexivity. Qed.
Lemma clean_parts l : clean l = true -> avoid colon_b l = true /\ avoid comma_b l = true.
Proof. unfold clean. now rewrite andb_true_iff. Qed.

Lemma span_spec p l : l = fst (span p l) ++ snd (span p l) /\ forallb p (fst (span p l)) = true /\ stops p (snd (span p l)) = true.
Proof.
  induction l as [|b l IH]; cbn [span]; [repeat split; reflexivity|].
  destruct (p b) eqn:E.
  - destruct (span p l) as [a c]. cbn [fst snd] in *. destruct IH as (H1 & H2 & H3).
    repeat split; [cbn; now rewrite <- H1 | cbn; now rewrite E, H2 | assumption].
  - cbn. rewrite E. repeat split; reflexivity.
Qed.

Lemma strip_prefix_inv p : forall i r, strip_prefix p i = Some r -> i = p ++ r.
Proof.
  induction p as [|x p IH]; intros i r H.
  - cbn in H. injection H as ->. reflexivity.
  - destruct i as [|y i]; [discriminate|]. cbn in H. destruct (beqb x y) eqn:E; [|discriminate].
    apply beqb_eq in E. subst y. cbn [app]. f_equal. now apply IH.
Qed.

(* a separator-free pattern can only match inside the field, never across its end *)
Lemma strip_prefix_field t : forall f k r, clean t = true -> term k = true ->
  strip_prefix t (f ++ k) = Some r -> exists f2, f = t ++ f2 /\ r = f2 ++ k.
Proof.
  induction t as [|x t IH]; intros f k r Ht Hk H.
  - cbn in H. inversion H. now exists f.
  - destruct f as [|y f].
    + cbn [app] in H. destruct (term_cases k Hk) as [->|[[q ->]|[q ->]]]; cbn in H; try discriminate;
      unfold clean in Ht; cbn in Ht; rewrite !andb_true_iff in Ht; destruct Ht as [[Hc _] [Hm _]].
      * unfold colon_b in Hc. destruct (beqb x ":"%byte) eqn:E; [cbn in Hc; discriminate | discriminate].
      * unfold comma_b in Hm. destruct (beqb x ","%byte) eqn:E; [cbn in Hm; discriminate | discriminate].
    + cbn in H. destruct (beqb x y) eqn:E; [|discriminate]. apply beqb_eq in E. subst y.
      assert (Ht' : clean t = true).
      { unfold clean in *. cbn in Ht. rewrite !andb_true_iff in Ht. rewrite andb_true_iff. tauto. }
      destruct (IH f k r Ht' Hk H) as (f2 & -> & ->). exists f2. split; reflexivity.
Qed.

(* numerals: non-empty digit strings whose value fits *)
Definition numeral (max : N) (d : bytes) (n : N) : Prop :=
  d <> [] /\ forallb is_digit d = true /\ read_N_digits d = n /\ n <= max.

Lemma digits_clean d : forallb is_digit d = true -> clean d = true.
Proof.
  intros H. unfold clean. rewrite (avoid_of is_digit colon_b d), (avoid_of is_digit comma_b d) by (assumption || reflexivity). reflexivity.
Qed.

Lemma numeral_cons max d n : numeral max d n -> exists c r, d = c :: r /\ is_digit c = true.
Proof. intros (Hne & Hd & _). destruct d as [|c r]; [congruence|]. cbn in Hd. apply andb_true_iff in Hd as [Hc _]. eauto. Qed.

Lemma rd_num_iff max f n : rd_num max f = Some n <-> numeral max f n.
Proof.
  unfold rd_num, numeral. destruct f as [|b f]; [split; [discriminate | intros (H & _); congruence]|].
  change (forallb (fun b0 => (48 <=? b2n b0) && (b2n b0 <=? 57)) (b :: f)) with (forallb is_digit (b :: f)).
  change (fold_left (fun a b0 => a * 10 + (b2n b0 - 48)) (b :: f) 0) with (read_N_digits (b :: f)).
  destruct (forallb is_digit (b :: f)); [|split; [discriminate | intros (_ & H & _); discriminate]].
  destruct (read_N_digits (b :: f) <=? max) eqn:E; split.
  - intros H. inversion H. repeat split; try congruence. lia.
  - intros (_ & _ & <- & _). reflexivity.
  - discriminate.
  - intros (_ & _ & H & L). lia.
Qed.

Lemma num_numeral max d n k : numeral max d n -> stops is_digit k = true -> num max (d ++ k) = Some (n, k).
Proof.
  intros (Hne & Hd & Hv & Hm) Hk. unfold num. rewrite digit1_digits by assumption. unfold dec_max. rewrite Hv.
  destruct (n <=? max) eqn:E; [reflexivity | lia].
Qed.

Lemma digit1_inv i d r : digit1 i = Some (d, r) -> i = d ++ r /\ d <> [] /\ forallb is_digit d = true /\ stops is_digit r = true.
Proof.
  unfold digit1, span1. intros H. destruct (span_spec is_digit i) as (H1 & H2 & H3).
  destruct (span is_digit i) as [a c]. cbn [fst snd] in *. destruct a; inversion H; subst. repeat split; auto. congruence.
Qed.

Lemma dec_max_numeral max d n : d <> [] -> forallb is_digit d = true -> dec_max max d = Some n -> numeral max d n.
Proof.
  intros Hne Hd H. unfold dec_max in H. destruct (read_N_digits d <=? max) eqn:E; inversion H. subst.
  repeat split; auto. lia.
Qed.

Lemma num_inv max i n r : num max i = Some (n, r) -> exists d, i = d ++ r /\ numeral max d n /\ stops is_digit r = true.
Proof.
  unfold num. intros H. destruct (digit1 i) as [[d r']|] eqn:E; [|discriminate].
  destruct (dec_max max d) as [m|] eqn:E2; inversion H; subst.
  apply digit1_inv in E as (-> & Hne & Hd & Hs). exists d. auto using dec_max_numeral.
Qed.

Lemma numeral_clean max d n : numeral max d n -> clean d = true.
Proof. intros (_ & H & _). now apply digits_clean. Qed.

(* split_on, inverted *)
Lemma split_on_aux_inv c l : forall cur fs, split_on_aux c l cur = fs ->
  exists f rest, fs = (rev cur ++ f) :: rest /\ avoid c f = true /\
    ((rest = [] /\ l = f) \/ (exists l', l = f ++ c :: l' /\ rest = split_on_aux c l' [])).
Proof.
  induction l as [|b l IH]; intros cur fs H; cbn [split_on_aux] in H.
  - exists [], []. rewrite app_nil_r. repeat split; auto.
  - destruct (beqb b c) eqn:E.
    + apply beqb_eq in E. subst b. exists [], (split_on_aux c l []). rewrite app_nil_r. repeat split; auto.
      right. exists l. auto.
    + destruct (IH (b :: cur) fs H) as (f & rest & -> & Hf & Hr). exists (b :: f), rest.
      cbn [rev]. rewrite <- app_assoc. repeat split; auto.
      * unfold avoid in *. cbn [forallb]. now rewrite E, Hf.
      * destruct Hr as [[-> ->] | (l' & -> & ->)]; [left; auto | right; exists l'; auto].
Qed.

Lemma split_on_inv c l : exists f rest, split_on c l = f :: rest /\ avoid c f = true /\
    ((rest = [] /\ l = f) \/ (exists l', l = f ++ c :: l' /\ rest = split_on c l')).
Proof. unfold split_on. destruct (split_on_aux_inv c l [] _ eq_refl) as (f & rest & H & Hf & Hr). exists f, rest. auto. Qed.

Lemma split_on_one c l a : split_on c l = [a] -> l = a /\ avoid c a = true.
Proof.
  intros H. destruct (split_on_inv c l) as (f & rest & E & Hf & Hr). rewrite H in E. inversion E; subst.
  destruct Hr as [[_ ->] | (l' & _ & Hr)]; [auto|].
  destruct (split_on_inv c l') as (f' & rest' & E' & _). rewrite E' in Hr. discriminate.
Qed.

Lemma split_on_two c l a b : split_on c l = [a; b] -> l = a ++ c :: b /\ avoid c a = true /\ avoid c b = true.
Proof.
  intros H. destruct (split_on_inv c l) as (f & rest & E & Hf & Hr). rewrite H in E. inversion E; subst.
  destruct Hr as [[Hr _] | (l' & -> & Hr)]; [discriminate|]. symmetry in Hr. apply split_on_one in Hr as [-> Hb]. auto.
Qed.

Lemma split_on_join_inv c l : join [c] (split_on c l) = l /\ forallb (avoid c) (split_on c l) = true.
Proof.
  remember (length l) as n eqn:Hn. revert l Hn. induction n as [n IH] using lt_wf_ind. intros l Hn.
  destruct (split_on_inv c l) as (f & rest & E & Hf & Hr). rewrite E.
  destruct Hr as [[-> ->] | (l' & -> & ->)]; [cbn; now rewrite Hf|].
  assert (L : (length l' < n)%nat) by (subst n; rewrite app_length; cbn; lia).
  destruct (IH _ L l' eq_refl) as [J A].
  destruct (split_on_inv c l') as (f' & rest' & E' & _). rewrite E' in *.
  rewrite join_cons2. cbn [app forallb]. rewrite J, Hf. split; [reflexivity | exact A].
Qed.

(* ================= token-level specification ================= *)
Definition snd_ok {A} (P : parser A) (R : bytes -> option A) : Prop :=
  forall i v r, P i = Some (v, r) -> exists c, i = c ++ r /\ clean c = true /\ R c = Some v.
Definition cmp_ok {A} (P : parser A) (R : bytes -> option A) : Prop :=
  forall f v k, R f = Some v -> term k = true -> P (f ++ k) = Some (v, k).

(* ---- tag tables ---- *)
Fixpoint lookup {A} (ts : list (bytes * A)) (f : bytes) : option A :=
  match ts with [] => None | (t, v) :: r => if bytes_eqb f t then Some v else lookup r f end.

Lemma lookup_in {A} (ts : list (bytes * A)) f v : lookup ts f = Some v -> In (f, v) ts.
Proof.
  induction ts as [|[t w] ts IH]; cbn; [discriminate|]. destruct (bytes_eqb f t) eqn:E.
  - intros H. inversion H. apply bytes_eqb_eq in E. subst. now left.
  - intros H. right. auto.
Qed.

Lemma alt_tags_snd {A} (ts : list (bytes * A)) : (forall t v, In (t, v) ts -> clean t = true) -> snd_ok (alt_tags ts) (lookup ts).
Proof.
  induction ts as [|[t w] ts IH]; intros Hc i v r H; cbn [alt_tags] in H; [discriminate|].
  unfold tag in H. destruct (strip_prefix t i) as [r'|] eqn:E; cbn [orelse] in H.
  - inversion H; subst. apply strip_prefix_inv in E. exists t. repeat split; [assumption | apply (Hc t v); now left |].
    cbn. now rewrite bytes_eqb_refl.
  - destruct (IH (fun t' v' Hin => Hc t' v' (or_intror Hin)) i v r H) as (c & -> & Hcl & Hl).
    exists c. repeat split; auto. cbn [lookup]. destruct (bytes_eqb c t) eqn:E2; [|assumption].
    apply bytes_eqb_eq in E2. subst. rewrite strip_prefix_app in E. discriminate.
Qed.

Lemma strip_prefix_starts t f r : strip_prefix t f = Some r -> starts_with t f = true.
Proof.
  revert f r. induction t as [|x t IH]; intros f r H; [reflexivity|]. destruct f as [|y f]; [discriminate|].
  cbn in *. destruct (beqb x y); [|discriminate]. cbn. eauto.
Qed.

Definition prefix_free {A} (ts : list (bytes * A)) : Prop :=
  forall t' v' t v, In (t', v') ts -> In (t, v) ts -> starts_with t' t = true -> t' = t.

Lemma alt_tags_cmp {A} (ts : list (bytes * A)) :
  (forall t v, In (t, v) ts -> clean t = true) -> prefix_free ts -> cmp_ok (alt_tags ts) (lookup ts).
Proof.
  induction ts as [|[t w] ts IH]; intros Hc Hpf f v k Hl Hk; cbn [lookup] in Hl; [discriminate|].
  cbn [alt_tags]. unfold tag at 1. destruct (bytes_eqb f t) eqn:E.
  - apply bytes_eqb_eq in E. inversion Hl. subst. now rewrite strip_prefix_app.
  - destruct (strip_prefix t (f ++ k)) as [r|] eqn:E2.
    + exfalso. apply strip_prefix_field in E2 as (f2 & -> & _); [| apply (Hc t w); now left | assumption].
      assert (In (t ++ f2, v) ts) by now apply lookup_in.
      assert (t = t ++ f2).
      { apply (Hpf t w (t ++ f2) v); [now left | now right |]. apply (strip_prefix_starts t (t ++ f2) f2), strip_prefix_app. }
      rewrite <- H0 in E. now rewrite bytes_eqb_refl in E.
    + cbn [orelse]. apply IH; auto.
      * intros t' v' Hin. apply (Hc t' v'). now right.
      * intros a b c d H1 H2. apply (Hpf a b c d); now right.
Qed.

(* boolean form of the two side conditions *)
Definition tags_ok {A} (ts : list (bytes * A)) : bool :=
  forallb (fun e => clean (fst e) &&
                    forallb (fun e' => negb (starts_with (fst e) (fst e')) || bytes_eqb (fst e) (fst e')) ts) ts.

Lemma tags_ok_spec {A} (ts : list (bytes * A)) : tags_ok ts = true ->
  (forall t v, In (t, v) ts -> clean t = true) /\ prefix_free ts.
Proof.
  unfold tags_ok. intros H. rewrite forallb_forall in H. split.
  - intros t v Hin. specialize (H _ Hin). apply andb_true_iff in H. tauto.
  - intros t' v' t v H1 H2 Hs. specialize (H _ H1). apply andb_true_iff in H as [_ H].
    rewrite forallb_forall in H. specialize (H _ H2). cbn [fst] in H. rewrite Hs in H. cbn in H. now apply bytes_eqb_eq.
Qed.

(* ---- the four tag-only tokens ---- *)
Definition ver_tags : list (bytes * ip_version) := [(bs "4", IpV4); (bs "6", IpV6); (bs "*", IpAny)].
Definition pc_tags : list (bytes * payload_size) := [(bs "0", PZero); (bs "+", PNonZero); (bs "*", PAnySize)].
Definition hver_tags : list (bytes * http_version) := [(bs "0", HV10); (bs "1", HV11); (bs "*", HVAny)].

Lemma orelse_none_r {A} (o : option A) : orelse o None = o.
Proof. now destruct o. Qed.

Lemma parse_ip_version_tags i : parse_ip_version i = alt_tags ver_tags i.
Proof. unfold parse_ip_version. cbn [alt_tags ver_tags]. now rewrite orelse_none_r. Qed.
Lemma parse_payload_size_tags i : parse_payload_size i = alt_tags pc_tags i.
Proof. unfold parse_payload_size. cbn [alt_tags pc_tags]. now rewrite orelse_none_r. Qed.
Lemma parse_http_version_tags i : parse_http_version i = alt_tags hver_tags i.
Proof. unfold parse_http_version. cbn [alt_tags hver_tags]. now rewrite orelse_none_r. Qed.
Lemma rd_ip_version_tags f : rd_ip_version f = lookup ver_tags f. Proof. reflexivity. Qed.
Lemma rd_pclass_tags f : rd_pclass f = lookup pc_tags f. Proof. reflexivity. Qed.
Lemma rd_http_version_tags f : rd_http_version f = lookup hver_tags f. Proof. reflexivity. Qed.
Lemma rd_quirk_tags f : rd_quirk f = lookup quirk_tags f. Proof. reflexivity. Qed.

Lemma tok_tags {A} (ts : list (bytes * A)) (P : parser A) (R : bytes -> option A) :
  tags_ok ts = true -> (forall i, P i = alt_tags ts i) -> (forall f, R f = lookup ts f) -> snd_ok P R /\ cmp_ok P R.
Proof.
  intros Hok HP HR. destruct (tags_ok_spec ts Hok) as [Hc Hpf]. split.
  - intros i v r H. rewrite HP in H. destruct (alt_tags_snd ts Hc i v r H) as (c & E & Hcl & Hl). exists c. now rewrite HR.
  - intros f v k H Hk. rewrite HR in H. rewrite HP. now apply alt_tags_cmp.
Qed.

Lemma tok_ip_version : snd_ok parse_ip_version rd_ip_version /\ cmp_ok parse_ip_version rd_ip_version.
Proof. apply (tok_tags ver_tags); [reflexivity | apply parse_ip_version_tags | apply rd_ip_version_tags]. Qed.
Lemma tok_pclass : snd_ok parse_payload_size rd_pclass /\ cmp_ok parse_payload_size rd_pclass.
Proof. apply (tok_tags pc_tags); [reflexivity | apply parse_payload_size_tags | apply rd_pclass_tags]. Qed.
Lemma tok_http_version : snd_ok parse_http_version rd_http_version /\ cmp_ok parse_http_version rd_http_version.
Proof. apply (tok_tags hver_tags); [reflexivity | apply parse_http_version_tags | apply rd_http_version_tags]. Qed.
Lemma tok_quirk : snd_ok parse_quirk rd_quirk /\ cmp_ok parse_quirk rd_quirk.
Proof. apply (tok_tags quirk_tags); [vm_compute; reflexivity | reflexivity | apply rd_quirk_tags]. Qed.

(* ---- plain numbers ---- *)
Lemma tok_num max : snd_ok (num max) (rd_num max) /\ cmp_ok (num max) (rd_num max).
Proof.
  split.
  - intros i n r H. apply num_inv in H as (d & -> & Hn & _). exists d. repeat split; [eapply numeral_clean; eauto | now apply rd_num_iff].
  - intros f n k H Hk. apply rd_num_iff in H. apply num_numeral; auto using term_stops_digit.
Qed.

(* ---- helpers on numerals ---- *)
Lemma dec_max_of_numeral max d n : numeral max d n -> dec_max max d = Some n.
Proof. intros (_ & _ & Hv & Hm). unfold dec_max. rewrite Hv. destruct (n <=? max) eqn:E; [reflexivity | lia]. Qed.

Lemma digit1_numeral max d n k : numeral max d n -> stops is_digit k = true -> digit1 (d ++ k) = Some (d, k).
Proof. intros (Hne & Hd & _) Hk. now apply digit1_digits. Qed.

Lemma is_numeral max t d n : numeral max d n -> (match t with b :: _ => is_digit b = false | [] => True end) -> is t d = false.
Proof.
  intros Hn H. destruct (numeral_cons _ _ _ Hn) as (c & r & -> & Hc). unfold is.
  destruct t as [|b t]; [reflexivity|]. cbn [bytes_eqb].
  assert (X : beqb c b = false) by (apply beqb_neq; intros ->; congruence). now rewrite X.
Qed.

Lemma strip_prefix_numeral max x p d n : numeral max d n -> is_digit x = false -> strip_prefix (x :: p) d = None.
Proof. intros Hn Hx. destruct (numeral_cons _ _ _ Hn) as (c & r & -> & Hc). now apply strip_prefix_digit. Qed.

Lemma tag_num_inv {A} t max (g : N -> A) i v r :
  tag_num t max g i = Some (v, r) -> exists d n, i = t ++ d ++ r /\ numeral max d n /\ v = g n.
Proof.
  unfold tag_num. intros H. destruct (strip_prefix t i) as [r1|] eqn:E; [|discriminate].
  destruct (num max r1) as [[n r2]|] eqn:E2; inversion H; subst.
  apply strip_prefix_inv in E. apply num_inv in E2 as (d & -> & Hn & _). exists d, n. auto.
Qed.

Lemma tag_num_numeral {A} t max (g : N -> A) d n k :
  numeral max d n -> stops is_digit k = true -> tag_num t max g (t ++ d ++ k) = Some (g n, k).
Proof. intros Hn Hk. unfold tag_num. rewrite strip_prefix_app, (num_numeral max d n k) by assumption. reflexivity. Qed.

Lemma tag_inv {A} t (v w : A) i r : tag t v i = Some (w, r) -> i = t ++ r /\ w = v.
Proof. unfold tag. destruct (strip_prefix t i) eqn:E; [|discriminate]. intros H. inversion H; subst. apply strip_prefix_inv in E. auto. Qed.

Lemma is_true t f : is t f = true -> f = t.
Proof. unfold is. apply bytes_eqb_eq. Qed.

Lemma omap_some {A B} (g : A -> B) o v : omap g o = Some v -> exists a, o = Some a /\ v = g a.
Proof. destruct o; cbn; [intros H; inversion H; eauto | discriminate]. Qed.

(* ---- mss / wscale:  * | N ---- *)
Lemma tok_star_or_num max : snd_ok (star_or_num max) (rd_star_or max) /\ cmp_ok (star_or_num max) (rd_star_or max).
Proof.
  split.
  - intros i v r H. unfold star_or_num in H. destruct (tag (bs "*") None i) as [[w r']|] eqn:E; cbn [orelse] in H.
    + inversion H; subst. apply tag_inv in E as [-> ->]. exists (bs "*"). repeat split; reflexivity.
    + destruct (num max i) as [[n r']|] eqn:E2; inversion H; subst.
      apply num_inv in E2 as (d & -> & Hn & _). exists d. repeat split; [eapply numeral_clean; eauto|].
      unfold rd_star_or. rewrite (is_numeral max _ d n Hn) by reflexivity. apply rd_num_iff in Hn. unfold U8, U16 in Hn. now rewrite Hn.
  - intros f v k H Hk. unfold rd_star_or in H. destruct (is (bs "*") f) eqn:E.
    + apply is_true in E. inversion H. subst. reflexivity.
    + apply omap_some in H as (n & Hn & ->). apply rd_num_iff in Hn. unfold star_or_num.
      rewrite (num_numeral max f n k Hn) by (now apply term_stops_digit).
      destruct (numeral_cons _ _ _ Hn) as (c & r & -> & Hc). cbn [app bs bs_to].
      rewrite (tag_digit "*"%byte) by (assumption || reflexivity). reflexivity.
Qed.

(* ---- window ---- *)
Lemma tok_window : snd_ok parse_window_size rd_window /\ cmp_ok parse_window_size rd_window.
Proof.
  split.
  - intros i v r H. unfold parse_window_size in H.
    destruct (tag (bs "*") WAny i) as [[w r']|] eqn:E1; cbn [orelse] in H.
    { inversion H; subst. apply tag_inv in E1 as [-> ->]. exists (bs "*"). repeat split; reflexivity. }
    destruct (tag_num (bs "mss*") U8 WMss i) as [[w r']|] eqn:E2; cbn [orelse] in H.
    { inversion H; subst. apply tag_num_inv in E2 as (d & n & -> & Hn & ->). exists (bs "mss*" ++ d).
      repeat split; [rewrite clean_app, (numeral_clean _ _ _ Hn); reflexivity |].
      unfold rd_window. change (is (bs "*") (bs "mss*" ++ d)) with false. cbv iota. rewrite strip_prefix_app.
      apply rd_num_iff in Hn. unfold U8, U16 in Hn. now rewrite Hn. }
    destruct (tag_num (bs "mtu*") U8 WMtu i) as [[w r']|] eqn:E3; cbn [orelse] in H.
    { inversion H; subst. apply tag_num_inv in E3 as (d & n & -> & Hn & ->). exists (bs "mtu*" ++ d).
      repeat split; [rewrite clean_app, (numeral_clean _ _ _ Hn); reflexivity |].
      unfold rd_window. change (is (bs "*") (bs "mtu*" ++ d)) with false. cbv iota.
      change (strip_prefix (bs "mss*") (bs "mtu*" ++ d)) with (@None bytes). cbv iota. rewrite strip_prefix_app.
      apply rd_num_iff in Hn. unfold U8, U16 in Hn. now rewrite Hn. }
    destruct (tag_num (bs "%") U16 WMod i) as [[w r']|] eqn:E4; cbn [orelse] in H.
    { inversion H; subst. apply tag_num_inv in E4 as (d & n & -> & Hn & ->). exists (bs "%" ++ d).
      repeat split; [rewrite clean_app, (numeral_clean _ _ _ Hn); reflexivity |].
      unfold rd_window. change (is (bs "*") (bs "%" ++ d)) with false. cbv iota.
      change (strip_prefix (bs "mss*") (bs "%" ++ d)) with (@None bytes). cbv iota.
      change (strip_prefix (bs "mtu*") (bs "%" ++ d)) with (@None bytes). cbv iota. rewrite strip_prefix_app.
      apply rd_num_iff in Hn. unfold U8, U16 in Hn. now rewrite Hn. }
    apply tag_num_inv in H as (d & n & -> & Hn & ->). exists d. cbn [app].
    repeat split; [eapply numeral_clean; eauto|].
    unfold rd_window. rewrite (is_numeral U16 _ d n Hn) by reflexivity. cbn [bs bs_to].
    rewrite !(strip_prefix_numeral U16 _ _ d n Hn) by reflexivity. apply rd_num_iff in Hn. unfold U8, U16 in Hn. now rewrite Hn.
  - intros f v k H Hk. pose proof (term_stops_digit k Hk) as Hs. unfold rd_window in H.
    destruct (is (bs "*") f) eqn:E0.
    { apply is_true in E0. inversion H. subst. reflexivity. }
    destruct (strip_prefix (bs "mss*") f) as [d|] eqn:E1.
    { apply omap_some in H as (n & Hn & ->). apply rd_num_iff in Hn. apply strip_prefix_inv in E1. subst f.
      unfold parse_window_size. rewrite <- app_assoc. rewrite (tag_num_numeral (bs "mss*") U8 WMss d n k) by assumption. reflexivity. }
    destruct (strip_prefix (bs "mtu*") f) as [d|] eqn:E2.
    { apply omap_some in H as (n & Hn & ->). apply rd_num_iff in Hn. apply strip_prefix_inv in E2. subst f.
      unfold parse_window_size. rewrite <- app_assoc. rewrite (tag_num_numeral (bs "mtu*") U8 WMtu d n k) by assumption. reflexivity. }
    destruct (strip_prefix (bs "%") f) as [d|] eqn:E3.
    { apply omap_some in H as (n & Hn & ->). apply rd_num_iff in Hn. apply strip_prefix_inv in E3. subst f.
      unfold parse_window_size. rewrite <- app_assoc. rewrite (tag_num_numeral (bs "%") U16 WMod d n k) by assumption. reflexivity. }
    apply omap_some in H as (n & Hn & ->). apply rd_num_iff in Hn. unfold parse_window_size.
    pose proof (tag_num_numeral [] U16 WValue f n k Hn Hs) as V. cbn [app] in V. rewrite V.
    destruct (numeral_cons _ _ _ Hn) as (c & r & -> & Hc). cbn [app bs bs_to].
    rewrite (tag_digit "*"%byte), !tag_num_digit by (assumption || reflexivity). reflexivity.
Qed.

(* ---- option layout tokens ---- *)
Lemma tok_option : snd_ok parse_tcp_option rd_option /\ cmp_ok parse_tcp_option rd_option.
Proof.
  split.
  - intros i v r H. unfold parse_tcp_option in H.
    destruct (tag_num (bs "eol+") U8 OEol i) as [[w r']|] eqn:E1; cbn [orelse] in H.
    { inversion H; subst. apply tag_num_inv in E1 as (d & n & -> & Hn & ->). exists (bs "eol+" ++ d).
      repeat split; [rewrite clean_app, (numeral_clean _ _ _ Hn); reflexivity |].
      unfold rd_option.
      change (is (bs "nop") (bs "eol+" ++ d)) with false. change (is (bs "mss") (bs "eol+" ++ d)) with false.
      change (is (bs "ws") (bs "eol+" ++ d)) with false. change (is (bs "sok") (bs "eol+" ++ d)) with false.
      change (is (bs "sack") (bs "eol+" ++ d)) with false. change (is (bs "ts") (bs "eol+" ++ d)) with false.
      cbv iota. rewrite strip_prefix_app. apply rd_num_iff in Hn. unfold U8, U16 in Hn. now rewrite Hn. }
    destruct (tag (bs "nop") ONop i) as [[w r']|] eqn:E2; cbn [orelse] in H.
    { inversion H; subst. apply tag_inv in E2 as [-> ->]. exists (bs "nop"). repeat split; reflexivity. }
    destruct (tag (bs "mss") OMss i) as [[w r']|] eqn:E3; cbn [orelse] in H.
    { inversion H; subst. apply tag_inv in E3 as [-> ->]. exists (bs "mss"). repeat split; reflexivity. }
    destruct (tag (bs "ws") OWs i) as [[w r']|] eqn:E4; cbn [orelse] in H.
    { inversion H; subst. apply tag_inv in E4 as [-> ->]. exists (bs "ws"). repeat split; reflexivity. }
    destruct (tag (bs "sok") OSok i) as [[w r']|] eqn:E5; cbn [orelse] in H.
    { inversion H; subst. apply tag_inv in E5 as [-> ->]. exists (bs "sok"). repeat split; reflexivity. }
    destruct (tag (bs "sack") OSack i) as [[w r']|] eqn:E6; cbn [orelse] in H.
    { inversion H; subst. apply tag_inv in E6 as [-> ->]. exists (bs "sack"). repeat split; reflexivity. }
    destruct (tag (bs "ts") OTS i) as [[w r']|] eqn:E7; cbn [orelse] in H.
    { inversion H; subst. apply tag_inv in E7 as [-> ->]. exists (bs "ts"). repeat split; reflexivity. }
    apply tag_num_inv in H as (d & n & -> & Hn & ->). exists (bs "?" ++ d).
    repeat split; [rewrite clean_app, (numeral_clean _ _ _ Hn); reflexivity |].
    unfold rd_option.
    change (is (bs "nop") (bs "?" ++ d)) with false. change (is (bs "mss") (bs "?" ++ d)) with false.
    change (is (bs "ws") (bs "?" ++ d)) with false. change (is (bs "sok") (bs "?" ++ d)) with false.
    change (is (bs "sack") (bs "?" ++ d)) with false. change (is (bs "ts") (bs "?" ++ d)) with false.
    cbv iota. change (strip_prefix (bs "eol+") (bs "?" ++ d)) with (@None bytes). cbv iota.
    rewrite strip_prefix_app. apply rd_num_iff in Hn. unfold U8, U16 in Hn. now rewrite Hn.
  - intros f v k H Hk. pose proof (term_stops_digit k Hk) as Hs. unfold rd_option in H.
    destruct (is (bs "nop") f) eqn:T1. { apply is_true in T1. inversion H. subst. reflexivity. }
    destruct (is (bs "mss") f) eqn:T2. { apply is_true in T2. inversion H. subst. reflexivity. }
    destruct (is (bs "ws") f) eqn:T3. { apply is_true in T3. inversion H. subst. reflexivity. }
    destruct (is (bs "sok") f) eqn:T4. { apply is_true in T4. inversion H. subst. reflexivity. }
    destruct (is (bs "sack") f) eqn:T5. { apply is_true in T5. inversion H. subst. reflexivity. }
    destruct (is (bs "ts") f) eqn:T6. { apply is_true in T6. inversion H. subst. reflexivity. }
    destruct (strip_prefix (bs "eol+") f) as [d|] eqn:E1.
    { apply omap_some in H as (n & Hn & ->). apply rd_num_iff in Hn. apply strip_prefix_inv in E1. subst f.
      unfold parse_tcp_option. rewrite <- app_assoc. rewrite (tag_num_numeral (bs "eol+") U8 OEol d n k) by assumption. reflexivity. }
    destruct (strip_prefix (bs "?") f) as [d|] eqn:E2; [|discriminate].
    apply omap_some in H as (n & Hn & ->). apply rd_num_iff in Hn. apply strip_prefix_inv in E2. subst f.
    unfold parse_tcp_option. rewrite <- app_assoc.
    change (tag_num (bs "eol+") U8 OEol (bs "?" ++ d ++ k)) with (@None (tcp_option * bytes)).
    change (tag (bs "nop") ONop (bs "?" ++ d ++ k)) with (@None (tcp_option * bytes)).
    change (tag (bs "mss") OMss (bs "?" ++ d ++ k)) with (@None (tcp_option * bytes)).
    change (tag (bs "ws") OWs (bs "?" ++ d ++ k)) with (@None (tcp_option * bytes)).
    change (tag (bs "sok") OSok (bs "?" ++ d ++ k)) with (@None (tcp_option * bytes)).
    change (tag (bs "sack") OSack (bs "?" ++ d ++ k)) with (@None (tcp_option * bytes)).
    change (tag (bs "ts") OTS (bs "?" ++ d ++ k)) with (@None (tcp_option * bytes)).
    cbn [orelse]. now rewrite (tag_num_numeral (bs "?") U8 OUnknown d n k).
Qed.

(* ---- ttl ---- *)
Lemma unsnoc_inv l a b : unsnoc l = Some (a, b) -> l = a ++ [b].
Proof.
  unfold unsnoc. rewrite !revl_rev'. destruct (rev l) as [|x r] eqn:E; [discriminate|]. intros H. inversion H; subst.
  rewrite revl_rev'. rewrite <- (rev_involutive l), E. reflexivity.
Qed.

Lemma numeral_last max d n : numeral max d n -> exists l' c, d = l' ++ [c] /\ is_digit c = true.
Proof. intros (Hne & Hd & _). now apply forallb_last_digit. Qed.

Lemma avoid_numeral max c d n : numeral max d n -> is_digit c = false -> avoid c d = true.
Proof. intros (_ & Hd & _) Hc. now apply (avoid_of is_digit). Qed.

Lemma rd_ttl_value d n : numeral 255 d n -> rd_ttl d = Some (TtlValue n).
Proof.
  intros Hn. unfold rd_ttl, split_on. rewrite split_on_aux_last by (eapply avoid_numeral; eauto). cbn [rev app].
  destruct (numeral_last _ _ _ Hn) as (l' & c & E & Hc). rewrite E at 1. rewrite unsnoc_snoc.
  assert (X : beqb c "-"%byte = false) by (apply beqb_neq; intros ->; discriminate). rewrite X.
  apply rd_num_iff in Hn. now rewrite Hn.
Qed.
Lemma rd_ttl_bad d n : numeral 255 d n -> rd_ttl (d ++ bs "-") = Some (TtlBad n).
Proof.
  intros Hn. unfold rd_ttl, split_on. rewrite split_on_aux_last.
  2:{ rewrite avoid_app, (avoid_numeral 255 _ d n Hn) by reflexivity. reflexivity. }
  cbn [rev app]. change (bs "-") with ["-"%byte]. rewrite unsnoc_snoc. change (beqb "-"%byte "-"%byte) with true. cbv iota.
  apply rd_num_iff in Hn. now rewrite Hn.
Qed.
Lemma rd_ttl_guess d n : numeral 255 d n -> rd_ttl (d ++ bs "+?") = Some (TtlGuess n).
Proof.
  intros Hn. unfold rd_ttl, split_on. cbn [bs bs_to]. rewrite split_on_aux_sep by (eapply avoid_numeral; eauto).
  cbn [split_on_aux rev app]. change (beqb "?"%byte "+"%byte) with false. cbv iota. cbn [split_on_aux rev app].
  change (is (bs "?") ["?"%byte]) with true. cbv iota. apply rd_num_iff in Hn. now rewrite Hn.
Qed.
Lemma rd_ttl_dist d n e m : numeral 255 d n -> numeral 255 e m -> rd_ttl (d ++ bs "+" ++ e) = Some (TtlDistance n m).
Proof.
  intros Hn Hm. unfold rd_ttl, split_on. cbn [bs bs_to app]. rewrite split_on_aux_sep by (eapply avoid_numeral; eauto).
  rewrite split_on_aux_last by (eapply avoid_numeral; eauto). cbn [rev app].
  rewrite (is_numeral 255 _ e m Hm) by reflexivity. apply rd_num_iff in Hn, Hm. now rewrite Hn, Hm.
Qed.

Lemma tok_ttl : snd_ok parse_ttl rd_ttl /\ cmp_ok parse_ttl rd_ttl.
Proof.
  split.
  - intros i v r H. unfold parse_ttl in H.
    destruct (ttl_bad i) as [[w r']|] eqn:E1; cbn [orelse] in H.
    { inversion H; subst. unfold ttl_bad in E1. destruct (digit1 i) as [[d r1]|] eqn:D; [|discriminate].
      destruct (strip_prefix (bs "-") r1) as [r2|] eqn:S; [|discriminate].
      destruct (dec_max U8 d) as [n|] eqn:M; inversion E1; subst.
      apply digit1_inv in D as (-> & Hne & Hd & _). apply strip_prefix_inv in S. subst r1.
      pose proof (dec_max_numeral U8 d n Hne Hd M) as Hn. exists (d ++ bs "-").
      repeat split; [now rewrite <- app_assoc | rewrite clean_app, (numeral_clean _ _ _ Hn); reflexivity | now apply rd_ttl_bad]. }
    destruct (ttl_guess i) as [[w r']|] eqn:E2; cbn [orelse] in H.
    { inversion H; subst. unfold ttl_guess in E2. destruct (digit1 i) as [[d r1]|] eqn:D; [|discriminate].
      destruct (strip_prefix (bs "+?") r1) as [r2|] eqn:S; [|discriminate].
      destruct (dec_max U8 d) as [n|] eqn:M; inversion E2; subst.
      apply digit1_inv in D as (-> & Hne & Hd & _). apply strip_prefix_inv in S. subst r1.
      pose proof (dec_max_numeral U8 d n Hne Hd M) as Hn. exists (d ++ bs "+?").
      repeat split; [now rewrite <- app_assoc | rewrite clean_app, (numeral_clean _ _ _ Hn); reflexivity | now apply rd_ttl_guess]. }
    destruct (ttl_dist i) as [[w r']|] eqn:E3; cbn [orelse] in H.
    { inversion H; subst. unfold ttl_dist in E3. destruct (digit1 i) as [[d r1]|] eqn:D; [|discriminate].
      destruct (strip_prefix (bs "+") r1) as [r2|] eqn:S; [|discriminate].
      destruct (digit1 r2) as [[e r3]|] eqn:D2; [|discriminate].
      destruct (dec_max U8 d) as [n|] eqn:M; [|discriminate]. destruct (dec_max U8 e) as [m|] eqn:M2; inversion E3; subst.
      apply digit1_inv in D as (-> & Hne & Hd & _). apply strip_prefix_inv in S. subst r1.
      apply digit1_inv in D2 as (-> & Hne2 & Hd2 & _).
      pose proof (dec_max_numeral U8 d n Hne Hd M) as Hn. pose proof (dec_max_numeral U8 e m Hne2 Hd2 M2) as Hm.
      exists (d ++ bs "+" ++ e).
      repeat split; [now rewrite <- !app_assoc | rewrite !clean_app, (numeral_clean _ _ _ Hn), (numeral_clean _ _ _ Hm); reflexivity
                    | now apply rd_ttl_dist]. }
    unfold ttl_value in H. destruct (num U8 i) as [[n r']|] eqn:E4; inversion H; subst.
    apply num_inv in E4 as (d & -> & Hn & _). exists d. repeat split; [eapply numeral_clean; eauto | now apply rd_ttl_value].
  - intros f v k H Hk. pose proof (term_stops_digit k Hk) as Hs. unfold rd_ttl in H.
    destruct (split_on "+"%byte f) as [|a [|b [|c rest]]] eqn:E; try discriminate.
    + apply split_on_one in E as [-> Ha]. destruct (unsnoc a) as [[a' x]|] eqn:U; [|discriminate].
      apply unsnoc_inv in U. destruct (beqb x "-"%byte) eqn:X.
      * apply beqb_eq in X. subst x a. apply omap_some in H as (n & Hn & ->). apply rd_num_iff in Hn.
        unfold parse_ttl, ttl_bad. rewrite <- app_assoc. rewrite (digit1_numeral 255 a' n) by (assumption || reflexivity).
        cbn [app strip_prefix bs bs_to]. change (beqb "-"%byte "-"%byte) with true. cbv iota.
        rewrite (dec_max_of_numeral U8 a' n Hn). reflexivity.
      * apply omap_some in H as (n & Hn & ->). apply rd_num_iff in Hn.
        unfold parse_ttl, ttl_bad, ttl_guess, ttl_dist, ttl_value.
        rewrite (digit1_numeral 255 a n) by assumption. rewrite (num_numeral U8 a n k) by assumption.
        destruct (term_cases k Hk) as [->|[[q ->]|[q ->]]]; reflexivity.
    + apply split_on_two in E as (-> & Ha & Hb). destruct (is (bs "?") b) eqn:Q.
      * apply is_true in Q. subst b. apply omap_some in H as (n & Hn & ->). apply rd_num_iff in Hn.
        unfold parse_ttl, ttl_bad, ttl_guess. rewrite <- app_assoc.
        rewrite (digit1_numeral 255 a n) by (assumption || reflexivity).
        cbn [app strip_prefix bs bs_to]. change (beqb "-"%byte "+"%byte) with false. cbv iota. cbn [orelse].
        change (beqb "+"%byte "+"%byte) with true. change (beqb "?"%byte "?"%byte) with true. cbv iota.
        rewrite (dec_max_of_numeral U8 a n Hn). reflexivity.
      * destruct (rd_num 255 a) as [n|] eqn:Hn; [|discriminate]. destruct (rd_num 255 b) as [m|] eqn:Hm; inversion H; subst.
        apply rd_num_iff in Hn, Hm. destruct (numeral_cons _ _ _ Hm) as (c & r & -> & Hc).
        unfold parse_ttl, ttl_bad, ttl_guess, ttl_dist. rewrite <- app_assoc.
        rewrite (digit1_numeral 255 a n) by (assumption || reflexivity).
        cbn [app strip_prefix bs bs_to]. change (beqb "-"%byte "+"%byte) with false. cbv iota. cbn [orelse].
        change (beqb "+"%byte "+"%byte) with true. cbv iota.
        rewrite (digit_neq "?"%byte c Hc) by reflexivity. cbv iota. cbn [orelse].
        change (c :: r ++ k) with ((c :: r) ++ k). rewrite (digit1_numeral 255 (c :: r) m) by assumption.
        rewrite (dec_max_of_numeral U8 a n Hn), (dec_max_of_numeral U8 (c :: r) m Hm). reflexivity.
Qed.

(* ================= comma-separated lists ================= *)
Definition tail_pairs {A} (ps : list (bytes * A)) : bytes := concat (map (fun p => comma ++ fst p) ps).

Lemma join_tail_pairs {A} t (ps : list (bytes * A)) : join comma (t :: map fst ps) = t ++ tail_pairs ps.
Proof.
  revert t. induction ps as [|[t' v'] ps IH]; intros t.
  - cbn. now rewrite app_nil_r.
  - cbn [map fst]. rewrite join_cons2, IH. unfold tail_pairs. cbn [map concat fst]. now rewrite <- app_assoc.
Qed.

Lemma tail_pairs_len {A} (ps : list (bytes * A)) : (length ps <= length (tail_pairs ps))%nat.
Proof.
  induction ps as [|p ps IH]; [cbn; lia|]. unfold tail_pairs in *. cbn [map concat length].
  rewrite !app_length. change (length comma) with 1%nat. lia.
Qed.

Lemma sep_loop_pairs {A} (P : parser A) (ps : list (bytes * A)) : forall fuel k,
  (length ps <= fuel)%nat -> term k = true -> strip_prefix comma k = None ->
  (forall t v k', In (t, v) ps -> term k' = true -> P (t ++ k') = Some (v, k')) ->
  sep_loop fuel comma P (tail_pairs ps ++ k) = (map snd ps, k).
Proof.
  induction ps as [|[t v] ps IH]; intros fuel k Hf Hk Hc Hp.
  - destruct fuel; [reflexivity|]. cbn [tail_pairs map concat app sep_loop]. now rewrite Hc.
  - destruct fuel as [|fuel]; [cbn in Hf; lia|].
    unfold tail_pairs. cbn [map concat fst]. fold (tail_pairs ps).
    cbn [sep_loop]. rewrite <- !app_assoc. rewrite strip_prefix_app.
    rewrite (Hp t v); [| now left |].
    + rewrite IH; [reflexivity | cbn in Hf; lia | assumption | assumption | intros; eapply Hp; [right; eassumption | assumption]].
    + destruct ps as [|[t' v'] ps]; [assumption | reflexivity].
Qed.

Lemma sep_loop_snd {A} (P : parser A) (R : bytes -> option A) : snd_ok P R ->
  forall fuel i os r, sep_loop fuel comma P i = (os, r) ->
  exists ps, i = tail_pairs ps ++ r /\ map snd ps = os /\ (forall t v, In (t, v) ps -> clean t = true /\ R t = Some v).
Proof.
  intros HS. induction fuel as [|fuel IH]; intros i os r H; cbn [sep_loop] in H.
  - inversion H; subst. exists []. split; [reflexivity | split; [reflexivity | intros t v []]].
  - destruct (strip_prefix comma i) as [i1|] eqn:E1.
    + destruct (P i1) as [[o i2]|] eqn:E2.
      * destruct (sep_loop fuel comma P i2) as [os' r'] eqn:E3. inversion H; subst.
        apply strip_prefix_inv in E1. apply HS in E2 as (c & -> & Hc & HR).
        destruct (IH _ _ _ E3) as (ps & -> & <- & Hps). exists ((c, o) :: ps).
        split; [|split; [reflexivity|]].
        -- subst i. unfold tail_pairs. cbn [map concat fst]. now rewrite <- !app_assoc.
        -- intros t v [H0|H0]; [inversion H0; subst; split; assumption | apply (Hps _ _ H0)].
      * inversion H; subst. exists []. split; [reflexivity | split; [reflexivity | intros t v []]].
    + inversion H; subst. exists []. split; [reflexivity | split; [reflexivity | intros t v []]].
Qed.

Lemma all_some_pairs {A} (R : bytes -> option A) l : forall vs, all_some (map R l) = Some vs ->
  exists ps, map fst ps = l /\ map snd ps = vs /\ (forall t v, In (t, v) ps -> R t = Some v).
Proof.
  induction l as [|t l IH]; intros vs H; cbn [map all_some] in H.
  - inversion H. exists []. split; [reflexivity | split; [reflexivity | intros t v []]].
  - destruct (R t) as [v|] eqn:E; [|discriminate]. destruct (all_some (map R l)) as [vs'|] eqn:E2; inversion H; subst.
    destruct (IH _ eq_refl) as (ps & <- & <- & Hps). exists ((t, v) :: ps). split; [reflexivity | split; [reflexivity|]].
    intros t' v' [H0|H0]; [inversion H0; subst; assumption | auto].
Qed.

Lemma all_some_of_pairs {A} (R : bytes -> option A) (ps : list (bytes * A)) :
  (forall t v, In (t, v) ps -> R t = Some v) -> all_some (map R (map fst ps)) = Some (map snd ps).
Proof.
  induction ps as [|[t v] ps IH]; intros H; [reflexivity|]. cbn [map fst snd all_some].
  rewrite (H t v) by now left. rewrite IH; [reflexivity | intros; apply H; now right].
Qed.

(* soundness of a list field: what separated_list0 consumed is read by rd_list as the same values *)
Lemma list_snd {A} (P : parser A) (R : bytes -> option A) : snd_ok P R -> R [] = None ->
  forall i vs r, separated_list0 comma P i = Some (vs, r) ->
  exists c, i = c ++ r /\ avoid colon_b c = true /\ rd_list R c = Some vs.
Proof.
  intros HS Hnil i vs r H. unfold separated_list0 in H. destruct (P i) as [[o i1]|] eqn:E.
  - destruct (sep_loop (length i1) comma P i1) as [os r'] eqn:E2. inversion H; subst.
    apply HS in E as (c1 & -> & Hc1 & HR1). destruct (sep_loop_snd P R HS _ _ _ _ E2) as (ps & -> & <- & Hps).
    exists (join comma (c1 :: map fst ps)). repeat split.
    + rewrite join_tail_pairs. now rewrite <- app_assoc.
    + apply avoid_join; [reflexivity|]. intros x [<-|Hx]; [now apply clean_parts in Hc1|].
      apply in_map_iff in Hx as ([t v] & <- & Hin). apply Hps in Hin as [Hc _]. now apply clean_parts in Hc.
    + unfold rd_list. assert (Hne : c1 <> []) by (intros ->; congruence).
      assert (J : join comma (c1 :: map fst ps) <> []).
      { rewrite join_tail_pairs. destruct c1; [congruence | discriminate]. }
      destruct (join comma (c1 :: map fst ps)) as [|b q] eqn:EJ; [congruence|]. rewrite <- EJ.
      change comma with [comma_b]. rewrite split_on_join.
      * change (c1 :: map fst ps) with (map fst ((c1, o) :: ps)). rewrite all_some_of_pairs; [reflexivity|].
        intros t v [H0|H0]; [inversion H0; subst; assumption | now apply Hps].
      * discriminate.
      * intros x [<-|Hx]; [now apply clean_parts in Hc1|].
        apply in_map_iff in Hx as ([t v] & <- & Hin). apply Hps in Hin as [Hc _]. now apply clean_parts in Hc.
  - inversion H; subst. exists []. repeat split; reflexivity.
Qed.

(* completeness of a list field *)
Lemma list_cmp {A} (P : parser A) (R : bytes -> option A) : cmp_ok P R ->
  forall f vs k, rd_list R f = Some vs -> term k = true -> strip_prefix comma k = None -> P k = None ->
  separated_list0 comma P (f ++ k) = Some (vs, k).
Proof.
  intros HC f vs k H Hk Hc Hn. unfold rd_list in H. destruct f as [|b q] eqn:Ef.
  - inversion H; subst. unfold separated_list0. cbn [app]. now rewrite Hn.
  - rewrite <- Ef in *. clear Ef b q.
    destruct (all_some_pairs R _ _ H) as (ps & Hfst & <- & Hps).
    destruct (split_on_join_inv ","%byte f) as [J _]. rewrite <- Hfst in J.
    destruct ps as [|[t v] ps]; [destruct (split_on_inv ","%byte f) as (x & y & E & _); rewrite E in Hfst; discriminate|].
    cbn [map fst] in J. change [","%byte] with comma in J. rewrite join_tail_pairs in J. rewrite <- J.
    unfold separated_list0. rewrite <- app_assoc.
    rewrite (HC t v); [| apply Hps; now left | destruct ps as [|[t' v'] ps]; [assumption | reflexivity]].
    rewrite sep_loop_pairs; [reflexivity | | assumption | assumption |].
    + rewrite app_length. pose proof (tail_pairs_len ps). lia.
    + intros t' v' k' Hin Hk'. apply HC; [apply Hps; now right | assumption].
Qed.

(* ================= the TCP signature ================= *)
Lemma rd_option_nil : rd_option [] = None. Proof. reflexivity. Qed.
Lemma rd_quirk_nil : rd_quirk [] = None. Proof. reflexivity. Qed.

Lemma clean_colon c : clean c = true -> avoid colon_b c = true.
Proof. intros H. now apply clean_parts in H. Qed.
Lemma clean_comma c : clean c = true -> avoid comma_b c = true.
Proof. intros H. now apply clean_parts in H. Qed.

(* model accepts -> the reference reader reads the same value *)
Lemma tcp_model_to_spec l s : tcp_sig_from_str l = Some s -> spec_tcp l = Some s.
Proof.
  unfold tcp_sig_from_str, from_str. destruct (parse_tcp_signature l) as [[s' rest]|] eqn:E; [|discriminate].
  destruct rest; [|discriminate]. intros H. inversion H; subst s'. clear H.
  unfold parse_tcp_signature in E.
  destruct (parse_ip_version l) as [[version i1]|] eqn:P1; [|discriminate].
  destruct (strip_prefix colon i1) as [i2|] eqn:S1; [|discriminate].
  destruct (parse_ttl i2) as [[ittl i3]|] eqn:P2; [|discriminate].
  destruct (strip_prefix colon i3) as [i4|] eqn:S2; [|discriminate].
  destruct (num U8 i4) as [[olen i5]|] eqn:P3; [|discriminate].
  destruct (strip_prefix colon i5) as [i6|] eqn:S3; [|discriminate].
  destruct (star_or_num U16 i6) as [[mss i7]|] eqn:P4; [|discriminate].
  destruct (strip_prefix colon i7) as [i8|] eqn:S4; [|discriminate].
  destruct (parse_window_size i8) as [[wsize i9]|] eqn:P5; [|discriminate].
  destruct (strip_prefix comma i9) as [i10|] eqn:S5; [|discriminate].
  destruct (star_or_num U8 i10) as [[wscale i11]|] eqn:P6; [|discriminate].
  destruct (strip_prefix colon i11) as [i12|] eqn:S6; [|discriminate].
  destruct (separated_list0 comma parse_tcp_option i12) as [[olayout i13]|] eqn:P7; [|discriminate].
  destruct (strip_prefix colon i13) as [i14|] eqn:S7; [|discriminate].
  destruct (separated_list0 comma parse_quirk i14) as [[quirks i15]|] eqn:P8; [|discriminate].
  destruct (strip_prefix colon i15) as [i16|] eqn:S8; [|discriminate].
  destruct (parse_payload_size i16) as [[pclass i17]|] eqn:P9; [|discriminate].
  inversion E; subst s i17. clear E.
  apply (proj1 tok_ip_version) in P1 as (c1 & -> & C1 & R1).
  apply (proj1 tok_ttl) in P2 as (c2 & -> & C2 & R2).
  apply (proj1 (tok_num U8)) in P3 as (c3 & -> & C3 & R3).
  apply (proj1 (tok_star_or_num U16)) in P4 as (c4 & -> & C4 & R4).
  apply (proj1 tok_window) in P5 as (c5 & -> & C5 & R5).
  apply (proj1 (tok_star_or_num U8)) in P6 as (c6 & -> & C6 & R6).
  apply (list_snd _ _ (proj1 tok_option) rd_option_nil) in P7 as (c7 & -> & C7 & R7).
  apply (list_snd _ _ (proj1 tok_quirk) rd_quirk_nil) in P8 as (c8 & -> & C8 & R8).
  apply (proj1 tok_pclass) in P9 as (c9 & -> & C9 & R9).
  apply strip_prefix_inv in S1, S2, S3, S4, S5, S6, S7, S8. subst.
  rewrite app_nil_r.
  unfold spec_tcp.
  assert (E : c1 ++ colon ++ c2 ++ colon ++ c3 ++ colon ++ c4 ++ colon ++ c5 ++ comma ++ c6 ++ colon ++ c7 ++ colon ++ c8 ++ colon ++ c9
            = join [colon_b] [c1; c2; c3; c4; c5 ++ comma ++ c6; c7; c8; c9]).
  { cbn [join]. change [colon_b] with colon. now rewrite <- !app_assoc. }
  rewrite E. rewrite split_on_join.
  2:{ discriminate. }
  2:{ intros f Hf. cbn [In] in Hf. repeat (destruct Hf as [<- | Hf]); try contradiction; auto using clean_colon.
      rewrite !avoid_app, (clean_colon _ C5), (clean_colon _ C6). reflexivity. }
  assert (Ew : split_on ","%byte (c5 ++ comma ++ c6) = [c5; c6]).
  { change (c5 ++ comma ++ c6) with (join [comma_b] [c5; c6]). apply split_on_join; [discriminate|].
    intros f [<- | [<- | []]]; auto using clean_comma. }
  rewrite Ew. unfold U8, U16 in *. rewrite R1, R2, R3, R4, R5, R6, R7, R8, R9. reflexivity.
Qed.

(* the reference reader accepts -> the model reads the same value *)
Lemma tcp_spec_to_model l s : spec_tcp l = Some s -> tcp_sig_from_str l = Some s.
Proof.
  unfold spec_tcp. destruct (split_on ":"%byte l) as [|fv [|ft [|fo [|fm [|fw [|fl [|fq [|fp [|x y]]]]]]]]] eqn:E; try discriminate.
  destruct (split_on ","%byte fw) as [|fws [|fsc [|x y]]] eqn:Ew; try discriminate.
  destruct (rd_ip_version fv) as [v|] eqn:R1; [|discriminate].
  destruct (rd_ttl ft) as [t|] eqn:R2; [|discriminate].
  destruct (rd_num 255 fo) as [o|] eqn:R3; [|discriminate].
  destruct (rd_star_or 65535 fm) as [m|] eqn:R4; [|discriminate].
  destruct (rd_window fws) as [w|] eqn:R5; [|discriminate].
  destruct (rd_star_or 255 fsc) as [sc|] eqn:R6; [|discriminate].
  destruct (rd_list rd_option fl) as [ol|] eqn:R7; [|discriminate].
  destruct (rd_list rd_quirk fq) as [q|] eqn:R8; [|discriminate].
  destruct (rd_pclass fp) as [p|] eqn:R9; [|discriminate].
  intros H. inversion H; subst s. clear H.
  destruct (split_on_join_inv ":"%byte l) as [J _]. rewrite E in J. cbn [join] in J.
  apply split_on_two in Ew as (-> & _ & _).
  rewrite <- J. change [":"%byte] with colon. change (fws ++ ","%byte :: fsc) with (fws ++ comma ++ fsc).
  unfold tcp_sig_from_str, from_str, parse_tcp_signature. rewrite <- !app_assoc.
  rewrite (proj2 tok_ip_version _ _ _ R1), strip_prefix_app by reflexivity.
  rewrite (proj2 tok_ttl _ _ _ R2), strip_prefix_app by reflexivity.
  rewrite (proj2 (tok_num U8) _ _ _ R3), strip_prefix_app by reflexivity.
  rewrite (proj2 (tok_star_or_num U16) _ _ _ R4), strip_prefix_app by reflexivity.
  rewrite (proj2 tok_window _ _ _ R5), strip_prefix_app by reflexivity.
  rewrite (proj2 (tok_star_or_num U8) _ _ _ R6), strip_prefix_app by reflexivity.
  rewrite (list_cmp _ _ (proj2 tok_option) _ _ _ R7), strip_prefix_app by reflexivity.
  rewrite (list_cmp _ _ (proj2 tok_quirk) _ _ _ R8), strip_prefix_app by reflexivity.
  rewrite <- (app_nil_r fp). rewrite (proj2 tok_pclass _ _ [] R9) by reflexivity. reflexivity.
Qed.

Theorem tcp_model_eq_spec l : tcp_sig_from_str l = spec_tcp l.
Proof.
  destruct (tcp_sig_from_str l) as [s|] eqn:E1.
  - symmetry. now apply tcp_model_to_spec.
  - destruct (spec_tcp l) as [s|] eqn:E2; [|reflexivity]. apply tcp_spec_to_model in E2. congruence.
Qed.

(* ================= HTTP ================= *)
Lemma take_until_inv c l a s : take_until c l = Some (a, s) -> l = a ++ s /\ avoid c a = true /\ exists s', s = c :: s'.
Proof.
  revert a s. induction l as [|b l IH]; intros a s H; cbn in H; [discriminate|].
  destruct (beqb b c) eqn:E.
  - inversion H; subst. apply beqb_eq in E. subst. repeat split; eauto.
  - destruct (take_until c l) as [[a' s']|]; inversion H; subst. destruct (IH _ _ eq_refl) as (-> & Ha & Hs).
    repeat split; auto. unfold avoid in *. cbn. now rewrite E, Ha.
Qed.

Lemma hname_name_char l : forallb is_hname l = true -> forallb name_char l = true.
Proof. intros H. rewrite forallb_forall in *. intros b Hb. rewrite name_char_is_hname. auto. Qed.
Lemma name_char_hname l : forallb name_char l = true -> forallb is_hname l = true.
Proof. intros H. rewrite forallb_forall in *. intros b Hb. rewrite <- name_char_is_hname. auto. Qed.

Lemma avoid_not_rbracket v : avoid "]"%byte v = true -> forallb not_rbracket v = true.
Proof.
  unfold avoid. intros H. rewrite forallb_forall in *. intros b Hb. specialize (H b Hb). unfold not_rbracket.
  destruct (b2n b =? 93) eqn:E; [|reflexivity]. assert (b = "]"%byte) by (apply b2n_inj; cbn; lia). subst. discriminate.
Qed.

Lemma bracket_value_inv r1 v r2 : bracket_value r1 = Some (v, r2) -> r1 = bs "=[" ++ v ++ bs "]" ++ r2 /\ avoid "]"%byte v = true.
Proof.
  unfold bracket_value. intros B. destruct (strip_prefix (bs "=[") r1) as [x|] eqn:B1; [|discriminate].
  destruct (take_until "]"%byte x) as [[v' y]|] eqn:B2; [|discriminate].
  destruct (strip_prefix (bs "]") y) as [z|] eqn:B3; inversion B; subst.
  apply strip_prefix_inv in B1, B3. apply take_until_inv in B2 as (-> & Hv & _). subst. split; [reflexivity | assumption].
Qed.

(* what parse_http_header consumed is the printed form of the header it returns *)
Lemma parse_kv_snd i1 name value r : parse_header_key_value i1 = ((name, value), r) ->
  i1 = name ++ match value with Some v => bs "=[" ++ v ++ bs "]" | None => [] end ++ r /\
  forallb name_char name = true /\ match value with Some v => forallb not_rbracket v = true | None => True end.
Proof.
  unfold parse_header_key_value. destruct (span_spec is_hname i1) as (S1 & S2 & _).
  destruct (span is_hname i1) as [nm r1]. cbn [fst snd] in S1, S2.
  destruct (bracket_value r1) as [[v r2]|] eqn:B; intros H; inversion H; subst.
  - apply bracket_value_inv in B as [-> Hv].
    repeat split; try (now apply hname_name_char); try (now apply avoid_not_rbracket); try reflexivity; now rewrite <- ?app_assoc.
  - repeat split; try (now apply hname_name_char); try reflexivity; assumption.
Qed.

Lemma parse_http_header_snd i h r : parse_http_header i = Some (h, r) -> i = print_header h ++ r /\ lwf h = true.
Proof.
  unfold parse_http_header. cbv zeta.
  destruct (strip_prefix (bs "?") i) as [i1|] eqn:Q.
  - destruct (parse_header_key_value i1) as [[name value] r'] eqn:K. cbn [fst snd].
    intros H. injection H as <- <-. apply parse_kv_snd in K as (K1 & Kn & Kv). apply strip_prefix_inv in Q.
    unfold print_header, lwf. cbn [h_optional h_name h_value]. split.
    + rewrite Q, K1. now rewrite <- !app_assoc.
    + rewrite Kn. destruct value; [now rewrite Kv | reflexivity].
  - destruct (parse_header_key_value i) as [[name value] r'] eqn:K. cbn [fst snd].
    intros H. injection H as <- <-. apply parse_kv_snd in K as (K1 & Kn & Kv).
    unfold print_header, lwf. cbn [h_optional h_name h_value app]. split.
    + rewrite K1 at 1. now rewrite <- !app_assoc.
    + rewrite Kn. destruct value; [now rewrite Kv | reflexivity].
Qed.

Lemma parse_http_header_lprint h k : lwf h = true -> term k = true -> parse_http_header (print_header h ++ k) = Some (h, k).
Proof.
  intros Hwf Hk. destruct (lwf_spec h Hwf) as (Hn & Hv). apply name_char_hname in Hn.
  destruct h as [o name value]. cbn [h_optional h_name h_value] in *.
  unfold parse_http_header, print_header. cbn [h_optional h_name h_value].
  destruct o.
  - rewrite <- !app_assoc. rewrite strip_prefix_app. rewrite parse_header_kv_print by assumption. reflexivity.
  - cbn [app].
    assert (Hq : strip_prefix (bs "?") ((name ++ match value with Some v => bs "=[" ++ v ++ bs "]" | None => [] end) ++ k) = None).
    { destruct name as [|c name].
      - destruct value; [reflexivity | now apply term_no_qmark].
      - cbn. cbn in Hn. apply andb_true_iff in Hn as [Hc _]. now rewrite (hname_not_qmark c Hc). }
    rewrite Hq. rewrite <- app_assoc. rewrite parse_header_kv_print by assumption. reflexivity.
Qed.

Lemma rd_header_inv f h : rd_header f = Some h -> f = print_header h /\ lwf h = true.
Proof.
  unfold rd_header.
  set (optional := match f with b :: _ => beqb b "?"%byte | [] => false end).
  set (f1 := if optional then tl f else f).
  assert (Hf : f = (if optional then bs "?" else []) ++ f1).
  { unfold f1, optional. destruct f as [|b f]; [reflexivity|]. destruct (beqb b "?"%byte) eqn:E; [|reflexivity].
    apply beqb_eq in E. now subst. }
  destruct (span_spec name_char f1) as (S1 & S2 & _). destruct (span name_char f1) as [name r]. cbn [fst snd] in S1, S2.
  destruct r as [|b r].
  - intros H. inversion H; subst h. unfold print_header, lwf. cbn [h_optional h_name h_value].
    split; [rewrite Hf at 1; rewrite S1; now rewrite !app_nil_r | now rewrite S2].
  - destruct (strip_prefix (bs "=[") (b :: r)) as [v'|] eqn:B1; [|discriminate].
    destruct (unsnoc v') as [[v e]|] eqn:U; [|discriminate].
    destruct (beqb e "]"%byte && forallb not_rbracket v) eqn:C; [|discriminate].
    intros H. inversion H; subst h. apply andb_true_iff in C as [Ce Cv]. apply beqb_eq in Ce. subst e.
    apply strip_prefix_inv in B1. apply unsnoc_inv in U. subst v'.
    unfold print_header, lwf. cbn [h_optional h_name h_value].
    split; [rewrite Hf at 1; rewrite S1, B1; rewrite <- ?app_assoc; reflexivity | now rewrite S2, Cv].
Qed.

(* ---- lists of headers ---- *)
Lemma sep_loop_headers : forall fuel i hs r, sep_loop fuel comma parse_http_header i = (hs, r) ->
  i = tail_text print_header hs ++ r /\ forallb lwf hs = true.
Proof.
  induction fuel as [|fuel IH]; intros i hs r H; cbn [sep_loop] in H.
  - inversion H; subst. split; reflexivity.
  - destruct (strip_prefix comma i) as [i1|] eqn:E1; [|inversion H; subst; split; reflexivity].
    destruct (parse_http_header i1) as [[h i2]|] eqn:E2; [|inversion H; subst; split; reflexivity].
    destruct (sep_loop fuel comma parse_http_header i2) as [hs' r'] eqn:E3. inversion H; subst.
    apply strip_prefix_inv in E1. apply parse_http_header_snd in E2 as (-> & Hh). destruct (IH _ _ _ E3) as (-> & Hhs).
    split; [|cbn; now rewrite Hh, Hhs]. subst i. unfold tail_text. cbn [map concat]. now rewrite <- !app_assoc.
Qed.

Lemma separated_list1_headers i hs r : separated_list1 comma parse_http_header i = Some (hs, r) ->
  exists h hs', hs = h :: hs' /\ i = join comma (map print_header (h :: hs')) ++ r /\ forallb lwf (h :: hs') = true.
Proof.
  unfold separated_list1. destruct (parse_http_header i) as [[h i1]|] eqn:E; [|discriminate].
  destruct (sep_loop (length i1) comma parse_http_header i1) as [hs' r'] eqn:E2. intros H. inversion H; subst.
  apply parse_http_header_snd in E as (-> & Hh). apply sep_loop_headers in E2 as (-> & Hhs).
  exists h, hs'. repeat split; [rewrite join_tail; now rewrite <- app_assoc | cbn; now rewrite Hh, Hhs].
Qed.

Lemma parse_http_header_total i : exists h r, parse_http_header i = Some (h, r).
Proof. unfold parse_http_header. eexists _, _. reflexivity. Qed.

Lemma separated_list0_headers i : exists hs r, separated_list0 comma parse_http_header i = Some (hs, r) /\
  separated_list1 comma parse_http_header i = Some (hs, r).
Proof.
  rewrite separated_list1_to_0. destruct (separated_list1 comma parse_http_header i) as [[hs r]|] eqn:E.
  - exists hs, r. split; reflexivity.
  - exfalso. unfold separated_list1 in E. destruct (parse_http_header_total i) as (h & r & T). rewrite T in E.
    destruct (sep_loop (length r) comma parse_http_header r). discriminate.
Qed.

(* ---- cut_top / split_top, inverted ---- *)
Lemma cut_top_inv c : forall l inside a s, cut_top c inside l = Some (a, s) -> l = a ++ c :: s.
Proof.
  induction l as [|b l IH]; intros inside a s H; cbn [cut_top] in H; [discriminate|].
  destruct inside.
  - destruct (cut_top c (negb (beqb b "]"%byte)) l) as [[a' s']|] eqn:E; inversion H; subst. apply IH in E. now subst.
  - destruct (beqb b c) eqn:Eb.
    + inversion H; subst. apply beqb_eq in Eb. now subst.
    + destruct (cut_top c (beqb b "["%byte) l) as [[a' s']|] eqn:E; inversion H; subst. apply IH in E. now subst.
Qed.

Lemma split_top_nonempty c : forall l inside cur, split_top c inside l cur <> [].
Proof.
  induction l as [|b l IH]; intros inside cur; cbn [split_top]; [discriminate|].
  destruct inside; [apply IH|]. destruct (beqb b c); [discriminate | apply IH].
Qed.

Lemma split_top_join c : forall l inside cur, join [c] (split_top c inside l cur) = rev cur ++ l.
Proof.
  induction l as [|b l IH]; intros inside cur; cbn [split_top].
  - cbn. now rewrite revl_rev', app_nil_r.
  - destruct inside.
    + rewrite IH. cbn [rev]. now rewrite <- app_assoc.
    + destruct (beqb b c) eqn:E.
      * apply beqb_eq in E. subst b. pose proof (split_top_nonempty c l false []) as Hne.
        destruct (split_top c false l []) as [|p ps] eqn:E2; [congruence|].
        rewrite join_cons2, <- E2, IH, revl_rev'. reflexivity.
      * rewrite IH. cbn [rev]. now rewrite <- app_assoc.
Qed.

Lemma rd_headers_inv f hs : rd_headers f = Some hs ->
  exists h hs', hs = h :: hs' /\ f = join comma (map print_header hs) /\ forallb lwf hs = true.
Proof.
  unfold rd_headers. intros H. destruct (all_some_pairs rd_header _ _ H) as (ps & Hfst & <- & Hps).
  pose proof (split_top_join ","%byte f false []) as J. rewrite <- Hfst in J. cbn [rev app] in J.
  assert (Hmap : map fst ps = map print_header (map snd ps) /\ forallb lwf (map snd ps) = true).
  { clear Hfst J H. induction ps as [|[t h] ps IH]; [split; reflexivity|].
    destruct (rd_header_inv t h (Hps t h (or_introl eq_refl))) as [-> Hh].
    destruct IH as [IH1 IH2]; [intros; apply Hps; now right|]. cbn [map fst snd forallb]. rewrite IH1, Hh, IH2. split; reflexivity. }
  destruct Hmap as [Hmap Hl].
  destruct ps as [|[t h] ps].
  - exfalso. cbn in Hfst. symmetry in Hfst. now apply split_top_nonempty in Hfst.
  - exists h, (map snd ps). repeat split; [| exact Hl]. rewrite <- J, Hmap. reflexivity.
Qed.

Lemma filter_named_eq l : filter name_nonempty l = filter (fun h => negb (match h_name h with [] => true | _ => false end)) l.
Proof. apply filter_ext. intros h. unfold name_nonempty. now destruct (h_name h). Qed.

Lemma hver_text c v : rd_http_version c = Some v -> forall rest, cut_top ":"%byte false (c ++ colon ++ rest) = Some (c, rest).
Proof.
  intros H rest. rewrite rd_http_version_tags in H. apply lookup_in in H. cbn in H.
  destruct H as [H|[H|[H|[]]]]; inversion H; subst; reflexivity.
Qed.

Lemma http_model_to_spec l s : http_sig_from_str l = Some s -> spec_http l = Some s.
Proof.
  unfold http_sig_from_str, from_str. destruct (parse_http_signature l) as [[s' rest]|] eqn:E; [|discriminate].
  destruct rest; [|discriminate]. intros H. inversion H; subst s'. clear H.
  unfold parse_http_signature in E.
  destruct (parse_http_version l) as [[version i1]|] eqn:P1; [|discriminate].
  destruct (strip_prefix colon i1) as [i2|] eqn:S1; [|discriminate].
  destruct (separated_list1 comma parse_http_header i2) as [[horder i3]|] eqn:P2; [|discriminate].
  destruct (strip_prefix colon i3) as [i4|] eqn:S2; [|discriminate].
  destruct (separated_list0_headers i4) as (ha & r & P3 & P3'). rewrite P3 in E. cbn [fst snd] in E.
  destruct (strip_prefix colon r) as [i6|] eqn:S3; [|discriminate].
  inversion E; subst s. clear E.
  apply (proj1 tok_http_version) in P1 as (c1 & -> & C1 & R1).
  apply separated_list1_headers in P2 as (h & hs' & -> & -> & L2).
  apply separated_list1_headers in P3' as (a & as' & -> & -> & L3).
  apply strip_prefix_inv in S1, S2, S3. subst.
  unfold spec_http. rewrite (hver_text c1 version R1).
  rewrite cut_top_headers by assumption. cbn [colon bs bs_to app]. rewrite cut_top_here. cbn [prepend]. rewrite app_nil_r.
  rewrite cut_top_headers by assumption. rewrite cut_top_here. cbn [prepend]. rewrite app_nil_r.
  rewrite R1. rewrite !rd_headers_print by assumption. now rewrite filter_named_eq.
Qed.

Lemma http_spec_to_model l s : spec_http l = Some s -> http_sig_from_str l = Some s.
Proof.
  unfold spec_http. destruct (cut_top ":"%byte false l) as [[fv l1]|] eqn:C1; [|discriminate].
  destruct (cut_top ":"%byte false l1) as [[fh l2]|] eqn:C2; [|discriminate].
  destruct (cut_top ":"%byte false l2) as [[fa sw]|] eqn:C3; [|discriminate].
  destruct (rd_http_version fv) as [v|] eqn:R1; [|discriminate].
  destruct (rd_headers fh) as [ho|] eqn:R2; [|discriminate].
  destruct (rd_headers fa) as [ha|] eqn:R3; [|discriminate].
  intros H. inversion H; subst s. clear H.
  apply cut_top_inv in C1, C2, C3. subst l l1 l2.
  apply rd_headers_inv in R2 as (h & hs' & -> & -> & L2). apply rd_headers_inv in R3 as (a & as' & -> & -> & L3).
  unfold http_sig_from_str, from_str, parse_http_signature.
  change (fv ++ ":"%byte :: ?x) with (fv ++ colon ++ x).
  rewrite (proj2 tok_http_version fv v _ R1) by reflexivity. rewrite strip_prefix_app.
  change (join comma (map print_header (h :: hs')) ++ ":"%byte :: ?x) with (join comma (map print_header (h :: hs')) ++ colon ++ x).
  rewrite separated_list1_print, strip_prefix_app.
  2:{ intros y k' Hy Hk'. apply parse_http_header_lprint; [|assumption]. rewrite forallb_forall in L2. now apply L2. }
  change (join comma (map print_header (a :: as')) ++ ":"%byte :: sw) with (join comma (map print_header (a :: as')) ++ colon ++ sw).
  rewrite separated_list1_to_0, separated_list1_print.
  2:{ intros y k' Hy Hk'. apply parse_http_header_lprint; [|assumption]. rewrite forallb_forall in L3. now apply L3. }
  cbn [fst snd]. rewrite strip_prefix_app. now rewrite filter_named_eq.
Qed.

Theorem http_model_eq_spec l : http_sig_from_str l = spec_http l.
Proof.
  destruct (http_sig_from_str l) as [s|] eqn:E1.
  - symmetry. now apply http_model_to_spec.
  - destruct (spec_http l) as [s|] eqn:E2; [|reflexivity]. apply http_spec_to_model in E2. congruence.
Qed.
