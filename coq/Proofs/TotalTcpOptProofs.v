(* C01 (a) -- the TCP option walk never panics and always terminates (all byte lists). *)
From Coq Require Import List NArith Bool Lia ZifyBool ZifyN.
From Coq Require Import Strings.Byte.
From HN Require Import Base.Bytes Model.TotalBase Model.TotalTcpOpt Proofs.TotalBaseProofs.
Import ListNotations.
Open Scope N_scope.

Lemma topt_number_ok p : 1 <= len p -> exists n, topt_number p = Ok n /\ n < 256.
Proof.
  intros H. unfold topt_number. ok_idx p 0. eexists; split; [reflexivity|apply b2n_lt].
Qed.

Lemma tcp_option_length_ok p : 1 <= len p -> exists l, tcp_option_length p = Ok l /\ l <= 1.
Proof.
  intros H. unfold tcp_option_length. destruct (topt_number_ok p H) as (n & E & _). rewrite E. cbn [bind].
  eexists; split; [reflexivity|]. destruct ((n =? 0) || (n =? 1)); lia.
Qed.

Lemma topt_length_raw_ok p : 1 <= len p -> exists lr, topt_length_raw p = Ok lr.
Proof.
  intros H. unfold topt_length_raw. destruct (tcp_option_length_ok p H) as (l & E & Hl). rewrite E. cbn [bind].
  rewrite add_chk_ok by (unfold usize_max; lia). cbn [bind].
  destruct (slice_ok p 1 (N.min (1 + l) (len p))) as (s & Es & _); [lia|lia|]. eauto.
Qed.

Lemma payload_length_ok p : 1 <= len p -> exists pl, tcp_option_payload_length p = Ok pl /\ pl <= 253.
Proof.
  intros H. unfold tcp_option_payload_length. destruct (topt_length_raw_ok p H) as (lr & E). rewrite E. cbn [bind].
  destruct lr as [|l lr]; [eexists; split; [reflexivity|lia]|].
  destruct (2 <=? b2n l) eqn:E2.
  - rewrite sub_chk_ok by lia. eexists; split; [reflexivity|]. pose proof (b2n_lt l). lia.
  - eexists; split; [reflexivity|lia].
Qed.

Lemma topt_packet_size_ok p : 1 <= len p -> exists ps, topt_packet_size p = Ok ps /\ 1 <= ps.
Proof.
  intros H. unfold topt_packet_size.
  destruct (tcp_option_length_ok p H) as (l & E & Hl). rewrite E. cbn [bind].
  rewrite add_chk_ok by (unfold usize_max; lia). cbn [bind].
  destruct (payload_length_ok p H) as (pl & Ep & Hpl). rewrite Ep. cbn [bind].
  rewrite add_chk_ok by (unfold usize_max; lia). eexists; split; [reflexivity|lia].
Qed.

Lemma topt_payload_ok p : 1 <= len p -> exists d, topt_payload p = Ok d.
Proof.
  intros H. unfold topt_payload.
  destruct (tcp_option_length_ok p H) as (l & E & Hl). rewrite E. cbn [bind].
  rewrite add_chk_ok by (unfold usize_max; lia). cbn [bind].
  destruct (payload_length_ok p H) as (pl & Ep & Hpl). rewrite Ep. cbn [bind].
  rewrite add_chk_ok by (unfold usize_max; lia). cbn [bind].
  destruct (len p <=? 1 + l) eqn:Es; [eauto|].
  destruct (slice_ok p (1 + l) (N.min (1 + l + pl) (len p))) as (s & E1 & _); [lia|lia|]. eauto.
Qed.

Lemma arr4_ok s : len s = 4 -> exists v, arr4 s = Ok v.
Proof. intros H. destruct (len4 s H) as (a & b & c & d & ->). cbn. eauto. Qed.

(* one iteration: returns normally and the buffer shrinks by at least one byte *)
Lemma opt_step_ok tt buf st : 1 <= len buf ->
  exists buf' st', opt_step true tt buf st = Ok (buf', st') /\ len buf' < len buf.
Proof.
  intros Hl. unfold opt_step.
  destruct (topt_packet_size_ok buf Hl) as (ps & Eps & Hps). rewrite Eps. cbn [bind].
  destruct (slice_from_ok buf (N.min ps (len buf))) as (b' & Eb & Lb); [lia|]. rewrite Eb. cbn [bind].
  destruct (topt_payload_ok buf Hl) as (data & Ed). rewrite Ed. cbn [bind].
  destruct (topt_number_ok buf Hl) as (num & En & _). rewrite En. cbn [bind].
  assert (Hlt : len b' < len buf) by lia.
  destruct (num =? 0); [eexists _, _; split; [reflexivity|exact Hlt]|].
  destruct (num =? 1); [eexists _, _; split; [reflexivity|exact Hlt]|].
  destruct (num =? 2).
  { destruct (2 <=? len data) eqn:E2; [|eexists _, _; split; [reflexivity|exact Hlt]].
    ok_idx data 0. ok_idx data 1. eexists _, _; split; [reflexivity|exact Hlt]. }
  destruct (num =? 3).
  { destruct data; eexists _, _; (split; [reflexivity|exact Hlt]). }
  destruct (num =? 4); [eexists _, _; split; [reflexivity|exact Hlt]|].
  destruct (num =? 5); [eexists _, _; split; [reflexivity|exact Hlt]|].
  destruct (num =? 8); [|eexists _, _; split; [reflexivity|exact Hlt]].
  destruct (4 <=? len data) eqn:E4.
  - ok_slice data 0 4. destruct (arr4_ok s) as (v & Ev); [lia|]. rewrite Ev. cbn [bind].
    destruct ((8 <=? len data) && (tt =? T_SYN)) eqn:E8.
    + ok_slice data 4 8. destruct (arr4_ok s0) as (v0 & Ev0); [lia|]. rewrite Ev0. cbn [bind].
      replace (8 <=? len data) with true by lia. cbn [bind].
      eexists _, _; split; [reflexivity|exact Hlt].
    + cbn [bind]. destruct (8 <=? len data) eqn:E8'.
      * cbn [bind]. eexists _, _; split; [reflexivity|exact Hlt].
      * cbn [bind]. eexists _, _; split; [reflexivity|exact Hlt].
  - cbn [bind]. replace ((8 <=? len data) && (tt =? T_SYN)) with false by lia. cbn [bind].
    replace (8 <=? len data) with false by lia. cbn [bind].
    eexists _, _; split; [reflexivity|exact Hlt].
Qed.

Lemma opt_walk_ok tt : forall fuel buf st, (length buf < fuel)%nat ->
  exists st', opt_walk true fuel tt buf st = Ok st'.
Proof.
  induction fuel as [|f IH]; intros buf st Hf; [lia|]. cbn [opt_walk].
  destruct (1 <=? len buf) eqn:E; [|eauto].
  destruct (opt_step_ok tt buf st) as (b' & s' & Es & Hlt); [lia|]. rewrite Es. cbn [bind fst snd].
  apply IH. unfold len in Hlt. lia.
Qed.

(* the walk with its flag validation returns a result or an error value *)
Lemma visit_opts_returns flags opts : visit_opts flags opts = Err \/ exists st, visit_opts flags opts = Ok st.
Proof.
  unfold visit_opts, visit_opts_gen. destruct (is_valid flags (tcp_type_of flags)); [right|left; reflexivity].
  apply opt_walk_ok. lia.
Qed.

Lemma visit_opts_nopanic flags opts : visit_opts flags opts <> Panic.
Proof. destruct (visit_opts_returns flags opts) as [E|(st & E)]; rewrite E; discriminate. Qed.

Lemma visit_opts_terminates flags opts : visit_opts flags opts <> OutOfFuel.
Proof. destruct (visit_opts_returns flags opts) as [E|(st & E)]; rewrite E; discriminate. Qed.

(* the error value is reached exactly on invalid flag combinations: the walk itself never fails *)
Lemma visit_opts_err_iff flags opts : visit_opts flags opts = Err <-> is_valid flags (tcp_type_of flags) = false.
Proof.
  unfold visit_opts, visit_opts_gen. destruct (is_valid flags (tcp_type_of flags)); split; try reflexivity; try discriminate.
  intros E. destruct (opt_walk_ok (tcp_type_of flags) (S (length opts)) opts ostate0) as (st & E'); [lia|]. congruence.
Qed.

(* sensitivity: the code before fix d4cac2c (`data[0]` on the window-scale payload) panics in the
   model on a window-scale option whose length byte leaves no payload, e.g. option bytes 03 02 *)
Lemma prefix_wscale_panics : visit_opts_gen false 2 [x03; x02] = Panic.
Proof. vm_compute. reflexivity. Qed.
Lemma fixed_wscale_returns : visit_opts 2 [x03; x02] = Ok {| os_lay := [OWs]; os_mss := None; os_ws := None; os_q := [] |}.
Proof. vm_compute. reflexivity. Qed.
