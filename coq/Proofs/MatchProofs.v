(* Proofs for C12 (and the distance facts C02 needs): the matcher model obeys the signature semantics. *)
From Coq Require Import List NArith Bool Lia ZifyBool ZifyN.
From Coq Require Import Strings.Byte.
From HN Require Import Base.Bytes Model.SigAst Model.Match Spec.InstanceSpec.
Import ListNotations.
Open Scope N_scope.

(* ------------------------------------------------------------------ decidable equalities *)
Lemma ip_version_eqb_eq a b : ip_version_eqb a b = true <-> a = b.
Proof. destruct a, b; cbn; split; congruence. Qed.
Lemma payload_size_eqb_eq a b : payload_size_eqb a b = true <-> a = b.
Proof. destruct a, b; cbn; split; congruence. Qed.
Lemma http_version_eqb_eq a b : http_version_eqb a b = true <-> a = b.
Proof. destruct a, b; cbn; split; congruence. Qed.
Lemma ttl_eqb_eq a b : ttl_eqb a b = true <-> a = b.
Proof.
  destruct a, b; cbn; try (split; congruence);
    try (rewrite N.eqb_eq; split; [intros ->; reflexivity | intros H; inversion H; reflexivity]).
  rewrite andb_true_iff, !N.eqb_eq. split; [intros [-> ->]; reflexivity | intros H; inversion H; auto].
Qed.
Lemma window_size_eqb_eq a b : window_size_eqb a b = true <-> a = b.
Proof.
  destruct a, b; cbn; try (split; congruence);
    (rewrite N.eqb_eq; split; [intros ->; reflexivity | intros H; inversion H; reflexivity]).
Qed.
Lemma tcp_option_eqb_eq a b : tcp_option_eqb a b = true <-> a = b.
Proof.
  destruct a, b; cbn; try (split; congruence);
    (rewrite N.eqb_eq; split; [intros ->; reflexivity | intros H; inversion H; reflexivity]).
Qed.
Lemma quirk_eqb_eq a b : quirk_eqb a b = true <-> a = b.
Proof. unfold quirk_eqb. destruct a, b; vm_compute; split; congruence. Qed.
Lemma list_eqb_eq {A} (eqb : A -> A -> bool) (H : forall x y, eqb x y = true <-> x = y) a b :
  list_eqb eqb a b = true <-> a = b.
Proof.
  revert b; induction a as [|x a IH]; intros [|y b]; cbn; try (split; congruence).
  rewrite andb_true_iff, H, IH. split; [intros [-> ->]; reflexivity | intros E; inversion E; auto].
Qed.
Lemma option_eqb_eq {A} (eqb : A -> A -> bool) (H : forall x y, eqb x y = true <-> x = y) a b :
  option_eqb eqb a b = true <-> a = b.
Proof.
  destruct a, b; cbn; try (split; congruence). rewrite H. split; [intros ->; reflexivity | intros E; inversion E; auto].
Qed.
Lemma optN_eqb_eq a b : option_eqb N.eqb a b = true <-> a = b.
Proof. apply option_eqb_eq. intros; apply N.eqb_eq. Qed.
Lemma olayout_eqb_eq a b : list_eqb tcp_option_eqb a b = true <-> a = b.
Proof. apply list_eqb_eq, tcp_option_eqb_eq. Qed.
Lemma quirks_eqb_eq a b : list_eqb quirk_eqb a b = true <-> a = b.
Proof. apply list_eqb_eq, quirk_eqb_eq. Qed.
Lemma optbytes_eqb_eq a b : option_eqb bytes_eqb a b = true <-> a = b.
Proof. apply option_eqb_eq, bytes_eqb_eq. Qed.

Lemma eqb_refl_of {A} (eqb : A -> A -> bool) (H : forall x y, eqb x y = true <-> x = y) x : eqb x x = true.
Proof. now apply H. Qed.
Lemma eqb_false_of {A} (eqb : A -> A -> bool) (H : forall x y, eqb x y = true <-> x = y) x y : x <> y -> eqb x y = false.
Proof. intros N. destruct (eqb x y) eqn:E; [apply H in E; contradiction | reflexivity]. Qed.

(* ------------------------------------------------------------------ deciders = relations (SPEC side) *)
Lemma version_inst_b_iff sv ov : version_inst_b sv ov = true <-> version_inst sv ov.
Proof. unfold version_inst_b, version_inst. rewrite orb_true_iff, !ip_version_eqb_eq. tauto. Qed.
Lemma pclass_inst_b_iff sp op : pclass_inst_b sp op = true <-> pclass_inst sp op.
Proof. unfold pclass_inst_b, pclass_inst. rewrite orb_true_iff, !payload_size_eqb_eq. tauto. Qed.
Lemma hversion_inst_b_iff sv ov : hversion_inst_b sv ov = true <-> hversion_inst sv ov.
Proof. unfold hversion_inst_b, hversion_inst. rewrite orb_true_iff, !http_version_eqb_eq. tauto. Qed.
Lemma optfield_inst_b_iff sv ov : optfield_inst_b sv ov = true <-> optfield_inst sv ov.
Proof.
  unfold optfield_inst_b, optfield_inst. destruct sv as [x|].
  - rewrite optN_eqb_eq. split; [auto | intros [H|H]; [discriminate | exact H]].
  - split; auto.
Qed.
Lemma ttl_inst_b_iff st ot : ttl_inst_b st ot = true <-> ttl_inst st ot.
Proof.
  unfold ttl_inst_b, ttl_inst. rewrite orb_true_iff, ttl_eqb_eq. split.
  - intros [H|H]; [left; exact H|]. destruct ot; try discriminate. right. exists t, d.
    unfold max_hops in *. split; [reflexivity | lia].
  - intros [H|(t & d & -> & Hd & Hs)]; [left; exact H|]. right. unfold max_hops in *. lia.
Qed.
Lemma win_inst_b_iff sw ow m : win_inst_b sw ow m = true <-> win_inst sw ow m.
Proof.
  unfold win_inst_b, win_inst. rewrite orb_true_iff, window_size_eqb_eq. split.
  - intros [H|H]; [right; left; exact H|].
    destruct sw; try (destruct ow; discriminate); try (left; reflexivity).
    + destruct ow; try discriminate. destruct m as [mv|]; try discriminate.
      right; right; left. exists k, mv. repeat split; try lia. f_equal. lia.
    + destruct ow; try discriminate. right; right; right. exists m0, w. repeat split; lia.
  - intros [->|[H|[(k & mv & -> & -> & Hm & ->)|(n & w & -> & Hn & -> & Hw)]]].
    + right. destruct ow; reflexivity.
    + left; exact H.
    + right. lia.
    + right. lia.
Qed.

Lemma tcp_instance_b_iff s o : tcp_instance_b s o = true <-> tcp_instance s o.
Proof.
  unfold tcp_instance_b. rewrite !andb_true_iff, version_inst_b_iff, ttl_inst_b_iff, N.eqb_eq, !optfield_inst_b_iff,
    win_inst_b_iff, olayout_eqb_eq, quirks_eqb_eq, pclass_inst_b_iff.
  split.
  - intros [[[[[[[[H0 H1] H2] H3] H4] H5] H6] H7] H8]. constructor; assumption.
  - intros [H0 H1 H2 H3 H4 H5 H6 H7 H8]. tauto.
Qed.

Lemma tcp_decisive_mismatch_b_iff s o : tcp_decisive_mismatch_b s o = true <-> tcp_decisive_mismatch s o.
Proof.
  unfold tcp_decisive_mismatch_b, tcp_decisive_mismatch.
  rewrite !orb_true_iff, !negb_true_iff.
  rewrite <- !not_true_iff_false, version_inst_b_iff, olayout_eqb_eq, quirks_eqb_eq, pclass_inst_b_iff. tauto.
Qed.

Lemma hdr_inst_b_iff sig obs : hdr_inst_b sig obs = true <-> hdr_inst sig obs.
Proof.
  revert obs; induction sig as [|sh sig IH]; intros obs.
  - cbn. split.
    + destruct obs; [constructor | discriminate].
    + intros H; inversion H; reflexivity.
  - cbn [hdr_inst_b]. rewrite orb_true_iff. split.
    + intros [H|H].
      * destruct obs as [|oh obs]; [discriminate|].
        rewrite !andb_true_iff, bytes_eqb_eq, optbytes_eqb_eq, IH in H. destruct H as [[Hn Hv] Hr].
        now apply hdr_inst_keep.
      * rewrite andb_true_iff, IH in H. destruct H. now apply hdr_inst_drop.
    + intros H; inversion H; subst.
      * left. rewrite !andb_true_iff, bytes_eqb_eq, optbytes_eqb_eq, IH. auto.
      * right. rewrite andb_true_iff, IH. auto.
Qed.

Lemma starts_with_iff p l : starts_with p l = true <-> exists post, l = p ++ post.
Proof.
  revert l; induction p as [|x p IH]; intros l.
  - cbn. split; [exists l; reflexivity | reflexivity].
  - destruct l as [|y l]; cbn.
    + split; [discriminate | intros [post H]; discriminate].
    + rewrite andb_true_iff, beqb_eq, IH. split.
      * intros [-> [post ->]]. exists post; reflexivity.
      * intros [post H]. inversion H; subst. split; [reflexivity | exists post; reflexivity].
Qed.

Lemma substring_b_iff needle hay : substring_b needle hay = true <-> substring needle hay.
Proof.
  unfold substring_b, substring. induction hay as [|c hay IH].
  - cbn. rewrite orb_false_r, starts_with_iff. split.
    + intros [post H]. exists [], post. exact H.
    + intros (pre & post & H). destruct pre; [exists post; exact H | discriminate].
  - cbn [tails existsb]. rewrite orb_true_iff, starts_with_iff, IH. split.
    + intros [[post H]|(pre & post & H)].
      * exists [], post. exact H.
      * exists (c :: pre), post. cbn. now rewrite H.
    + intros (pre & post & H). destruct pre as [|x pre].
      * left. exists post. exact H.
      * right. cbn in H. inversion H; subst. exists pre, post. reflexivity.
Qed.

Lemma opt_fresh_b_iff l : opt_fresh_b l = true <-> opt_fresh l.
Proof.
  induction l as [|sh r IH]; cbn [opt_fresh_b opt_fresh]; [tauto|].
  rewrite andb_true_iff, IH, orb_true_iff, !negb_true_iff.
  assert (E : existsb (bytes_eqb (h_name sh)) (map h_name r) = true <-> In (h_name sh) (map h_name r)).
  { rewrite existsb_exists. split.
    - intros (x & Hx & Hb). apply bytes_eqb_eq in Hb. now subst.
    - intros H. exists (h_name sh). split; [exact H | apply bytes_eqb_refl]. }
  split.
  - intros [[H|H] Hr]; split; auto.
    + intros Ho. rewrite Ho in H. discriminate.
    + intros _ Hin. apply E in Hin. congruence.
  - intros [H Hr]. split; auto. destruct (h_optional sh); [right | left; reflexivity].
    destruct (existsb _ _) eqn:X; [|reflexivity]. exfalso. apply (H eq_refl). apply E. reflexivity.
Qed.
Lemma http_sig_wf_b_iff s : http_sig_wf_b s = true <-> http_sig_wf s.
Proof. unfold http_sig_wf_b, http_sig_wf. now rewrite andb_true_iff, !opt_fresh_b_iff. Qed.

Lemma http_instance_b_iff s o : http_instance_b s o = true <-> http_instance s o.
Proof.
  unfold http_instance_b. rewrite !andb_true_iff, hversion_inst_b_iff, !hdr_inst_b_iff, substring_b_iff. split.
  - intros [[[H0 H1] H2] H3]. constructor; assumption.
  - intros [H0 H1 H2 H3]. tauto.
Qed.
Lemma http_decisive_mismatch_b_iff s o : http_decisive_mismatch_b s o = true <-> http_decisive_mismatch s o.
Proof.
  unfold http_decisive_mismatch_b, http_decisive_mismatch.
  rewrite negb_true_iff, <- not_true_iff_false, hversion_inst_b_iff. tauto.
Qed.

(* ------------------------------------------------------------------ TCP: components and their sum *)
Lemma sat_small a b : a + b <= u32_max -> sat_add32 a b = a + b.
Proof. unfold sat_add32, u32_max. lia. Qed.

Lemma high_or_le pen c d : high_or pen c = Some d -> d = 0 \/ d = pen.
Proof. unfold high_or, tq_high. destruct c; intros H; inversion H; auto. Qed.

Lemma ipver_some obs sig d : distance_ip_version obs sig = Some d -> d = 0.
Proof. unfold distance_ip_version, tq_high. destruct sig, obs; cbn; congruence. Qed.
Lemma ttl_some obs sig d : distance_ttl obs sig = Some d -> d = 0 \/ d = 2.
Proof.
  unfold distance_ttl. destruct obs, sig; try discriminate; try apply high_or_le;
    (destruct (_ <=? _); [unfold tq_high; intros H; inversion H; auto | discriminate]).
Qed.
Lemma div_exact w m k : 0 < m -> ((k =? w / m) && (w mod m =? 0)) = (w =? k * m).
Proof.
  intros Hm. destruct (w =? k * m) eqn:E.
  - apply N.eqb_eq in E. subst. rewrite N.div_mul, N.mod_mul by lia. rewrite !N.eqb_refl. reflexivity.
  - apply N.eqb_neq in E. destruct (k =? w / m) eqn:A, (w mod m =? 0) eqn:B; try reflexivity.
    exfalso. apply E. apply N.eqb_eq in A, B. pose proof (N.div_mod' w m) as H. rewrite B, <- A in H. lia.
Qed.
Lemma win_some obs sig m d : distance_window_size obs sig m = Some d -> d = 0 \/ d = 2.
Proof.
  unfold distance_window_size, tq_high, tq_low.
  destruct obs, sig; try discriminate; try apply high_or_le; try solve [intros H; inversion H; auto].
  destruct m as [mv|]; [|intros H; inversion H; auto].
  destruct (checked_div _ _); [apply high_or_le | intros H; inversion H; auto].
Qed.
Lemma pclass_some obs sig d : distance_payload_size obs sig = Some d -> d = 0.
Proof. unfold distance_payload_size, tq_high. destruct (_ || _); congruence. Qed.
Lemma olayout_some obs sig d : distance_olayout obs sig = Some d -> d = 0.
Proof. unfold distance_olayout, tq_high. destruct (list_eqb _ _ _); congruence. Qed.
Lemma quirk_compared_applies v q : quirk_compared v q = quirk_applies v q.
Proof. destruct v, q; reflexivity. Qed.
Lemma quirks_compared_for v qs : filter (quirk_compared v) qs = sig_quirks_for v qs.
Proof. unfold sig_quirks_for. apply filter_ext. intros q. apply quirk_compared_applies. Qed.
Lemma quirks_some obs sig d : distance_quirks obs sig = Some d -> d = 0.
Proof. unfold distance_quirks, tq_high. destruct (list_eqb _ _ _); congruence. Qed.

(* penalties of the three always-defined components *)
Definition c_olen (s o : tcp_sig) : N := if t_olen o =? t_olen s then 0 else pen_olen.
Definition c_mss (s o : tcp_sig) : N := if optfield_inst_b (t_mss s) (t_mss o) then 0 else pen_mss.
Definition c_wscale (s o : tcp_sig) : N := if optfield_inst_b (t_wscale s) (t_wscale o) then 0 else pen_wscale.

Lemma olen_is s o : distance_olen o s = Some (c_olen s o).
Proof. reflexivity. Qed.
Lemma mss_is s o : distance_mss o s = Some (c_mss s o).
Proof. unfold distance_mss, c_mss, optfield_inst_b, high_or. destruct (t_mss s); reflexivity. Qed.
Lemma wscale_is s o : distance_wscale o s = Some (c_wscale s o).
Proof. unfold distance_wscale, c_wscale, optfield_inst_b, high_or. destruct (t_wscale s); reflexivity. Qed.

Lemma olayout_is s o : distance_olayout o s = if list_eqb tcp_option_eqb (t_olayout o) (t_olayout s) then Some 0 else None.
Proof. reflexivity. Qed.

(* structure theorem: calculate_distance rejects exactly on a decisive mismatch or an incomparable TTL /
   window form, and otherwise is the plain sum of the five per-field penalties (no saturation) *)
Lemma tcp_distance_sum s o :
  tcp_distance s o =
  if tcp_decisive_mismatch_b s o then None
  else do t <- distance_ttl (t_ittl o) (t_ittl s);
       do w <- distance_window_size (t_wsize o) (t_wsize s) (t_mss o);
       Some (t + c_olen s o + c_mss s o + w + c_wscale s o).
Proof.
  unfold tcp_distance, tcp_decisive_mismatch_b.
  rewrite olen_is, mss_is, wscale_is.
  assert (Ev : distance_ip_version (t_version o) (t_version s)
               = if version_inst_b (t_version s) (t_version o) then Some 0 else None).
  { unfold distance_ip_version, version_inst_b. destruct (t_version s), (t_version o); reflexivity. }
  assert (Ep : distance_payload_size (t_pclass o) (t_pclass s)
               = if pclass_inst_b (t_pclass s) (t_pclass o) then Some 0 else None).
  { unfold distance_payload_size, pclass_inst_b. reflexivity. }
  rewrite Ev, Ep. unfold distance_olayout, distance_quirks, tq_high. rewrite quirks_compared_for.
  destruct (version_inst_b _ _); cbn [negb orb obind]; [|reflexivity].
  destruct (distance_ttl _ _) as [t|] eqn:Et; cbn [obind].
  2:{ destruct (list_eqb tcp_option_eqb _ _), (list_eqb quirk_eqb _ _), (pclass_inst_b _ _); reflexivity. }
  destruct (distance_window_size _ _ _) as [w|] eqn:Ew; cbn [obind].
  2:{ destruct (list_eqb tcp_option_eqb _ _), (list_eqb quirk_eqb _ _), (pclass_inst_b _ _); reflexivity. }
  destruct (list_eqb tcp_option_eqb _ _); cbn [negb orb obind]; [|reflexivity].
  destruct (list_eqb quirk_eqb _ _); cbn [negb orb obind]; [|reflexivity].
  destruct (pclass_inst_b _ _); cbn [negb orb obind]; [|reflexivity].
  f_equal. apply ttl_some in Et. apply win_some in Ew.
  unfold c_olen, c_mss, c_wscale, pen_olen, pen_mss, pen_wscale.
  destruct (t_olen o =? t_olen s), (optfield_inst_b (t_mss s) (t_mss o)), (optfield_inst_b (t_wscale s) (t_wscale o));
    destruct Et as [-> | ->], Ew as [-> | ->]; vm_compute; reflexivity.
Qed.

Lemma tcp_distance_le9 s o d : tcp_distance s o = Some d -> d <= 9.
Proof.
  rewrite tcp_distance_sum. destruct (tcp_decisive_mismatch_b s o); [discriminate|].
  destruct (distance_ttl _ _) as [t|] eqn:Et; [|discriminate].
  destruct (distance_window_size _ _ _) as [w|] eqn:Ew; [|discriminate]. cbn [obind].
  intros H; inversion H; subst d. apply ttl_some in Et. apply win_some in Ew.
  unfold c_olen, c_mss, c_wscale, pen_olen, pen_mss, pen_wscale.
  destruct (t_olen o =? t_olen s), (optfield_inst_b (t_mss s) (t_mss o)), (optfield_inst_b (t_wscale s) (t_wscale o)); lia.
Qed.

(* ---- instance => every component is zero ---- *)
Lemma ttl_instance_zero st ot : ttl_u8 st -> ttl_inst st ot -> distance_ttl ot st = Some 0.
Proof.
  intros Hu [->|(t & d & -> & Hd & Hs)].
  - destruct st; cbn; unfold high_or; rewrite ?N.eqb_refl; reflexivity.
  - destruct st as [i|t' d'|i|i]; cbn in *; unfold high_or, sat_add8, tq_high.
    + replace (N.min 255 (t + d) =? i) with true by lia. reflexivity.
    + replace (N.min 255 (t + d) =? N.min 255 (t' + d')) with true by lia. reflexivity.
    + replace (N.min 255 (t + d) =? i) with true by lia. reflexivity.
    + replace (t <=? i) with true by lia. reflexivity.
Qed.

Lemma rem_is_zero w n : 0 < n -> option_eqb N.eqb (checked_rem w n) (Some 0) = (w mod n =? 0).
Proof. intros H. unfold checked_rem. replace (n =? 0) with false by lia. reflexivity. Qed.

Lemma win_instance_zero sw ow m : win_inst sw ow m -> distance_window_size ow sw m = Some 0.
Proof.
  intros [->|[->|[(k & mv & -> & -> & Hm & ->)|(n & w & -> & Hn & -> & Hw)]]].
  - destruct ow; reflexivity.
  - destruct sw; cbn; unfold high_or; rewrite ?N.eqb_refl; reflexivity.
  - cbn. unfold checked_div. replace (mv =? 0) with false by lia. unfold high_or.
    rewrite rem_is_zero by exact Hm. rewrite div_exact by exact Hm. rewrite N.eqb_refl. reflexivity.
  - cbn. unfold high_or. rewrite rem_is_zero by exact Hn. replace (w mod n =? 0) with true by lia. reflexivity.
Qed.

Theorem tcp_instance_zero s o :
  ttl_u8 (t_ittl s) -> tcp_instance s o ->
  tcp_distance s o = Some 0 /\ tcp_score 0 = 100.
Proof.
  intros Hu [H0 H1 H2 H3 H4 H5 H6 H7 H8]. split; [|reflexivity].
  rewrite tcp_distance_sum.
  replace (tcp_decisive_mismatch_b s o) with false.
  2:{ symmetry. apply not_true_iff_false. rewrite tcp_decisive_mismatch_b_iff.
      intros [X|[X|[X|X]]]; contradiction. }
  rewrite (ttl_instance_zero _ _ Hu H1), (win_instance_zero _ _ _ H4). cbn [obind].
  unfold c_olen, c_mss, c_wscale. rewrite H2, N.eqb_refl.
  rewrite (proj2 (optfield_inst_b_iff _ _) H3), (proj2 (optfield_inst_b_iff _ _) H5). reflexivity.
Qed.

Theorem tcp_decisive_none s o : tcp_decisive_mismatch s o -> tcp_distance s o = None.
Proof.
  intros H. apply tcp_decisive_mismatch_b_iff in H. rewrite tcp_distance_sum, H. reflexivity.
Qed.

(* ---- one non-decisive field changed on an instance ---- *)
Section SingleField.
  Variables (s o : tcp_sig).
  Hypothesis Hu : ttl_u8 (t_ittl s).
  Hypothesis Hi : tcp_instance s o.

  Let Hnd : forall o', t_version o' = t_version o -> t_olayout o' = t_olayout o -> t_quirks o' = t_quirks o ->
                       t_pclass o' = t_pclass o -> tcp_decisive_mismatch_b s o' = false.
  Proof.
    intros o' E0 E1 E2 E3. apply not_true_iff_false. rewrite tcp_decisive_mismatch_b_iff.
    destruct Hi as [H0 _ _ _ _ _ H6 H7 H8]. unfold tcp_decisive_mismatch. rewrite E0, E1, E2, E3. tauto.
  Qed.
  Let Zt : distance_ttl (t_ittl o) (t_ittl s) = Some 0.
  Proof. apply ttl_instance_zero; [exact Hu | apply Hi]. Qed.
  Let Zw : distance_window_size (t_wsize o) (t_wsize s) (t_mss o) = Some 0.
  Proof. apply win_instance_zero. apply Hi. Qed.
  Let Zolen : c_olen s o = 0.
  Proof. unfold c_olen. destruct Hi as [_ _ H2 _ _ _ _ _ _]. rewrite H2, N.eqb_refl. reflexivity. Qed.
  Let Zmss : c_mss s o = 0.
  Proof. unfold c_mss. destruct Hi as [_ _ _ H3 _ _ _ _ _]. now rewrite (proj2 (optfield_inst_b_iff _ _) H3). Qed.
  Let Zwscale : c_wscale s o = 0.
  Proof. unfold c_wscale. destruct Hi as [_ _ _ _ _ H5 _ _ _]. now rewrite (proj2 (optfield_inst_b_iff _ _) H5). Qed.

  Lemma single_olen v : tcp_distance s (set_olen o v) = Some (if v =? t_olen s then 0 else pen_olen).
  Proof.
    rewrite tcp_distance_sum, Hnd by reflexivity. cbn [set_olen t_ittl t_wsize t_mss].
    rewrite Zt, Zw. cbn [obind]. f_equal.
    change (c_mss s (set_olen o v)) with (c_mss s o). change (c_wscale s (set_olen o v)) with (c_wscale s o).
    rewrite Zmss, Zwscale. unfold c_olen. cbn [set_olen t_olen]. destruct (v =? t_olen s); reflexivity.
  Qed.

  Lemma single_wscale v :
    tcp_distance s (set_wscale o v) = Some (if optfield_inst_b (t_wscale s) v then 0 else pen_wscale).
  Proof.
    rewrite tcp_distance_sum, Hnd by reflexivity. cbn [set_wscale t_ittl t_wsize t_mss].
    rewrite Zt, Zw. cbn [obind]. f_equal.
    change (c_mss s (set_wscale o v)) with (c_mss s o). change (c_olen s (set_wscale o v)) with (c_olen s o).
    rewrite Zmss, Zolen. unfold c_wscale. cbn [set_wscale t_wscale]. destruct (optfield_inst_b _ _); reflexivity.
  Qed.

  Lemma single_mss v : win_literal s o ->
    tcp_distance s (set_mss o v) = Some (if optfield_inst_b (t_mss s) v then 0 else pen_mss).
  Proof.
    intros Hl. rewrite tcp_distance_sum, Hnd by reflexivity. cbn [set_mss t_ittl t_wsize t_mss].
    rewrite Zt.
    assert (Zw' : distance_window_size (t_wsize o) (t_wsize s) v = Some 0).
    { destruct Hl as [-> | ->].
      - destruct (t_wsize s); cbn; unfold high_or; rewrite ?N.eqb_refl; reflexivity.
      - destruct (t_wsize o); reflexivity. }
    rewrite Zw'. cbn [obind]. f_equal.
    change (c_olen s (set_mss o v)) with (c_olen s o). change (c_wscale s (set_mss o v)) with (c_wscale s o).
    rewrite Zolen, Zwscale. unfold c_mss. cbn [set_mss t_mss]. destruct (optfield_inst_b _ _); reflexivity.
  Qed.

  (* the whole distance is the changed field's own component *)
  Lemma single_ittl v : tcp_distance s (set_ittl o v) = distance_ttl v (t_ittl s).
  Proof.
    rewrite tcp_distance_sum, Hnd by reflexivity. cbn [set_ittl t_ittl t_wsize t_mss].
    rewrite Zw.
    change (c_olen s (set_ittl o v)) with (c_olen s o). change (c_mss s (set_ittl o v)) with (c_mss s o).
    change (c_wscale s (set_ittl o v)) with (c_wscale s o). rewrite Zolen, Zmss, Zwscale.
    destruct (distance_ttl v (t_ittl s)) as [t|]; cbn [obind]; [f_equal; lia | reflexivity].
  Qed.
  Lemma single_wsize v : tcp_distance s (set_wsize o v) = distance_window_size v (t_wsize s) (t_mss o).
  Proof.
    rewrite tcp_distance_sum, Hnd by reflexivity. cbn [set_wsize t_ittl t_wsize t_mss].
    rewrite Zt. cbn [obind].
    change (c_olen s (set_wsize o v)) with (c_olen s o). change (c_mss s (set_wsize o v)) with (c_mss s o).
    change (c_wscale s (set_wsize o v)) with (c_wscale s o). rewrite Zolen, Zmss, Zwscale.
    destruct (distance_window_size v (t_wsize s) (t_mss o)) as [w|]; cbn [obind]; [f_equal; lia | reflexivity].
  Qed.
End SingleField.

(* the TTL and window components: never negative, exactly the penalty where comparable *)
Lemma ttl_component_values ot st : distance_ttl ot st = None \/ distance_ttl ot st = Some 0 \/ distance_ttl ot st = Some pen_ttl.
Proof. destruct (distance_ttl ot st) as [d|] eqn:E; [|auto]. apply ttl_some in E. destruct E as [-> | ->]; auto. Qed.
Lemma ttl_comparable_exact st ot :
  ttl_u8 st -> ttl_obs_wf ot -> ttl_comparable st ot ->
  distance_ttl ot st = Some (if ttl_initial ot =? ttl_initial st then 0 else pen_ttl).
Proof.
  intros Hu Hw [[i ->] Hnb]. destruct ot as [a|a1 a2|a|a]; cbn in *; unfold high_or, sat_add8, tq_low, tq_high, pen_ttl.
  - destruct (a =? i); reflexivity.
  - replace (N.min 255 (a1 + a2)) with (a1 + a2) by lia. destruct (a1 + a2 =? i); reflexivity.
  - destruct (a =? i); reflexivity.
  - exfalso. now apply (Hnb a).
Qed.
Lemma ttl_same_form_exact st ot :
  match st, ot with
  | TtlGuess _, TtlGuess _ | TtlBad _, TtlBad _ | TtlValue _, TtlValue _ => True
  | _, _ => False end ->
  distance_ttl ot st = Some (if ttl_eqb ot st then 0 else pen_ttl).
Proof.
  destruct st, ot; intros H; try contradiction; cbn; unfold high_or, tq_low, tq_high, pen_ttl; reflexivity.
Qed.
(* hop-count TTLs: against `t+d` and `i+?` signatures the initial TTLs are compared, against `i-` the observed TTL
   must not exceed i (else rejected) *)
Lemma ttl_distance_forms t d :
  t + d <= 255 ->
  (forall t' d', t' + d' <= 255 ->
     distance_ttl (TtlDistance t d) (TtlDistance t' d') = Some (if t + d =? t' + d' then 0 else pen_ttl))
  /\ (forall i, distance_ttl (TtlDistance t d) (TtlGuess i) = Some (if t + d =? i then 0 else pen_ttl))
  /\ (forall i, distance_ttl (TtlDistance t d) (TtlBad i) = if t <=? i then Some 0 else None)
  /\ (forall i, distance_ttl (TtlValue t) (TtlBad i) = if t <=? i then Some 0 else None).
Proof.
  intros H. repeat split; intros; cbn; unfold high_or, sat_add8, tq_low, tq_high, pen_ttl; try reflexivity.
  - replace (N.min 255 (t + d)) with (t + d) by lia. replace (N.min 255 (t' + d')) with (t' + d') by lia. reflexivity.
  - replace (N.min 255 (t + d)) with (t + d) by lia. reflexivity.
Qed.
Lemma win_component_values ow sw m :
  distance_window_size ow sw m = None \/ distance_window_size ow sw m = Some 0 \/ distance_window_size ow sw m = Some pen_wsize.
Proof. destruct (distance_window_size ow sw m) as [d|] eqn:E; [|auto]. apply win_some in E. destruct E as [-> | ->]; auto. Qed.
Lemma win_same_form_exact sw ow m :
  win_same_form sw ow -> distance_window_size ow sw m = Some (if window_size_eqb ow sw then 0 else pen_wsize).
Proof.
  destruct sw, ow; intros H; try contradiction; cbn; unfold high_or, tq_low, tq_high, pen_wsize; reflexivity.
Qed.
(* raw window against `mss*k`: 0 iff the observed MSS is usable and the window is exactly k times it *)
Lemma win_raw_vs_mss k w m :
  distance_window_size (WValue w) (WMss k) m =
  Some (match m with Some mv => if (0 <? mv) && (w =? k * mv) then 0 else pen_wsize | None => pen_wsize end).
Proof.
  cbn. destruct m as [mv|]; [|reflexivity]. unfold checked_div. destruct (mv =? 0) eqn:E.
  - replace (0 <? mv) with false by lia. reflexivity.
  - replace (0 <? mv) with true by lia. cbn [andb]. unfold high_or, tq_low, tq_high, pen_wsize.
    rewrite rem_is_zero, div_exact by lia. reflexivity.
Qed.
(* raw window against `%n`: 0 iff n > 0 divides it *)
Lemma win_raw_vs_mod n w m :
  distance_window_size (WValue w) (WMod n) m = Some (if (0 <? n) && (w mod n =? 0) then 0 else pen_wsize).
Proof.
  cbn. unfold high_or, tq_low, tq_high, pen_wsize, checked_rem. destruct (n =? 0) eqn:E.
  - replace (0 <? n) with false by lia. reflexivity.
  - replace (0 <? n) with true by lia. reflexivity.
Qed.

(* ------------------------------------------------------------------ HTTP: header walk *)
Lemma bump_le e : e <= u32_max -> bump e <= u32_max.
Proof. unfold bump, sat_add32, u32_max. lia. Qed.
Lemma sat_sat e a : N.min u32_max (N.min u32_max e + a) = N.min u32_max (e + a).
Proof. unfold u32_max. lia. Qed.

Lemma hdr_rest_obs_sat e obs : e <= u32_max -> hdr_rest_obs e obs = N.min u32_max (e + N.of_nat (length obs)).
Proof.
  revert e; induction obs as [|x r IH]; intros e He.
  - cbn. unfold u32_max in *. lia.
  - cbn [hdr_rest_obs length]. rewrite IH by (apply bump_le; exact He).
    unfold bump, sat_add32, u32_max in *. lia.
Qed.

(* the accumulating, saturating loop of the code = the plain count of Spec, capped at u32::MAX *)
Lemma hdr_loop_sat e obs sig : e <= u32_max -> hdr_loop e obs sig = N.min u32_max (e + hdr_errors obs sig).
Proof.
  revert e obs; induction sig as [|sh sig IH]; intros e obs He.
  - cbn [hdr_loop hdr_errors]. apply hdr_rest_obs_sat; exact He.
  - destruct obs as [|oh obs].
    + cbn [hdr_loop hdr_errors]. destruct (h_optional sh); cbn [negb].
      * rewrite IH by exact He. f_equal.
      * rewrite IH by (apply bump_le; exact He). unfold bump, sat_add32, u32_max in *. lia.
    + cbn [hdr_loop hdr_errors]. unfold hname_eqb, hvalue_eqb.
      destruct (bytes_eqb (h_name oh) (h_name sh)); cbn [andb].
      * destruct (option_eqb bytes_eqb (h_value oh) (h_value sh)).
        -- rewrite IH by exact He. f_equal.
        -- destruct (h_optional sh); cbn [negb].
           ++ rewrite IH by exact He. f_equal.
           ++ rewrite IH by (apply bump_le; exact He). unfold bump, sat_add32, u32_max in *. lia.
      * destruct (h_optional sh).
        -- rewrite IH by exact He. f_equal.
        -- rewrite IH by (apply bump_le; exact He). unfold bump, sat_add32, u32_max in *. lia.
Qed.

Theorem header_bands obs sig : distance_header obs sig = header_penalty (hdr_errors obs sig).
Proof.
  unfold distance_header. rewrite hdr_loop_sat by (unfold u32_max; lia). rewrite N.add_0_l.
  unfold hdr_band, header_penalty, hq_high, hq_medium, hq_low, hq_bad, u32_max.
  set (n := hdr_errors obs sig).
  destruct (n <? 3) eqn:E3; [replace (N.min 4294967295 n <=? 2) with true by lia; reflexivity|].
  replace (N.min 4294967295 n <=? 2) with false by lia.
  destruct (n <? 6) eqn:E6; [replace (N.min 4294967295 n <=? 5) with true by lia; reflexivity|].
  replace (N.min 4294967295 n <=? 5) with false by lia.
  destruct (n <? 9) eqn:E9; [replace (N.min 4294967295 n <=? 8) with true by lia; reflexivity|].
  replace (N.min 4294967295 n <=? 8) with false by lia.
  destruct (n <? 12) eqn:E12; [replace (N.min 4294967295 n <=? 11) with true by lia; reflexivity|].
  replace (N.min 4294967295 n <=? 11) with false by lia. reflexivity.
Qed.

Lemma header_penalty_mono e e' : e <= e' ->
  match header_penalty e, header_penalty e' with
  | Some p, Some p' => p <= p' | _, None => True | None, Some _ => False end.
Proof.
  intros H. unfold header_penalty.
  destruct (e <? 3) eqn:A3, (e <? 6) eqn:A6, (e <? 9) eqn:A9, (e <? 12) eqn:A12,
           (e' <? 3) eqn:B3, (e' <? 6) eqn:B6, (e' <? 9) eqn:B9, (e' <? 12) eqn:B12; try lia; exact I.
Qed.

Lemma hdr_some obs sig d : distance_header obs sig = Some d -> d <= 3.
Proof.
  rewrite header_bands. unfold header_penalty.
  destruct (_ <? 3); [intros H; inversion H; lia|]. destruct (_ <? 6); [intros H; inversion H; lia|].
  destruct (_ <? 9); [intros H; inversion H; lia|]. destruct (_ <? 12); [intros H; inversion H; lia | discriminate].
Qed.

Lemma hdr_inst_head_in sig oh obs : hdr_inst sig (oh :: obs) -> In (h_name oh) (map h_name sig).
Proof.
  intro H. remember (oh :: obs) as l eqn:E. revert oh obs E.
  induction H as [|sh oh' sig obs' Hn Hv H IH|sh sig obs' Ho H IH]; intros oh obs E.
  - discriminate.
  - injection E as -> ->. left. symmetry. exact Hn.
  - right. eapply IH. exact E.
Qed.

(* optional headers in or out => no error *)
Theorem hdr_instance_zero_errors sig obs : opt_fresh sig -> hdr_inst sig obs -> hdr_errors obs sig = 0.
Proof.
  intros Hf H. induction H as [|sh oh sig obs Hn Hv H IH|sh sig obs Ho H IH].
  - reflexivity.
  - cbn [hdr_errors]. destruct Hf as [_ Hf].
    rewrite (proj2 (bytes_eqb_eq _ _) Hn), (proj2 (optbytes_eqb_eq _ _) Hv), IH by exact Hf. reflexivity.
  - cbn [hdr_errors opt_fresh] in *. destruct Hf as [Hnotin Hf]. rewrite Ho.
    destruct obs as [|oh obs'].
    + rewrite IH by exact Hf. reflexivity.
    + assert (Hne : bytes_eqb (h_name oh) (h_name sh) = false).
      { destruct (bytes_eqb (h_name oh) (h_name sh)) eqn:E; [|reflexivity].
        apply bytes_eqb_eq in E. exfalso. apply (Hnotin Ho). rewrite <- E. eapply hdr_inst_head_in. exact H. }
      rewrite Hne, IH by exact Hf. reflexivity.
Qed.

(* ---- software string ---- *)
Lemma contains_iff hay needle : contains hay needle = true <-> substring needle hay.
Proof.
  rewrite <- substring_b_iff. unfold substring_b. induction hay as [|c hay IH].
  - cbn. now rewrite !orb_false_r.
  - cbn [contains tails existsb]. rewrite !orb_true_iff, IH. tauto.
Qed.
Lemma substring_refl l : substring l l.
Proof. exists [], []. now rewrite app_nil_r. Qed.
Lemma substring_both a b : substring a b -> substring b a -> a = b.
Proof.
  intros (p1 & q1 & E1) (p2 & q2 & E2).
  assert (L1 := f_equal (@length _) E1). assert (L2 := f_equal (@length _) E2).
  rewrite !app_length in L1, L2.
  destruct p1; [|cbn in *; lia]. destruct q1; [|cbn in *; rewrite ?app_length in *; cbn in *; lia].
  cbn in E1. rewrite app_nil_r in E1. now symmetry.
Qed.

Lemma expsw_is s o : distance_expsw o s = Some (if contains (hs_expsw s) (hs_expsw o) then 0 else pen_expsw).
Proof. unfold distance_expsw. destruct (contains _ _); reflexivity. Qed.

(* the known class is tight: an observed string that strictly contains the token always costs 3 *)
Lemma expsw_strict_costs s o : expsw_strict s o = true -> distance_expsw o s = Some pen_expsw.
Proof.
  unfold expsw_strict. rewrite andb_true_iff, negb_true_iff, substring_b_iff. intros [Hs Hn].
  rewrite expsw_is. destruct (contains _ _) eqn:E; [|reflexivity].
  apply contains_iff in E. rewrite (substring_both _ _ Hs E), bytes_eqb_refl in Hn. discriminate.
Qed.

(* ---- sum ---- *)
Lemma http_distance_sum s o :
  http_distance s o =
  if http_decisive_mismatch_b s o then None
  else do a <- header_penalty (hdr_errors (hs_horder o) (hs_horder s));
       do b <- header_penalty (hdr_errors (hs_habsent o) (hs_habsent s));
       Some (a + b + (if contains (hs_expsw s) (hs_expsw o) then 0 else pen_expsw)).
Proof.
  unfold http_distance, http_decisive_mismatch_b, distance_http_version, hversion_inst_b.
  rewrite expsw_is, <- !header_bands.
  destruct (_ || _); cbn [negb obind]; [|reflexivity].
  destruct (distance_header (hs_horder o) _) as [a|] eqn:Ea; cbn [obind]; [|reflexivity].
  destruct (distance_header (hs_habsent o) _) as [b|] eqn:Eb; cbn [obind]; [|reflexivity].
  f_equal. apply hdr_some in Ea. apply hdr_some in Eb. unfold hq_high, pen_expsw.
  destruct (contains (hs_expsw s) (hs_expsw o)); unfold sat_add32, u32_max; lia.
Qed.

Lemma http_distance_le9 s o d : http_distance s o = Some d -> d <= 9.
Proof.
  rewrite http_distance_sum, <- !header_bands. destruct (http_decisive_mismatch_b s o); [discriminate|].
  destruct (distance_header (hs_horder o) _) as [a|] eqn:Ea; [|discriminate].
  destruct (distance_header (hs_habsent o) _) as [b|] eqn:Eb; [|discriminate]. cbn [obind].
  intros H; inversion H; subst. apply hdr_some in Ea. apply hdr_some in Eb. unfold pen_expsw.
  destruct (contains _ _); lia.
Qed.

Theorem http_instance_zero s o :
  http_instance s o -> known_http s o = false -> http_distance s o = Some 0 /\ http_score 0 = 100.
Proof.
  intros [H0 H1 H2 H3] Hk. split; [|reflexivity].
  unfold known_http, optional_name_reused in Hk. apply orb_false_elim in Hk. destruct Hk as [Hk1 Hk2].
  rewrite negb_false_iff, http_sig_wf_b_iff in Hk2. destruct Hk2 as [Hf1 Hf2].
  rewrite http_distance_sum.
  replace (http_decisive_mismatch_b s o) with false.
  2:{ symmetry. apply not_true_iff_false. rewrite http_decisive_mismatch_b_iff. intros X. contradiction. }
  rewrite (hdr_instance_zero_errors _ _ Hf1 H1), (hdr_instance_zero_errors _ _ Hf2 H2). cbn [header_penalty obind N.ltb].
  assert (E : hs_expsw o = hs_expsw s).
  { unfold expsw_strict in Hk1. rewrite (proj2 (substring_b_iff _ _) H3) in Hk1. cbn [andb] in Hk1.
    rewrite negb_false_iff in Hk1. now apply bytes_eqb_eq. }
  rewrite E, (proj2 (contains_iff _ _) (substring_refl _)). reflexivity.
Qed.

Theorem http_decisive_none s o : http_decisive_mismatch s o -> http_distance s o = None.
Proof. intros H. apply http_decisive_mismatch_b_iff in H. rewrite http_distance_sum, H. reflexivity. Qed.

Section HttpSingleField.
  Variables (s o : http_sig).
  Hypothesis Hi : http_instance s o.
  Hypothesis Hk : known_http s o = false.

  Let Hwf : http_sig_wf s.
  Proof. unfold known_http, optional_name_reused in Hk. apply orb_false_elim in Hk. destruct Hk as [_ X].
         now rewrite negb_false_iff, http_sig_wf_b_iff in X. Qed.
  Let Hnd : forall o', hs_version o' = hs_version o -> http_decisive_mismatch_b s o' = false.
  Proof. intros o' E. apply not_true_iff_false. rewrite http_decisive_mismatch_b_iff. unfold http_decisive_mismatch.
         rewrite E. intros X. apply X. apply Hi. Qed.
  Let Zo : hdr_errors (hs_horder o) (hs_horder s) = 0.
  Proof. apply hdr_instance_zero_errors; [apply Hwf | apply Hi]. Qed.
  Let Za : hdr_errors (hs_habsent o) (hs_habsent s) = 0.
  Proof. apply hdr_instance_zero_errors; [apply Hwf | apply Hi]. Qed.
  Let Zs : contains (hs_expsw s) (hs_expsw o) = true.
  Proof.
    destruct (http_instance_zero s o Hi Hk) as [H _]. rewrite http_distance_sum, Hnd, Zo, Za in H by reflexivity.
    cbn [header_penalty obind N.ltb] in H. destruct (contains _ _); [reflexivity | discriminate].
  Qed.

  Lemma single_expsw v : http_distance s (set_expsw o v) = Some (if contains (hs_expsw s) v then 0 else pen_expsw).
  Proof.
    rewrite http_distance_sum, Hnd by reflexivity. cbn [set_expsw hs_horder hs_habsent hs_expsw].
    rewrite Zo, Za. reflexivity.
  Qed.
  Lemma single_horder v : http_distance s (set_horder o v) = header_penalty (hdr_errors v (hs_horder s)).
  Proof.
    rewrite http_distance_sum, Hnd by reflexivity. cbn [set_horder hs_horder hs_habsent hs_expsw].
    rewrite Za, Zs. change (header_penalty 0) with (Some 0).
    destruct (header_penalty _); cbn [obind]; [f_equal; lia | reflexivity].
  Qed.
  Lemma single_habsent v : http_distance s (set_habsent o v) = header_penalty (hdr_errors v (hs_habsent s)).
  Proof.
    rewrite http_distance_sum, Hnd by reflexivity. cbn [set_habsent hs_horder hs_habsent hs_expsw].
    rewrite Zo, Zs. change (header_penalty 0) with (Some 0). cbn [obind].
    destruct (header_penalty _); cbn [obind]; [f_equal; lia | reflexivity].
  Qed.
End HttpSingleField.

(* ------------------------------------------------------------------ quality tables, every distance in N *)
Ltac split_ifs := repeat match goal with |- context [if ?c then _ else _] => destruct c eqn:? end.

Theorem tcp_quality_laws : quality_laws tcp_score.
Proof.
  unfold quality_laws, tcp_score. repeat split.
  - intros d d' H. split_ifs; lia.
  - split_ifs; lia.
  - split_ifs; lia.
  - split_ifs; lia.
  - intros ->. reflexivity.
Qed.

Theorem http_quality_laws : quality_laws http_score.
Proof.
  unfold quality_laws, http_score. repeat split.
  - intros d d' H. split_ifs; lia.
  - split_ifs; lia.
  - split_ifs; lia.
  - split_ifs; lia.
  - intros ->. reflexivity.
Qed.

(* ------------------------------------------------------------------ known classes: witnesses *)
Definition w_tcp (t : ttl) (w : window_size) : tcp_sig :=
  {| t_version := IpV4; t_ittl := t; t_olen := 0; t_mss := Some 1460; t_wsize := w; t_wscale := Some 7;
     t_olayout := [OMss; OSok; OTS; ONop; OWs]; t_quirks := [QDf; QNonZeroID]; t_pclass := PZero |}.

(* former K1 witnesses (fix c12ttl): `64-`, `64+?`, `60+4` against observed TTL 54 at 10 hops: now distance 0 *)
Lemma Known_ttl_form_gap_former_witness_agrees :
  Forall (fun st => tcp_instance (w_tcp st (WMss 4)) (w_tcp (TtlDistance 54 10) (WMss 4))
                    /\ tcp_distance (w_tcp st (WMss 4)) (w_tcp (TtlDistance 54 10) (WMss 4)) = Some 0)
         [TtlBad 64; TtlGuess 64; TtlDistance 60 4].
Proof.
  repeat (apply Forall_cons; [split; [apply tcp_instance_b_iff; vm_compute; reflexivity | vm_compute; reflexivity]|]).
  apply Forall_nil.
Qed.
Definition w_hdr (opt : bool) (n : bytes) (v : option bytes) : header := {| h_optional := opt; h_name := n; h_value := v |}.
(* K3: token `curl`, observed User-Agent software `curl/7.88`: penalty 3 (quality 0.8) instead of 0 *)
Lemma Known_expsw_strict_refuted :
  exists s o, http_instance s o /\ expsw_strict s o = true /\ http_distance s o <> Some 0.
Proof.
  exists {| hs_version := HV11; hs_horder := [w_hdr false (bs "Host") None; w_hdr true (bs "Accept") (Some (bs "*/*"))];
            hs_habsent := []; hs_expsw := bs "curl" |},
         {| hs_version := HV11; hs_horder := [w_hdr false (bs "Host") None]; hs_habsent := []; hs_expsw := bs "curl/7.88" |}.
  split; [apply http_instance_b_iff; vm_compute; reflexivity|].
  split; [vm_compute; reflexivity | vm_compute; discriminate].
Qed.
(* K4: `?A=[1],A=[2],?B=[1],B=[2],?C=[1],C=[2]` against `A=[2],B=[2],C=[2]` (the three optional ones left
   out): the greedy walk counts 3 errors *)
Lemma Known_optional_name_reused_refuted :
  exists s o, http_instance s o /\ optional_name_reused s = true /\ http_distance s o <> Some 0.
Proof.
  exists {| hs_version := HVAny;
            hs_horder := [w_hdr true (bs "A") (Some (bs "1")); w_hdr false (bs "A") (Some (bs "2"));
                          w_hdr true (bs "B") (Some (bs "1")); w_hdr false (bs "B") (Some (bs "2"));
                          w_hdr true (bs "C") (Some (bs "1")); w_hdr false (bs "C") (Some (bs "2"))];
            hs_habsent := []; hs_expsw := bs "x" |},
         {| hs_version := HV20;
            hs_horder := [w_hdr false (bs "A") (Some (bs "2")); w_hdr false (bs "B") (Some (bs "2")); w_hdr false (bs "C") (Some (bs "2"))];
            hs_habsent := []; hs_expsw := bs "x" |}.
  split; [apply http_instance_b_iff; vm_compute; reflexivity|].
  split; [vm_compute; reflexivity | vm_compute; discriminate].
Qed.

(* hypotheses of the instance theorems are satisfiable on non-trivial inputs *)
Example tcp_instance_zero_ex :
  let s := {| t_version := IpAny; t_ittl := TtlValue 64; t_olen := 0; t_mss := None; t_wsize := WMss 4; t_wscale := Some 7;
              t_olayout := [OMss; OSok; OTS; ONop; OWs]; t_quirks := [QDf; QNonZeroID]; t_pclass := PAnySize |} in
  let o := {| t_version := IpV6; t_ittl := TtlDistance 54 10; t_olen := 0; t_mss := Some 1460; t_wsize := WValue 5840; t_wscale := Some 7;
              t_olayout := [OMss; OSok; OTS; ONop; OWs]; t_quirks := []; t_pclass := PNonZero |} in
  ttl_u8 (t_ittl s) /\ tcp_instance s o /\ tcp_distance s o = Some 0.
Proof.
  cbn zeta. split; [cbn; lia|]. split; [apply tcp_instance_b_iff; vm_compute; reflexivity|].
  split; vm_compute; reflexivity.
Qed.
Example http_instance_zero_ex :
  let s := {| hs_version := HVAny;
              hs_horder := [w_hdr false (bs "Host") None; w_hdr true (bs "Accept") (Some (bs "*/*")); w_hdr false (bs "Connection") (Some (bs "close"))];
              hs_habsent := [w_hdr false (bs "Accept-Language") None]; hs_expsw := bs "curl" |} in
  let o := {| hs_version := HV20;
              hs_horder := [w_hdr false (bs "Host") None; w_hdr false (bs "Connection") (Some (bs "close"))];
              hs_habsent := [w_hdr false (bs "Accept-Language") None]; hs_expsw := bs "curl" |} in
  http_instance s o /\ known_http s o = false /\ http_distance s o = Some 0.
Proof.
  cbn zeta. split; [apply http_instance_b_iff; vm_compute; reflexivity|]. split; vm_compute; reflexivity.
Qed.

(* ------------------------------------------------------------------ bundles used by Props/C12.v *)
Lemma tcp_single_field s o :
  ttl_u8 (t_ittl s) -> tcp_instance s o ->
  (forall v, tcp_distance s (set_olen o v) = Some (if v =? t_olen s then 0 else pen_olen))
  /\ (forall v, win_literal s o ->
                tcp_distance s (set_mss o v) = Some (if optfield_inst_b (t_mss s) v then 0 else pen_mss))
  /\ (forall v, tcp_distance s (set_wscale o v) = Some (if optfield_inst_b (t_wscale s) v then 0 else pen_wscale))
  /\ (forall v, tcp_distance s (set_ittl o v) = distance_ttl v (t_ittl s))
  /\ (forall v, tcp_distance s (set_wsize o v) = distance_window_size v (t_wsize s) (t_mss o)).
Proof.
  intros Hu Hi. repeat split; intros.
  - now apply single_olen.
  - now apply single_mss.
  - now apply single_wscale.
  - now apply single_ittl.
  - now apply single_wsize.
Qed.

Lemma ttl_window_components :
  (forall ot st, distance_ttl ot st = None \/ distance_ttl ot st = Some 0 \/ distance_ttl ot st = Some pen_ttl)
  /\ (forall st ot, ttl_u8 st -> ttl_obs_wf ot -> ttl_comparable st ot ->
                    distance_ttl ot st = Some (if ttl_initial ot =? ttl_initial st then 0 else pen_ttl))
  /\ (forall ow sw m, distance_window_size ow sw m = None \/ distance_window_size ow sw m = Some 0
                      \/ distance_window_size ow sw m = Some pen_wsize)
  /\ (forall sw ow m, win_same_form sw ow ->
                      distance_window_size ow sw m = Some (if window_size_eqb ow sw then 0 else pen_wsize))
  /\ (forall k w m, distance_window_size (WValue w) (WMss k) m =
                    Some (match m with Some mv => if (0 <? mv) && (w =? k * mv) then 0 else pen_wsize | None => pen_wsize end))
  /\ (forall n w m, distance_window_size (WValue w) (WMod n) m =
                    Some (if (0 <? n) && (w mod n =? 0) then 0 else pen_wsize)).
Proof.
  repeat split; intros.
  - apply ttl_component_values.
  - now apply ttl_comparable_exact.
  - apply win_component_values.
  - now apply win_same_form_exact.
  - apply win_raw_vs_mss.
  - apply win_raw_vs_mod.
Qed.

Lemma http_single_field s o :
  http_instance s o -> known_http s o = false ->
  (forall v, http_distance s (set_expsw o v) = Some (if contains (hs_expsw s) v then 0 else pen_expsw))
  /\ (forall v, http_distance s (set_horder o v) = header_penalty (hdr_errors v (hs_horder s)))
  /\ (forall v, http_distance s (set_habsent o v) = header_penalty (hdr_errors v (hs_habsent s))).
Proof.
  intros Hi Hk. repeat split; intros.
  - now apply single_expsw.
  - now apply single_horder.
  - now apply single_habsent.
Qed.

Lemma header_band_laws :
  (forall obs sig, distance_header obs sig = header_penalty (hdr_errors obs sig))
  /\ (forall e e', e <= e' ->
        match header_penalty e, header_penalty e' with
        | Some p, Some p' => p <= p' | _, None => True | None, Some _ => False end)
  /\ (forall sig obs, opt_fresh sig -> hdr_inst sig obs -> hdr_errors obs sig = 0).
Proof.
  repeat split; intros.
  - apply header_bands.
  - now apply header_penalty_mono.
  - now apply hdr_instance_zero_errors.
Qed.

Lemma expsw_strict_tight s o : expsw_strict s o = true -> distance_expsw o s = Some pen_expsw.
Proof. apply expsw_strict_costs. Qed.

Lemma tcp_distance_structure s o :
  tcp_distance s o =
  (if tcp_decisive_mismatch_b s o then None
   else match distance_ttl (t_ittl o) (t_ittl s), distance_window_size (t_wsize o) (t_wsize s) (t_mss o) with
        | Some t, Some w =>
            Some (t + (if t_olen o =? t_olen s then 0 else pen_olen)
                    + (if optfield_inst_b (t_mss s) (t_mss o) then 0 else pen_mss)
                    + w + (if optfield_inst_b (t_wscale s) (t_wscale o) then 0 else pen_wscale))
        | _, _ => None end)
  /\ (forall d, tcp_distance s o = Some d -> d <= 9).
Proof.
  split; [|apply tcp_distance_le9]. rewrite tcp_distance_sum.
  destruct (tcp_decisive_mismatch_b s o); [reflexivity|].
  destruct (distance_ttl _ _); cbn [obind]; [|reflexivity].
  destruct (distance_window_size _ _ _); cbn [obind]; reflexivity.
Qed.
Lemma http_distance_structure s o :
  http_distance s o =
  (if http_decisive_mismatch_b s o then None
   else match header_penalty (hdr_errors (hs_horder o) (hs_horder s)),
              header_penalty (hdr_errors (hs_habsent o) (hs_habsent s)) with
        | Some a, Some b => Some (a + b + (if contains (hs_expsw s) (hs_expsw o) then 0 else pen_expsw))
        | _, _ => None end)
  /\ (forall d, http_distance s o = Some d -> d <= 9).
Proof.
  split; [|apply http_distance_le9]. rewrite http_distance_sum.
  destruct (http_decisive_mismatch_b s o); [reflexivity|].
  destruct (header_penalty (hdr_errors (hs_horder o) _)); cbn [obind]; [|reflexivity].
  destruct (header_penalty (hdr_errors (hs_habsent o) _)); cbn [obind]; reflexivity.
Qed.

(* ------------------------------------------------------------------ one field off, stated on the observation *)
Lemma ttl_admit_zero s o :
  ttl_u8 (t_ittl s) -> ttl_inst_b (t_ittl s) (t_ittl o) = true ->
  distance_ttl (t_ittl o) (t_ittl s) = Some 0.
Proof. intros Hu Ha. apply ttl_instance_zero; [exact Hu | now apply ttl_inst_b_iff]. Qed.
Lemma win_admit_zero s o :
  win_inst_b (t_wsize s) (t_wsize o) (t_mss o) = true ->
  distance_window_size (t_wsize o) (t_wsize s) (t_mss o) = Some 0.
Proof. intros Ha. apply win_instance_zero. now apply win_inst_b_iff. Qed.

Theorem tcp_single_field_off_exact f s o :
  ttl_u8 (t_ittl s) ->
  single_field_off f s o = true -> field_differs_comparably f s o = true ->
  tcp_distance s o = Some (field_penalty f).
Proof.
  intros Hu Hoff Hcmp. unfold single_field_off in Hoff.
  rewrite !andb_true_iff, !negb_true_iff in Hoff. destruct Hoff as [[Hdec Hnot] Hall].
  cbn [forallb all_tcp_fields] in Hall. rewrite !andb_true_iff in Hall.
  destruct Hall as (A1 & A2 & A3 & A4 & A5 & _).
  rewrite tcp_distance_sum, Hdec. unfold c_olen, c_mss, c_wscale.
  destruct f; cbn [tcp_field_eqb orb field_admits field_differs_comparably] in *.
  - (* ittl *)
    rewrite (win_admit_zero s o A4), A2, A3, A5.
    assert (E : distance_ttl (t_ittl o) (t_ittl s) = Some pen_ttl).
    { destruct (t_ittl s) as [i| | |]; try discriminate.
      destruct (t_ittl o) as [a|t d|a|a]; try discriminate; cbn; unfold high_or, sat_add8, tq_low, tq_high, pen_ttl.
      - rewrite negb_true_iff in Hcmp. rewrite Hcmp. reflexivity.
      - rewrite andb_true_iff, negb_true_iff in Hcmp. destruct Hcmp as [H1 H2].
        replace (N.min 255 (t + d)) with (t + d) by lia. rewrite H2. reflexivity.
      - rewrite negb_true_iff in Hcmp. rewrite Hcmp. reflexivity. }
    rewrite E. reflexivity.
  - (* olen *)
    rewrite (ttl_admit_zero s o Hu A1), (win_admit_zero s o A4), Hnot, A3, A5. reflexivity.
  - (* mss *)
    rewrite (ttl_admit_zero s o Hu A1), (win_admit_zero s o A4), Hnot, A2, A5. reflexivity.
  - (* wsize *)
    rewrite (ttl_admit_zero s o Hu A1), A2, A3, A5.
    assert (E : distance_window_size (t_wsize o) (t_wsize s) (t_mss o) = Some pen_wsize).
    { unfold win_inst_b in Hnot. apply orb_false_elim in Hnot. destruct Hnot as [Hne Hraw].
      destruct (t_wsize s) as [k|k|w|n|], (t_wsize o) as [k'|k'|w'|n'|]; try discriminate;
        cbn in Hne; try (cbn; unfold high_or, tq_low, tq_high, pen_wsize; rewrite Hne; reflexivity).
      - rewrite win_raw_vs_mss. destruct (t_mss o) as [m|]; [|reflexivity]. rewrite Hraw. reflexivity.
      - rewrite win_raw_vs_mod. rewrite Hraw. reflexivity. }
    rewrite E. reflexivity.
  - (* wscale *)
    rewrite (ttl_admit_zero s o Hu A1), (win_admit_zero s o A4), Hnot, A2, A3. reflexivity.
Qed.

(* software string: not containing the token costs exactly 3, unless the token contains it (K3, other direction) *)
Theorem http_expsw_off_exact s o :
  optional_name_reused s = false -> expsw_off s o = true -> expsw_reversed s o = false ->
  http_distance s o = Some pen_expsw.
Proof.
  unfold optional_name_reused, expsw_off, expsw_reversed. rewrite negb_false_iff, http_sig_wf_b_iff.
  rewrite !andb_true_iff, negb_true_iff. intros [Hf1 Hf2] [[[Hv Ho] Ha] Hs] Hr.
  rewrite Hs in Hr. cbn [negb] in Hr. rewrite andb_true_r in Hr.
  rewrite http_distance_sum. unfold http_decisive_mismatch_b. rewrite Hv. cbn [negb].
  apply hdr_inst_b_iff in Ho. apply hdr_inst_b_iff in Ha.
  rewrite (hdr_instance_zero_errors _ _ Hf1 Ho), (hdr_instance_zero_errors _ _ Hf2 Ha).
  change (header_penalty 0) with (Some 0). cbn [obind].
  replace (contains (hs_expsw s) (hs_expsw o)) with false; [reflexivity|].
  symmetry. apply not_true_iff_false. rewrite contains_iff, <- substring_b_iff. congruence.
Qed.
Lemma Known_expsw_reversed_refuted :
  exists s o, optional_name_reused s = false /\ expsw_off s o = true /\ expsw_reversed s o = true
              /\ http_distance s o <> Some pen_expsw.
Proof.
  exists {| hs_version := HV11; hs_horder := [w_hdr false (bs "Host") None]; hs_habsent := []; hs_expsw := bs "curl/7." |},
         {| hs_version := HV11; hs_horder := [w_hdr false (bs "Host") None]; hs_habsent := []; hs_expsw := bs "curl" |}.
  repeat split; try (vm_compute; reflexivity). vm_compute. discriminate.
Qed.

Example tcp_single_field_off_ex :
  let s := w_tcp (TtlValue 64) (WMss 4) in
  let o := set_wscale (w_tcp (TtlDistance 54 10) (WValue 5840)) (Some 8) in
  ttl_u8 (t_ittl s) /\ single_field_off FWscale s o = true
  /\ field_differs_comparably FWscale s o = true /\ tcp_distance s o = Some 1.
Proof. cbn zeta. split; [cbn; lia|]. repeat split; vm_compute; reflexivity. Qed.
Example http_expsw_off_ex :
  let s := {| hs_version := HV11; hs_horder := [w_hdr false (bs "Host") None]; hs_habsent := []; hs_expsw := bs "curl" |} in
  let o := {| hs_version := HV11; hs_horder := [w_hdr false (bs "Host") None]; hs_habsent := []; hs_expsw := bs "Wget/1.21" |} in
  optional_name_reused s = false /\ expsw_off s o = true /\ expsw_reversed s o = false /\ http_distance s o = Some 3.
Proof. cbn zeta. repeat split; vm_compute; reflexivity. Qed.

(* fix c12quirksv6: a version-`*` signature listing df,id+ (Linux 3.11 and later in p0f.fp: *:64:0:*:mss*20,10:mss,sok,ts,nop,ws:df,id+:0)
   is instantiated by an IPv6 SYN, whose quirk list cannot contain df / id+: distance 0 (was: rejected);
   an IPv4 SYN must still carry both; an IPv6 observation that does carry df is still rejected;
   `flow` is demanded of IPv6 observations only *)
Definition w_linux (v : ip_version) (qs : list quirk) : tcp_sig :=
  {| t_version := v; t_ittl := TtlValue 64; t_olen := 0; t_mss := None; t_wsize := WMss 20; t_wscale := Some 10;
     t_olayout := [OMss; OSok; OTS; ONop; OWs]; t_quirks := qs; t_pclass := PZero |}.
Lemma Quirks_v6_former_witness_agrees :
  let s := w_linux IpAny [QDf; QNonZeroID] in
  (tcp_instance s (set_mss (w_linux IpV6 []) (Some 1440)) /\ tcp_distance s (set_mss (w_linux IpV6 []) (Some 1440)) = Some 0)
  /\ (tcp_instance s (w_linux IpV4 [QDf; QNonZeroID]) /\ tcp_distance s (w_linux IpV4 [QDf; QNonZeroID]) = Some 0)
  /\ tcp_distance s (w_linux IpV4 []) = None
  /\ tcp_distance s (w_linux IpV6 [QDf; QNonZeroID]) = None
  /\ tcp_distance (w_linux IpAny [QFlowID; QEcn]) (w_linux IpV4 [QEcn]) = Some 0
  /\ tcp_distance (w_linux IpAny [QFlowID; QEcn]) (w_linux IpV6 [QEcn]) = None.
Proof.
  cbn zeta. repeat split; try (apply tcp_instance_b_iff; vm_compute; reflexivity); vm_compute; reflexivity.
Qed.
Lemma quirks_masking_spec :
  (forall qs, sig_quirks_for IpV6 qs = filter (fun q => negb (ipv4_only_quirk q)) qs)
  /\ (forall qs, sig_quirks_for IpV4 qs = filter (fun q => negb (ipv6_only_quirk q)) qs)
  /\ (forall qs, sig_quirks_for IpAny qs = qs)
  /\ (forall s o, t_quirks o <> sig_quirks_for (t_version o) (t_quirks s) -> tcp_distance s o = None).
Proof.
  repeat split; try reflexivity.
  - intros qs. unfold sig_quirks_for. induction qs as [|q qs IH]; cbn; [reflexivity | now rewrite IH].
  - intros s o H. apply tcp_decisive_none. right; right; left. exact H.
Qed.
