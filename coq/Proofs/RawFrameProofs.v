(* Agreement of the two frame decoders (raw_filter quick extraction vs parse_packet + pnet views). *)
From Coq Require Import List NArith Bool Arith Lia ZifyBool ZifyN ZifyNat.
From Coq Require Import Strings.Byte.
From HN Require Import Base.Bytes Model.Filter Model.RawFrame.
Import ListNotations.
Open Scope N_scope.

(* ---------- list plumbing ---------- *)
Lemma nth_skipn_add {A} (k i : nat) (l : list A) d : nth i (skipn k l) d = nth (k + i) l d.
Proof.
  revert l; induction k as [|k IH]; intros l; [reflexivity|].
  destruct l as [|x l]; cbn [skipn plus nth]; [destruct i; reflexivity | apply IH].
Qed.

Lemma nth_firstn_lt {A} (n i : nat) (l : list A) d : (i < n)%nat -> nth i (firstn n l) d = nth i l d.
Proof.
  revert i l; induction n as [|n IH]; intros i l H; [lia|].
  destruct l as [|x l]; [destruct i; reflexivity|].
  destruct i as [|i]; cbn [firstn nth]; [reflexivity | apply IH; lia].
Qed.

Lemma byte_at_skipn k f i : byte_at (skipn k f) i = byte_at f (k + i).
Proof. unfold byte_at. now rewrite nth_skipn_add. Qed.

Lemma u16_at_skipn k f i : u16_at (skipn k f) i = u16_at f (k + i).
Proof. unfold u16_at. rewrite !byte_at_skipn. now rewrite Nat.add_succ_r. Qed.

Lemma skipn_add {A} (i k : nat) (l : list A) : skipn i (skipn k l) = skipn (k + i) l.
Proof.
  revert l; induction k as [|k IH]; intros l; [reflexivity|].
  destruct l as [|x l]; cbn [skipn plus]; [now rewrite skipn_nil | apply IH].
Qed.

Lemma slice_skipn k f i n : slice (skipn k f) i n = slice f (k + i) n.
Proof. unfold slice. now rewrite skipn_add. Qed.

Lemma range_length f s e : length (range f s e) = Nat.min (e - s) (length f - s).
Proof. unfold range. now rewrite firstn_length, skipn_length. Qed.

Lemma byte_at_range f s e i : (i < e - s)%nat -> byte_at (range f s e) i = byte_at f (s + i).
Proof.
  intros H. unfold range, byte_at. rewrite nth_firstn_lt by exact H. now rewrite nth_skipn_add.
Qed.

Lemma u16_at_range f s e i : (S i < e - s)%nat -> u16_at (range f s e) i = u16_at f (s + i).
Proof.
  intros H. unfold u16_at. rewrite !byte_at_range by lia. now rewrite Nat.add_succ_r.
Qed.

Lemma be_N_app l b : be_N (l ++ [b]) = be_N l * 256 + b2n b.
Proof. unfold be_N. now rewrite fold_left_app. Qed.

Lemma be_N_bound l : be_N l < 256 ^ N.of_nat (length l).
Proof.
  induction l as [|b l IH] using rev_ind; [cbn; lia|].
  rewrite be_N_app, app_length, Nat.add_1_r, Nat2N.inj_succ, N.pow_succ_r'.
  pose proof (b2n_lt b). lia.
Qed.

Lemma slice_length_le f s n : (length (slice f s n) <= n)%nat.
Proof. unfold slice. rewrite firstn_length. lia. Qed.

Lemma be_N_slice_bound f s n : be_N (slice f s n) < 256 ^ N.of_nat n.
Proof.
  eapply N.lt_le_trans; [apply be_N_bound|].
  apply N.pow_le_mono_r; [lia|]. pose proof (slice_length_le f s n). lia.
Qed.

(* ---------- the IP layer: the TCP view's ports are the bytes raw_filter reads ---------- *)
Lemma ipv4_payload_long ip :
  (20 <= length (ipv4_payload ip))%nat ->
  let off := (4 * Nat.max (ihl_of ip) 5)%nat in
  (off + 20 <= length ip)%nat /\
  u16_at (ipv4_payload ip) 0 = u16_at ip off /\ u16_at (ipv4_payload ip) 2 = u16_at ip (off + 2).
Proof.
  unfold ipv4_payload. generalize (ihl_of ip) as h. intros h.
  set (plen := (N.to_nat (u16_at ip 2) - 4 * h)%nat).
  replace (20 + (4 * h - 20))%nat with (4 * Nat.max h 5)%nat by lia.
  set (off := (4 * Nat.max h 5)%nat).
  destruct (length ip <=? off)%nat eqn:E; cbn [length]; [lia|].
  rewrite range_length. intros H. cbn zeta.
  split; [lia|]. split.
  - rewrite u16_at_range by lia. f_equal. lia.
  - rewrite u16_at_range by lia. reflexivity.
Qed.

Lemma ipv6_payload_long ip :
  (20 <= length (ipv6_payload ip))%nat ->
  (60 <= length ip)%nat /\
  u16_at (ipv6_payload ip) 0 = u16_at ip 40 /\ u16_at (ipv6_payload ip) 2 = u16_at ip 42.
Proof.
  unfold ipv6_payload.
  destruct (length ip <=? 40)%nat eqn:E; cbn [length]; [lia|].
  rewrite range_length. intros H.
  split; [lia|]. split; rewrite u16_at_range by lia; reflexivity.
Qed.

Lemma view4_quick ip e : view_endpoints (View4 ip) = Some e -> quick_ipv4 ip = Some e.
Proof.
  cbn [view_endpoints]. unfold quick_ipv4.
  destruct (negb (byte_at ip 9 =? 6)) eqn:Ep; [discriminate|].
  destruct (length (ipv4_payload ip) <? 20)%nat eqn:El; [discriminate|].
  intros H. injection H as <-.
  destruct (ipv4_payload_long ip) as (Hlen & Hs & Hd); [lia|].
  rewrite Hs, Hd.
  destruct (length ip <? 20)%nat eqn:E1; [lia|].
  destruct (length ip <? 4 * Nat.max (ihl_of ip) 5 + 4)%nat eqn:E2; [lia|].
  reflexivity.
Qed.

Lemma view6_quick ip e : view_endpoints (View6 ip) = Some e -> quick_ipv6 ip = Some e.
Proof.
  cbn [view_endpoints]. unfold quick_ipv6.
  destruct (negb (byte_at ip 6 =? 6)) eqn:Ep; [discriminate|].
  destruct (length (ipv6_payload ip) <? 20)%nat eqn:El; [discriminate|].
  intros H. injection H as <-.
  destruct (ipv6_payload_long ip) as (Hlen & Hs & Hd); [lia|].
  rewrite Hs, Hd.
  destruct (length ip <? 40)%nat eqn:E1; [lia|].
  destruct (length ip <? 44)%nat eqn:E2; [lia|].
  reflexivity.
Qed.

(* a frame with endpoints is long enough for the fixed header plus a TCP header *)
Lemma view4_long ip e : view_endpoints (View4 ip) = Some e -> (40 <= length ip)%nat.
Proof.
  cbn [view_endpoints].
  destruct (negb (byte_at ip 9 =? 6)); [discriminate|].
  destruct (length (ipv4_payload ip) <? 20)%nat eqn:El; [discriminate|]. intros _.
  destruct (ipv4_payload_long ip) as (Hlen & _); lia.
Qed.
Lemma view6_long ip e : view_endpoints (View6 ip) = Some e -> (60 <= length ip)%nat.
Proof.
  cbn [view_endpoints].
  destruct (negb (byte_at ip 6 =? 6)); [discriminate|].
  destruct (length (ipv6_payload ip) <? 20)%nat eqn:El; [discriminate|]. intros _.
  destruct (ipv6_payload_long ip) as (Hlen & _); lia.
Qed.

(* ---------- the link layer ---------- *)
Lemma eth_some_quick f v e :
  try_ethernet_format f = Some v -> view_endpoints v = Some e -> quick_ethernet f = Some e.
Proof.
  unfold try_ethernet_format, quick_ethernet.
  destruct (length f <? 14)%nat; [discriminate|].
  destruct (ethertype f =? ET_IPV4).
  - destruct (20 <=? length (skipn 14 f))%nat; [|discriminate].
    intros H; injection H as <-. apply view4_quick.
  - destruct (ethertype f =? ET_IPV6); [|discriminate].
    destruct (40 <=? length (skipn 14 f))%nat; [|discriminate].
    intros H; injection H as <-. apply view6_quick.
Qed.

Lemma eth_none_quick f : try_ethernet_format f = None -> quick_ethernet f = None.
Proof.
  unfold try_ethernet_format, quick_ethernet.
  destruct (length f <? 14)%nat; [reflexivity|].
  destruct (ethertype f =? ET_IPV4).
  - destruct (20 <=? length (skipn 14 f))%nat eqn:E; [discriminate|]. intros _.
    unfold quick_ipv4. destruct (length (skipn 14 f) <? 20)%nat eqn:E2; [reflexivity|lia].
  - destruct (ethertype f =? ET_IPV6); [|reflexivity].
    destruct (40 <=? length (skipn 14 f))%nat eqn:E; [discriminate|]. intros _.
    unfold quick_ipv6. destruct (length (skipn 14 f) <? 40)%nat eqn:E2; [reflexivity|lia].
Qed.

Lemma raw_some_quick f v e :
  try_raw_ip_format f = Some v -> view_endpoints v = Some e -> quick_raw_ip f = Some e.
Proof.
  unfold try_raw_ip_format, quick_raw_ip.
  destruct (length f <? 20)%nat; [discriminate|].
  destruct (version_of f =? 4).
  - intros H; injection H as <-. apply view4_quick.
  - destruct (version_of f =? 6); [|discriminate].
    destruct (40 <=? length f)%nat; [|discriminate].
    intros H; injection H as <-. apply view6_quick.
Qed.

Lemma null_sig_version f : byte_at f 0 = 30 -> version_of f = 1.
Proof. unfold version_of. intros ->. reflexivity. Qed.

(* decoder agreement, by framing *)
Lemma quick_agrees_parsed f l v e :
  parse_packet f = Some (l, v) -> view_endpoints v = Some e -> quick_info f = Some e.
Proof.
  unfold parse_packet, quick_info.
  destruct (try_ethernet_format f) as [v1|] eqn:Eeth.
  { intros H; injection H as <- <-. intros Hv. now rewrite (eth_some_quick _ _ _ Eeth Hv). }
  rewrite (eth_none_quick _ Eeth).
  destruct (try_raw_ip_format f) as [v2|] eqn:Eraw.
  { intros H; injection H as <- <-. intros Hv. now rewrite (raw_some_quick _ _ _ Eraw Hv). }
  destruct (try_null_format f) as [v3|] eqn:Enull; [|discriminate].
  intros H; injection H as <- <-. intros Hv.
  revert Enull. unfold try_null_format.
  destruct (length f <? 24)%nat eqn:El; [discriminate|].
  destruct (byte_at f 0 =? 30) eqn:E0; [|discriminate].
  destruct (byte_at f 1 =? 0) eqn:E1; [|discriminate]. cbn [orb negb].
  intros Enull.
  assert (Hver : version_of f = 1) by (apply null_sig_version; lia).
  unfold quick_raw_ip. rewrite Hver.
  change (1 =? 4) with false. change (1 =? 6) with false. cbn iota.
  unfold quick_null. rewrite E0, E1.
  destruct (length f <? 4)%nat eqn:E4; [lia|].
  destruct (24 <=? length f)%nat eqn:E24; [|lia]. cbn [andb].
  destruct (version_of (skipn 4 f) =? 4).
  - injection Enull as <-. now apply view4_quick.
  - destruct (version_of (skipn 4 f) =? 6); [|discriminate].
    destruct (40 <=? length (skipn 4 f))%nat; [|discriminate].
    injection Enull as <-. now apply view6_quick.
Qed.

Lemma quick_agrees f e : analyzer_endpoints f = Some e -> quick_info f = Some e.
Proof.
  unfold analyzer_endpoints. destruct (parse_packet f) as [[l v]|] eqn:Ep; [|discriminate].
  intros Hv. exact (quick_agrees_parsed f l v e Ep Hv).
Qed.

Lemma failopen_harmless f : quick_info f = None -> analyzer_endpoints f = None.
Proof.
  intros Hq. destruct (analyzer_endpoints f) as [e|] eqn:Ea; [|reflexivity].
  rewrite (quick_agrees f e Ea) in Hq. discriminate.
Qed.
