(* C19, observation pairs: the estimator of the MODEL equals the SPEC outside the known classes. *)
From Coq Require Import List ZArith Bool Lia.
From HN Require Import Model.Uptime Spec.UptimeSpec Proofs.UptimeProofs.
Import ListNotations.
Open Scope Z_scope.

(* ------------------------------------------------------------------ the guards of calculate_frequency_p0f_style *)

Lemma advance_range v1 v2 : 0 <= advance v1 v2 < 4294967296.
Proof. unfold advance, TWO32. apply Z.mod_pos_bound. lia. Qed.

Lemma calc_unfold t1 v1 t2 v2 :
  calculate_frequency_p0f_style (ts_now v2 t2) (ts_now v1 t1) =
  let ms := Z.max 0 (t2 - t1) in
  let d := advance v1 v2 in
  if ms <? 25 then FreqErr else if 600000 <? ms then FreqErr else
  if negb (if 4294967295 - d <? d
           then if 4294967295 - d <? 5 then false
                else if (ms <? 100) && (15000 <? 4294967295 - d) then false else true
           else true) then FreqErr
  else
    let raw := if 4294967295 - d <? d then {| qn := - ((4294967295 - d) * 1000); qd := Z.max ms 1 |}
               else {| qn := d * 1000; qd := Z.max ms 1 |} in
    if negb ((1 * qd raw <=? qn raw * 1) && (qn raw * 1 <=? 1500 * qd raw)) then FreqErr
    else if d <? 5 then FreqWait else FreqOk raw.
Proof. reflexivity. Qed.

(* in bounds: the guards pass, the rate check passes; what is left is the tick count *)
Lemma calc_in_bounds_gen t1 v1 t2 v2 :
  in_bounds t1 v1 t2 v2 = true ->
  calculate_frequency_p0f_style (ts_now v2 t2) (ts_now v1 t1)
  = if advance v1 v2 <? 5 then FreqWait else FreqOk {| qn := advance v1 v2 * 1000; qd := t2 - t1 |}.
Proof.
  intros Hb. rewrite calc_unfold. unfold in_bounds in Hb. cbv zeta.
  pose proof (advance_range v1 v2) as Hr.
  set (d := advance v1 v2) in *. set (ms := t2 - t1) in *. unfold TWO31 in Hb.
  destruct (Z.leb_spec 25 ms); cbn [andb] in Hb; [|discriminate].
  destruct (Z.leb_spec ms 600000); cbn [andb] in Hb; [|discriminate].
  destruct (Z.ltb_spec d 2147483648); cbn [andb] in Hb; [|discriminate].
  destruct (Z.leb_spec ms (1000 * d)); cbn [andb] in Hb; [|discriminate].
  destruct (Z.leb_spec (1000 * d) (1500 * ms)); [|discriminate].
  rewrite (Z.max_r 0 ms) by lia. rewrite (Z.max_l ms 1) by lia.
  destruct (Z.ltb_spec ms 25); [lia|]. destruct (Z.ltb_spec 600000 ms); [lia|].
  destruct (Z.ltb_spec (4294967295 - d) d); [lia|]. cbn [negb qn qd].
  destruct (Z.leb_spec (1 * ms) (d * 1000 * 1)); [|lia].
  destruct (Z.leb_spec (d * 1000 * 1) (1500 * ms)); [|lia]. reflexivity.
Qed.

Lemma calc_in_bounds t1 v1 t2 v2 :
  in_bounds t1 v1 t2 v2 = true -> 5 <= advance v1 v2 ->
  calculate_frequency_p0f_style (ts_now v2 t2) (ts_now v1 t1)
  = FreqOk {| qn := advance v1 v2 * 1000; qd := t2 - t1 |}.
Proof.
  intros Hb H5. rewrite calc_in_bounds_gen by assumption.
  destruct (Z.ltb_spec (advance v1 v2) 5); [lia | reflexivity].
Qed.

(* fewer than 5 ticks at an in-bounds interval and rate: keep waiting (no report, no marker) *)
Lemma calc_small_advance t1 v1 t2 v2 :
  in_bounds t1 v1 t2 v2 = true -> advance v1 v2 < 5 ->
  calculate_frequency_p0f_style (ts_now v2 t2) (ts_now v1 t1) = FreqWait.
Proof.
  intros Hb H5. rewrite calc_in_bounds_gen by assumption.
  destruct (Z.ltb_spec (advance v1 v2) 5); [reflexivity | lia].
Qed.

Lemma calc_out_of_bounds t1 v1 t2 v2 :
  in_bounds t1 v1 t2 v2 = false ->
  calculate_frequency_p0f_style (ts_now v2 t2) (ts_now v1 t1) = FreqErr.
Proof.
  intros Hb. rewrite calc_unfold. unfold in_bounds in Hb. cbv zeta.
  pose proof (advance_range v1 v2) as Hr.
  set (d := advance v1 v2) in *. set (ms := t2 - t1) in *. unfold TWO31 in *.
  destruct (Z.ltb_spec (Z.max 0 ms) 25); [reflexivity|].
  destruct (Z.ltb_spec 600000 (Z.max 0 ms)); [reflexivity|].
  rewrite (Z.max_r 0 ms) in * by lia. rewrite (Z.max_l ms 1) by lia.
  destruct (Z.leb_spec 25 ms); [|lia]. destruct (Z.leb_spec ms 600000); [|lia]. cbn [andb] in Hb.
  destruct (negb (if 4294967295 - d <? d then _ else true)); [reflexivity|].
  destruct (Z.ltb_spec (4294967295 - d) d) as [Hbk|Hfw]; cbn [qn qd].
  - (* backward: the rate is negative *)
    destruct (Z.leb_spec (1 * ms) (- ((4294967295 - d) * 1000) * 1)); [lia | reflexivity].
  - (* forward *)
    destruct (Z.ltb_spec d 2147483648); [|lia]. cbn [andb] in Hb.
    destruct (Z.leb_spec ms (1000 * d)); destruct (Z.leb_spec (1 * ms) (d * 1000 * 1)); try lia; cbn [andb negb] in *; try reflexivity.
    destruct (Z.leb_spec (1000 * d) (1500 * ms)); destruct (Z.leb_spec (d * 1000 * 1) (1500 * ms)); try lia; cbn [negb]; try reflexivity; discriminate.
Qed.

(* ------------------------------------------------------------------ frequency *)

Lemma final_grid n dd :
  0 < dd -> dd <= n <= 1500 * dd ->
  final_frequency {| qn := n; qd := dd |} = grid n dd.
Proof.
  intros Hd Hn. unfold final_frequency, grid, GUESS_HZ_1K, GUESS_HZ_100.
  rewrite !guess_snap by lia.
  destruct (snap 1000 n dd); [reflexivity|]. destruct (snap 100 n dd); [reflexivity|].
  apply round_documented; assumption.
Qed.

Lemma grid_points_pos g : In g grid_points -> 1 <= g.
Proof. cbn. intros H. repeat (destruct H as [<- | H]; [lia|]). contradiction. Qed.

(* the SPEC's frequency always lies on the documented grid *)
Lemma snap_cases base n dd f :
  0 < base -> 0 < dd -> dd <= n <= 1500 * dd -> snap base n dd = Some f ->
  exists k, f = k * base /\ 1 <= k /\ 9 * (k * base) * dd <= 10 * n.
Proof.
  intros Hb Hd Hn. unfold snap. set (k := (2 * n + base * dd) / (2 * base * dd)).
  destruct (Z.leb_spec 1 k); cbn [andb]; [|discriminate].
  destruct (Z.leb_spec (9 * (k * base) * dd) (10 * n)); cbn [andb]; [|discriminate].
  destruct (_ <=? _); [|discriminate]. intros E; inversion E. exists k. lia.
Qed.

Theorem grid_on_documented_grid n dd :
  0 < dd -> dd <= n <= 1500 * dd -> In (grid n dd) grid_points.
Proof.
  intros Hd Hn. unfold grid.
  destruct (snap 1000 n dd) eqn:E1.
  { destruct (snap_cases 1000 n dd z ltac:(lia) Hd Hn E1) as (k & -> & Hk & Hle).
    assert (k = 1) by nia. subst k. cbn. tauto. }
  destruct (snap 100 n dd) eqn:E2.
  { destruct (snap_cases 100 n dd z ltac:(lia) Hd Hn E2) as (k & -> & Hk & Hle).
    assert (k <= 16) by nia.
    assert (k = 1 \/ k = 2 \/ k = 3 \/ k = 4 \/ k = 5 \/ k = 6 \/ k = 7 \/ k = 8 \/ k = 9 \/ k = 10 \/ k = 11 \/
            k = 12 \/ k = 13 \/ k = 14 \/ k = 15 \/ k = 16) as C by lia.
    assert (k <> 16).
    { intros ->. unfold snap in E2. clear E1.
      set (k := (2 * n + 100 * dd) / (2 * 100 * dd)) in *.
      pose proof (div_bounds (2 * n + 100 * dd) (2 * 100 * dd) ltac:(lia)) as B. fold k in B.
      destruct (Z.leb_spec 1 k); cbn [andb] in E2; [|discriminate].
      destruct (_ && _); [|discriminate]. inversion E2. nia. }
    repeat (destruct C as [-> | C]; [cbn; tauto|]). lia. }
  apply documented_round_on_grid. split.
  - apply floor_ge; lia.
  - assert (n / dd < 1501) by (apply floor_lt; lia). lia.
Qed.

Lemma grid_pos n dd : 0 < dd -> dd <= n <= 1500 * dd -> 1 <= grid n dd.
Proof. intros Hd Hn. apply grid_points_pos, grid_on_documented_grid; assumption. Qed.

(* ------------------------------------------------------------------ estimator: MODEL = SPEC *)

Lemma in_bounds_facts t1 v1 t2 v2 :
  in_bounds t1 v1 t2 v2 = true ->
  25 <= t2 - t1 <= 600000 /\ advance v1 v2 < 2147483648 /\
  t2 - t1 <= 1000 * advance v1 v2 <= 1500 * (t2 - t1).
Proof.
  unfold in_bounds, TWO31. intros H.
  repeat (apply andb_prop in H; destruct H as [H ?]).
  repeat match goal with
         | X : (_ <=? _) = true |- _ => apply Z.leb_le in X
         | X : (_ <? _) = true |- _ => apply Z.ltb_lt in X
         end. lia.
Qed.

(* the three-valued evaluation against the SPEC: report / marker, never "wait" outside the known class *)
Definition eval_of_spec (o : option uptime) : eval_result :=
  match o with Some u => EvEst u | None => EvBad end.

Theorem eval_model_spec t1 v1 t2 v2 :
  wf_obs t1 v1 -> wf_obs t2 v2 ->
  known_pair t1 v1 t2 v2 = false ->
  model_eval t1 v1 t2 v2 = eval_of_spec (spec_estimate t1 v1 t2 v2).
Proof.
  intros [Ht1 Hv1] [Ht2 Hv2] Hk. unfold known_pair in Hk.
  rename Hk into Hsm.
  unfold model_eval, spec_estimate.
  destruct (in_bounds t1 v1 t2 v2) eqn:Hb.
  - unfold known_small_advance in Hsm. rewrite Hb in Hsm. cbn [andb] in Hsm. apply Z.ltb_ge in Hsm.
    rewrite calc_in_bounds by assumption.
    pose proof (in_bounds_facts _ _ _ _ Hb) as (Hms & Hfw & Hrate).
    replace (advance v1 v2 * 1000) with (1000 * advance v1 v2) by lia.
    rewrite final_grid by lia.
    rewrite uptime_model_spec; [reflexivity | lia | apply grid_pos; lia].
  - rewrite calc_out_of_bounds by assumption. reflexivity.
Qed.

Theorem estimate_model_spec t1 v1 t2 v2 :
  wf_obs t1 v1 -> wf_obs t2 v2 ->
  known_pair t1 v1 t2 v2 = false ->
  model_estimate t1 v1 t2 v2 = spec_estimate t1 v1 t2 v2.
Proof.
  intros W1 W2 Hk. unfold model_estimate. rewrite eval_model_spec by assumption.
  now destruct (spec_estimate t1 v1 t2 v2).
Qed.

(* the known class, exactly: in bounds on fewer than 5 ticks the code keeps waiting *)
Theorem eval_small_advance t1 v1 t2 v2 :
  known_small_advance t1 v1 t2 v2 = true -> model_eval t1 v1 t2 v2 = EvWait.
Proof.
  unfold known_small_advance. intros H. apply andb_prop in H. destruct H as [Hb H5]. apply Z.ltb_lt in H5.
  unfold model_eval. now rewrite calc_small_advance.
Qed.

Theorem estimate_sound t1 v1 t2 v2 :
  wf_obs t1 v1 -> wf_obs t2 v2 ->
  in_bounds t1 v1 t2 v2 = true ->
  known_small_advance t1 v1 t2 v2 = false ->
  let freq := grid (1000 * advance v1 v2) (t2 - t1) in
  let u := spec_uptime v2 freq in
  model_estimate t1 v1 t2 v2 = Some u /\
  1 <= freq /\ u_freq u = freq /\ 0 <= u_days u /\ 0 <= u_hours u < 24 /\ 0 <= u_min u < 60 /\
  v2 / freq = 86400 * u_days u + 3600 * u_hours u + 60 * u_min u + (v2 / freq) mod 60 /\
  u_mod_days u = 4294967296 / freq / 86400.
Proof.
  intros W1 W2 Hb Hsm freq u.
  assert (Hk : known_pair t1 v1 t2 v2 = false) by (unfold known_pair; exact Hsm).
  pose proof (in_bounds_facts _ _ _ _ Hb) as (Hms & Hfw & Hrate).
  assert (Hf : 1 <= freq) by (apply grid_pos; lia).
  split. { rewrite estimate_model_spec by assumption. unfold spec_estimate. now rewrite Hb. }
  destruct W2 as [_ Hv2].
  pose proof (spec_uptime_digits v2 freq ltac:(lia) Hf) as D. cbv zeta in D. fold u in D.
  repeat split; try lia; try apply D.
Qed.

Theorem estimate_withheld t1 v1 t2 v2 :
  in_bounds t1 v1 t2 v2 = false ->
  model_eval t1 v1 t2 v2 = EvBad /\ model_estimate t1 v1 t2 v2 = None /\ spec_estimate t1 v1 t2 v2 = None.
Proof.
  intros Hb. unfold model_estimate, model_eval, spec_estimate.
  rewrite calc_out_of_bounds by assumption. now rewrite Hb.
Qed.

(* ------------------------------------------------------------------ witnesses of the known classes *)

Lemma Known_small_advance_refuted :
  exists t1 v1 t2 v2, wf_obs t1 v1 /\ wf_obs t2 v2 /\ known_small_advance t1 v1 t2 v2 = true /\
                      model_estimate t1 v1 t2 v2 <> spec_estimate t1 v1 t2 v2 /\ model_eval t1 v1 t2 v2 = EvWait.
Proof. exists 0, 1000, 1000, 1004. unfold wf_obs. repeat split; try lia; vm_compute; (discriminate || reflexivity). Qed.

(* former known class "backward movement reported" (repaired in /repo): the old witnesses now agree *)
Lemma Known_backward_former_witness_agrees :
  model_estimate 0 1000 1000 900 = spec_estimate 0 1000 1000 900 /\
  model_estimate 0 5000000 60000 4940000 = spec_estimate 0 5000000 60000 4940000 /\
  model_estimate 0 1000 50 985 = spec_estimate 0 1000 50 985 /\
  spec_estimate 0 1000 1000 900 = None.
Proof. vm_compute. auto. Qed.

(* hypotheses of the pair theorems are satisfiable on non-trivial inputs *)
Example estimate_sound_ex :
  in_bounds 1000 4294967000 31000 7204 = true /\ known_pair 1000 4294967000 31000 7204 = false /\
  model_estimate 1000 4294967000 31000 7204 = Some {| u_freq := 250; u_days := 0; u_hours := 0; u_min := 0; u_mod_days := 198 |}.
Proof. vm_compute. auto. Qed.
Example estimate_withheld_ex :
  in_bounds 0 5000 24 5024 = false /\ in_bounds 0 1000 1000 900 = false /\
  model_estimate 0 5000 24 5024 = None /\ model_estimate 0 1000 1000 900 = None.
Proof. vm_compute. auto. Qed.
