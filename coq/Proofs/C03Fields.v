(* C03 proofs, part 2: the scalar fields — ittl, olen, window class (soundness of each class for all
   2^16 x 2^16 window/MSS pairs by arithmetic, and agreement with the SPEC outside K7), MTU, link, role. *)
From Coq Require Import List NArith Bool Lia ZifyBool ZifyN.
From Coq Require Import Strings.Byte.
From HN Require Import Base.Bytes Model.SigAst Model.Pnet Model.TcpExtract Spec.P0fTcp Proofs.C03Bytes.
Import ListNotations.
Open Scope N_scope.

(* ---------------- ittl ---------------- *)
Lemma ittl_spec t : t < 256 -> calculate_ttl t = spec_ittl t.
Proof.
  intros Ht. unfold calculate_ttl, spec_ittl, guess_distance, MAX_HOPS_ACCEPTABLE, sat_sub, initial_ttls.
  destruct (t =? 0) eqn:E0; [f_equal; lia|].
  cbn [find].
  destruct (128 <? t) eqn:E1; destruct (64 <? t) eqn:E2; destruct (32 <? t) eqn:E3;
  destruct (t <=? 32) eqn:F1; destruct (t <=? 64) eqn:F2; destruct (t <=? 128) eqn:F3;
  destruct (t <=? 255) eqn:F4; try lia; reflexivity.
Qed.
(* the rule in words: 0 is bad; otherwise the distance to the next initial TTL, kept when <= 30 *)
Lemma ittl_distance t d : t < 256 -> calculate_ttl t = TtlDistance t d ->
  0 < t /\ d <= 30 /\ In (t + d) [32; 64; 128; 255] /\ forall c, In c [32; 64; 128; 255] -> t <= c -> t + d <= c.
Proof.
  intros Ht. unfold calculate_ttl, guess_distance, MAX_HOPS_ACCEPTABLE, sat_sub.
  destruct (t =? 0) eqn:E0; [discriminate|].
  destruct (128 <? t) eqn:E1; [|destruct (64 <? t) eqn:E2; [|destruct (32 <? t) eqn:E3]];
  match goal with |- context [?a - t <=? 30] => destruct (a - t <=? 30) eqn:E end; intros H; inversion H; subst;
  (split; [lia|]; split; [lia|]; split; [cbn [In]; lia|]; intros c Hc Hle; cbn [In] in Hc; lia).
Qed.

(* ---------------- olen ---------------- *)
Lemma olen_spec p : 5 <= v4_header_length p -> calculate_ipv4_length p = v4_header_length p * 4 - 20.
Proof.
  intros H. unfold calculate_ipv4_length, sat_sub.
  assert (v4_header_length p < 16) by (unfold v4_header_length; lia).
  destruct (5 <? v4_header_length p) eqn:E; lia.
Qed.

(* ---------------- window ---------------- *)
Lemma check_div_multiple w d : check_div w d = multiple_of w d.
Proof.
  unfold check_div, multiple_of. destruct (d =? 0); cbn [negb andb]; [reflexivity|].
  destruct (w mod d =? 0); cbn [andb]; [|reflexivity]. destruct (w / d <=? 255); reflexivity.
Qed.
Lemma check_div_some w d k : check_div w d = Some k -> d <> 0 /\ w = k * d /\ k <= 255.
Proof.
  unfold check_div. destruct (d =? 0) eqn:Ed; cbn [negb andb]; [discriminate|].
  destruct (w mod d =? 0) eqn:Em; [|discriminate]. destruct (w / d <=? 255) eqn:Ek; [|discriminate].
  intros H; inversion H; subst. split; [lia|]. split; [|lia].
  pose proof (N.div_mod w d). assert (d <> 0) by lia. specialize (H0 H1). nia.
Qed.

(* Mss k: the window is k times the MSS, or with timestamps k times (MSS - 12); k <= 255.  All pairs. *)
Lemma window_sound w mss hdr ts v k :
  detect_win_multiplicator w mss hdr ts v = WMss k ->
  (w = k * mss \/ (ts = true /\ w = k * (mss - 12))) /\ k <= 255 /\ w <> 0 /\ 100 <= mss.
Proof.
  unfold detect_win_multiplicator.
  destruct ((w =? 0) || (mss <? 100)) eqn:E0; [discriminate|].
  destruct (0 <? mss) eqn:Em.
  2:{ repeat match goal with |- context [match ?x with _ => _ end] => destruct x end; discriminate. }
  unfold or_else.
  destruct (check_div w mss) eqn:C1.
  - intros H; inversion H; subst. apply check_div_some in C1. lia.
  - destruct (ts && (12 <? mss)) eqn:Ets.
    + destruct (check_div w (sat_sub mss 12)) eqn:C2.
      * intros H; inversion H; subst. apply check_div_some in C2. unfold sat_sub in C2.
        destruct ts; [|discriminate]. lia.
      * repeat match goal with |- context [match ?x with _ => _ end] => destruct x end; discriminate.
    + repeat match goal with |- context [match ?x with _ => _ end] => destruct x end; discriminate.
Qed.

Lemma find_some_in {A} (f : A -> bool) l x : find f l = Some x -> In x l /\ f x = true.
Proof. apply find_some. Qed.

(* Mod m: m is the largest of 4096..256 dividing the window, and no MSS pattern applies *)
Lemma window_mod_sound w mss hdr ts v m :
  detect_win_multiplicator w mss hdr ts v = WMod m ->
  In m [4096; 2048; 1024; 512; 256] /\ w mod m = 0
  /\ (forall m', In m' [4096; 2048; 1024; 512; 256] -> w mod m' = 0 -> m' <= m)
  /\ check_div w mss = None /\ (ts = true -> check_div w (mss - 12) = None).
Proof.
  unfold detect_win_multiplicator.
  destruct ((w =? 0) || (mss <? 100)) eqn:E0; [discriminate|].
  assert (Hm : 0 <? mss = true) by lia. rewrite Hm.
  assert (H12 : 12 <? mss = true) by lia. rewrite H12, andb_true_r.
  unfold or_else, sat_sub.
  destruct (check_div w mss) eqn:C1; [discriminate|].
  assert (C2 : (if ts then check_div w (mss - 12) else None) = None ->
          ts = true -> check_div w (mss - 12) = None) by (intros H1 H2; rewrite H2 in H1; exact H1).
  destruct (if ts then check_div w (mss - 12) else None) eqn:C3; [discriminate|].
  cbn [find].
  destruct (w mod 4096 =? 0) eqn:M1; [intros H; inversion H; subst; repeat split; auto; cbn [In]; try lia;
    intros m' Hin Hd; cbn [In] in Hin; lia|].
  destruct (w mod 2048 =? 0) eqn:M2; [intros H; inversion H; subst; repeat split; auto; cbn [In]; try lia;
    intros m' Hin Hd; cbn [In] in Hin; lia|].
  destruct (w mod 1024 =? 0) eqn:M3; [intros H; inversion H; subst; repeat split; auto; cbn [In]; try lia;
    intros m' Hin Hd; cbn [In] in Hin; lia|].
  destruct (w mod 512 =? 0) eqn:M4; [intros H; inversion H; subst; repeat split; auto; cbn [In]; try lia;
    intros m' Hin Hd; cbn [In] in Hin; lia|].
  destruct (w mod 256 =? 0) eqn:M5; [intros H; inversion H; subst; repeat split; auto; cbn [In]; try lia;
    intros m' Hin Hd; cbn [In] in Hin; lia|].
  repeat match goal with |- context [match ?x with _ => _ end] => destruct x end; discriminate.
Qed.

(* Value: the raw window, exactly when it is 0, the MSS is below 100 (or absent), or no rule applies *)
Lemma window_value_raw w mss hdr ts v x : detect_win_multiplicator w mss hdr ts v = WValue x -> x = w.
Proof.
  unfold detect_win_multiplicator.
  repeat match goal with |- context [match ?x with _ => _ end] => destruct x end; intros H; inversion H; reflexivity.
Qed.

Lemma first_some_cons o l : first_some (o :: l) = match o with Some k => Some k | None => first_some l end.
Proof. reflexivity. Qed.
Lemma first_some_app a b : first_some (a ++ b) = match first_some a with Some k => Some k | None => first_some b end.
Proof. induction a as [|o a IH]; [reflexivity|]. cbn [app]. rewrite !first_some_cons. destruct o; auto. Qed.

Lemma find_filter {A} (f : A -> bool) l : find f l = match filter f l with x :: _ => Some x | [] => None end.
Proof. induction l as [|a l IH]; [reflexivity|]. cbn [find filter]. destruct (f a); auto. Qed.

(* the last rule: MSS + minimal headers, no such MTU when the sum does not fit 16 bits (checked_add) *)
Lemma multiple_of_big w d : 0 < w -> w < d -> multiple_of w d = None.
Proof.
  intros H0 H. unfold multiple_of. replace (d =? 0) with false by lia.
  rewrite N.mod_small by lia. replace (w =? 0) with false by lia. reflexivity.
Qed.

(* agreement with the SPEC's window class (priority MSS multiple > modulus > MTU multiple > raw) for every
   16-bit window and every MSS, with the header size visit_tcp hands over (40 / 60 bytes) *)
Lemma window_spec v w m ts :
  v <> IpAny -> w < 65536 ->
  detect_win_multiplicator w m (min_total_header v) ts v = spec_window v w (Some m) ts.
Proof.
  intros Hv Hw. unfold detect_win_multiplicator, spec_window.
  destruct ((w =? 0) || (m <? 100)) eqn:E0; [reflexivity|].
  assert (Hm : 0 <? m = true) by lia. rewrite Hm.
  assert (H12 : 12 <? m = true) by lia. rewrite H12, andb_true_r.
  assert (Hh' : 0 <? min_total_header v = true) by (destruct v; [reflexivity | reflexivity | congruence]). rewrite Hh'.
  unfold mss_divisors in *. unfold sat_sub.
  (* rule 1 *)
  assert (R1 : or_else (check_div w m) (if ts then check_div w (m - 12) else None)
               = first_some (map (multiple_of w) (m :: (if ts then [m - 12] else [])))).
  { cbn [map]. rewrite first_some_cons, !check_div_multiple. unfold or_else.
    destruct (multiple_of w m); [reflexivity|]. destruct ts; cbn [map first_some fold_right];
    [destruct (multiple_of w (m - 12)); reflexivity | reflexivity]. }
  rewrite R1. clear R1.
  destruct (first_some (map (multiple_of w) (m :: (if ts then [m - 12] else [])))) eqn:F1; [reflexivity|].
  rewrite find_filter.
  destruct (filter (fun d => w mod d =? 0) [4096; 2048; 1024; 512; 256]) eqn:F2; [|reflexivity].
  unfold mtu_divisors. rewrite app_assoc, map_app, first_some_app.
  (* rule 3 *)
  assert (R3 : or_else (check_div w 1500)
                 (match v with
                  | IpV4 => or_else (check_div w (1500 - 40)) (if ts then check_div w (1500 - 40 - 12) else None)
                  | IpV6 => or_else (check_div w (1500 - 60)) (if ts then check_div w (1500 - 60 - 12) else None)
                  | IpAny => None end)
               = first_some (map (multiple_of w) ([1500; 1500 - min_headers v] ++ (if ts then [1500 - min_headers v - 12] else [])))).
  { unfold or_else. rewrite !check_div_multiple.
    destruct v; [| |congruence]; cbn [min_headers app map]; rewrite !first_some_cons;
    (destruct (multiple_of w 1500); [reflexivity|]);
    match goal with |- context [multiple_of w (1500 - ?h)] => destruct (multiple_of w (1500 - h)) end; try reflexivity;
    destruct ts; cbn [map first_some fold_right]; try reflexivity;
    match goal with |- context [multiple_of w (1500 - ?h - 12)] => destruct (multiple_of w (1500 - h - 12)) end; reflexivity. }
  rewrite R3. clear R3.
  destruct (first_some (map (multiple_of w) ([1500; 1500 - min_headers v] ++ (if ts then [1500 - min_headers v - 12] else [])))) eqn:F3;
    [reflexivity|].
  (* rule 4 *)
  cbn [map]. rewrite first_some_cons. cbn [first_some fold_right].
  assert (HV : min_total_header v = min_headers v) by (destruct v; [reflexivity | reflexivity | congruence]).
  rewrite HV.
  destruct (m + min_headers v <=? 65535) eqn:FIT.
  - rewrite check_div_multiple. destruct (multiple_of w (m + min_headers v)); reflexivity.
  - rewrite multiple_of_big by lia. reflexivity.
Qed.

Lemma window_spec_nomss v w hdr ts : detect_win_multiplicator w 0 hdr ts v = spec_window v w None ts.
Proof.
  unfold detect_win_multiplicator, spec_window.
  replace ((w =? 0) || (0 <? 100)) with true by lia. reflexivity.
Qed.

(* ---------------- MTU and link ---------------- *)
Lemma link_spec db m : matching_by_mtu db m = spec_link db m.
Proof.
  unfold spec_link. induction db as [|[l vs] db IH]; [reflexivity|].
  cbn [matching_by_mtu find snd]. destruct (existsb (N.eqb m) vs); [reflexivity | exact IH].
Qed.

(* ---------------- role ---------------- *)
Lemma role_valid (b : byte) :
  is_valid (b2n b) (N.land (b2n b) TYPE_MASK) = match spec_role (b2n b) with RInvalid => false | _ => true end.
Proof. by_byte b. Qed.
Lemma role_client (b : byte) :
  is_valid (b2n b) (N.land (b2n b) TYPE_MASK) = true ->
  from_client (b2n b) = match spec_role (b2n b) with RClient => true | _ => false end.
Proof. destruct b; vm_compute; intros; try reflexivity; discriminate. Qed.

(* Mtu k: the window is k <= 255 times one of the MTU divisors the code tries (the last one is the K7 divisor) *)
Definition code_mtu_divisors (v : ip_version) (mss hdr : N) (ts : bool) : list N :=
  [1500]
  ++ match v with IpV4 => 1460 :: (if ts then [1448] else []) | IpV6 => 1440 :: (if ts then [1428] else []) | IpAny => [] end
  ++ [if 0 <? hdr then mss + hdr else sat16 (mss + min_headers v)].
Lemma window_mtu_sound w mss hdr ts v k :
  detect_win_multiplicator w mss hdr ts v = WMtu k ->
  exists d, In d (code_mtu_divisors v mss hdr ts) /\ w = k * d /\ k <= 255 /\ d <> 0.
Proof.
  unfold detect_win_multiplicator, code_mtu_divisors.
  destruct ((w =? 0) || (mss <? 100)) eqn:E0; [discriminate|].
  assert (Hm : 0 <? mss = true) by lia. rewrite Hm.
  match goal with |- context [match ?x with Some _ => WMss _ | None => _ end] => destruct x; [discriminate|] end.
  match goal with |- context [match ?x with Some _ => WMod _ | None => _ end] => destruct x; [discriminate|] end.
  unfold or_else.
  destruct (check_div w 1500) eqn:C0.
  { intros H; inversion H; subst. apply check_div_some in C0. exists 1500. cbn [In app]. intuition lia. }
  destruct v.
  - destruct (check_div w (1500 - 40)) eqn:C1.
    { intros H; inversion H; subst. apply check_div_some in C1. exists 1460. cbn [In app]. intuition lia. }
    destruct ts.
    + destruct (check_div w (1500 - 40 - 12)) eqn:C2.
      { intros H; inversion H; subst. apply check_div_some in C2. exists 1448. cbn [In app]. intuition lia. }
      destruct (0 <? hdr); cbn [min_headers];
      try (match goal with |- context [mss + hdr <=? 65535] => destruct (mss + hdr <=? 65535); [|discriminate] end);
      match goal with |- context [check_div w ?d] => destruct (check_div w d) eqn:C3 end; try discriminate;
      intros H; inversion H; subst; apply check_div_some in C3; eexists; (split; [cbn [In app]; right; right; right; left; reflexivity | intuition lia]).
    + destruct (0 <? hdr); cbn [min_headers];
      try (match goal with |- context [mss + hdr <=? 65535] => destruct (mss + hdr <=? 65535); [|discriminate] end);
      match goal with |- context [check_div w ?d] => destruct (check_div w d) eqn:C3 end; try discriminate;
      intros H; inversion H; subst; apply check_div_some in C3; eexists; (split; [cbn [In app]; right; right; left; reflexivity | intuition lia]).
  - destruct (check_div w (1500 - 60)) eqn:C1.
    { intros H; inversion H; subst. apply check_div_some in C1. exists 1440. cbn [In app]. intuition lia. }
    destruct ts.
    + destruct (check_div w (1500 - 60 - 12)) eqn:C2.
      { intros H; inversion H; subst. apply check_div_some in C2. exists 1428. cbn [In app]. intuition lia. }
      destruct (0 <? hdr); cbn [min_headers];
      try (match goal with |- context [mss + hdr <=? 65535] => destruct (mss + hdr <=? 65535); [|discriminate] end);
      match goal with |- context [check_div w ?d] => destruct (check_div w d) eqn:C3 end; try discriminate;
      intros H; inversion H; subst; apply check_div_some in C3; eexists; (split; [cbn [In app]; right; right; right; left; reflexivity | intuition lia]).
    + destruct (0 <? hdr); cbn [min_headers];
      try (match goal with |- context [mss + hdr <=? 65535] => destruct (mss + hdr <=? 65535); [|discriminate] end);
      match goal with |- context [check_div w ?d] => destruct (check_div w d) eqn:C3 end; try discriminate;
      intros H; inversion H; subst; apply check_div_some in C3; eexists; (split; [cbn [In app]; right; right; left; reflexivity | intuition lia]).
  - destruct (0 <? hdr); cbn [min_headers app]; try discriminate.
    destruct (mss + hdr <=? 65535); [|discriminate].
    match goal with |- context [check_div w ?d] => destruct (check_div w d) eqn:C3 end; try discriminate.
    intros H; inversion H; subst; apply check_div_some in C3; eexists; (split; [cbn [In app]; right; left; reflexivity | intuition lia]).
Qed.

(* priority: an MTU multiple is only reported when no MSS rule and no modulus applies *)
Lemma window_priority w mss hdr ts v k :
  detect_win_multiplicator w mss hdr ts v = WMtu k ->
  check_div w mss = None /\ (ts = true -> check_div w (mss - 12) = None)
  /\ (forall m', In m' [4096; 2048; 1024; 512; 256] -> w mod m' <> 0).
Proof.
  unfold detect_win_multiplicator.
  destruct ((w =? 0) || (mss <? 100)) eqn:E0; [discriminate|].
  assert (Hm : 0 <? mss = true) by lia. rewrite Hm.
  assert (H12 : 12 <? mss = true) by lia. rewrite H12, andb_true_r.
  unfold or_else at 1. unfold sat_sub.
  destruct (check_div w mss) eqn:C1; [discriminate|].
  assert (C2 : (if ts then check_div w (mss - 12) else None) = None ->
          ts = true -> check_div w (mss - 12) = None) by (intros H1 H2; rewrite H2 in H1; exact H1).
  destruct (if ts then check_div w (mss - 12) else None) eqn:C3; [discriminate|].
  cbn [find].
  destruct (w mod 4096 =? 0) eqn:M1; [discriminate|].
  destruct (w mod 2048 =? 0) eqn:M2; [discriminate|].
  destruct (w mod 1024 =? 0) eqn:M3; [discriminate|].
  destruct (w mod 512 =? 0) eqn:M4; [discriminate|].
  destruct (w mod 256 =? 0) eqn:M5; [discriminate|].
  intros _. split; [reflexivity|]. split; [auto|].
  intros m' Hin. cbn [In] in Hin. intuition (subst; lia).
Qed.
