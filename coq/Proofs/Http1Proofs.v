(* C05 proofs, part 1: shape of a rendered head, head_split, the line list the parser sees. *)
From Coq Require Import List NArith Bool Lia Arith.
From Coq Require Import Strings.Byte.
From HN Require Import Base.Bytes Base.Http1Text Model.SigAst Model.Http1 Model.Lang Model.Http1Obs
  Spec.Http1Grammar Proofs.Http1TextProofs.
Import ListNotations.
Open Scope N_scope.

(* ---------- small facts about the character classes ---------- *)
Lemma no_crlf_lacks l : no_crlf l = true -> lacks cr l = true /\ lacks lf l = true.
Proof.
  unfold no_crlf, lacks. rewrite !forallb_forall. intros H. split; intros b Hb; specialize (H b Hb);
    apply andb_true_iff in H; tauto.
Qed.
Lemma no_crlf_app a b : no_crlf (a ++ b) = no_crlf a && no_crlf b.
Proof. apply forallb_app. Qed.
Lemma no_crlf_cons x a : no_crlf (x :: a) = (negb (beqb x cr) && negb (beqb x lf)) && no_crlf a.
Proof. reflexivity. Qed.

Lemma vis_no_crlf l : forallb vis l = true -> no_crlf l = true.
Proof.
  unfold no_crlf. rewrite !forallb_forall. intros H b Hb. specialize (H b Hb).
  unfold vis in H. apply in_rng_iff in H. rewrite !beqb_b2n.
  apply andb_true_iff; split; apply negb_true_iff, N.eqb_neq; cbn; lia.
Qed.
Lemma is_vchar_vis b : is_vchar b = vis b.
Proof. reflexivity. Qed.

Lemma is_ows_byte_cases b : is_ows_byte b = true -> b = sp \/ b = tab.
Proof. unfold is_ows_byte. intros H. apply orb_true_iff in H as [H|H]; apply beqb_eq in H; auto. Qed.
Lemma is_ows_ascii_ws l : is_ows l = true -> forallb is_ascii_ws l = true.
Proof.
  unfold is_ows. rewrite !forallb_forall. intros H b Hb. destruct (is_ows_byte_cases b (H b Hb)); subst; reflexivity.
Qed.
Lemma is_ows_no_crlf l : is_ows l = true -> no_crlf l = true.
Proof.
  unfold is_ows, no_crlf. rewrite !forallb_forall. intros H b Hb. destruct (is_ows_byte_cases b (H b Hb)); subst; reflexivity.
Qed.

Lemma tchar_lit_vis : forallb vis (bs "!#$%&'*+-.^_`|~") = true.
Proof. vm_compute. reflexivity. Qed.
Lemma is_tchar_vis b : is_tchar b = true -> vis b = true.
Proof.
  unfold is_tchar. intros H. apply orb_true_iff in H as [H|H].
  - unfold is_alnum, is_alpha, is_digit in H. unfold vis. apply in_rng_iff.
    repeat (apply orb_true_iff in H as [H|H]).
    all: try (apply in_rng_iff in H; lia).
    all: try (apply andb_true_iff in H as [H1 H2]; apply N.leb_le in H1, H2; lia).
  - apply existsb_exists in H as [x [Hx E]]. apply beqb_eq in E. subst x.
    pose proof tchar_lit_vis as V. rewrite forallb_forall in V. now apply V.
Qed.
Lemma tchar_all_vis l : forallb is_tchar l = true -> forallb vis l = true.
Proof. rewrite !forallb_forall. intros H b Hb. apply is_tchar_vis. now apply H. Qed.
Lemma tchar_lacks_colon l : forallb is_tchar l = true -> lacks ":"%byte l = true.
Proof.
  unfold lacks. rewrite !forallb_forall. intros H b Hb. specialize (H b Hb).
  apply negb_true_iff, beqb_neq. intros ->. vm_compute in H. discriminate.
Qed.

Lemma mem_bytes_In x l : mem_bytes x l = true <-> In x l.
Proof.
  unfold mem_bytes. rewrite existsb_exists. split.
  - intros [y [Hy E]]. apply bytes_eqb_eq in E. now subst.
  - intros H. exists x. split; [exact H | apply bytes_eqb_refl].
Qed.

(* ---------- lines joined by CRLF ---------- *)
Definition line_clean (l : bytes) : Prop := no_crlf l = true /\ l <> [].
Fixpoint crlf_lines (ls : list bytes) : bytes :=
  match ls with [] => [] | l :: r => crlf ++ l ++ crlf_lines r end.

Section FindLines.
  Variables (p0 : byte) (p : bytes).
  Hypothesis p0_crlf : p0 = cr \/ p0 = lf.
  Hypothesis step : forall c X, beqb c cr = false -> beqb c lf = false ->
    find_sub (p0 :: p) (cr :: lf :: c :: X) = shift 2 (find_sub (p0 :: p) (c :: X)).

  Lemma clean_lacks_p0 l : no_crlf l = true -> lacks p0 l = true.
  Proof. intros H. destruct (no_crlf_lacks l H). destruct p0_crlf; subst; assumption. Qed.

  Lemma find_sub_lines : forall ls l0 T, no_crlf l0 = true -> Forall line_clean ls ->
    find_sub (p0 :: p) (l0 ++ crlf_lines ls ++ T) = shift (length (l0 ++ crlf_lines ls)) (find_sub (p0 :: p) T).
  Proof.
    induction ls as [|l ls IH]; intros l0 T H0 Hls.
    - cbn [crlf_lines app]. rewrite app_nil_r. apply find_sub_skip. now apply clean_lacks_p0.
    - inversion Hls as [|? ? [Hl Hne] Hls']; subst.
      cbn [crlf_lines]. rewrite find_sub_skip by now apply clean_lacks_p0.
      destruct l as [|c l']; [congruence|].
      rewrite no_crlf_cons in Hl. apply andb_true_iff in Hl as [Hc Hl'].
      apply andb_true_iff in Hc as [Hc1 Hc2]. apply negb_true_iff in Hc1, Hc2.
      cbn [crlf app]. rewrite step by assumption.
      change (c :: l' ++ crlf_lines ls ++ T) with ((c :: l') ++ crlf_lines ls ++ T).
      rewrite <- !app_assoc. cbn [app].
      change (c :: l' ++ crlf_lines ls ++ T) with ((c :: l') ++ crlf_lines ls ++ T).
      rewrite IH; [| rewrite no_crlf_cons, Hc1, Hc2, Hl'; reflexivity | exact Hls'].
      rewrite !shift_shift. f_equal. rewrite !app_length. cbn [length]. rewrite !app_length. cbn [length]. lia.
  Qed.
End FindLines.

Lemma step_crlf2 c X : beqb c cr = false -> beqb c lf = false ->
  find_sub crlf2 (cr :: lf :: c :: X) = shift 2 (find_sub crlf2 (c :: X)).
Proof.
  intros H1 H2. unfold crlf2. rewrite find_sub_cons.
  2:{ cbn [starts_with]. rewrite !beqb_refl. rewrite (beqb_sym cr c), H1. reflexivity. }
  rewrite find_sub_cons by reflexivity. now destruct (find_sub [cr; lf; cr; lf] (c :: X)).
Qed.
Lemma step_lf2 c X : beqb c cr = false -> beqb c lf = false ->
  find_sub lf2 (cr :: lf :: c :: X) = shift 2 (find_sub lf2 (c :: X)).
Proof.
  intros H1 H2. unfold lf2. rewrite find_sub_cons by reflexivity.
  rewrite find_sub_cons.
  2:{ cbn [starts_with]. rewrite beqb_refl, (beqb_sym lf c), H2. reflexivity. }
  now destruct (find_sub [lf; lf] (c :: X)).
Qed.

(* the blank line is the first place where the head can end, whatever follows it *)
Lemma head_of_lines l0 ls body : no_crlf l0 = true -> Forall line_clean ls ->
  head_of ((l0 ++ crlf_lines ls ++ crlf2) ++ body) = l0 ++ crlf_lines ls ++ crlf2.
Proof.
  intros H0 Hls. unfold head_of, crlf2, lf2.
  replace ((l0 ++ crlf_lines ls ++ [cr; lf; cr; lf]) ++ body) with (l0 ++ crlf_lines ls ++ ([cr; lf; cr; lf] ++ body))
    by (now rewrite <- !app_assoc).
  rewrite (find_sub_lines cr [lf; cr; lf] (or_introl eq_refl) step_crlf2) by assumption.
  rewrite (find_sub_lines lf [lf] (or_intror eq_refl) step_lf2) by assumption.
  rewrite (find_sub_here [cr; lf; cr; lf] ([cr; lf; cr; lf] ++ body)) by apply starts_with_app.
  set (n := length (l0 ++ crlf_lines ls)).
  assert (E : find_sub [lf; lf] ([cr; lf; cr; lf] ++ body) = shift 3 (find_sub [lf; lf] (lf :: body))).
  { cbn [app]. rewrite find_sub_cons by reflexivity. rewrite find_sub_cons by reflexivity.
    rewrite find_sub_cons by reflexivity. now destruct (find_sub [lf; lf] (lf :: body)). }
  rewrite E, shift_shift.
  assert (F : firstn (n + 0 + 4) (l0 ++ crlf_lines ls ++ [cr; lf; cr; lf] ++ body) = l0 ++ crlf_lines ls ++ [cr; lf; cr; lf]).
  { replace (l0 ++ crlf_lines ls ++ [cr; lf; cr; lf] ++ body) with ((l0 ++ crlf_lines ls ++ [cr; lf; cr; lf]) ++ body)
      by (now rewrite <- !app_assoc).
    replace (n + 0 + 4)%nat with (length (l0 ++ crlf_lines ls ++ [cr; lf; cr; lf]) + 0)%nat
      by (unfold n; rewrite !app_length; cbn [length]; lia).
    rewrite firstn_app_2. cbn [firstn]. now rewrite app_nil_r. }
  destruct (find_sub [lf; lf] (lf :: body)) as [j|]; cbn [shift option_map].
  - replace (Nat.min (n + 0 + 4) (n + 3 + j + 2)) with (n + 0 + 4)%nat by lia. exact F.
  - exact F.
Qed.

(* ---------- the rendered head as CRLF-joined lines ---------- *)
Lemma render_lines_alt hs : crlf ++ render_lines hs = crlf_lines (map render_line hs) ++ crlf.
Proof.
  induction hs as [|h hs IH]; [reflexivity|].
  cbn [render_lines map crlf_lines]. rewrite <- !app_assoc. f_equal. f_equal. exact IH.
Qed.
Lemma render_alt m :
  render m = render_start (m_start m) ++ crlf_lines (map render_line (m_headers m)) ++ crlf2.
Proof.
  unfold render. f_equal. rewrite app_assoc, render_lines_alt, <- app_assoc. reflexivity.
Qed.

Lemma split_crlf_lines : forall ls l0, no_crlf l0 = true -> Forall line_clean ls ->
  split_crlf (l0 ++ crlf_lines ls ++ crlf2) = l0 :: ls ++ [[]; []].
Proof.
  induction ls as [|l ls IH]; intros l0 H0 Hls.
  - cbn [crlf_lines app]. unfold crlf2. rewrite split_crlf_line by apply (no_crlf_lacks _ H0). reflexivity.
  - inversion Hls as [|? ? [Hl Hne] Hls']; subst.
    cbn [crlf_lines].
    replace (l0 ++ (crlf ++ l ++ crlf_lines ls) ++ crlf2) with (l0 ++ cr :: lf :: (l ++ crlf_lines ls ++ crlf2))
      by (unfold crlf; cbn [app]; now rewrite <- !app_assoc).
    rewrite split_crlf_line by apply (no_crlf_lacks _ H0).
    rewrite IH by assumption. reflexivity.
Qed.

Lemma until_empty_lines ls : Forall line_clean ls -> until_empty (ls ++ [[]; []]) = ls.
Proof.
  induction 1 as [|l ls [Hl Hne] Hls IH]; [reflexivity|].
  cbn [app until_empty]. destruct l; [congruence|]. cbn [bytes_eqb]. now rewrite IH.
Qed.

(* ---------- what wf gives ---------- *)
Lemma wf_parts m : wf m = true ->
  start_ok (m_start m) = true /\ N.of_nat (length (m_headers m)) <= 100 /\
  Forall (fun h => line_ok (is_request m) h = true) (m_headers m) /\
  (is_request m = true -> N.of_nat (length (filter (named (bs "referer")) (m_headers m))) <= 1).
Proof.
  unfold wf. intros H. repeat (apply andb_true_iff in H as [H ?]).
  repeat split; try assumption.
  - now apply N.leb_le.
  - apply Forall_forall. now apply forallb_forall.
  - intros R. rewrite R in *. now apply N.leb_le.
Qed.

Lemma raw_ok_facts b : raw_ok b = true ->
  utf8_valid b = true /\ no_crlf b = true /\ ws_len b = 0%nat /\ ws_len_rev (rev b) = 0%nat.
Proof.
  unfold raw_ok. intros H. repeat (apply andb_true_iff in H as [H ?]).
  rewrite rev_fast_rev in *. repeat split; try assumption; now apply Nat.eqb_eq.
Qed.

Lemma line_ok_facts req h : line_ok req h = true ->
  hl_name h <> [] /\ forallb is_tchar (hl_name h) = true /\ is_ows (hl_ows1 h) = true /\ is_ows (hl_ows2 h) = true
  /\ raw_ok (render_value (hl_value h)) = true /\ N.of_nat (length (render_line h)) <= 8192.
Proof.
  unfold line_ok, value_ok. intros H. repeat (apply andb_true_iff in H as [H ?]).
  match goal with X : raw_ok _ && _ = true |- _ => apply andb_true_iff in X as [X ?] end.
  repeat split; try assumption.
  - apply negb_true_iff in H. intros E. rewrite E in H. discriminate.
  - now apply N.leb_le.
Qed.

Lemma line_clean_render req h : line_ok req h = true -> line_clean (render_line h).
Proof.
  intros H. destruct (line_ok_facts _ _ H) as (Hne & Ht & H1 & H2 & Hv & _).
  destruct (raw_ok_facts _ Hv) as (_ & Hc & _ & _).
  split.
  - unfold render_line. rewrite no_crlf_app, no_crlf_cons, !no_crlf_app.
    rewrite (vis_no_crlf _ (tchar_all_vis _ Ht)), (is_ows_no_crlf _ H1), (is_ows_no_crlf _ H2), Hc. reflexivity.
  - unfold render_line. destruct (hl_name h); [congruence | discriminate].
Qed.
Lemma lines_clean req hs : Forall (fun h => line_ok req h = true) hs -> Forall line_clean (map render_line hs).
Proof.
  induction 1 as [|h hs Hh _ IH]; cbn [map]; constructor; [now apply (line_clean_render req) | exact IH].
Qed.

Lemma is_ows_ascii l : is_ows l = true -> is_ascii l = true.
Proof.
  unfold is_ows, is_ascii. rewrite !forallb_forall. intros H b Hb. destruct (is_ows_byte_cases b (H b Hb)); subst; reflexivity.
Qed.
Lemma line_valid req h : line_ok req h = true -> utf8_valid (render_line h) = true.
Proof.
  intros H. destruct (line_ok_facts _ _ H) as (Hne & Ht & H1 & H2 & Hv & _).
  destruct (raw_ok_facts _ Hv) as (Hu & _ & _ & _).
  unfold render_line. apply utf8_valid_app_true; [apply utf8_valid_ascii, vis_ascii, tchar_all_vis, Ht|].
  change (":"%byte :: hl_ows1 h ++ render_value (hl_value h) ++ hl_ows2 h)
    with ([":"%byte] ++ hl_ows1 h ++ render_value (hl_value h) ++ hl_ows2 h).
  apply utf8_valid_app_true; [reflexivity|].
  apply utf8_valid_app_true; [apply utf8_valid_ascii, is_ows_ascii, H1|].
  apply utf8_valid_app_true; [exact Hu | apply utf8_valid_ascii, is_ows_ascii, H2].
Qed.
Lemma crlf_lines_valid req hs : Forall (fun h => line_ok req h = true) hs ->
  utf8_valid (crlf_lines (map render_line hs)) = true.
Proof.
  induction 1 as [|h hs Hh _ IH]; [reflexivity|]. cbn [map crlf_lines].
  apply utf8_valid_app_true; [reflexivity|]. apply utf8_valid_app_true; [now apply (line_valid req) | exact IH].
Qed.

(* start lines *)
Lemma methods_vis : forallb (fun x => forallb vis x && negb (bytes_eqb x [])) supported_methods = true.
Proof. vm_compute. reflexivity. Qed.
Lemma method_vis me : mem_bytes me supported_methods = true -> forallb vis me = true /\ me <> [].
Proof.
  intros H. apply mem_bytes_In in H. pose proof methods_vis as V. rewrite forallb_forall in V.
  specialize (V me H). apply andb_true_iff in V as [V1 V2]. split; [exact V1|].
  apply negb_true_iff in V2. intros E. rewrite E in V2. discriminate.
Qed.
Lemma version_vis v : forallb vis (render_version v) = true /\ render_version v <> [].
Proof. destruct v; split; try reflexivity; discriminate. Qed.

Lemma sp_no_crlf l : no_crlf (sp :: l) = no_crlf l.
Proof. reflexivity. Qed.

Lemma start_facts s : start_ok s = true -> no_crlf (render_start s) = true /\ utf8_valid (render_start s) = true.
Proof.
  destruct s as [me t v | v st reason]; cbn [start_ok render_start]; intros H;
    repeat (apply andb_true_iff in H as [H ?]).
  - destruct (method_vis _ H) as [Vm _]. destruct (version_vis v) as [Vv _].
    assert (Vt : forallb vis t = true) by assumption.
    split.
    + rewrite no_crlf_app, sp_no_crlf, no_crlf_app, sp_no_crlf.
      now rewrite !vis_no_crlf.
    + apply utf8_valid_ascii. unfold is_ascii. rewrite forallb_app. cbn [forallb]. rewrite forallb_app. cbn [forallb].
      fold (is_ascii me). fold (is_ascii t). fold (is_ascii (render_version v)).
      now rewrite !vis_ascii.
  - destruct (version_vis v) as [Vv _].
    assert (Vs : is_ascii st = true /\ no_crlf st = true).
    { match goal with D : forallb is_digit st = true |- _ => rename D into Hd end.
      unfold is_ascii, no_crlf. rewrite !forallb_forall in *. split; intros b Hb; specialize (Hd b Hb);
      unfold is_digit in Hd; apply andb_true_iff in Hd as [D1 D2]; apply N.leb_le in D1, D2.
      - apply N.ltb_lt. lia.
      - rewrite !beqb_b2n. apply andb_true_iff; split; apply negb_true_iff, N.eqb_neq; cbn; lia. }
    destruct Vs as [Vs1 Vs2].
    split.
    + rewrite no_crlf_app, sp_no_crlf, no_crlf_app, sp_no_crlf. rewrite (vis_no_crlf _ Vv), Vs2. cbn [andb]. assumption.
    + apply utf8_valid_app_true; [apply utf8_valid_ascii, vis_ascii, Vv|].
      change (sp :: st ++ sp :: reason) with ([sp] ++ st ++ [sp] ++ reason).
      apply utf8_valid_app_true; [reflexivity|]. apply utf8_valid_app_true; [now apply utf8_valid_ascii|].
      apply utf8_valid_app_true; [reflexivity | assumption].
Qed.

Lemma contains_crlf2_end a : contains crlf2 (a ++ crlf2) = true.
Proof. rewrite <- (app_nil_r crlf2) at 2. apply contains_app. Qed.
Lemma contains_crlf_end a : contains crlf (a ++ crlf2) = true.
Proof. change crlf2 with (crlf ++ crlf). apply contains_app. Qed.

(* the line list the parser works on: independent of the body *)
Lemma head_lines_render m body : wf m = true ->
  head_lines (render m ++ body) =
  POk (render_start (m_start m) :: map render_line (m_headers m) ++ [[]; []]).
Proof.
  intros W. destruct (wf_parts m W) as (Hs & _ & Hl & _).
  destruct (start_facts _ Hs) as [Sc Su].
  pose proof (lines_clean _ _ Hl) as Lc.
  unfold head_lines. rewrite render_alt, head_of_lines by assumption.
  assert (U : utf8_valid (render_start (m_start m) ++ crlf_lines (map render_line (m_headers m)) ++ crlf2) = true).
  { apply utf8_valid_app_true; [exact Su|]. apply utf8_valid_app_true; [now apply (crlf_lines_valid (is_request m)) | reflexivity]. }
  rewrite U. cbn [negb].
  rewrite app_assoc, contains_crlf2_end, contains_crlf_end. cbn [negb andb].
  rewrite <- app_assoc. now rewrite split_crlf_lines.
Qed.

(* ---------- head_split (the statement of DESIGN section 4) ---------- *)
Lemma head_split m body : wf m = true -> head_of (render m ++ body) = render m.
Proof.
  intros W. destruct (wf_parts m W) as (Hs & _ & Hl & _).
  destruct (start_facts _ Hs) as [Sc _]. rewrite render_alt. apply head_of_lines; [exact Sc | now apply (lines_clean (is_request m))].
Qed.

(* ---------- headers_roundtrip ---------- *)
Lemma firstn_app_exact {A} (a b : list A) : firstn (length a) (a ++ b) = a.
Proof. rewrite <- (Nat.add_0_r (length a)). rewrite firstn_app_2. cbn. apply app_nil_r. Qed.
Lemma skipn_app_exact {A} (a b : list A) : skipn (length a) (a ++ b) = b.
Proof. induction a; [reflexivity | exact IHa]. Qed.

Lemma skipn_S_app {A} (a : list A) c b : skipn (S (length a)) (a ++ c :: b) = b.
Proof. induction a; [reflexivity | exact IHa]. Qed.

Lemma parse_header_line_ok req h rest pos : line_ok req h = true ->
  parse_header_lines (render_line h :: rest) pos =
  match parse_header_lines rest (S pos) with
  | Some hs => Some ({| hd_name := hl_name h; hd_value := Some (render_value (hl_value h)); hd_pos := pos |} :: hs)
  | None => None end.
Proof.
  intros H. destruct (line_ok_facts _ _ H) as (Hne & Ht & H1 & H2 & Hv & Hlen).
  destruct (raw_ok_facts _ Hv) as (Hu & _ & Hs & He).
  cbn [parse_header_lines].
  assert (E0 : bytes_eqb (render_line h) [] = false).
  { unfold render_line. destruct (hl_name h); [congruence | reflexivity]. }
  rewrite E0.
  assert (E1 : (max_line <? N.of_nat (length (render_line h))) = false) by (apply N.ltb_ge; exact Hlen).
  rewrite E1. clear E0 E1 Hlen. unfold render_line.
  rewrite find_byte_app by now apply tchar_lacks_colon.
  rewrite firstn_app_exact.
  rewrite skipn_S_app.
  rewrite trim_vis by now apply tchar_all_vis.
  rewrite trim_field; [| now apply is_ows_ascii_ws | now apply is_ows_ascii_ws | assumption | assumption | assumption].
  destruct (hl_name h) eqn:En; [congruence|]. cbn [bytes_eqb]. reflexivity.
Qed.

Lemma headers_roundtrip_from req : forall hs pos, Forall (fun h => line_ok req h = true) hs ->
  parse_header_lines (map render_line hs) pos = Some (map report_header (indexed hs pos)).
Proof.
  induction hs as [|h hs IH]; intros pos H; [reflexivity|].
  inversion H as [|? ? Hh Hhs]; subst. cbn [map indexed].
  rewrite (parse_header_line_ok req) by exact Hh. rewrite IH by exact Hhs. reflexivity.
Qed.

Lemma headers_roundtrip m : wf m = true ->
  parse_headers (map render_line (m_headers m)) = Some (map report_header (indexed (m_headers m) O)).
Proof.
  intros W. destruct (wf_parts m W) as (_ & Hn & Hl & _).
  unfold parse_headers. rewrite map_length.
  assert (E : (max_headers <? N.of_nat (length (m_headers m))) = false) by (apply N.ltb_ge; exact Hn).
  rewrite E. now apply (headers_roundtrip_from (is_request m)).
Qed.

(* ---------- start lines through the parser and the gates ---------- *)
Definition version_of (v11 : bool) : http_version := if v11 then HV11 else HV10.

Lemma supported_in_parser : forallb (fun x => mem_bytes x parser_methods) supported_methods = true.
Proof. vm_compute. reflexivity. Qed.

Lemma parse_request_line_ok me t v : start_ok (SReq me t v) = true ->
  parse_request_line (render_start (SReq me t v)) = Some (me, t, version_of v).
Proof.
  intros H. pose proof H as H'. cbn [start_ok] in H. repeat (apply andb_true_iff in H as [H ?]).
  destruct (method_vis _ H) as [Vm Nm]. destruct (version_vis v) as [Vv Nv].
  unfold parse_request_line.
  assert (E : (max_line <? N.of_nat (length (render_start (SReq me t v)))) = false)
    by (apply N.ltb_ge; now apply N.leb_le).
  rewrite E. cbn [render_start].
  rewrite split_whitespace_3; try assumption.
  2:{ match goal with X : negb (bytes_eqb t []) = true |- _ => apply negb_true_iff in X; intros ->; discriminate end. }
  assert (P : mem_bytes me parser_methods = true).
  { pose proof supported_in_parser as S. rewrite forallb_forall in S. apply S. now apply mem_bytes_In. }
  rewrite P. destruct v; reflexivity.
Qed.

Lemma digit_facts b : is_digit b = true -> 48 <= b2n b <= 57.
Proof. unfold is_digit. intros H. apply andb_true_iff in H as [H1 H2]. apply N.leb_le in H1, H2. lia. Qed.

Lemma status_shape (st : bytes) : (N.of_nat (length st) =? 3) = true -> exists a b c, st = [a; b; c].
Proof.
  intros H. apply N.eqb_eq in H. destruct st as [|a [|b [|c [|d r]]]]; cbn in H; try lia.
  now exists a, b, c.
Qed.

Lemma parse_u16_status a b c : is_digit a = true -> is_digit b = true -> is_digit c = true ->
  parse_u16 [a; b; c] = Some (status_value [a; b; c]).
Proof.
  intros Ha Hb Hc. pose proof (digit_facts _ Ha). pose proof (digit_facts _ Hb). pose proof (digit_facts _ Hc).
  unfold parse_u16.
  assert (E : beqb a "+"%byte = false) by (rewrite beqb_b2n; apply N.eqb_neq; cbn; lia).
  rewrite E. unfold read_N, all_digits. cbn [forallb]. rewrite Ha, Hb, Hc. cbn [andb].
  unfold read_N_digits, status_value, digit_val. cbn [fold_left].
  assert (L : ((0 * 10 + (b2n a - 48)) * 10 + (b2n b - 48)) * 10 + (b2n c - 48) <=? 65535 = true) by (apply N.leb_le; lia).
  rewrite L. f_equal. lia.
Qed.

Lemma digits_lack_sp st : forallb is_digit st = true -> lacks sp st = true.
Proof.
  unfold lacks. rewrite !forallb_forall. intros H b Hb. pose proof (digit_facts _ (H b Hb)).
  apply negb_true_iff. rewrite beqb_b2n. apply N.eqb_neq. cbn. lia.
Qed.
Lemma version_lacks_sp v : lacks sp (render_version v) = true.
Proof. destruct v; reflexivity. Qed.

Lemma parse_status_line_ok v st reason : start_ok (SResp v st reason) = true ->
  parse_status_line (render_start (SResp v st reason)) = Some (version_of v, status_value st).
Proof.
  intros H. cbn [start_ok] in H. repeat (apply andb_true_iff in H as [H ?]).
  destruct (status_shape _ H) as (a & b & c & ->).
  match goal with D : forallb is_digit [a; b; c] = true |- _ => rename D into Hd end.
  unfold parse_status_line. cbn [render_start].
  rewrite splitn3_sp_3; [| apply version_lacks_sp | now apply digits_lack_sp].
  cbn [forallb] in Hd. repeat (apply andb_true_iff in Hd as [? Hd]).
  rewrite parse_u16_status by assumption. destruct v; reflexivity.
Qed.

(* render m ++ body = start line, CRLF, rest *)
Lemma render_first m body : exists rest, render m ++ body = render_start (m_start m) ++ cr :: lf :: rest.
Proof. unfold render. exists (render_lines (m_headers m) ++ crlf ++ body). now rewrite <- !app_assoc. Qed.

Lemma first_line_render m body : wf m = true -> first_line (render m ++ body) = render_start (m_start m).
Proof.
  intros W. destruct (wf_parts m W) as (Hs & _). destruct (start_facts _ Hs) as [Sc _].
  destruct (render_first m body) as [rest ->]. apply first_line_crlf. apply (no_crlf_lacks _ Sc).
Qed.

Lemma length_render_ge m body : (length (render_start (m_start m)) + 4 <= length (render m ++ body))%nat.
Proof. unfold render. rewrite !app_length. cbn [length crlf]. lia. Qed.

(* no supported method makes the data look like HTTP/2 *)
Lemma method_not_h2 me X : In me supported_methods ->
  starts_with h2_preface (me ++ sp :: X) = false /\
  starts_with (bs "HTTP/1.") (me ++ sp :: X) = false /\
  match me ++ sp :: X with
  | b0 :: b1 :: b2 :: b3 :: _ => if 16384 <? be_N [b0; b1; b2] then false else b2n b3 <=? 10
  | _ => false end = false /\
  (3 <= length me)%nat /\ is_http1x me = false.
Proof.
  intros H. cbn [supported_methods In] in H.
  repeat (destruct H as [<- | H]; [repeat split; try reflexivity; cbn; lia |]). contradiction.
Qed.

Lemma h2_gate_request me X : In me supported_methods -> h2_can_parse (me ++ sp :: X) = false.
Proof.
  intros H. destruct (method_not_h2 me X H) as (A & B & C & _).
  unfold h2_can_parse, h2_can_request, h2_can_response, is_http2_traffic, looks_like_http2_response.
  rewrite A, B, C. now repeat match goal with |- context [if ?c then _ else _] => destruct c end.
Qed.

Lemma vis_lacks_sp l : forallb vis l = true -> lacks sp l = true.
Proof.
  unfold lacks. rewrite !forallb_forall. intros H b Hb. specialize (H b Hb). unfold vis in H. apply in_rng_iff in H.
  apply negb_true_iff. rewrite beqb_b2n. apply N.eqb_neq. cbn. lia.
Qed.

(* gate of the HTTP/1 adapter on a rendered request *)
Lemma h1_gate_request m me t v body : wf m = true -> m_start m = SReq me t v ->
  h1_can_parse (render m ++ body) = mem_bytes me gate_methods.
Proof.
  intros W Es. destruct (wf_parts m W) as (Hs & _). rewrite Es in Hs.
  pose proof Hs as Hs'. cbn [start_ok] in Hs'. repeat (apply andb_true_iff in Hs' as [Hs' ?]).
  destruct (method_vis _ Hs') as [Vm Nm]. destruct (version_vis v) as [Vv Nv].
  assert (Vt : forallb vis t = true) by assumption.
  assert (Nt : t <> []).
  { match goal with X : negb (bytes_eqb t []) = true |- _ => apply negb_true_iff in X; intros ->; discriminate end. }
  apply mem_bytes_In in Hs'.
  pose proof (length_render_ge m body) as L. rewrite Es in L. cbn [render_start] in L.
  set (n := length (render m ++ body)) in L.
  rewrite !app_length in L. cbn [length] in L. rewrite app_length in L. cbn [length] in L.
  assert (Lt : (1 <= length t)%nat) by (destruct t; [congruence | cbn; lia]).
  assert (Lv : length (render_version v) = 8%nat) by (destruct v; reflexivity).
  destruct (render_first m body) as [rest Er]. rewrite Es in Er. cbn [render_start] in Er.
  destruct (method_not_h2 me (t ++ sp :: render_version v ++ cr :: lf :: rest) Hs') as (A & B & C & Lm & D).
  assert (Er' : render m ++ body = me ++ sp :: t ++ sp :: render_version v ++ cr :: lf :: rest).
  { rewrite Er. rewrite <- !app_assoc. cbn [app]. rewrite <- !app_assoc. reflexivity. }
  unfold h1_can_parse.
  assert (G1 : h1_can_request (render m ++ body) = mem_bytes me gate_methods).
  { unfold h1_can_request.
    assert (E16 : (N.of_nat (length (render m ++ body)) <? 16) = false) by (apply N.ltb_ge; fold n; lia).
    rewrite E16. unfold is_http2_traffic. rewrite Er' at 1. rewrite A.
    rewrite first_line_render by exact W. rewrite Es. cbn [render_start].
    rewrite split_whitespace_3 by assumption.
    destruct t; [congruence|]. cbn [bytes_eqb negb]. rewrite andb_true_r.
    destruct v; cbn; now rewrite andb_true_r. }
  assert (G2 : h1_can_response (render m ++ body) = false).
  { unfold h1_can_response. rewrite first_line_render by exact W. rewrite Es. cbn [render_start].
    rewrite splitn3_sp_3 by now apply vis_lacks_sp. rewrite D. cbn [andb].
    now repeat match goal with |- context [if ?c then _ else _] => destruct c end. }
  rewrite G1, G2. apply orb_false_r.
Qed.

(* gate on a rendered response *)
Lemma h1_gate_response m v st reason body : wf m = true -> m_start m = SResp v st reason ->
  h1_can_parse (render m ++ body) = true.
Proof.
  intros W Es. destruct (wf_parts m W) as (Hs & _). rewrite Es in Hs.
  pose proof Hs as Hs'. cbn [start_ok] in Hs'. repeat (apply andb_true_iff in Hs' as [Hs' ?]).
  destruct (status_shape _ Hs') as (a & b & c & ->).
  pose proof (length_render_ge m body) as L. rewrite Es in L. cbn [render_start] in L.
  set (n := length (render m ++ body)) in L.
  rewrite !app_length in L. cbn [length] in L.
  assert (Lv : length (render_version v) = 8%nat) by (destruct v; reflexivity).
  unfold h1_can_parse. apply orb_true_iff. right.
  unfold h1_can_response.
  assert (E12 : (N.of_nat (length (render m ++ body)) <? 12) = false) by (apply N.ltb_ge; fold n; lia).
  rewrite E12.
  assert (H2 : looks_like_http2_response (render m ++ body) = false).
  { unfold looks_like_http2_response. destruct (render_first m body) as [rest ->]. rewrite Es.
    destruct (N.of_nat _ <? 9); [reflexivity|]. destruct v; reflexivity. }
  rewrite H2, andb_false_r.
  rewrite first_line_render by exact W. rewrite Es. cbn [render_start].
  match goal with D : forallb is_digit [a; b; c] = true |- _ => rename D into Hd end.
  rewrite splitn3_sp_3; [| apply version_lacks_sp | now apply digits_lack_sp].
  unfold all_ascii_digits. rewrite Hd. destruct v; reflexivity.
Qed.

(* ---------- the parser on a rendered message ---------- *)
Definition model_headers (m : msg) : list hdr := map report_header (indexed (m_headers m) O).
Definition req_of (m : msg) (me t : bytes) (v : bool) : h1_request :=
  let all := model_headers m in
  let headers := filter (fun h => negb (is_cookie_or_referer h)) all in
  {| r_method := me; r_uri := t; r_version := version_of v; r_headers := headers;
     r_cookies := match joined_value (bs "cookie") all with Some c => parse_cookies c | None => [] end;
     r_referer := last_value (bs "referer") all;
     r_user_agent := first_value (bs "user-agent") headers;
     r_accept_language := first_value (bs "accept-language") headers |}.
Definition resp_of (m : msg) (v : bool) (st : bytes) : h1_response :=
  {| s_version := version_of v; s_status := status_value st; s_headers := model_headers m;
     s_server := first_value (bs "server") (model_headers m) |}.

Lemma parse_request_render m me t v body : wf m = true -> m_start m = SReq me t v ->
  parse_request (render m ++ body) = POk (req_of m me t v).
Proof.
  intros W Es. destruct (wf_parts m W) as (Hs & _ & Hl & _). rewrite Es in Hs.
  unfold parse_request. rewrite head_lines_render by exact W. cbn [hd tl]. rewrite Es.
  rewrite parse_request_line_ok by exact Hs.
  rewrite until_empty_lines by now apply (lines_clean (is_request m)).
  rewrite headers_roundtrip by exact W. reflexivity.
Qed.

Lemma parse_response_render m v st reason body : wf m = true -> m_start m = SResp v st reason ->
  parse_response (render m ++ body) = POk (resp_of m v st).
Proof.
  intros W Es. destruct (wf_parts m W) as (Hs & _ & Hl & _). rewrite Es in Hs.
  unfold parse_response. rewrite head_lines_render by exact W. cbn [hd tl]. rewrite Es.
  rewrite parse_status_line_ok by exact Hs.
  rewrite until_empty_lines by now apply (lines_clean (is_request m)).
  rewrite headers_roundtrip by exact W. reflexivity.
Qed.

(* ---------- the analyser on a rendered message, for every body ---------- *)
Lemma analyse_request_render m me t v body : wf m = true -> m_start m = SReq me t v ->
  analyse_request (render m ++ body) =
  if mem_bytes me gate_methods then Ok (observe_request (req_of m me t v)) else NoResult.
Proof.
  intros W Es. unfold analyse_request. rewrite (h1_gate_request m me t v) by assumption.
  destruct (mem_bytes me gate_methods).
  - now rewrite (parse_request_render m me t v).
  - destruct (wf_parts m W) as (Hs & _). rewrite Es in Hs. cbn [start_ok] in Hs.
    repeat (apply andb_true_iff in Hs as [Hs ?]). apply mem_bytes_In in Hs.
    destruct (render_first m body) as [rest Er]. rewrite Es in Er. cbn [render_start] in Er.
    assert (Er' : render m ++ body = me ++ sp :: t ++ sp :: render_version v ++ cr :: lf :: rest).
    { rewrite Er. rewrite <- !app_assoc. cbn [app]. rewrite <- !app_assoc. reflexivity. }
    rewrite Er'. now rewrite h2_gate_request.
Qed.

Lemma analyse_response_render m v st reason body : wf m = true -> m_start m = SResp v st reason ->
  analyse_response (render m ++ body) = Ok (observe_response (resp_of m v st)).
Proof.
  intros W Es. unfold analyse_response. rewrite (h1_gate_response m v st reason) by assumption.
  now rewrite (parse_response_render m v st reason).
Qed.

(* ---------- body independence ---------- *)
Theorem request_body_independent m body : wf m = true -> is_request m = true ->
  analyse_request (render m ++ body) = analyse_request (render m).
Proof.
  intros W R. unfold is_request in R. destruct (m_start m) as [me t v|] eqn:Es; [|discriminate].
  rewrite <- (app_nil_r (render m)) at 2.
  now rewrite !(analyse_request_render m me t v).
Qed.
Theorem response_body_independent m body : wf m = true -> is_request m = false ->
  analyse_response (render m ++ body) = analyse_response (render m).
Proof.
  intros W R. unfold is_request in R. destruct (m_start m) as [|v st reason] eqn:Es; [discriminate|].
  rewrite <- (app_nil_r (render m)) at 2.
  now rewrite !(analyse_response_render m v st reason).
Qed.
