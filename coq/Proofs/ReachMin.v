(* C13, TCP at distance 1 (generic in the database):
     scan_min_wins     zero_wins generalised: if the own entry is at distance d, entries in front are farther than d (or
                       harmless) and entries behind are not nearer than d (or harmless), the reported entry is the own
                       one or a harmless one
     obs_char          the observation of a packet that conforms to a live-but-for-the-scale signature, field by field
     sep_*_sound       the per-pair certificate of Spec/ReachMinSpec.v is sound
     reach_tcp_live1   live1_cert => every conforming packet outside the known classes gets an admissible label. *)
From Coq Require Import List NArith Bool Lia ZifyBool ZifyN.
From Coq Require Import Strings.Byte.
From HN Require Import Base.Bytes Model.SigAst Model.Match Model.Pnet Model.TcpExtract Model.Reach
  Spec.ScanSpec Spec.P0fTcp Spec.InstanceSpec Spec.ConformSpec Spec.ReachSpec Spec.ReachMinSpec
  Proofs.MatchProofs Proofs.ScanProofs Proofs.C03Bytes Proofs.C03Fields Proofs.C03Options Proofs.C03Quirks Proofs.C03Main
  Proofs.ReachObs Proofs.ReachTcp.
Import ListNotations.
Open Scope N_scope.

(* ================================================================ min wins *)
Section MinWins.
  Context {L S O : Type}.
  Variable distance : S -> O -> option N.
  Variable score : N -> N.

  Definition at_dist (o : O) (m : N) (p : N * N * S) : bool :=
    match distance (snd p) o with Some e => e =? m | None => false end.
  Let acc_of (o : O) (p : N * N * S) : list (N * N * N) :=
    match distance (snd p) o with Some d => [(fst (fst p), snd (fst p), d)] | None => [] end.

  Lemma find_dist_acc o m (ps : list (N * N * S)) :
    find (fun a => dist_of a =? m) (flat_map (acc_of o) ps)
    = option_map (fun p => (fst (fst p), snd (fst p), m)) (find (at_dist o m) ps).
  Proof.
    induction ps as [|p ps IH]; [reflexivity|].
    cbn [flat_map find]. unfold acc_of at 1, at_dist at 1. destruct (distance (snd p) o) as [d|] eqn:D; cbn [app].
    - cbn [find]. unfold dist_of at 1. cbn [snd]. destruct (d =? m) eqn:E.
      + cbn [option_map]. assert (d = m) by lia. subst. reflexivity.
      + exact IH.
    - exact IH.
  Qed.

  Lemma scan_first (db : list (L * list S)) o li si e q :
    scan distance score db o = FSome li si e q ->
    exists s, find (at_dist o e) (positions db) = Some (li, si, s).
  Proof.
    unfold scan, accepting.
    change (fun p : N * N * S => match distance (snd p) o with Some d => [(fst (fst p), snd (fst p), d)] | None => [] end)
      with (acc_of o).
    destruct (smallest (flat_map (acc_of o) (positions db))) as [m|]; [|discriminate].
    destruct (find (fun a => dist_of a =? m) (flat_map (acc_of o) (positions db))) as [[[a b] d]|] eqn:F; [|discriminate].
    intros H. inversion H; subst. clear H.
    assert (E : e = m). { apply find_some in F. destruct F as [_ F]. unfold dist_of in F. cbn [snd] in F. lia. }
    subst m. rewrite find_dist_acc in F.
    destruct (find (at_dist o e) (positions db)) as [[[a' b'] s]|]; [|discriminate].
    cbn [option_map fst snd] in F. inversion F; subst. exists s. reflexivity.
  Qed.

  Lemma in_accepting (db : list (L * list S)) o p d : In p (positions db) -> distance (snd p) o = Some d ->
    In (fst (fst p), snd (fst p), d) (accepting distance db o).
  Proof. intros IN D. unfold accepting. apply in_flat_map. exists p. split; [exact IN|]. rewrite D. left; reflexivity. Qed.

  (* ok: entries whose winning is acceptable *)
  Theorem scan_min_wins (db : list (L * list S)) (o : O) (stop ok : N * N * S -> bool) x0 d :
    find stop (positions db) = Some x0 -> distance (snd x0) o = Some d ->
    (forall p e, In p (prefix_before stop (positions db)) -> distance (snd p) o = Some e -> d < e \/ ok p = true) ->
    (forall p e, In p (positions db) -> distance (snd p) o = Some e -> d <= e \/ ok p = true) ->
    exists y e, In y (positions db) /\ distance (snd y) o = Some e
                /\ scan distance score db o = FSome (fst (fst y)) (snd (fst y)) e (score e)
                /\ (y = x0 \/ ok y = true).
  Proof.
    intros FS D0 HB HA.
    assert (IN0 : In x0 (positions db)) by (apply find_some in FS; tauto).
    destruct (scan distance score db o) as [| |li si e q] eqn:SC.
    - exfalso. apply scan_none_iff in SC. pose proof (in_accepting db o x0 d IN0 D0) as IA. rewrite SC in IA. contradiction.
    - exfalso. revert SC. unfold scan. cbv zeta. destruct (smallest (accepting distance db o)) as [n|]; [|intros HH; inversion HH].
      destruct (find (fun a : N * N * N => dist_of a =? n) (accepting distance db o)) as [[[a b] c]|]; intros HH; inversion HH.
    - destruct (scan_some_spec _ _ _ _ _ _ _ _ SC) as (_ & Q & MIN).
      destruct (scan_first db o li si e q SC) as [s F].
      pose proof (find_some _ _ F) as [INY AT]. unfold at_dist in AT. cbn [snd] in AT.
      destruct (distance s o) as [e'|] eqn:DY; [|discriminate]. assert (e' = e) by lia. subst e'.
      exists (li, si, s), e. cbn [fst snd]. split; [exact INY|]. split; [exact DY|]. split; [rewrite Q; reflexivity|].
      pose proof (MIN _ (in_accepting db o x0 d IN0 D0)) as LE. unfold dist_of in LE. cbn [snd] in LE.
      destruct (N.eq_dec e d) as [ED|NE].
      + subst e.
        assert (A0 : at_dist o d x0 = true) by (unfold at_dist; rewrite D0; lia).
        destruct (find_own_or_before stop (at_dist o d) (positions db) x0 (li, si, s) FS A0 F) as [E|PB]; [left; exact E|].
        destruct (HB _ _ PB DY) as [LT|OK]; [lia | right; exact OK].
      + destruct (HA _ _ INY DY) as [LT|OK]; [lia | right; exact OK].
  Qed.
End MinWins.

(* ================================================================ the observation, field by field *)
Lemma ttl_live_form st t : ttl_value_live st = true -> conf_ttl st t = true ->
  exists i, st = TtlValue i /\ spec_ittl t = TtlDistance t (i - t) /\ t <= i /\ i <= 255.
Proof.
  destruct st as [i| | |]; cbn [ttl_value_live]; try discriminate. unfold initial_ttls. cbn [existsb].
  intros L C. unfold conf_ttl, ttl_initial, max_hops in C. exists i. split; [reflexivity|].
  assert (I : i = 32 \/ i = 64 \/ i = 128 \/ i = 255) by lia.
  unfold spec_ittl, initial_ttls. replace (t =? 0) with false by lia. cbn [find].
  destruct I as [-> | [-> | [-> | ->]]].
  - replace (t <=? 32) with true by lia. replace (32 - t <=? 30) with true by lia. repeat split; lia.
  - replace (t <=? 32) with false by lia. replace (t <=? 64) with true by lia. replace (64 - t <=? 30) with true by lia. repeat split; lia.
  - replace (t <=? 32) with false by lia. replace (t <=? 64) with false by lia. replace (t <=? 128) with true by lia.
    replace (128 - t <=? 30) with true by lia. repeat split; lia.
  - replace (t <=? 32) with false by lia. replace (t <=? 64) with false by lia. replace (t <=? 128) with false by lia.
    replace (t <=? 255) with true by lia. replace (255 - t <=? 30) with true by lia. repeat split; lia.
Qed.

Lemma no_ws_none items : existsb (tcp_option_eqb OWs) (spec_layout items) = false -> spec_wscale items = None.
Proof.
  unfold spec_wscale, spec_layout. generalize (@None N) as acc.
  induction items as [|i items IH]; intros acc E; [reflexivity|].
  cbn [map existsb] in E. apply orb_false_iff in E. destruct E as [EI E]. cbn [fold_left].
  destruct i; cbn [item_option] in EI; try discriminate; apply IH; exact E.
Qed.

Lemma win_mss_irrelevant a b m1 m2 :
  (forall v k, a = WValue v -> b = WMss k -> m1 = m2) -> distance_window_size a b m1 = distance_window_size a b m2.
Proof. intros H. destruct a, b; try reflexivity. rewrite (H _ _ eq_refl eq_refl). reflexivity. Qed.

Lemma obs_win_char s ver w mss ts :
  window_live s = true -> In ver (live_versions s) -> ts = layout_ts (t_olayout s) ->
  conf_optfield (t_mss s) mss = true -> conf_win (t_wsize s) ver w mss ts = true ->
  match obs_win_exact s with
  | Some e => spec_window ver w mss ts = e
  | None => match t_wsize s with
            | WMss k => spec_window ver w mss ts = WMss k
                        \/ exists m, mss = Some m /\ 0 < m /\ spec_window ver w mss ts = WValue (k * m)
                                     /\ (k * m =? 0) || (m <? 100) = true
            | _ => True end
  end.
Proof.
  intros WL IN TS CM CW. unfold window_live in WL. rewrite <- TS in WL. unfold obs_win_exact.
  destruct (t_wsize s) as [k|k|v|n|] eqn:SW; cbn [conf_win] in CW.
  - (* mss*k *)
    assert (RAW : forall m, mss = Some m -> 0 < m -> w = k * m -> (w =? 0) || (m <? 100) = false -> spec_window ver w mss ts = WMss k).
    { intros m -> M0 WK C. unfold spec_window. rewrite C. unfold mss_divisors. cbn [map first_some fold_right].
      assert (MO : multiple_of w m = Some k).
      { unfold multiple_of. replace (m =? 0) with false by lia. subst w. rewrite N.mod_mul by lia. rewrite N.div_mul by lia.
        replace (0 =? 0) with true by reflexivity. cbn [andb]. replace (k <=? 255) with true by lia. reflexivity. }
      rewrite MO. reflexivity. }
    apply orb_true_iff in CW.
    destruct (t_mss s) as [m0|] eqn:SM.
    + destruct ((100 <=? m0) && (0 <? k)) eqn:EX.
      * destruct CW as [CW|CW]; [apply window_size_eqb_eq in CW; exact CW|].
        destruct mss as [m|]; [|discriminate]. cbn [conf_optfield] in CM. assert (m = m0) by lia. subst m0.
        apply (RAW m eq_refl); nia.
      * destruct CW as [CW|CW]; [left; apply window_size_eqb_eq in CW; exact CW|].
        destruct mss as [m|]; [|discriminate].
        destruct ((w =? 0) || (m <? 100)) eqn:C.
        -- right. exists m. split; [reflexivity|]. split; [lia|]. split; [unfold spec_window; rewrite C; f_equal; lia|]. assert (w = k * m) by lia. subst w. exact C.
        -- left. apply (RAW m eq_refl); lia.
    + destruct CW as [CW|CW]; [left; apply window_size_eqb_eq in CW; exact CW|].
      destruct mss as [m|]; [|discriminate].
      destruct ((w =? 0) || (m <? 100)) eqn:C.
      * right. exists m. split; [reflexivity|]. split; [lia|]. split; [unfold spec_window; rewrite C; f_equal; lia|]. assert (w = k * m) by lia. subst w. exact C.
      * left. apply (RAW m eq_refl); lia.
  - (* mtu*k *)
    destruct (t_mss s) as [m|] eqn:SM; [|discriminate].
    apply orb_true_iff in CW. destruct CW as [CW|CW]; [apply window_size_eqb_eq in CW; exact CW|].
    destruct mss as [m'|]; [|discriminate]. cbn [conf_optfield] in CM. assert (m' = m) by lia. subst m'.
    rewrite forallb_forall in WL. specialize (WL _ IN). apply window_size_eqb_eq in WL.
    assert (w = k * (m + min_headers ver)) by lia. subst w. exact WL.
  - (* literal *)
    assert (w = v) by lia. subst w.
    apply orb_true_iff in WL. destruct WL as [V0|WL].
    + assert (v = 0) by lia. subst. unfold spec_window. change (0 =? 0) with true. reflexivity.
    + destruct (t_mss s) as [m|] eqn:SM; [|discriminate].
      rewrite forallb_forall in WL. specialize (WL _ IN). apply window_size_eqb_eq in WL.
      cbn [conf_optfield] in CM.
      assert (SWE : spec_window ver v mss ts = spec_window ver v (Some m) ts).
      { destruct mss as [m'|]; [f_equal; f_equal; lia|]. rewrite spec_window_none. f_equal. f_equal. lia. }
      rewrite SWE. exact WL.
  - discriminate.
  - exact I.
Qed.

(* everything the certificate uses about the observation of a conforming packet *)
Record obs_facts (s o : tcp_sig) : Prop := {
  of_layout : t_olayout o = t_olayout s;
  of_quirks : t_quirks o = sig_quirks_for (t_version o) (t_quirks s);
  of_version : In (t_version o) (live_versions s);
  of_pclass : pclass_inst_b (t_pclass s) (t_pclass o) = true;
  of_ttl : exists i t, t_ittl s = TtlValue i /\ t_ittl o = TtlDistance t (i - t) /\ t <= i /\ i <= 255;
  of_olen : t_olen o = t_olen s;
  of_mss : optfield_inst_b (t_mss s) (t_mss o) = true;
  of_wscale : t_wscale o = None;
  of_win : match obs_win_exact s with
           | Some e => t_wsize o = e
           | None => match t_wsize s with
                     | WMss k => t_wsize o = WMss k \/ exists m, t_mss o = Some m /\ 0 < m /\ t_wsize o = WValue (k * m)
                                                              /\ (k * m =? 0) || (m <? 100) = true
                     | _ => True end
           end;
  of_win_zero : distance_window_size (t_wsize o) (t_wsize s) (t_mss o) = Some 0 }.

Theorem obs_char (k : tkind) (s : tcp_sig) (g : segment) :
  seg_wf g -> live1_tcp_b s = true -> conforms_seg_b k s g = true -> K5 g = false ->
  obs_facts s (spec_sig g).
Proof.
  intros WF LV C K5F. assert (WF' := WF). destruct WF' as (V & TT & V6 & V4).
  unfold live1_tcp_b in LV. repeat (apply andb_true_iff in LV; destruct LV as [LV ?]).
  rename H into WL, H0 into ZW, H1 into ZM, H2 into QL, H3 into LL. rename LV into TL.
  unfold conforms_seg_b in C. cbv zeta in C. repeat (apply andb_true_iff in C; destruct C as [C ?]).
  rename H into CP, H0 into CQ, H1 into CL, H2 into CWS, H3 into CW, H4 into CM, H5 into CO, H6 into CT, H7 into CV.
  assert (OB : opts_bad (seg_items g) = false).
  { unfold K5 in K5F. apply orb_false_iff in K5F. destruct K5F as [B _]. exact B. }
  apply olayout_eqb_eq in CL.
  destruct (spec_sig_fields g) as (F1 & F2 & F3 & F4 & F5 & F6 & F7 & F8 & F9).
  pose proof (conf_quirks_for s g WF QL CQ) as QE.
  assert (TSE : has_ts (seg_items g) = layout_ts (t_olayout s)).
  { rewrite <- CL. unfold layout_ts, spec_layout. symmetry. apply has_ts_layout. exact OB. }
  assert (INV : In (seg_ver g) (live_versions s)) by (apply in_live_versions; assumption).
  assert (MI : optfield_inst_b (t_mss s) (spec_mss (seg_items g)) = true).
  { apply (optzero_inst _ _ _ _ ZM CM). rewrite <- CL. apply layout_mss_some. exact OB. }
  assert (WN : spec_wscale (seg_items g) = None).
  { apply no_ws_none. unfold no_ws_scale0 in ZW. destruct (t_wscale s) as [[|?]|]; try discriminate.
    apply negb_true_iff in ZW. rewrite CL. exact ZW. }
  constructor; rewrite ?F1, ?F2, ?F3, ?F4, ?F5, ?F6, ?F7, ?F8, ?F9.
  - exact CL.
  - exact QE.
  - exact INV.
  - exact CP.
  - destruct (ttl_live_form _ _ TL CT) as (i & E1 & E2 & E3 & E4). exists i, (ih_ttl (sg_ip g)). repeat split; assumption.
  - apply N.eqb_eq. exact CO.
  - exact MI.
  - exact WN.
  - exact (obs_win_char s _ _ _ _ WL INV TSE CM CW).
  - exact (window_live_zero s _ _ _ _ WL INV TSE CM CW).
Qed.

(* ================================================================ the certificate is sound *)
Lemma rejects_sound s t o : obs_facts s o -> rejects s t = true -> tcp_distance t o = None.
Proof.
  intros [FL FQ FV FP (i & tt & TS & TO & _) _ _ _ _ _] R. rewrite tcp_distance_sum.
  unfold rejects in R. repeat (apply orb_true_iff in R; destruct R as [R|R]).
  - unfold tcp_decisive_mismatch_b. rewrite FL.
    replace (list_eqb tcp_option_eqb (t_olayout s) (t_olayout t)) with false by (apply negb_true_iff in R; symmetry; exact R).
    cbn. rewrite ?orb_true_r. reflexivity.
  - unfold tcp_decisive_mismatch_b. apply negb_true_iff in R.
    destruct (version_inst_b (t_version t) (t_version o)) eqn:EV; [|reflexivity].
    destruct (list_eqb quirk_eqb (t_quirks o) (sig_quirks_for (t_version o) (t_quirks t))) eqn:EQ; [|cbn; rewrite ?orb_true_r; reflexivity].
    exfalso.
    assert (existsb (fun v => version_inst_b (t_version t) v
                              && list_eqb quirk_eqb (sig_quirks_for v (t_quirks s)) (sig_quirks_for v (t_quirks t))) (live_versions s) = true).
    { apply existsb_exists. exists (t_version o). split; [exact FV|]. rewrite EV, <- FQ, EQ. reflexivity. }
    congruence.
  - unfold tcp_decisive_mismatch_b.
    assert (pclass_inst_b (t_pclass t) (t_pclass o) = false).
    { unfold pclass_inst_b in *. destruct (t_pclass s), (t_pclass t), (t_pclass o); cbn in *; try discriminate; reflexivity. }
    rewrite H. cbn. rewrite ?orb_true_r. reflexivity.
Qed.

Lemma must_other_sound s t o e : obs_facts s o -> must_other s t = true -> tcp_distance t o = Some e -> 2 <= e.
Proof.
  intros [FL FQ FV FP (i & tt & TS & TO & TLE & I255) FO FM FW FWIN _] M D. rewrite tcp_distance_sum in D.
  destruct (tcp_decisive_mismatch_b t o); [discriminate|].
  destruct (distance_ttl (t_ittl o) (t_ittl t)) as [dt|] eqn:DT; [|discriminate]. cbn [obind] in D.
  destruct (distance_window_size (t_wsize o) (t_wsize t) (t_mss o)) as [dw|] eqn:DW; [|discriminate]. cbn [obind] in D.
  inversion D as [SUM]. clear D.
  unfold must_other in M. apply orb_true_iff in M. destruct M as [M|MJ].
  2:{ (* joint *)
    unfold must_joint in MJ. destruct (obs_win_exact s) eqn:EX; [discriminate|].
    destruct (t_wsize s) as [k| | | |] eqn:SW; try discriminate. destruct (t_mss t) as [b|] eqn:TM; [|discriminate].
    apply andb_true_iff in MJ. destruct MJ as [MJ TWF]. apply andb_true_iff in MJ. destruct MJ as [B100 K0].
    destruct (optfield_inst_b (Some b) (t_mss o)) eqn:OI.
    - exfalso. cbn [optfield_inst_b] in OI. apply optN_eqb_eq in OI.
      destruct FWIN as [OW|(m & OM & M0 & OW & FLAG)].
      + rewrite OW in DW. destruct (t_wsize t); discriminate.
      + rewrite OI in OM. inversion OM. subst m. nia.
    - unfold c_mss, pen_mss. rewrite TM, OI. lia. }
  repeat (apply orb_true_iff in M; destruct M as [M|M]).
  - (* ttl *)
    assert (dt = 2); [|lia].
    unfold must_ttl in M. rewrite TS in M. rewrite TO in DT.
    destruct (t_ittl t) as [b|b1 b2|b|]; try discriminate; cbn [distance_ttl] in DT; unfold high_or, tq_low, sat_add8 in *.
    + replace (N.min 255 (tt + (i - tt)) =? b) with false in DT by lia. inversion DT; reflexivity.
    + replace (N.min 255 (tt + (i - tt)) =? N.min 255 (b1 + b2)) with false in DT by lia. inversion DT; reflexivity.
    + replace (N.min 255 (tt + (i - tt)) =? b) with false in DT by lia. inversion DT; reflexivity.
  - (* olen *)
    assert (c_olen t o = 2); [|lia]. unfold c_olen, pen_olen. rewrite FO. unfold must_olen in M.
    replace (t_olen s =? t_olen t) with false by (apply negb_true_iff in M; symmetry; exact M). reflexivity.
  - (* mss *)
    assert (c_mss t o = 2); [|lia]. unfold c_mss, pen_mss. unfold must_mss in M.
    destruct (t_mss s) as [a|]; [|discriminate]. destruct (t_mss t) as [b|]; [|discriminate].
    cbn [optfield_inst_b] in FM. apply optN_eqb_eq in FM. rewrite FM. cbn [optfield_inst_b option_eqb].
    replace (a =? b) with false by (apply negb_true_iff in M; symmetry; exact M). reflexivity.
  - (* window *)
    assert (dw = 2); [|lia]. destruct (win_some _ _ _ _ DW) as [Z|T]; [|exact T]. exfalso. subst dw.
    unfold must_win in M. destruct (obs_win_exact s) as [ex|] eqn:EX.
    + rewrite FWIN in DW.
      assert (SAME : distance_window_size ex (t_wsize t) (t_mss o) = distance_window_size ex (t_wsize t) (t_mss s)
                     \/ exists v kk, ex = WValue v /\ t_wsize t = WMss kk /\ t_mss s = None).
      { destruct (t_mss s) as [a|] eqn:SM.
        - left. cbn [optfield_inst_b] in FM. apply optN_eqb_eq in FM. rewrite FM. reflexivity.
        - destruct ex as [?|?|v|?|]; destruct (t_wsize t) as [kk|?|?|?|]; try (left; reflexivity).
          right. exists v, kk. repeat split. }
      destruct SAME as [SAME|(v & kk & E1 & E2 & E3)].
      * rewrite SAME in DW. rewrite DW in M. destruct ex, (t_wsize t), (t_mss s); cbn in M; discriminate M.
      * rewrite E1, E2, E3 in M. discriminate M.
    + destruct (t_wsize s) as [k| | | |] eqn:SW; try discriminate.
      destruct (t_wsize t) as [b|b| | |] eqn:TW; try discriminate.
      * destruct FWIN as [OW|(m & OM & M0 & OW & _)]; rewrite OW in DW; cbn [distance_window_size] in DW; unfold high_or, tq_low in DW.
        -- apply negb_true_iff in M. rewrite M in DW. discriminate DW.
        -- rewrite OM in DW. unfold checked_div, checked_rem in DW. replace (m =? 0) with false in DW by lia.
           rewrite N.div_mul in DW by lia.
           apply negb_true_iff in M. rewrite N.eqb_sym in M. rewrite M in DW. discriminate DW.
      * destruct FWIN as [OW|(m & OM & M0 & OW & _)]; rewrite OW in DW; discriminate.
Qed.

Lemma parts_even t o e : is_none (t_wscale t) = true -> t_wscale o = None -> tcp_distance t o = Some e -> e <> 1.
Proof.
  intros N W D. rewrite tcp_distance_sum in D. destruct (tcp_decisive_mismatch_b t o); [discriminate|].
  destruct (distance_ttl _ _) as [dt|] eqn:DT; [|discriminate]. cbn [obind] in D.
  destruct (distance_window_size _ _ _) as [dw|] eqn:DW; [|discriminate]. cbn [obind] in D. inversion D. clear D.
  apply ttl_some in DT. apply win_some in DW.
  assert (c_wscale t o = 0). { unfold c_wscale. destruct (t_wscale t); [discriminate|]. reflexivity. }
  unfold c_olen, c_mss, pen_olen, pen_mss in *.
  destruct (t_olen o =? t_olen t), (optfield_inst_b (t_mss t) (t_mss o)); lia.
Qed.
Lemma scale_charged t o e : is_none (t_wscale t) = false -> t_wscale o = None -> tcp_distance t o = Some e -> e <> 0.
Proof.
  intros N W D. rewrite tcp_distance_sum in D. destruct (tcp_decisive_mismatch_b t o); [discriminate|].
  destruct (distance_ttl _ _) as [dt|]; [|discriminate]. cbn [obind] in D.
  destruct (distance_window_size _ _ _) as [dw|]; [|discriminate]. cbn [obind] in D. inversion D. clear D.
  assert (c_wscale t o = 1). { unfold c_wscale, pen_wscale. rewrite W. destruct (t_wscale t); [reflexivity|discriminate]. }
  lia.
Qed.

Theorem sep_before_sound s t o e : obs_facts s o -> sep_before s t = true -> tcp_distance t o = Some e -> e <> 1.
Proof.
  intros F S D. unfold sep_before in S. apply orb_true_iff in S. destruct S as [S|S]; [apply orb_true_iff in S; destruct S as [S|S]|].
  - rewrite (rejects_sound s t o F S) in D. discriminate.
  - pose proof (must_other_sound s t o e F S D). lia.
  - eapply parts_even; [exact S | apply (of_wscale _ _ F) | exact D].
Qed.
Theorem sep_after_sound s t o e : obs_facts s o -> sep_after s t = true -> tcp_distance t o = Some e -> e <> 0.
Proof.
  intros F S D. unfold sep_after in S. apply orb_true_iff in S. destruct S as [S|S]; [apply orb_true_iff in S; destruct S as [S|S]|].
  - rewrite (rejects_sound s t o F S) in D. discriminate.
  - pose proof (must_other_sound s t o e F S D). lia.
  - apply negb_true_iff in S. eapply scale_charged; [exact S | apply (of_wscale _ _ F) | exact D].
Qed.

(* own distance: exactly one point, for the scale *)
Theorem live1_one s o : obs_facts s o -> no_ws_scale0 s = true -> tcp_distance s o = Some 1.
Proof.
  intros [FL FQ FV FP (i & tt & TS & TO & TLE & I255) FO FM FW _ FZ] NW. rewrite tcp_distance_sum.
  assert (DM : tcp_decisive_mismatch_b s o = false).
  { unfold tcp_decisive_mismatch_b. rewrite FL, <- FQ, FP.
    rewrite (eqb_refl_of _ olayout_eqb_eq), (eqb_refl_of _ quirks_eqb_eq).
    assert (version_inst_b (t_version s) (t_version o) = true).
    { unfold live_versions in FV. unfold version_inst_b.
      destruct (t_version s); cbn in FV; destruct FV as [E|FV]; try contradiction; try (destruct FV as [E|[]]); rewrite <- E; reflexivity. }
    rewrite H. reflexivity. }
  rewrite DM, TO, TS. cbn [distance_ttl]. unfold high_or, sat_add8.
  replace (N.min 255 (tt + (i - tt)) =? i) with true by lia. cbn [obind].
  rewrite FZ. cbn [obind]. f_equal.
  unfold c_olen, c_mss, c_wscale, pen_wscale. rewrite FO, N.eqb_refl, FM, FW.
  unfold no_ws_scale0 in NW. destruct (t_wscale s) as [[|?]|]; try discriminate. reflexivity.
Qed.

(* distance exactly 1 to an entry that writes scale `0`, for an observation without scale: the packet conforms to it *)
Theorem one_conforms (k : tkind) (t : tcp_sig) (g : segment) :
  seg_wf g -> conf_role k g = true -> spec_wscale (seg_items g) = None -> scale_is_zero t = true ->
  tcp_distance t (spec_sig g) = Some 1 -> conforms_seg_b k t g = true.
Proof.
  intros (V & TT & _) R WN SZ D. rewrite tcp_distance_sum in D.
  destruct (tcp_decisive_mismatch_b t (spec_sig g)) eqn:DM; [discriminate|].
  unfold tcp_decisive_mismatch_b in DM. repeat (apply orb_false_iff in DM; destruct DM as [DM ?]).
  repeat match goal with H : negb _ = false |- _ => apply negb_false_iff in H end.
  destruct (distance_ttl _ _) as [dt|] eqn:DT; [|discriminate]. cbn [obind] in D.
  destruct (distance_window_size _ _ _) as [dw|] eqn:DW; [|discriminate]. cbn [obind] in D.
  inversion D as [SUM]. clear D.
  pose proof (ttl_some _ _ _ DT) as TS. pose proof (win_some _ _ _ _ DW) as WS.
  assert (CO2 : c_olen t (spec_sig g) = 0 \/ c_olen t (spec_sig g) = 2) by (unfold c_olen, pen_olen; destruct (_ =? _); auto).
  assert (CM2 : c_mss t (spec_sig g) = 0 \/ c_mss t (spec_sig g) = 2) by (unfold c_mss, pen_mss; destruct (optfield_inst_b _ _); auto).
  assert (CW1 : c_wscale t (spec_sig g) <= 1) by (unfold c_wscale, pen_wscale; destruct (optfield_inst_b _ _); lia).
  assert (dt = 0 /\ c_olen t (spec_sig g) = 0 /\ c_mss t (spec_sig g) = 0 /\ dw = 0) by lia.
  destruct H2 as (-> & CO & CM & ->).
  destruct (spec_sig_fields g) as (F1 & F2 & F3 & F4 & F5 & F6 & F7 & F8 & F9).
  rewrite ?F1, ?F2, ?F3, ?F4, ?F5, ?F6, ?F7, ?F8, ?F9 in *.
  unfold conforms_seg_b. rewrite R. cbn [andb].
  rewrite DM. cbn [andb].
  rewrite (ttl_zero_conf _ _ TT DT). cbn [andb].
  unfold c_olen in CO. rewrite F3 in CO. destruct (seg_olen g =? t_olen t) eqn:EO; [|unfold pen_olen in CO; discriminate]. cbn [andb].
  assert (OF : forall sv ov, optfield_inst_b sv ov = true -> conf_optfield sv ov = true).
  { intros [v|] ov; cbn [optfield_inst_b conf_optfield]; [|reflexivity]. intros E. apply optN_eqb_eq in E. subst. lia. }
  unfold c_mss in CM. rewrite F4 in CM. destruct (optfield_inst_b (t_mss t) _) eqn:EM; [|unfold pen_mss in CM; discriminate].
  rewrite (OF _ _ EM). cbn [andb].
  rewrite (win_zero_conf _ _ _ _ _ DW). cbn [andb].
  assert (CS : conf_optfield (t_wscale t) (spec_wscale (seg_items g)) = true).
  { rewrite WN. unfold scale_is_zero in SZ. destruct (t_wscale t) as [[|?]|]; try discriminate. reflexivity. }
  rewrite CS. cbn [andb].
  rewrite H1. cbn [andb].
  rewrite H. rewrite andb_true_r.
  apply quirks_eqb_eq in H0. unfold conf_quirks.
  apply forallb_forall. intros q _.
  destruct (quirk_applies (seg_ver g) q) eqn:AP; [|reflexivity]. cbn [negb orb].
  rewrite <- qmem_spec_quirks, H0. unfold sig_quirks_for. rewrite qmem_filter, AP. cbn [andb].
  apply eqb_reflx.
Qed.

(* ================================================================ the composition *)
Lemma suffix_or_prefix {A} (stop : A -> bool) (l : list A) x0 y :
  find stop l = Some x0 -> In y l -> y = x0 \/ In y (prefix_before stop l) \/ In y (suffix_after stop l).
Proof.
  induction l as [|x l IH]; [contradiction|]. cbn [find prefix_before suffix_after]. intros F IN.
  destruct (stop x) eqn:SX.
  - inversion F; subst. destruct IN as [E|IN]; [left; symmetry; exact E | right; right; exact IN].
  - destruct IN as [E|IN]; [right; left; left; exact E|].
    destruct (IH F IN) as [H|[H|H]]; [left; exact H | right; left; right; exact H | right; right; exact H].
Qed.

Theorem reach_tcp_live1 (db : database) (k : tkind) (li si : N) (s : tcp_sig) (x : tcp_traffic) :
  entry_at (tcp_table db k) li si = Some (li, si, s) ->
  live1_cert (tcp_table db k) li si s = true -> conforms_tcp k s x -> known_tcp_traffic db s x = false ->
  exists f, reach_tcp db x = RMatch (tcp_table_id k) f
            /\ admissible (tcp_table db k) (fun t => conforms_tcp_b k t x) li si f.
Proof.
  intros EA CERT C KN. unfold conforms_tcp, conforms_tcp_b in C. unfold known_tcp_traffic in KN.
  destruct (seg_of x) as [g|] eqn:SG; [|discriminate].
  pose proof (seg_of_wf x g SG) as WF.
  unfold known_tcp13 in KN. rename KN into KC.
  assert (R : conf_role k g = true).
  { destruct (conf_role k g) eqn:RR; [reflexivity|]. unfold conforms_seg_b in C. cbv zeta in C. rewrite RR in C. discriminate. }
  assert (K5F : K5 g = false).
  { unfold known_c03 in KC. repeat (apply orb_false_iff in KC; destruct KC as [KC ?]). assumption. }
  assert (OBS : exists o, tcp_out_of db x = Ok o /\ o_syn o = syn_of k (spec_sig g) /\ o_synack o = synack_of k (spec_sig g)).
  { destruct x as [p|p]; cbn [seg_of tcp_out_of] in *; [apply obs_v4 | apply obs_v6]; assumption. }
  destruct OBS as (o & OUT & SY & SA).
  unfold reach_tcp. rewrite (reach_of_obs db k _ o (spec_sig g) OUT SY SA).
  set (tbl := tcp_table db k) in *.
  unfold live1_cert in CERT. apply andb_true_iff in CERT. destruct CERT as [CERT CA].
  apply andb_true_iff in CERT. destruct CERT as [LV CB].
  pose proof (obs_char k s g WF LV C K5F) as OF.
  assert (NW : no_ws_scale0 s = true).
  { unfold live1_tcp_b in LV. repeat (apply andb_true_iff in LV; destruct LV as [LV ?]). assumption. }
  pose proof (live1_one s (spec_sig g) OF NW) as D1.
  rewrite tcp_find_best_match_is_scan by (apply spec_sig_concrete; exact WF). unfold tcp_scan.
  (* harmless entries: the own label, or an entry in front at distance 0 *)
  set (ok := fun p : N * N * tcp_sig =>
               same_label tbl li (fst (fst p))
               || existsb (fun q => pos_is (fst (fst p)) (snd (fst p)) q
                                      && (is_zero (tcp_distance (snd q) (spec_sig g))
                                          || (scale_is_zero (snd q) && match tcp_distance (snd q) (spec_sig g) with Some 1 => true | _ => false end)))
                          (prefix_before (pos_is li si) (positions tbl))).
  assert (before_ok : forall p e, In p (prefix_before (pos_is li si) (positions tbl)) ->
            tcp_distance (snd p) (spec_sig g) = Some e -> cert_before s (snd p) = true -> 1 < e \/ ok p = true).
  { intros p e PB DP CBF.
    assert (HIT : forall flag, (is_zero (Some e) || (scale_is_zero (snd p) && match Some e with Some 1 => true | _ => false end)) = flag ->
                  flag = true -> ok p = true).
    { intros flag E FT. subst flag. unfold ok. apply orb_true_iff. right.
      apply existsb_exists. exists p. split; [exact PB|]. unfold pos_is. rewrite !N.eqb_refl, DP. exact FT. }
    unfold cert_before in CBF. apply orb_true_iff in CBF. destruct CBF as [SEP|SZ].
    - pose proof (sep_before_sound s (snd p) _ e OF SEP DP) as NE1.
      destruct (N.eq_dec e 0) as [E0|NE0]; [|left; lia].
      right. apply (HIT _ eq_refl). subst e. reflexivity.
    - destruct (N.eq_dec e 0) as [E0|NE0]; [right; apply (HIT _ eq_refl); subst e; reflexivity|].
      destruct (N.eq_dec e 1) as [E1|NE1]; [|left; lia].
      right. apply (HIT _ eq_refl). subst e. rewrite SZ. reflexivity. }
  unfold entry_at in EA.
  destruct (scan_min_wins tcp_distance tcp_score tbl (spec_sig g) (pos_is li si) ok (li, si, s) 1 EA D1) as (y & e & INY & DY & SC & YOK).
  - intros p e PB DP. rewrite forallb_forall in CB. specialize (CB p PB). apply orb_true_iff in CB.
    destruct CB as [SL|SEP]; [right; unfold ok; rewrite SL; reflexivity|].
    apply (before_ok p e PB DP SEP).
  - intros p e INP DP.
    destruct (suffix_or_prefix (pos_is li si) (positions tbl) (li, si, s) p EA INP) as [E|[PB|SF]].
    + subst p. cbn [snd] in DP. rewrite D1 in DP. inversion DP. left. lia.
    + rewrite forallb_forall in CB. specialize (CB p PB). apply orb_true_iff in CB.
      destruct CB as [SL|SEP]; [right; unfold ok; rewrite SL; reflexivity|].
      destruct (before_ok p e PB DP SEP) as [LT|OKP]; [left; lia | right; exact OKP].
    + rewrite forallb_forall in CA. specialize (CA p SF). apply orb_true_iff in CA.
      destruct CA as [SL|SEP]; [right; unfold ok; rewrite SL; reflexivity|].
      pose proof (sep_after_sound s (snd p) _ e OF SEP DP) as NE0. left. lia.
  - rewrite SC. eexists. split; [reflexivity|].
    unfold admissible, admissible_b.
    destruct (positions_label _ _ _ _ (match y as y0 return In y0 (positions tbl) -> In (fst (fst y0), snd (fst y0), snd y0) (positions tbl)
                                       with (a, b, c) => fun H => H end INY)) as [ey NEY].
    unfold label_at at 1. rewrite NEY. cbn [option_map].
    assert (IN0 : In (li, si, s) (positions tbl)) by (apply find_some in EA; tauto).
    destruct (positions_label _ _ _ _ IN0) as [e0 NE0].
    unfold admissible_labels, label_at at 1. rewrite NE0. cbn [option_map app existsb].
    destruct YOK as [E|OK].
    + subst y. cbn [fst] in NEY. rewrite NE0 in NEY. inversion NEY. rewrite label_eqb_refl. reflexivity.
    + unfold ok in OK. apply orb_true_iff in OK. destruct OK as [SL|ZP].
      * unfold same_label, label_at in SL. rewrite NE0, NEY in SL. cbn [option_map] in SL.
        apply orb_true_iff. left.
        unfold label_eqb in *. repeat (apply andb_true_iff in SL; destruct SL as [SL ?]).
        unfold opt_bytes_eqb in *.
        apply optbytes_eqb_eq in H1. apply bytes_eqb_eq in H0. apply optbytes_eqb_eq in H.
        rewrite H1, H0, H. rewrite !(eqb_refl_of _ optbytes_eqb_eq), (eqb_refl_of bytes_eqb bytes_eqb_eq).
        destruct (l_ty (fst e0)), (l_ty (fst ey)); try discriminate; reflexivity.
      * apply orb_true_iff. right.
        apply existsb_exists in ZP. destruct ZP as [q [PBQ PQ]].
        apply andb_true_iff in PQ. destruct PQ as [PQ ZD].
        apply existsb_exists. exists (fst ey). split; [|apply label_eqb_refl].
        apply in_flat_map. exists q. split; [exact PBQ|].
        unfold pos_is in PQ. apply andb_true_iff in PQ. destruct PQ as [P1 P2].
        assert (Q1 : fst (fst q) = fst (fst y)) by lia.
        assert (CQ : conforms_tcp_b k (snd q) x = true).
        { unfold conforms_tcp_b. rewrite SG. apply orb_true_iff in ZD. destruct ZD as [ZD|ZD].
          - apply zero_conforms; [exact WF | exact R |].
            destruct (tcp_distance (snd q) (spec_sig g)) as [[|?]|]; try discriminate. reflexivity.
          - apply andb_true_iff in ZD. destruct ZD as [SZ D1Q].
            apply one_conforms; [exact WF | exact R | | exact SZ |].
            + pose proof (of_wscale _ _ OF) as WN. destruct (spec_sig_fields g) as (_ & _ & _ & _ & _ & F6 & _). rewrite F6 in WN. exact WN.
            + destruct (tcp_distance (snd q) (spec_sig g)) as [[|[| |]]|]; try discriminate. reflexivity. }
        rewrite CQ. unfold label_at. rewrite Q1, NEY. left; reflexivity.
Qed.
