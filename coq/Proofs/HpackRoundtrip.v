(* The HPACK decoder model inverts the RFC 7541 encoder of Spec/H2Spec.v: prefix integers, string
   literals (plain / Huffman), the index address space, dynamic-table insertion, eviction and size
   updates, and every field representation. *)
From Coq Require Import List NArith ZArith Bool Lia ZifyBool ZifyN Arith.
From Coq Require Import Strings.Byte.
From HN Require Import Base.Bytes Model.H2Text Model.Hpack Spec.H2Spec Gen.HpackStatic
     Proofs.H2FramesProofs Proofs.HpackProofs Proofs.HuffmanProofs.
Import ListNotations.
Open Scope N_scope.

Ltac Zify.zify_post_hook ::= Z.div_mod_to_equations.

(* ================= 5.1 integers ================= *)
Lemma pow128_succ j : 128 ^ (j + 1) = 128 * 128 ^ j.
Proof. rewrite N.add_1_r, N.pow_succ_r'. reflexivity. Qed.

Lemma pow2_7 m : 2 ^ (m + 7) = 128 * 2 ^ m.
Proof. rewrite N.pow_add_r. change (2 ^ 7) with 128. lia. Qed.

Lemma enc_cont_decode fuel : forall r rest value m total j,
  r < 128 ^ N.of_nat (S fuel) -> r < 128 ^ j -> total + j <= 5 ->
  int_cont (enc_cont (S fuel) r ++ rest) value m total = Some (value + r * 2 ^ m, rest).
Proof.
  induction fuel as [|f IH]; intros r rest value m total j Hf Hj Ht.
  - change (128 ^ N.of_nat 1) with 128 in Hf. cbn [enc_cont].
    replace (r <? 128) with true by lia. cbn [app int_cont].
    rewrite b2n_n2b by lia. replace (r <? 128) with true by lia. f_equal. f_equal.
    replace (r mod 128) with r by lia. reflexivity.
  - cbn [enc_cont]. destruct (r <? 128) eqn:E.
    + cbn [app int_cont]. rewrite b2n_n2b by lia. rewrite E. f_equal. f_equal.
      replace (r mod 128) with r by lia. reflexivity.
    + cbn [app int_cont]. rewrite b2n_n2b by lia.
      replace (r mod 128 + 128 <? 128) with false by lia.
      assert (Hj2 : 2 <= j).
      { destruct (N.le_gt_cases 2 j) as [|Hlt]; [assumption|exfalso].
        assert (j = 0 \/ j = 1) as [-> | ->] by (clear - Hlt; lia);
          [change (128 ^ 0) with 1 in Hj|change (128 ^ 1) with 128 in Hj]; clear - Hj E; lia. }
      replace (total + 1 =? 5) with false by lia.
      replace ((r mod 128 + 128) mod 128) with (r mod 128) by lia.
      rewrite (IH (r / 128) rest _ (m + 7) (total + 1) (j - 1)).
      * f_equal. f_equal. rewrite pow2_7. rewrite (N.div_mod' r 128) at 3. ring.
      * replace (N.of_nat (S (S f))) with (N.of_nat (S f) + 1) in Hf by lia.
        rewrite pow128_succ in Hf. lia.
      * replace j with ((j - 1) + 1) in Hj by lia. rewrite pow128_succ in Hj. lia.
      * lia.
Qed.

Lemma size_bound r : r < 128 ^ N.of_nat (S (N.to_nat (N.size r))).
Proof.
  destruct r as [|p]; [cbn; lia|].
  pose proof (N.size_gt (N.pos p)) as H.
  replace (N.of_nat (S (N.to_nat (N.size (N.pos p))))) with (N.size (N.pos p) + 1) by lia.
  rewrite pow128_succ.
  assert (2 ^ N.size (N.pos p) <= 128 ^ N.size (N.pos p)).
  { apply N.pow_le_mono_l. lia. }
  lia.
Qed.

(* first = pattern bits above the prefix *)
Definition int_shape (p first : N) : Prop :=
  (p = 4 /\ (first = 0 \/ first = 16)) \/ (p = 5 /\ first = 32) \/ (p = 6 /\ first = 64)
  \/ (p = 7 /\ (first = 0 \/ first = 128)).

Lemma int_roundtrip v p first rest :
  int_shape p first -> v < lim ->
  decode_integer (enc_int v p first ++ rest) p = Some (v, rest).
Proof.
  intros Hs Hv. unfold lim in Hv. change (2 ^ 28) with 268435456 in Hv.
  unfold enc_int, decode_integer.
  assert (Hm : 2 ^ p - 1 < 128 /\ first + (2 ^ p - 1) < 256 /\ 0 < 2 ^ p
               /\ forall x, x <= 2 ^ p - 1 -> (first + x) mod 2 ^ p = x).
  { destruct Hs as [[-> [-> | ->]] | [[-> ->] | [[-> ->] | [-> [-> | ->]]]]];
      match goal with |- context [2 ^ ?k] => let v := eval vm_compute in (2 ^ k) in change (2 ^ k) with v end;
      repeat split; try lia; intros x Hx; lia. }
  destruct Hm as (Hm1 & Hm2 & Hm3 & Hmod).
  destruct (v <? 2 ^ p - 1) eqn:E.
  - cbn [app]. rewrite b2n_n2b by lia. rewrite Hmod by lia. now rewrite E.
  - cbn [app]. rewrite b2n_n2b by lia. rewrite Hmod by lia.
    replace (2 ^ p - 1 <? 2 ^ p - 1) with false by lia.
    rewrite (enc_cont_decode _ (v - (2 ^ p - 1)) rest (2 ^ p - 1) 0 1 4).
    + f_equal. f_equal. change (2 ^ 0) with 1. lia.
    + apply size_bound.
    + change (128 ^ 4) with 268435456. lia.
    + lia.
Qed.

(* the first octet of an encoded integer carries the pattern *)
Lemma enc_int_first v p first :
  int_shape p first ->
  exists b0 tl, enc_int v p first = b0 :: tl /\ first <= b2n b0 /\ b2n b0 < first + 2 ^ p.
Proof.
  intros Hs. unfold enc_int.
  assert (Hm : first + (2 ^ p - 1) < 256 /\ 0 < 2 ^ p).
  { destruct Hs as [[-> [-> | ->]] | [[-> ->] | [[-> ->] | [-> [-> | ->]]]]];
      match goal with |- context [2 ^ ?k] => let v := eval vm_compute in (2 ^ k) in change (2 ^ k) with v end; lia. }
  destruct (v <? 2 ^ p - 1) eqn:E; eexists; eexists; (split; [reflexivity|]); rewrite b2n_n2b by lia; lia.
Qed.

(* ================= 5.2 strings ================= *)
Lemma decode_string_cons b0 tl :
  decode_string (b0 :: tl) =
  match decode_integer (b0 :: tl) 7 with
  | None => None
  | Some (len, rest) =>
      if blen rest <? len then None
      else if 128 <=? b2n b0
           then match huffman_decode (firstn (N.to_nat len) rest) with
                | Some s => Some (s, skipn (N.to_nat len) rest) | None => None end
           else Some (firstn (N.to_nat len) rest, skipn (N.to_nat len) rest)
  end.
Proof. reflexivity. Qed.

Lemma string_roundtrip s h rest :
  str_ok s h = true -> decode_string (enc_string s h ++ rest) = Some (s, rest).
Proof.
  unfold str_ok, enc_string. intros Hok. destruct h.
  - set (hs := huff_encode s) in *.
    destruct (enc_int_first (blen hs) 7 128) as (b0 & tl & E & Hlo & Hhi); [right; right; right; auto|].
    rewrite <- app_assoc.
    assert (Hbuf : enc_int (blen hs) 7 128 ++ hs ++ rest = b0 :: (tl ++ hs ++ rest)) by (rewrite E; reflexivity).
    rewrite Hbuf, decode_string_cons, <- Hbuf.
    rewrite int_roundtrip by (try lia; right; right; right; auto).
    rewrite blen_app. replace (blen hs + blen rest <? blen hs) with false by lia.
    replace (128 <=? b2n b0) with true by lia.
    rewrite firstn_blen, skipn_blen. unfold hs. now rewrite huffman_roundtrip.
  - destruct (enc_int_first (blen s) 7 0) as (b0 & tl & E & Hlo & Hhi); [right; right; right; auto|].
    rewrite <- app_assoc.
    assert (Hbuf : enc_int (blen s) 7 0 ++ s ++ rest = b0 :: (tl ++ s ++ rest)) by (rewrite E; reflexivity).
    rewrite Hbuf, decode_string_cons, <- Hbuf.
    rewrite int_roundtrip by (try lia; right; right; right; auto).
    rewrite blen_app. replace (blen s + blen rest <? blen s) with false by lia.
    change (2 ^ 7) with 128 in Hhi. replace (128 <=? b2n b0) with false by lia.
    now rewrite firstn_blen, skipn_blen.
Qed.

(* ================= Appendix A: the crate's static table vs RFC 7541 ================= *)
Definition header_eqb (a b : header) : bool := bytes_eqb (fst a) (fst b) && bytes_eqb (snd a) (snd b).
Lemma header_eqb_eq a b : header_eqb a b = true -> a = b.
Proof.
  unfold header_eqb. intros H. apply andb_true_iff in H. destruct H as [H1 H2].
  apply bytes_eqb_eq in H1, H2. destruct a, b. cbn in *. now subst.
Qed.

(* the regenerated crate table equals the RFC table at every index except 15 ("accept-" for
   "accept-charset": finding C16-static-15) *)
Lemma static_tables_agree :
  forallb (fun i => Nat.eqb i 14 || match nth_error crate_static_table i, nth_error rfc_static_table i with
                                    | Some a, Some b => header_eqb a b | _, _ => false end) (seq 0 61) = true.
Proof. vm_compute. reflexivity. Qed.
Lemma static_tables_differ_at_15 :
  nth_error crate_static_table 14 = Some (bs "accept-", []) /\
  nth_error rfc_static_table 14 = Some (bs "accept-charset", []).
Proof. split; reflexivity. Qed.
Lemma crate_static_length : length crate_static_table = 61%nat.
Proof. reflexivity. Qed.

Definition tbl_rel (et : etable) (dt : dtable) : Prop :=
  dt_entries dt = et_dyn et /\ dt_max dt = et_max et /\ dt_inv dt.

Lemma get_agree et dt idx h :
  tbl_rel et dt -> idx <> 15 -> et_get et idx = Some h -> get_from_table dt idx = Some h.
Proof.
  intros (He & _ & _) H15. unfold et_get, get_from_table.
  destruct (idx =? 0) eqn:E0; [discriminate|].
  rewrite crate_static_length. change (N.of_nat 61) with 61.
  destruct (idx <=? 61) eqn:E61.
  - replace (idx - 1 <? 61) with true by lia. intros Hr.
    pose proof static_tables_agree as A. rewrite forallb_forall in A.
    specialize (A (N.to_nat (idx - 1))).
    assert (Hin : In (N.to_nat (idx - 1)) (seq 0 61)) by (apply in_seq; lia).
    apply A in Hin. apply orb_true_iff in Hin. destruct Hin as [Hin | Hin].
    + apply Nat.eqb_eq in Hin. lia.
    + rewrite Hr in Hin. destruct (nth_error crate_static_table (N.to_nat (idx - 1))) as [a|]; [|discriminate].
      apply header_eqb_eq in Hin. now subst.
  - replace (idx - 1 <? 61) with false by lia. rewrite He.
    replace (idx - 1 - 61) with (idx - 62) by lia. intros Hr.
    assert (Hlt : (N.to_nat (idx - 62) < length (et_dyn et))%nat) by (apply nth_error_Some; congruence).
    unfold blen_entries. replace (idx - 62 <? N.of_nat (length (et_dyn et))) with true by lia. exact Hr.
Qed.

(* ================= section 4: eviction ================= *)
Lemma tsum_tsize l : tsum l = tsize l.
Proof. reflexivity. Qed.

Lemma removelast_len {A} (l : list A) : length (removelast l) = pred (length l).
Proof.
  induction l as [|x l IH]; [reflexivity|]. destruct l as [|y l']; [reflexivity|].
  change (removelast (x :: y :: l')) with (x :: removelast (y :: l')). cbn [length] in *. now rewrite IH.
Qed.

Lemma evict_nil f max : evict f max [] = [].
Proof.
  destruct f; cbn [evict]; change (tsize []) with 0; replace (0 <=? max) with true by lia; reflexivity.
Qed.

Lemma evict_fuel_any f1 : forall f2 max l,
  (length l <= f1)%nat -> (length l <= f2)%nat -> evict f1 max l = evict f2 max l.
Proof.
  induction f1 as [|f1 IH]; intros f2 max l H1 H2.
  - destruct l; [|cbn [length] in H1; lia]. now rewrite !evict_nil.
  - destruct f2 as [|f2].
    + destruct l; [|cbn [length] in H2; lia]. now rewrite !evict_nil.
    + cbn [evict]. destruct (tsize l <=? max); [reflexivity|].
      apply IH; rewrite removelast_len; lia.
Qed.


Lemma consolidate_evict fuel : forall t,
  dt_inv t -> (length (dt_entries t) < fuel)%nat ->
  consolidate fuel t =
  Some {| dt_entries := evict (length (dt_entries t)) (dt_max t) (dt_entries t);
          dt_size := tsize (evict (length (dt_entries t)) (dt_max t) (dt_entries t));
          dt_max := dt_max t |}.
Proof.
  induction fuel as [|f IH]; intros t Hinv Hlen; [lia|].
  cbn [consolidate]. unfold dt_inv in Hinv. rewrite tsum_tsize in Hinv.
  destruct (dt_size t <=? dt_max t) eqn:E.
  - assert (Hev : evict (length (dt_entries t)) (dt_max t) (dt_entries t) = dt_entries t).
    { destruct (length (dt_entries t)); cbn [evict]; rewrite <- Hinv, E; reflexivity. }
    rewrite Hev, <- Hinv. destruct t; reflexivity.
  - destruct (rev (dt_entries t)) as [|last r] eqn:Er.
    + exfalso. assert (dt_entries t = []) as H0.
      { rewrite <- (rev_involutive (dt_entries t)), Er. reflexivity. }
      rewrite H0 in Hinv. cbn in Hinv. lia.
    + assert (Hent : dt_entries t = rev r ++ [last]).
      { rewrite <- (rev_involutive (dt_entries t)), Er. reflexivity. }
      rewrite Hent, removelast_last.
      rewrite IH.
      * cbn [dt_entries dt_max]. rewrite app_length. cbn [length]. rewrite Nat.add_1_r. cbn [evict].
        rewrite <- Hent, <- Hinv, E. rewrite Hent, removelast_last. reflexivity.
      * unfold dt_inv. cbn [dt_entries dt_size]. rewrite tsum_tsize.
        rewrite Hent in Hinv. change (tsize (rev r ++ [last])) with (tsum (rev r ++ [last])) in Hinv.
        rewrite tsum_app in Hinv. cbn [tsum fold_right] in Hinv. rewrite tsum_tsize in Hinv. lia.
      * cbn [dt_entries]. rewrite Hent, app_length in Hlen. cbn [length] in Hlen. lia.
Qed.

Lemma evict_inv fuel max l : tsize (evict fuel max l) = tsum (evict fuel max l).
Proof. reflexivity. Qed.

Lemma add_header_rel et dt h :
  tbl_rel et dt -> exists dt', add_header dt h = Some dt' /\ tbl_rel (et_insert et h) dt'.
Proof.
  intros (He & Hm & Hinv). unfold add_header.
  rewrite consolidate_evict.
  - eexists. split; [reflexivity|]. unfold tbl_rel, et_insert. cbn [dt_entries dt_max dt_size et_dyn et_max].
    rewrite He, Hm. cbn [length]. repeat split.
  - unfold dt_inv in *. cbn [dt_entries dt_size tsum fold_right]. fold (tsum (dt_entries dt)). lia.
  - cbn [dt_entries length]. lia.
Qed.

Lemma set_max_rel et dt n :
  tbl_rel et dt -> exists dt', set_max_table_size dt n = Some dt' /\ tbl_rel (et_resize et n) dt'.
Proof.
  intros (He & Hm & Hinv). unfold set_max_table_size.
  rewrite consolidate_evict.
  - eexists. split; [reflexivity|]. unfold tbl_rel, et_resize. cbn [dt_entries dt_max dt_size et_dyn et_max].
    rewrite He. repeat split.
  - exact Hinv.
  - cbn [dt_entries]. lia.
Qed.

Lemma tbl_rel_new : tbl_rel et_new dt_new.
Proof. repeat split. Qed.

(* ================= section 6: the representations, one by one ================= *)
Lemma decode_loop_cons f b0 tl t acc :
  decode_loop (S f) (b0 :: tl) t acc =
  (let buf := b0 :: tl in
   let o := b2n b0 in
   if 128 <=? o then
     match decode_integer buf 7 with
     | None => DErr
     | Some (index, rest) =>
         match get_from_table t index with None => DErr | Some h => decode_loop f rest t (h :: acc) end
     end
   else if 64 <=? o then
     match decode_literal buf t 6 with
     | None => DErr
     | Some (h, rest) => match add_header t h with None => DPanic | Some t' => decode_loop f rest t' (h :: acc) end
     end
   else if 32 <=? o then
     match decode_integer buf 5 with
     | None => DErr
     | Some (n, rest) => match set_max_table_size t n with None => DPanic | Some t' => decode_loop f rest t' acc end
     end
   else
     match decode_literal buf t 4 with
     | None => DErr
     | Some (h, rest) => decode_loop f rest t (h :: acc)
     end).
Proof. reflexivity. Qed.

Lemma mode_shape m : int_shape (mode_prefix m) (mode_pattern m).
Proof. destruct m; unfold int_shape; cbn; auto 10. Qed.

Lemma literal_idx_roundtrip et dt m idx n v v' hv rest :
  tbl_rel et dt -> idx <> 15 -> idx <> 0 -> idx < lim -> et_get et idx = Some (n, v') -> str_ok v hv = true ->
  decode_literal (enc_int idx (mode_prefix m) (mode_pattern m) ++ enc_string v hv ++ rest) dt (mode_prefix m)
  = Some ((n, v), rest).
Proof.
  intros Hrel H15 H0 Hlim Hget Hstr. unfold decode_literal.
  rewrite int_roundtrip by (try assumption; apply mode_shape).
  replace (idx =? 0) with false by lia.
  rewrite (get_agree et dt idx _ Hrel H15 Hget).
  now rewrite string_roundtrip.
Qed.

Lemma literal_new_roundtrip dt m n v hn hv rest :
  str_ok n hn = true -> str_ok v hv = true ->
  decode_literal ([n2b (mode_pattern m)] ++ enc_string n hn ++ enc_string v hv ++ rest) dt (mode_prefix m)
  = Some ((n, v), rest).
Proof.
  intros Hn Hv. unfold decode_literal, decode_integer. cbn [app].
  assert (Hz : b2n (n2b (mode_pattern m)) mod 2 ^ mode_prefix m = 0 /\ (0 <? 2 ^ mode_prefix m - 1) = true).
  { destruct m; cbn [mode_pattern mode_prefix]; rewrite b2n_n2b by lia;
      match goal with |- context [2 ^ ?k] => let v := eval vm_compute in (2 ^ k) in change (2 ^ k) with v end;
      split; lia. }
  destruct Hz as [-> ->]. change (0 =? 0) with true. cbv iota.
  rewrite string_roundtrip by exact Hn. now rewrite string_roundtrip.
Qed.

Lemma enc_item_nonempty it : (1 <= length (enc_item it))%nat.
Proof.
  destruct it as [n | idx n v | m idx n v hv | m n v hn hv]; cbn [enc_item].
  - destruct (enc_int_first n 5 32) as (b & tl & -> & _); [right; left; auto|]. cbn [length]. lia.
  - destruct (enc_int_first idx 7 128) as (b & tl & -> & _); [right; right; right; auto|]. cbn [length]. lia.
  - destruct (enc_int_first idx (mode_prefix m) (mode_pattern m)) as (b & tl & -> & _); [apply mode_shape|].
    cbn [app length]. lia.
  - cbn [app length]. lia.
Qed.

Theorem hpack_roundtrip_from items : forall et dt acc fuel,
  tbl_rel et dt -> items_ok_from et items = true -> k_static15 items = false ->
  (length (hpack_encode items) <= fuel)%nat ->
  exists t, decode_loop fuel (hpack_encode items) dt acc = DOk (rev acc ++ headers_of items) t.
Proof.
  induction items as [|it r IH]; intros et dt acc fuel Hrel Hok H15 Hfuel.
  - exists dt. cbn [hpack_encode flat_map headers_of]. rewrite app_nil_r. destruct fuel; reflexivity.
  - cbn [items_ok_from] in Hok. apply andb_true_iff in Hok. destruct Hok as [Hit Hr].
    cbn [k_static15 existsb] in H15. apply orb_false_iff in H15. destruct H15 as [H15it H15r].
    change (hpack_encode (it :: r)) with (enc_item it ++ hpack_encode r) in *.
    pose proof (enc_item_nonempty it) as Hne. rewrite app_length in Hfuel.
    destruct fuel as [|f]; [lia|].
    assert (Hf : (length (hpack_encode r) <= f)%nat) by lia.
    assert (Hlimv : lim = 268435456) by reflexivity.
    destruct it as [n | idx n v | m idx n v hv | m n v hn hv]; cbn [enc_item item_ok et_apply headers_of item_header] in *.
    + (* size update *)
      destruct (enc_int_first n 5 32) as (b0 & tl & E & Hlo & Hhi); [right; left; auto|].
      change (2 ^ 5) with 32 in Hhi.
      assert (Hbuf : enc_int n 5 32 ++ hpack_encode r = b0 :: (tl ++ hpack_encode r)) by (rewrite E; reflexivity).
      rewrite Hbuf, decode_loop_cons, <- Hbuf. cbv zeta.
      replace (128 <=? b2n b0) with false by lia. replace (64 <=? b2n b0) with false by lia.
      replace (32 <=? b2n b0) with true by lia.
      rewrite int_roundtrip by (try lia; right; left; auto).
      destruct (set_max_rel et dt n Hrel) as (dt' & -> & Hrel').
      apply (IH _ _ _ _ Hrel' Hr H15r Hf).
    + (* indexed *)
      rewrite !andb_true_iff in Hit. destruct Hit as [Hlim Hget].
      destruct (et_get et idx) as [[n' v']|] eqn:Eg; [|discriminate].
      apply andb_true_iff in Hget. destruct Hget as [Hn Hv]. apply bytes_eqb_eq in Hn, Hv. subst n' v'.
      destruct (enc_int_first idx 7 128) as (b0 & tl & E & Hlo & Hhi); [right; right; right; auto|].
      assert (Hbuf : enc_int idx 7 128 ++ hpack_encode r = b0 :: (tl ++ hpack_encode r)) by (rewrite E; reflexivity).
      rewrite Hbuf, decode_loop_cons, <- Hbuf. cbv zeta.
      replace (128 <=? b2n b0) with true by lia.
      rewrite int_roundtrip by (try lia; right; right; right; auto).
      assert (H15n : idx <> 15) by (clear - H15it; lia).
      rewrite (get_agree et dt idx (n, v) Hrel H15n Eg).
      destruct (IH et dt ((n, v) :: acc) f Hrel Hr H15r Hf) as (t & Et).
      exists t. etransitivity; [exact Et|]. cbn [rev]. now rewrite <- app_assoc.
    + (* literal, indexed name *)
      rewrite !andb_true_iff in Hit. destruct Hit as [[[Hlim H0] Hstr] Hget].
      destruct (et_get et idx) as [[n' v']|] eqn:Eg; [|discriminate].
      apply bytes_eqb_eq in Hget. subst n'.
      destruct (enc_int_first idx (mode_prefix m) (mode_pattern m)) as (b0 & tl & E & Hlo & Hhi); [apply mode_shape|].
      rewrite <- app_assoc.
      assert (Hbuf : enc_int idx (mode_prefix m) (mode_pattern m) ++ enc_string v hv ++ hpack_encode r
                     = b0 :: (tl ++ enc_string v hv ++ hpack_encode r)) by (rewrite E; reflexivity).
      rewrite Hbuf, decode_loop_cons, <- Hbuf. cbv zeta.
      assert (Hlit := literal_idx_roundtrip et dt m idx n v v' hv (hpack_encode r) Hrel).
      destruct m; cbn [mode_prefix mode_pattern] in *.
      * change (2 ^ 6) with 64 in Hhi.
        replace (128 <=? b2n b0) with false by lia. replace (64 <=? b2n b0) with true by lia.
        rewrite Hlit by (try assumption; lia).
        destruct (add_header_rel et dt (n, v) Hrel) as (dt' & -> & Hrel').
        destruct (IH _ dt' ((n, v) :: acc) f Hrel' Hr H15r Hf) as (t & Et).
        exists t. etransitivity; [exact Et|]. cbn [rev]. now rewrite <- app_assoc.
      * change (2 ^ 4) with 16 in Hhi.
        replace (128 <=? b2n b0) with false by lia. replace (64 <=? b2n b0) with false by lia.
        replace (32 <=? b2n b0) with false by lia.
        rewrite Hlit by (try assumption; lia).
        destruct (IH _ dt ((n, v) :: acc) f Hrel Hr H15r Hf) as (t & Et).
        exists t. etransitivity; [exact Et|]. cbn [rev]. now rewrite <- app_assoc.
      * change (2 ^ 4) with 16 in Hhi.
        replace (128 <=? b2n b0) with false by lia. replace (64 <=? b2n b0) with false by lia.
        replace (32 <=? b2n b0) with false by lia.
        rewrite Hlit by (try assumption; lia).
        destruct (IH _ dt ((n, v) :: acc) f Hrel Hr H15r Hf) as (t & Et).
        exists t. etransitivity; [exact Et|]. cbn [rev]. now rewrite <- app_assoc.
    + (* literal, new name *)
      apply andb_true_iff in Hit. destruct Hit as [Hsn Hsv].
      rewrite <- !app_assoc.
      assert (Hlit := literal_new_roundtrip dt m n v hn hv (hpack_encode r) Hsn Hsv).
      cbn [app] in *. rewrite decode_loop_cons. cbv zeta.
      destruct m; cbn [mode_prefix mode_pattern] in *; rewrite b2n_n2b by lia.
      * change (128 <=? 64) with false. change (64 <=? 64) with true. cbv iota.
        rewrite Hlit.
        destruct (add_header_rel et dt (n, v) Hrel) as (dt' & -> & Hrel').
        destruct (IH _ dt' ((n, v) :: acc) f Hrel' Hr H15r Hf) as (t & Et).
        exists t. etransitivity; [exact Et|]. cbn [rev]. now rewrite <- app_assoc.
      * change (128 <=? 0) with false. change (64 <=? 0) with false. change (32 <=? 0) with false. cbv iota.
        rewrite Hlit.
        destruct (IH _ dt ((n, v) :: acc) f Hrel Hr H15r Hf) as (t & Et).
        exists t. etransitivity; [exact Et|]. cbn [rev]. now rewrite <- app_assoc.
      * change (128 <=? 16) with false. change (64 <=? 16) with false. change (32 <=? 16) with false. cbv iota.
        rewrite Hlit.
        destruct (IH _ dt ((n, v) :: acc) f Hrel Hr H15r Hf) as (t & Et).
        exists t. etransitivity; [exact Et|]. cbn [rev]. now rewrite <- app_assoc.
Qed.

(* RFC 7541: decoding inverts every encoding of a header list (any mix of indexed fields, literals
   with/without/never indexing, plain or Huffman strings, dynamic-table references and size updates),
   as long as static index 15 is not referenced (the crate's table is wrong there) *)
Theorem hpack_roundtrip items :
  items_ok items = true -> k_static15 items = false ->
  exists t, hpack_decode dt_new (hpack_encode items) = DOk (headers_of items) t.
Proof.
  intros Hok H15. unfold hpack_decode.
  destruct (hpack_roundtrip_from items et_new dt_new [] (length (hpack_encode items)) tbl_rel_new Hok H15 (le_n _)) as (t & E).
  exists t. exact E.
Qed.
