(* Proofs for C02: FingerprintCollection::new + find_best_match (Model/Match.v) = exhaustive scan
   (Spec/ScanSpec.v), for every database and observation. *)
From Coq Require Import List NArith Bool Lia ZifyBool ZifyN.
From Coq Require Import Strings.Byte.
From HN Require Import Base.Bytes Model.SigAst Model.Match Spec.InstanceSpec Spec.ScanSpec Proofs.MatchProofs.
Import ListNotations.
Open Scope N_scope.

(* ------------------------------------------------------------------ positions and lookups *)
Lemma number_from_nth {A} (l : list A) i0 i x :
  In (i, x) (number_from i0 l) -> i0 <= i /\ nth_error l (N.to_nat (i - i0)) = Some x.
Proof.
  revert i0; induction l as [|y l IH]; intros i0 H; [contradiction|].
  cbn [number_from] in H. destruct H as [H|H].
  - inversion H; subst. split; [lia|]. replace (i - i) with 0 by lia. reflexivity.
  - apply IH in H. destruct H as [Hle Hn]. split; [lia|].
    replace (N.to_nat (i - i0)) with (S (N.to_nat (i - (i0 + 1)))) by lia. exact Hn.
Qed.

Lemma flat_map_flat_map {A B C} (f : B -> list C) (g : A -> list B) l :
  flat_map f (flat_map g l) = flat_map (fun x => flat_map f (g x)) l.
Proof. induction l as [|x l IH]; cbn; [reflexivity | rewrite flat_map_app, IH; reflexivity]. Qed.
Lemma flat_map_map {A B C} (f : B -> list C) (g : A -> B) l : flat_map f (map g l) = flat_map (fun x => f (g x)) l.
Proof. induction l as [|x l IH]; cbn; [reflexivity | rewrite IH; reflexivity]. Qed.
Lemma map_flat_map {A B C} (f : B -> C) (g : A -> list B) l : map f (flat_map g l) = flat_map (fun x => map f (g x)) l.
Proof. induction l as [|x l IH]; cbn; [reflexivity | rewrite map_app, IH; reflexivity]. Qed.

Definition state := (option (N * N) * N)%type.
(* one iteration on an accepting candidate *)
Definition astep (st : state) (a : N * N * N) : state :=
  let '(li, si, d) := a in if d <? snd st then (Some (li, si), d) else st.

(* (4) fold_strict_min_first: strict `<` from a state (b0, m0) keeps the first minimum *)
Lemma fold_min_le l a : fold_left N.min l a <= a.
Proof. revert a; induction l as [|x l IH]; intros a; cbn; [lia|]. specialize (IH (N.min a x)). lia. Qed.

Lemma fold_strict_min_first (A : list (N * N * N)) li0 si0 m0 :
  exists li si,
    fold_left astep A (Some (li0, si0), m0) = (Some (li, si), fold_left N.min (map dist_of A) m0)
    /\ find (fun a => dist_of a =? fold_left N.min (map dist_of A) m0) ((li0, si0, m0) :: A)
       = Some (li, si, fold_left N.min (map dist_of A) m0).
Proof.
  revert li0 si0 m0; induction A as [|[[li1 si1] d] A IH]; intros li0 si0 m0.
  - exists li0, si0. cbn. unfold dist_of. cbn. rewrite N.eqb_refl. auto.
  - cbn [fold_left map astep snd]. change (dist_of (li1, si1, d)) with d.
    destruct (d <? m0) eqn:E.
    + destruct (IH li1 si1 d) as (li & si & H1 & H2). exists li, si.
      replace (N.min m0 d) with d by lia. split; [exact H1|].
      set (m := fold_left N.min (map dist_of A) d) in *.
      assert (m <= d) by apply fold_min_le.
      cbn [find]. change (dist_of (li0, si0, m0)) with m0. replace (m0 =? m) with false by lia. exact H2.
    + destruct (IH li0 si0 m0) as (li & si & H1 & H2). exists li, si.
      replace (N.min m0 d) with m0 by lia. split; [exact H1|].
      set (m := fold_left N.min (map dist_of A) m0) in *.
      assert (m <= m0) by apply fold_min_le.
      cbn [find] in *. change (dist_of (li0, si0, m0)) with m0 in *. change (dist_of (li1, si1, d)) with d.
      destruct (m0 =? m) eqn:E0; [exact H2|]. replace (d =? m) with false by lia. exact H2.
Qed.


(* nothing is reported exactly when no entry accepts *)
Lemma scan_none_iff {L Sg O} (distance : Sg -> O -> option N) (score : N -> N) (entries : list (L * list Sg)) o :
  scan distance score entries o = FNone <-> accepting distance entries o = [].
Proof.
  unfold scan. destruct (accepting distance entries o) as [|[[li0 si0] d0] A]; [split; reflexivity|].
  cbn [smallest]. change (dist_of (li0, si0, d0)) with d0.
  destruct (fold_strict_min_first A li0 si0 d0) as (li & si & _ & H2). rewrite H2. split; discriminate.
Qed.

Section Generic.
  Context {L Sg O K : Type}.
  Variable keys_of_sig : Sg -> list K.
  Variable key_of_obs : O -> K.
  Variable key_eqb : K -> K -> bool.
  Variable distance : Sg -> O -> option N.
  Variable score : N -> N.
  Hypothesis key_eqb_eq : forall a b, key_eqb a b = true <-> a = b.
  Variable o : O.                              (* the observation at hand *)
  (* the index never hides an entry that accepts it *)
  Hypothesis covers : forall s d, distance s o = Some d -> existsb (fun k => key_eqb k (key_of_obs o)) (keys_of_sig s) = true.
  (* the sentinel u32::MAX is not a distance *)
  Hypothesis bounded : forall s d, distance s o = Some d -> d < u32_max.

  Notation index := (@index K).

  Definition bucket (k : K) (idx : index) : list (N * N) :=
    match idx_get key_eqb k idx with Some l => l | None => [] end.

  Lemma key_eqb_refl k : key_eqb k k = true.
  Proof. now apply key_eqb_eq. Qed.

  Lemma key_eqb_sym a b : key_eqb a b = key_eqb b a.
  Proof.
    destruct (key_eqb a b) eqn:E1, (key_eqb b a) eqn:E2; try reflexivity.
    - apply key_eqb_eq in E1. subst. rewrite key_eqb_refl in E2. discriminate.
    - apply key_eqb_eq in E2. subst. rewrite key_eqb_refl in E1. discriminate.
  Qed.

  Lemma bucket_push k k' v idx :
    bucket k (idx_push key_eqb k' v idx) = if key_eqb k' k then bucket k idx ++ [v] else bucket k idx.
  Proof.
    unfold bucket. induction idx as [|[k0 l] r IH]; cbn [idx_push idx_get].
    - destruct (key_eqb k' k); reflexivity.
    - destruct (key_eqb k0 k') eqn:E0.
      + apply key_eqb_eq in E0. subst k0. cbn [idx_get]. destruct (key_eqb k' k); reflexivity.
      + cbn [idx_get]. destruct (key_eqb k0 k) eqn:E1.
        * apply key_eqb_eq in E1. subst k0. rewrite key_eqb_sym, E0. reflexivity.
        * exact IH.
  Qed.

  (* how many times an entry is pushed under key k: once per occurrence of k among its keys *)
  Definition copies (k : K) (li si : N) (s : Sg) : list (N * N) :=
    map (fun _ => (li, si)) (filter (fun k' => key_eqb k' k) (keys_of_sig s)).

  Lemma bucket_fold_keys k li si ks idx :
    bucket k (fold_left (fun ix key => idx_push key_eqb key (li, si) ix) ks idx)
    = bucket k idx ++ map (fun _ => (li, si)) (filter (fun k' => key_eqb k' k) ks).
  Proof.
    revert idx; induction ks as [|k' ks IH]; intros idx; cbn [fold_left filter map].
    - now rewrite app_nil_r.
    - rewrite IH, bucket_push. destruct (key_eqb k' k); cbn [map]; [rewrite <- app_assoc|]; reflexivity.
  Qed.

  Lemma bucket_build_sigs k li si sigs idx :
    bucket k (build_sigs keys_of_sig key_eqb li si sigs idx)
    = bucket k idx ++ flat_map (fun p => copies k li (fst p) (snd p)) (number_from si sigs).
  Proof.
    revert si idx; induction sigs as [|s r IH]; intros si idx; cbn [build_sigs number_from flat_map].
    - now rewrite app_nil_r.
    - rewrite IH, bucket_fold_keys, <- app_assoc. reflexivity.
  Qed.

  Definition entry_copies (k : K) (e : N * (L * list Sg)) : list (N * N) :=
    flat_map (fun p => copies k (fst e) (fst p) (snd p)) (number_from 0 (snd (snd e))).

  Lemma bucket_build_entries k li (entries : list (L * list Sg)) idx :
    bucket k (build_entries keys_of_sig key_eqb li entries idx)
    = bucket k idx ++ flat_map (entry_copies k) (number_from li entries).
  Proof.
    revert li idx; induction entries as [|[lb sigs] r IH]; intros li idx; cbn [build_entries number_from flat_map].
    - now rewrite app_nil_r.
    - rewrite IH, bucket_build_sigs, <- app_assoc. reflexivity.
  Qed.

  (* (1) bucket_is_filter: the bucket of k lists, in file order, exactly the entries whose key set contains k
     (each as often as k occurs among its keys) *)
  Lemma bucket_is_filter k (entries : list (L * list Sg)) :
    bucket k (build_index keys_of_sig key_eqb entries)
    = flat_map (fun p => copies k (fst (fst p)) (snd (fst p)) (snd p)) (positions entries).
  Proof.
    unfold build_index. rewrite bucket_build_entries. cbn [bucket idx_get app].
    unfold positions. rewrite flat_map_flat_map. apply flat_map_ext. intros [li [lb sigs]].
    unfold entry_copies. cbn [fst snd]. rewrite flat_map_map. reflexivity.
  Qed.

  (* ---------------------------------------------------------------- the candidate loop *)
  Definition lookup (entries : list (L * list Sg)) (li si : N) : option Sg :=
    match nth_error entries (N.to_nat li) with
    | Some (_, sig_vec) => nth_error sig_vec (N.to_nat si)
    | None => None
    end.

  Lemma lookup_positions entries li si s : In (li, si, s) (positions entries) -> lookup entries li si = Some s.
  Proof.
    unfold positions. rewrite in_flat_map. intros ([li' [lb sigs]] & He & Hs).
    cbn [fst snd] in Hs. rewrite in_map_iff in Hs. destruct Hs as ([si' s'] & E & Hs). cbn [fst snd] in E.
    inversion E; subst. apply number_from_nth in He. apply number_from_nth in Hs.
    destruct He as [_ He], Hs as [_ Hs]. rewrite N.sub_0_r in He, Hs.
    unfold lookup. rewrite He. exact Hs.
  Qed.

  (* one iteration on a resolved candidate *)
  Definition step (st : state) (c : N * N * Sg) : state :=
    let '(li, si, s) := c in
    match distance s o with Some d => astep st (li, si, d) | None => st end.

  Lemma fbm_loop_resolved entries (cs : list (N * N * Sg)) best m :
    (forall li si s, In (li, si, s) cs -> lookup entries li si = Some s) ->
    fbm_loop distance entries o (map fst cs) best m = Some (fold_left step cs (best, m)).
  Proof.
    revert best m; induction cs as [|[[li si] s] cs IH]; intros best m H; [reflexivity|].
    cbn [map fst fbm_loop fold_left].
    assert (Hl := H li si s (or_introl eq_refl)). unfold lookup in Hl.
    destruct (nth_error entries (N.to_nat li)) as [[lb sv]|]; [|discriminate]. rewrite Hl.
    assert (H' : forall li si s, In (li, si, s) cs -> lookup entries li si = Some s) by (intros; apply H; right; assumption).
    unfold step at 2. cbn [astep snd]. destruct (distance s o) as [d|].
    - destruct (d <? m); apply IH; exact H'.
    - apply IH; exact H'.
  Qed.

  Lemma step_idem st c : step (step st c) c = step st c.
  Proof.
    destruct c as [[li si] s]. unfold step. destruct (distance s o) as [d|]; [|reflexivity].
    destruct st as [b m]. unfold astep. cbn [snd]. destruct (d <? m) eqn:E; cbn [snd].
    - rewrite N.ltb_irrefl. reflexivity.
    - rewrite E. reflexivity.
  Qed.

  Lemma fold_step_repeat c n st : fold_left step (repeat c (S n)) st = step st c.
  Proof.
    revert st; induction n as [|n IH]; intros st; [reflexivity|].
    change (repeat c (S (S n))) with (c :: repeat c (S n)). cbn [fold_left]. rewrite IH. apply step_idem.
  Qed.

  (* visiting an entry several times, or skipping entries that do not accept, changes nothing *)
  Lemma fold_step_copies (P : list (N * N * Sg)) (mult : N * N * Sg -> nat) st :
    (forall c d, In c P -> distance (snd c) o = Some d -> (mult c > 0)%nat) ->
    fold_left step (flat_map (fun c => repeat c (mult c)) P) st = fold_left step P st.
  Proof.
    revert st; induction P as [|c P IH]; intros st H; [reflexivity|].
    cbn [flat_map fold_left]. rewrite fold_left_app.
    assert (E : fold_left step (repeat c (mult c)) st = step st c).
    { destruct (mult c) eqn:M.
      - cbn. destruct c as [[li si] s]. unfold step. destruct (distance s o) as [d|] eqn:D; [|reflexivity].
        exfalso. specialize (H (li, si, s) d (or_introl eq_refl) D). lia.
      - apply fold_step_repeat. }
    rewrite E. apply IH. intros c' d Hin. apply H. right. exact Hin.
  Qed.

  Lemma fold_step_accepting (P : list (N * N * Sg)) st :
    fold_left step P st
    = fold_left astep (flat_map (fun p => match distance (snd p) o with
                                          | Some d => [(fst (fst p), snd (fst p), d)] | None => [] end) P) st.
  Proof.
    revert st; induction P as [|[[li si] s] P IH]; intros st; [reflexivity|].
    cbn [flat_map fold_left fst snd]. unfold step at 2. destruct (distance s o) as [d|]; cbn [app fold_left]; apply IH.
  Qed.

  (* ---------------------------------------------------------------- the theorem *)
  Lemma accepting_bounded (entries : list (L * list Sg)) a : In a (accepting distance entries o) -> dist_of a < u32_max.
  Proof.
    unfold accepting. rewrite in_flat_map. intros ([[li si] s] & _ & H). cbn [fst snd] in H.
    destruct (distance s o) as [d|] eqn:D; [|contradiction]. destruct H as [<-|[]]. unfold dist_of. cbn. eapply bounded; eassumption.
  Qed.

  Theorem find_best_match_is_scan (entries : list (L * list Sg)) :
    find_best_match keys_of_sig key_of_obs key_eqb distance score entries o = scan distance score entries o.
  Proof.
    set (k := key_of_obs o).
    set (P := positions entries).
    set (mult := fun c : N * N * Sg => length (filter (fun k' => key_eqb k' k) (keys_of_sig (snd c)))).
    (* the candidates, resolved *)
    assert (Hb : bucket k (build_index keys_of_sig key_eqb entries)
                 = map fst (flat_map (fun c => repeat c (mult c)) P)).
    { rewrite bucket_is_filter. fold P. rewrite map_flat_map. apply flat_map_ext.
      intros [[li si] s]. unfold copies, mult. cbn [fst snd].
      induction (filter _ _) as [|x l IHl]; cbn; [reflexivity | now rewrite IHl]. }
    assert (Hres : forall li si s, In (li, si, s) (flat_map (fun c => repeat c (mult c)) P) -> lookup entries li si = Some s).
    { intros li si s H. apply in_flat_map in H. destruct H as (c & Hc & Hr). apply repeat_spec in Hr. subst c.
      apply lookup_positions. exact Hc. }
    assert (Hloop : fbm_loop distance entries o (bucket k (build_index keys_of_sig key_eqb entries)) None u32_max
                    = Some (fold_left astep (accepting distance entries o) (None, u32_max))).
    { rewrite Hb, (fbm_loop_resolved _ _ _ _ Hres). f_equal.
      rewrite fold_step_copies.
      - rewrite fold_step_accepting. reflexivity.
      - intros [[li si] s] d _ D. cbn [snd] in D. unfold mult. cbn [snd].
        apply covers in D. apply existsb_exists in D. destruct D as (k' & Hin & Hk).
        assert (In k' (filter (fun k' => key_eqb k' k) (keys_of_sig s))) by (apply filter_In; auto).
        destruct (filter _ _); [contradiction | cbn; lia]. }
    (* find_best_match in terms of the bucket *)
    assert (Hf : find_best_match keys_of_sig key_of_obs key_eqb distance score entries o
                 = match fold_left astep (accepting distance entries o) (None, u32_max) with
                   | (Some (li, si), m) => FSome li si m (score m)
                   | (None, _) => FNone end).
    { unfold find_best_match. fold k. unfold bucket in Hloop.
      destruct (idx_get key_eqb k (build_index keys_of_sig key_eqb entries)) as [cands|] eqn:G.
      - destruct cands as [|c cands].
        + cbn [fbm_loop] in Hloop. injection Hloop as Hl. rewrite <- Hl. reflexivity.
        + rewrite Hloop. destruct (fold_left astep _ _) as [[[li si]|] m]; reflexivity.
      - cbn [fbm_loop] in Hloop. injection Hloop as Hl. rewrite <- Hl. reflexivity. }
    rewrite Hf. unfold scan.
    pose proof (accepting_bounded entries) as Hbd.
    destruct (accepting distance entries o) as [|[[li0 si0] d0] A]; [reflexivity|].
    cbn [fold_left astep snd smallest].
    assert (d0 < u32_max) by (apply (Hbd (li0, si0, d0)); left; reflexivity).
    replace (d0 <? u32_max) with true by lia.
    change (dist_of (li0, si0, d0)) with d0.
    destruct (fold_strict_min_first A li0 si0 d0) as (li & si & H1 & H2).
    rewrite H1, H2. reflexivity.
  Qed.

End Generic.

Lemma accepting_nil_iff {L Sg O} (distance : Sg -> O -> option N) (entries : list (L * list Sg)) o :
  accepting distance entries o = [] <-> forall li si s, In (li, si, s) (positions entries) -> distance s o = None.
Proof.
  unfold accepting. split.
  - intros H li si s Hin. destruct (distance s o) as [d|] eqn:D; [|reflexivity].
    assert (X : In (li, si, d) []).
    { rewrite <- H. apply in_flat_map. exists (li, si, s). split; [exact Hin|]. cbn [fst snd]. rewrite D. left; reflexivity. }
    contradiction.
  - intros H. induction (positions entries) as [|[[li si] s] P IH]; [reflexivity|].
    cbn [flat_map fst snd]. rewrite (H li si s (or_introl eq_refl)). apply IH. intros; eapply H; right; eassumption.
Qed.

(* ------------------------------------------------------------------ TCP instance *)
Lemma tcp_key_eqb_eq a b : tcp_key_eqb a b = true <-> a = b.
Proof.
  destruct a as [[v1 l1] p1], b as [[v2 l2] p2]. unfold tcp_key_eqb.
  rewrite !andb_true_iff, ip_version_eqb_eq, bytes_eqb_eq, payload_size_eqb_eq.
  split; [intros [[-> ->] ->]; reflexivity | intros H; inversion H; auto].
Qed.

(* (2) accept_in_bucket *)
Lemma tcp_covers s o d :
  concrete_obs o -> tcp_distance s o = Some d ->
  existsb (fun k => tcp_key_eqb k (tcp_obs_key o)) (tcp_sig_keys s) = true.
Proof.
  intros [Hv Hp] H. rewrite tcp_distance_sum in H.
  destruct (tcp_decisive_mismatch_b s o) eqn:Dm; [discriminate|]. clear H.
  apply not_true_iff_false in Dm. rewrite tcp_decisive_mismatch_b_iff in Dm. unfold tcp_decisive_mismatch in Dm.
  assert (Hver : version_inst (t_version s) (t_version o)).
  { destruct (version_inst_b (t_version s) (t_version o)) eqn:E; [now apply version_inst_b_iff|].
    exfalso. apply Dm. left. rewrite <- version_inst_b_iff. congruence. }
  assert (Hlay : t_olayout o = t_olayout s).
  { destruct (list_eqb tcp_option_eqb (t_olayout o) (t_olayout s)) eqn:E; [now apply olayout_eqb_eq|].
    exfalso. apply Dm. right; left. rewrite <- olayout_eqb_eq. congruence. }
  assert (Hpc : pclass_inst (t_pclass s) (t_pclass o)).
  { destruct (pclass_inst_b (t_pclass s) (t_pclass o)) eqn:E; [now apply pclass_inst_b_iff|].
    exfalso. apply Dm. right; right; right. rewrite <- pclass_inst_b_iff. congruence. }
  apply existsb_exists. exists (tcp_obs_key o). split; [|apply tcp_key_eqb_eq; reflexivity].
  unfold tcp_sig_keys, tcp_obs_key. rewrite Hlay. apply in_flat_map.
  exists (t_version o). split.
  - destruct Hver as [E | E]; [rewrite E | rewrite <- E]; destruct Hv as [-> | ->]; cbn; auto.
  - apply in_map_iff. exists (t_pclass o). split; [reflexivity|].
    destruct Hpc as [E | E]; [rewrite E | rewrite <- E]; destruct Hp as [-> | ->]; cbn; auto.
Qed.

(* (3) distance_bounded *)
Lemma tcp_bounded s o d : tcp_distance s o = Some d -> d < u32_max.
Proof. intros H. apply tcp_distance_le9 in H. unfold u32_max. lia. Qed.
Lemma http_bounded s o d : http_distance s o = Some d -> d < u32_max.
Proof. intros H. apply http_distance_le9 in H. unfold u32_max. lia. Qed.

Theorem tcp_find_best_match_is_scan {L} (db : list (L * list tcp_sig)) (o : tcp_sig) :
  concrete_obs o -> tcp_find_best_match db o = tcp_scan db o.
Proof.
  intros Hc. unfold tcp_find_best_match, tcp_scan. apply find_best_match_is_scan.
  - exact tcp_key_eqb_eq.
  - intros s d H. eapply tcp_covers; eassumption.
  - intros s d H. eapply tcp_bounded; eassumption.
Qed.

Lemma http_covers s o d :
  concrete_http o -> http_distance s o = Some d ->
  existsb (fun k => http_version_eqb k (http_obs_key o)) (http_sig_keys s) = true.
Proof.
  intros Hc H. rewrite http_distance_sum in H.
  destruct (http_decisive_mismatch_b s o) eqn:Dm; [discriminate|]. clear H.
  unfold http_decisive_mismatch_b in Dm. rewrite negb_false_iff in Dm. apply hversion_inst_b_iff in Dm.
  unfold http_sig_keys, http_obs_key, concrete_http in *. destruct Dm as [E | E].
  - rewrite E. cbn. destruct (hs_version o); cbn; try reflexivity. congruence.
  - rewrite <- E. destruct (hs_version o); cbn; try reflexivity. congruence.
Qed.

Theorem http_find_best_match_is_scan {L} (db : list (L * list http_sig)) (o : http_sig) :
  concrete_http o -> http_find_best_match db o = http_scan db o.
Proof.
  intros Hc. unfold http_find_best_match, http_scan. apply find_best_match_is_scan.
  - exact http_version_eqb_eq.
  - intros s d H. eapply http_covers; eassumption.
  - intros s d H. eapply http_bounded; eassumption.
Qed.

(* nothing is reported exactly when no entry accepts *)
Theorem tcp_none_iff {L} (db : list (L * list tcp_sig)) (o : tcp_sig) :
  concrete_obs o ->
  (tcp_find_best_match db o = FNone <-> forall li si s, In (li, si, s) (positions db) -> tcp_distance s o = None).
Proof.
  intros Hc. rewrite (tcp_find_best_match_is_scan db o Hc). unfold tcp_scan.
  rewrite scan_none_iff. apply accepting_nil_iff.
Qed.
Theorem http_none_iff {L} (db : list (L * list http_sig)) (o : http_sig) :
  concrete_http o ->
  (http_find_best_match db o = FNone <-> forall li si s, In (li, si, s) (positions db) -> http_distance s o = None).
Proof.
  intros Hc. rewrite (http_find_best_match_is_scan db o Hc). unfold http_scan.
  rewrite scan_none_iff. apply accepting_nil_iff.
Qed.

(* what is reported is an entry of the database, at its own distance, and no entry is closer; earlier
   entries are strictly farther *)
Theorem scan_some_spec {L Sg O} (distance : Sg -> O -> option N) (score : N -> N) (db : list (L * list Sg)) o li si d q :
  scan distance score db o = FSome li si d q ->
  In (li, si, d) (accepting distance db o) /\ q = score d
  /\ (forall a, In a (accepting distance db o) -> d <= dist_of a).
Proof.
  unfold scan. destruct (accepting distance db o) as [|[[li0 si0] d0] A] eqn:EA; [discriminate|].
  cbn [smallest]. change (dist_of (li0, si0, d0)) with d0.
  set (m := fold_left N.min (map dist_of A) d0).
  destruct (find _ _) as [[[li' si'] d']|] eqn:F; [|discriminate].
  intros H; inversion H; subst. apply find_some in F. destruct F as [Hin Hd]. apply N.eqb_eq in Hd.
  change (dist_of (li, si, d)) with d in Hd. split; [exact Hin|]. split; [reflexivity|].
  intros a Ha. rewrite Hd. unfold m.
  assert (G : forall l x b, (dist_of b = x \/ In b l) -> fold_left N.min (map dist_of l) x <= dist_of b).
  { clear. induction l as [|y l IH]; intros x a [E|I]; cbn [map fold_left].
    - lia.
    - contradiction.
    - pose proof (fold_min_le (map dist_of l) (N.min x (dist_of y))). lia.
    - destruct I as [->|I].
      + pose proof (fold_min_le (map dist_of l) (N.min x (dist_of a))). lia.
      + apply IH. right; exact I. }
  apply G. destruct Ha as [<-|Ha]; [left; reflexivity | right; exact Ha].
Qed.

(* the hypothesis `concrete_obs` is needed: an observation carrying the wildcard version is accepted by a
   wildcard signature in the scan but its key (Any, ..) is never in the index *)
Definition ex_sig (v : ip_version) (t : ttl) (pc : payload_size) : tcp_sig :=
  {| t_version := v; t_ittl := t; t_olen := 0; t_mss := None; t_wsize := WAny; t_wscale := None;
     t_olayout := [OMss; ONop; OWs]; t_quirks := [QDf]; t_pclass := pc |}.
Lemma nonconcrete_obs_differs :
  exists (db : list (unit * list tcp_sig)) o, ~ concrete_obs o /\ tcp_find_best_match db o <> tcp_scan db o.
Proof.
  exists [(tt, [ex_sig IpAny (TtlValue 64) PAnySize])], (ex_sig IpAny (TtlValue 64) PZero). split.
  - intros [[H|H] _]; discriminate.
  - vm_compute. discriminate.
Qed.
Lemma nonconcrete_http_differs :
  exists (db : list (unit * list http_sig)) o, ~ concrete_http o /\ http_find_best_match db o <> http_scan db o.
Proof.
  exists [(tt, [{| hs_version := HVAny; hs_horder := []; hs_habsent := []; hs_expsw := [] |}])],
         {| hs_version := HVAny; hs_horder := []; hs_habsent := []; hs_expsw := [] |}. split.
  - intros H. apply H. reflexivity.
  - vm_compute. discriminate.
Qed.

(* a database with wildcards and a tie: the first of the two closest entries wins, through the index *)
Example tcp_find_best_match_ex :
  let db := [(tt, [ex_sig IpV6 (TtlValue 64) PZero; ex_sig IpAny (TtlValue 128) PAnySize]);
             (tt, [ex_sig IpAny (TtlValue 64) PAnySize; ex_sig IpV4 (TtlValue 64) PZero])] in
  let o := ex_sig IpV4 (TtlDistance 54 10) PZero in
  concrete_obs o /\ tcp_find_best_match db o = FSome 1 0 0 100 /\ tcp_scan db o = FSome 1 0 0 100.
Proof. cbn zeta. split; [split; [left|left]; reflexivity|]. split; vm_compute; reflexivity. Qed.
Example http_find_best_match_ex :
  let sg v sw := {| hs_version := v; hs_horder := [w_hdr false (bs "Host") None; w_hdr true (bs "Accept") None];
                    hs_habsent := []; hs_expsw := sw |} in
  let db := [(tt, [sg HV10 (bs "curl"); sg HVAny (bs "wget")]); (tt, []); (tt, [sg HVAny (bs "curl"); sg HV20 (bs "curl")])] in
  let o := {| hs_version := HV20; hs_horder := [w_hdr false (bs "Host") None]; hs_habsent := []; hs_expsw := bs "curl" |} in
  concrete_http o /\ http_find_best_match db o = FSome 2 0 0 100 /\ http_scan db o = FSome 2 0 0 100.
Proof. cbn zeta. split; [discriminate|]. split; vm_compute; reflexivity. Qed.
