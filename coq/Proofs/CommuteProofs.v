(* C15: a filter in front of an analyzer = the analyzer on the admitted sub-trace. *)
From Coq Require Import List NArith Bool Arith Lia ZifyBool ZifyN ZifyNat.
From Coq Require Import Strings.Byte.
From HN Require Import Base.Bytes Model.Filter Model.RawFrame Model.FilterGlue
     Spec.FilterSpec Spec.CommuteSpec Proofs.FilterProofs Proofs.RawFrameProofs.
Import ListNotations.
Open Scope N_scope.
Local Arguments skipn : simpl never.
Local Arguments firstn : simpl never.

Lemma v4_at_wf p i : ip_wf (v4_at p i) = true.
Proof.
  unfold v4_at, ip_wf. pose proof (be_N_slice_bound p i 4) as H.
  assert (E : 256 ^ N.of_nat 4 = 2 ^ 32) by reflexivity. rewrite E in H. lia.
Qed.
Lemma v6_at_wf p i : ip_wf (v6_at p i) = true.
Proof.
  unfold v6_at, ip_wf. pose proof (be_N_slice_bound p i 16) as H.
  assert (E : 256 ^ N.of_nat 16 = 2 ^ 128) by reflexivity. rewrite E in H. lia.
Qed.

Lemma view_endpoints_wf v e :
  view_endpoints v = Some e -> ip_wf (e_src e) = true /\ ip_wf (e_dst e) = true.
Proof.
  destruct v as [ip|ip]; cbn [view_endpoints].
  - destruct (negb (byte_at ip 9 =? 6)); [discriminate|].
    destruct (length (ipv4_payload ip) <? 20)%nat; [discriminate|].
    intros H; injection H as <-. cbn [e_src e_dst]. split; apply v4_at_wf.
  - destruct (negb (byte_at ip 6 =? 6)); [discriminate|].
    destruct (length (ipv6_payload ip) <? 20)%nat; [discriminate|].
    intros H; injection H as <-. cbn [e_src e_dst]. split; apply v6_at_wf.
Qed.

Lemma analyzer_endpoints_wf f e :
  analyzer_endpoints f = Some e -> ip_wf (e_src e) = true /\ ip_wf (e_dst e) = true.
Proof.
  unfold analyzer_endpoints. destruct (parse_packet f) as [[l v]|]; [|discriminate].
  apply view_endpoints_wf.
Qed.

(* the pre-parse filter decides the documented rule on the analyzer's own endpoints *)
Lemma raw_apply_spec c f e :
  cfg_wf c = true -> analyzer_endpoints f = Some e ->
  raw_apply (build c) f = spec_passes c e.
Proof.
  intros Hc Ha. unfold raw_apply. rewrite (quick_agrees f e Ha).
  destruct (analyzer_endpoints_wf f e Ha) as [Hs Hd].
  unfold spec_passes. rewrite <- (filter_model_spec c _ _ _ _ Hc Hs Hd). reflexivity.
Qed.

Lemma filter_comm {A} (P Q : A -> bool) l : filter P (filter Q l) = filter Q (filter P l).
Proof.
  induction l as [|x l IH]; [reflexivity|]. cbn [filter].
  destruct (Q x) eqn:EQ, (P x) eqn:EP; cbn [filter]; rewrite ?EQ, ?EP, IH; reflexivity.
Qed.

Section Commute.
  Variables (St Out : Type).
  Variable step : St -> bytes -> St * list Out.
  (* a frame for which the analyzer's own decode yields no endpoints never reaches the protocol
     logic: state unchanged, nothing reported *)
  Hypothesis step_inert : forall s p, analyzer_endpoints p = None -> step s p = (s, []).

  Lemma with_filter_step c s p :
    cfg_wf c = true ->
    with_filter (build c) step s p = if spec_admits c p then step s p else (s, []).
  Proof.
    intros Hc. unfold with_filter, spec_admits.
    destruct (analyzer_endpoints p) as [e|] eqn:Ea.
    - now rewrite (raw_apply_spec c p e Hc Ea).
    - rewrite (step_inert s p Ea). now destruct (raw_apply (build c) p).
  Qed.

  Theorem commute c : cfg_wf c = true -> forall tau s,
    run (with_filter (build c) step) s tau = run step s (admitted_subtrace c tau).
  Proof.
    intros Hc. unfold admitted_subtrace.
    induction tau as [|p t IH]; intros s; [reflexivity|].
    cbn [run filter]. rewrite (with_filter_step c s p Hc).
    destruct (spec_admits c p).
    - cbn [run]. destruct (step s p) as [s1 o1]. rewrite IH. reflexivity.
    - rewrite IH. destruct (run step s (filter (spec_admits c) t)). reflexivity.
  Qed.

  (* each worker of a pool runs the same glue over the frames sharded to it *)
  Corollary commute_worker c (shard : bytes -> nat) (w : nat) : cfg_wf c = true -> forall tau s,
    let mine := filter (fun p => Nat.eqb (shard p) w) in
    run (with_filter (build c) step) s (mine tau) = run step s (mine (admitted_subtrace c tau)).
  Proof.
    intros Hc tau s mine. unfold mine, admitted_subtrace.
    rewrite filter_comm. apply (commute c Hc).
  Qed.
End Commute.

(* the glue of lib.rs / parallel.rs satisfies the hypothesis by construction *)
Lemma analyse_inert {St Out} (core : St -> endpoints -> bytes -> St * list Out) s p :
  analyzer_endpoints p = None -> analyse core s p = (s, []).
Proof. unfold analyse. now intros ->. Qed.

Theorem commute_glue {St Out} (core : St -> endpoints -> bytes -> St * list Out) c :
  cfg_wf c = true -> forall tau s,
  run (process_packet core (Some (build c))) s tau
  = run (process_packet core None) s (admitted_subtrace c tau).
Proof.
  intros Hc tau s. exact (commute St Out (analyse core) (analyse_inert core) c Hc tau s).
Qed.

Lemma admitted_subtrace_sound c tau p : In p (admitted_subtrace c tau) -> In p tau /\ spec_admits c p = true.
Proof. unfold admitted_subtrace. apply filter_In. Qed.

(* ---------- regression: the former known class (fixed by 3908c86) ---------- *)
Definition hexb (s : bytes) : bytes := match read_hex s with Some b => b | None => [] end.
(* 1e 00 00 00 | IPv4 10.0.0.1 -> 10.0.0.2, TCP 12345 -> 80, SYN: used to fail open *)
Definition loopback_v4_frame : bytes :=
  hexb (bs "1e0000004500002800004000400600000a0000010a0000023039005000000000000000005002ffff00000000").
Definition only_dst_443 : cfg_src :=
  {| c_deny := false; c_port := Some [PDst 443]; c_ip := None; c_sub := None |}.

Lemma loopback_frame_facts :
  cfg_wf only_dst_443 = true /\
  analyzer_endpoints loopback_v4_frame
  = Some {| e_src := V4 167772161; e_dst := V4 167772162; e_sport := 12345; e_dport := 80 |} /\
  quick_info loopback_v4_frame = analyzer_endpoints loopback_v4_frame /\
  raw_apply (build only_dst_443) loopback_v4_frame = false /\
  spec_admits only_dst_443 loopback_v4_frame = false.
Proof. vm_compute. repeat split; reflexivity. Qed.
