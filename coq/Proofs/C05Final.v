(* C05 proofs, part 5: the complete request theorem, and the witnesses of the known classes. *)
From Coq Require Import List NArith Bool Lia Arith.
From Coq Require Import Strings.Byte.
From HN Require Import Base.Bytes Base.Http1Text Model.SigAst Model.Http1 Model.Lang Model.Http1Obs
  Gen.HeaderLists Spec.Http1Grammar Proofs.Http1TextProofs Proofs.Http1Proofs Proofs.Http1ObsProofs
  Proofs.LangProofs Proofs.CookieProofs.
Import ListNotations.
Open Scope N_scope.

Lemma supported_in_gate : forallb (fun x => mem_bytes x gate_methods) supported_methods = true.
Proof. vm_compute. reflexivity. Qed.
Lemma gate_method me : In me supported_methods -> mem_bytes me gate_methods = true.
Proof. intros H. pose proof supported_in_gate as S. rewrite forallb_forall in S. now apply S. Qed.

Lemma line_ok_special h : line_ok true h = true ->
  (named (bs "accept-language") h = true -> exists items, hl_value h = VLang items /\ items_ok items = true) /\
  (named (bs "cookie") h = true -> exists b, hl_value h = VRaw b /\ plain_ws b = true).
Proof.
  unfold line_ok, value_ok. intros H. repeat (apply andb_true_iff in H as [H ?]).
  match goal with X : raw_ok _ && _ = true |- _ => apply andb_true_iff in X as [_ X]; rename X into Hv end.
  cbn [andb] in *. split; intros N; rewrite N in *.
  - destruct (hl_value h) as [b|items]; [discriminate|]. now exists items.
  - destruct (hl_value h) as [b|items]; [|discriminate]. now exists b.
Qed.

Lemma fold_add_joined : forall r a, fold_left add_joined r (Some a) = Some (fold_left join2 r a).
Proof.
  induction r as [|w r IH]; intros a; [reflexivity|]. cbn [fold_left].
  change (add_joined (Some a) w) with (Some (join2 a w)). apply IH.
Qed.

Lemma expect_request_unfold m me t v :
  expect_request m me t v =
  let reported := spec_reported m in
  let ua := first_named (bs "user-agent") reported in
  {| q_method := me; q_uri := t; q_headers := reported;
     q_cookies := number_cookies
        (flat_map (fun h => cookie_pairs (render_value (hl_value h))) (filter (named (bs "cookie")) (m_headers m))) O;
     q_referer := option_map (fun h => render_value (hl_value h)) (find (named (bs "referer")) (m_headers m));
     q_user_agent := ua;
     q_lang := match find (named (bs "accept-language")) (m_headers m) with
               | Some h => match hl_value h with VLang items => spec_lang items | VRaw _ => LNone end
               | None => LNone end;
     q_sig := {| hs_version := if v then HV11 else HV10;
                 hs_horder := map (p0f_entry request_optional_headers request_skip_value_headers) reported;
                 hs_habsent := p0f_absent request_common_headers reported;
                 hs_expsw := software ua |} |}.
Proof. reflexivity. Qed.

Lemma al_not_split_out h : eq_lower (hd_name h) (bs "accept-language") = true -> negb (is_cookie_or_referer h) = true.
Proof.
  unfold eq_lower. intros H. apply bytes_eqb_eq in H. unfold is_cookie_or_referer, eq_lower. rewrite H. reflexivity.
Qed.

Lemma observe_request_spec m me t v : wf m = true -> m_start m = SReq me t v ->
  observe_request (req_of m me t v) = expect_request m me t v.
Proof.
  intros W Es.
  assert (R : is_request m = true) by (unfold is_request; now rewrite Es).
  destruct (wf_parts m W) as (_ & _ & Hl & Href). specialize (Href R). rewrite R in Hl.
  pose proof (model_headers_ok _ _ O Hl) as Hok. fold (model_headers m) in Hok.
  pose proof (spec_reported_ok m W) as Rok.
  rewrite expect_request_unfold. cbv zeta.
  unfold observe_request, req_of. cbv zeta.
  cbn [r_method r_uri r_version r_headers r_cookies r_referer r_user_agent r_accept_language].
  rewrite (first_value_filter (bs "accept-language")) by apply al_not_split_out.
  rewrite reported_headers by exact W.
  rewrite (horder_p0f true), (habsent_p0f true) by exact Rok.
  rewrite (first_value_named (bs "user-agent")) by (reflexivity || exact Rok).
  (* referer *)
  rewrite (last_value_unique (bs "referer")); [| reflexivity | exact Hok | unfold model_headers; rewrite count_model_headers; lia].
  rewrite first_named_model.
  (* cookies *)
  assert (Ck : match joined_value (bs "cookie") (model_headers m) with Some c => parse_cookies c | None => [] end
             = number_cookies (flat_map (fun h => cookie_pairs (render_value (hl_value h)))
                 (filter (named (bs "cookie")) (m_headers m))) O).
  { unfold joined_value. rewrite joined_fold_vals by (reflexivity || exact Hok).
    unfold model_headers. rewrite vals_model_headers.
    set (cs := filter (named (bs "cookie")) (m_headers m)).
    assert (Pc : Forall (fun v => plain_ws v = true) (map (fun h => render_value (hl_value h)) cs)).
    { apply Forall_map. apply Forall_forall. intros h Hin. unfold cs in Hin. apply filter_In in Hin as [Hin Hn].
      rewrite Forall_forall in Hl. destruct (line_ok_special h (Hl h Hin)) as [_ Hc]. destruct (Hc Hn) as (b & Eb & Pb).
      now rewrite Eb. }
    pose proof (cookie_join_split _ Pc) as J.
    match goal with |- match ?X with _ => _ end = _ =>
      assert (E : X = joinl (map (fun h => render_value (hl_value h)) cs)) end.
    { destruct (map (fun h => render_value (hl_value h)) cs) as [|v0 r]; [reflexivity|]. cbn [fold_left joinl].
      change (add_joined None v0) with (Some v0). apply fold_add_joined. }
    rewrite E, J. now rewrite flat_map_concat_map, map_map, <- flat_map_concat_map. }
  rewrite Ck. clear Ck.
  (* language *)
  rewrite (first_value_named (bs "accept-language")) by (reflexivity || exact Hok).
  rewrite first_named_model.
  assert (Lg : match option_map (fun h => render_value (hl_value h)) (find (named (bs "accept-language")) (m_headers m)) with
               | Some al => get_highest_quality_language al | None => LNone end
             = match find (named (bs "accept-language")) (m_headers m) with
               | Some h => match hl_value h with VLang items => spec_lang items | VRaw _ => LNone end
               | None => LNone end).
  { destruct (find (named (bs "accept-language")) (m_headers m)) as [h|] eqn:F; [|reflexivity].
    apply find_some in F as [Hin Hn]. rewrite Forall_forall in Hl.
    destruct (line_ok_special h (Hl h Hin)) as [Ha _]. destruct (Ha Hn) as (items & Ei & Oi).
    cbn [option_map]. rewrite Ei in *. now apply lang_is_argmax_first. }
  rewrite Lg. clear Lg.
  unfold version_of, expsw_of, software. destruct v; reflexivity.
Qed.

Theorem request_faithful m me t v body : wf m = true -> m_start m = SReq me t v -> known m = false ->
  analyse_request (render m ++ body) = Ok (expect_request m me t v).
Proof.
  intros W Es _.
  rewrite (analyse_request_render m me t v) by assumption.
  destruct (wf_parts m W) as (Hs & _). rewrite Es in Hs. cbn [start_ok] in Hs.
  repeat (apply andb_true_iff in Hs as [Hs ?]). apply mem_bytes_In in Hs.
  rewrite (gate_method me Hs).
  now rewrite observe_request_spec.
Qed.

Theorem request_faithful_all m me t v body : wf m = true -> m_start m = SReq me t v ->
  analyse_request (render m ++ body) = Ok (expect_request m me t v).
Proof. intros W Es. now apply request_faithful. Qed.

(* ---------- witnesses: each known class contains a well-formed message the code misreports ---------- *)
Definition hraw (n v : bytes) : hline := {| hl_name := n; hl_ows1 := [sp]; hl_value := VRaw v; hl_ows2 := [] |}.
Definition item (pre tag : bytes) (w : option (bytes * bytes * bytes)) (post : bytes) (up : bool) : lang_item :=
  {| li_pre := pre; li_tag := tag; li_weight := w; li_post := post; li_qupper := up |}.
Definition hlang (items : list lang_item) : hline :=
  {| hl_name := bs "Accept-Language"; hl_ows1 := [sp]; hl_value := VLang items; hl_ows2 := [] |}.
Definition get_msg (me : bytes) (hs : list hline) : msg := {| m_start := SReq me (bs "/") true; m_headers := hs |}.

Definition refuted (m : msg) : Prop :=
  wf m = true /\
  match m_start m with
  | SReq me t v => analyse_request (render m) <> Ok (expect_request m me t v)
  | SResp _ _ _ => False end.

Ltac refute := split; [vm_compute; reflexivity |
  cbn [m_start get_msg]; intros H; apply (f_equal (show_result show_req)) in H; vm_compute in H; discriminate H].

(* two Cookie headers (repaired: their cookies are reported in wire order) *)
Definition w_cookies : msg := get_msg (bs "GET") [hraw (bs "Host") (bs "a"); hraw (bs "Cookie") (bs "a=b"); hraw (bs "Cookie") (bs "c=d")].
Lemma cookies_former_witness_agrees :
  wf w_cookies = true /\ known w_cookies = false /\
  analyse_request (render w_cookies) = Ok (expect_request w_cookies (bs "GET") (bs "/") true).
Proof. vm_compute. repeat split; reflexivity. Qed.

(* "fr;Q=0.1,en;q=0.9": the literal "Q=" (ABNF literals are case-insensitive); repaired: read as 0.1 *)
Definition w_upper_q : msg :=
  get_msg (bs "GET") [hlang [item [] (bs "fr") (Some ([], [], bs "0.1")) [] true; item [] (bs "en") (Some ([], [], bs "0.9")) [] false]].
Lemma upper_q_former_witness_agrees :
  wf w_upper_q = true /\ known w_upper_q = false /\
  analyse_request (render w_upper_q) = Ok (expect_request w_upper_q (bs "GET") (bs "/") true).
Proof. vm_compute. repeat split; reflexivity. Qed.

(* the former classes are inside the theorem now: witnesses of the repaired defects *)
Definition w_method : msg := get_msg (bs "REPORT") [hraw (bs "Host") (bs "a")].
Definition w_weight_ows : msg :=
  get_msg (bs "GET") [hlang [item [] (bs "fr") (Some ([], [sp], bs "0.1")) [] false; item [sp] (bs "en") (Some ([sp], [tab], bs "0.9")) [sp] false;
                             item [] (bs "de") None [] false]].
Definition w_tag_case : msg := get_msg (bs "GET") [hlang [item [] (bs "EN") None [] false]].
Example repaired_classes_ok :
  forallb (fun m => wf m && negb (known m)) [w_method; w_weight_ows; w_tag_case] = true.
Proof. vm_compute. reflexivity. Qed.

(* ---------- the hypotheses of the theorems are satisfiable on non-trivial inputs ---------- *)
Definition ex_request : msg :=
  get_msg (bs "POST") [hraw (bs "Host") (bs "example.com"); hraw (bs "user-agent") (bs "curl/8.4.0");
                  {| hl_name := bs "COOKIE"; hl_ows1 := [sp; tab]; hl_value := VRaw (bs "sid=1; theme=dark;flag"); hl_ows2 := [sp] |};
                  hraw (bs "Referer") (bs "http://a/"); hraw (bs "X-Note") (bs "caf  tab	inside");
                  hlang [item [] (bs "xx") None [] false; item [sp] (bs "En-US") (Some ([sp], [sp; tab], bs "0.8")) [sp] false;
                         item [] (bs "FR") (Some ([], [], bs "0.9")) [] false];
                  hraw (bs "Host") (bs "dup")].
Example ex_request_ok : wf ex_request = true /\ known ex_request = false /\ is_request ex_request = true.
Proof. vm_compute. repeat split; reflexivity. Qed.
Definition ex_response : msg :=
  {| m_start := SResp false (bs "404") (bs "Not Found");
     m_headers := [hraw (bs "Server") (bs "nginx"); hraw (bs "Content-Type") (bs "text/html"); hraw (bs "Set-Cookie") (bs "a=b"); hraw (bs "server") (bs "second")] |}.
Example ex_response_ok : wf ex_response = true /\ is_request ex_response = false.
Proof. vm_compute. split; reflexivity. Qed.
