(* C09: the specification itself reports each message at most once per connection and only on an
   event of the direction that sent it (so, by C09_inorder, does the model on its domain). *)
From Coq Require Import List NArith Bool Lia.
From Coq Require Import Strings.Byte.
From HN Require Import Base.Bytes Base.Tcp Spec.StreamSpec Proofs.StreamProofs.
Import ListNotations.
Open Scope N_scope.

Section SpecProps.
  Context {Req Resp : Type}.
  Variable parse_req : bytes -> option Req.
  Variable parse_resp : bytes -> option Resp.

  Definition is_req (o : hout Req Resp) : bool := match o with OReq _ => true | _ => false end.
  Definition is_resp (o : hout Req Resp) : bool := match o with OResp _ => true | _ => false end.

  (* ---- attribution ---- *)
  Definition dir_ok (e : event) (o : hout Req Resp) : Prop :=
    match o with OReq _ => e_client e = true | OResp _ => e_client e = false | ONone => True end.

  Lemma sstep_dir cs e : dir_ok e (snd (fst (sstep parse_req parse_resp cs e))).
  Proof.
    unfold sstep. destruct (conn_lookup (e_conn e) cs) as [c|].
    - destruct (e_syn e).
      + destruct (e_client e), (d_isn (sc_s c)), (e_pay e); exact I.
      + destruct (e_pay e); [exact I|].
        destruct (e_client e) eqn:Hc.
        * destruct (d_isn (sc_c c)); [|exact I]. destruct (dir_data _ _ _ _ _) as [d [q|]]; cbn; auto.
        * destruct (d_isn (sc_s c)); [|exact I]. destruct (dir_data _ _ _ _ _) as [d [q|]]; cbn; auto.
    - destruct (_ && _); exact I.
  Qed.

  Theorem spec_direction tr : forall cs, Forall2 dir_ok tr (fst (srun parse_req parse_resp cs tr)).
  Proof.
    induction tr as [|e tr IH]; intros cs; cbn; [constructor|].
    pose proof (sstep_dir cs e) as H.
    destruct (sstep parse_req parse_resp cs e) as [[cs1 o] ok]. cbn in H.
    specialize (IH cs1). destruct (srun parse_req parse_resp cs1 tr) as [os ok2]. cbn in *.
    constructor; assumption.
  Qed.

  (* ---- at most once ---- *)
  Definition cdone (id : N) (cs : list sconn) : bool :=
    match conn_lookup id cs with Some c => d_done (sc_c c) | None => false end.
  Definition sdone (id : N) (cs : list sconn) : bool :=
    match conn_lookup id cs with Some c => d_done (sc_s c) | None => false end.

  Fixpoint count_of (sel : hout Req Resp -> bool) (id : N) (tr : list event) (os : list (hout Req Resp)) : nat :=
    match tr, os with
    | e :: tr', o :: os' => ((if (e_conn e =? id) && sel o then 1 else 0) + count_of sel id tr' os')%nat
    | _, _ => O
    end.

  Lemma dir_data_done {R} (parse : bytes -> option R) d isn seq pay d' r :
    dir_data parse d isn seq pay = (d', r) ->
    (d_done d = true -> d' = d /\ r = None) /\ (r <> None -> d_done d = false /\ d_done d' = true) /\
    (d_done d = true -> d_done d' = true).
  Proof.
    unfold dir_data. destruct (d_done d) eqn:D.
    - intros [= <- <-]. repeat split; auto; congruence.
    - destruct (all_placed _ _ _).
      + intros [= <- <-]. repeat split; auto; congruence.
      + destruct (parse _); intros [= <- <-]; cbn; repeat split; auto; congruence.
  Qed.

  (* what one step does to the done flags of connection id and to the report *)
  Lemma sstep_once cs e id :
    let '(cs1, o, _) := sstep parse_req parse_resp cs e in
    (cdone id cs = true -> cdone id cs1 = true /\ ((e_conn e =? id) && is_req o = false)) /\
    ((e_conn e =? id) && is_req o = true -> cdone id cs1 = true) /\
    (sdone id cs = true -> sdone id cs1 = true /\ ((e_conn e =? id) && is_resp o = false)) /\
    ((e_conn e =? id) && is_resp o = true -> sdone id cs1 = true).
  Proof.
    unfold sstep. destruct (conn_lookup (e_conn e) cs) as [c|] eqn:L.
    - pose proof (lookup_id _ _ _ L) as Hid.
      assert (Hrep : forall c', sc_id c' = e_conn e ->
                (cdone id (conn_replace c' cs) = if e_conn e =? id then d_done (sc_c c') else cdone id cs) /\
                (sdone id (conn_replace c' cs) = if e_conn e =? id then d_done (sc_s c') else sdone id cs)).
      { intros c' Hc'. unfold cdone, sdone. destruct (e_conn e =? id) eqn:E.
        - apply N.eqb_eq in E. subst id. now rewrite (lookup_replace_same _ cs c c' L Hc').
        - apply N.eqb_neq in E. rewrite lookup_replace_other by congruence. auto. }
      assert (Hcur : (e_conn e =? id) = true -> cdone id cs = d_done (sc_c c) /\ sdone id cs = d_done (sc_s c)).
      { intros E. apply N.eqb_eq in E. subst id. unfold cdone, sdone. now rewrite L. }
      destruct (e_syn e).
      + destruct (e_client e), (d_isn (sc_s c)) eqn:Hn, (e_pay e); cbn [is_req is_resp andb]; rewrite ?andb_false_r;
          try (repeat split; auto; discriminate).
        destruct (Hrep (mkConn (sc_id c) (sc_c c) (mkDir (Some (e_seq e)) (d_map (sc_s c)) (d_recv (sc_s c)) (d_done (sc_s c)) (d_segs (sc_s c)))) Hid) as [H1 H2].
        rewrite H1, H2. cbn [sc_c sc_s d_done].
        destruct (e_conn e =? id) eqn:E; [destruct (Hcur eq_refl) as [-> ->]|]; repeat split; auto; discriminate.
      + destruct (e_pay e) as [|b r]; cbn [is_req is_resp andb]; rewrite ?andb_false_r;
          [repeat split; auto; discriminate|].
        destruct (e_client e).
        * destruct (d_isn (sc_c c)) as [isn|]; [|cbn; rewrite ?andb_false_r; repeat split; auto; discriminate].
          destruct (dir_data parse_req (sc_c c) isn (e_seq e) (b :: r)) as [d ro] eqn:DD.
          destruct (dir_data_done _ _ _ _ _ _ _ DD) as (A1 & A2 & A3).
          destruct (Hrep (mkConn (sc_id c) d (sc_s c)) Hid) as [H1 H2]. rewrite H1, H2. cbn [sc_c sc_s].
          destruct (e_conn e =? id) eqn:E.
          -- destruct (Hcur eq_refl) as [-> ->]. cbn [andb].
             destruct ro as [q|]; cbn [is_req is_resp].
             ++ destruct (A2 ltac:(discriminate)) as [B1 B2]. rewrite B1, B2. repeat split; auto; discriminate.
             ++ repeat split; auto; try discriminate; try (intros D; split; [now apply A3 | reflexivity]); try (intros D; now apply A3).
          -- cbn [andb]. repeat split; auto; discriminate.
        * destruct (d_isn (sc_s c)) as [isn|]; [|cbn; rewrite ?andb_false_r; repeat split; auto; discriminate].
          destruct (dir_data parse_resp (sc_s c) isn (e_seq e) (b :: r)) as [d ro] eqn:DD.
          destruct (dir_data_done _ _ _ _ _ _ _ DD) as (A1 & A2 & A3).
          destruct (Hrep (mkConn (sc_id c) (sc_c c) d) Hid) as [H1 H2]. rewrite H1, H2. cbn [sc_c sc_s].
          destruct (e_conn e =? id) eqn:E.
          -- destruct (Hcur eq_refl) as [-> ->]. cbn [andb].
             destruct ro as [q|]; cbn [is_req is_resp].
             ++ destruct (A2 ltac:(discriminate)) as [B1 B2]. rewrite B1, B2. repeat split; auto; discriminate.
             ++ repeat split; auto; try discriminate; try (intros D; split; [now apply A3 | reflexivity]); try (intros D; now apply A3).
          -- cbn [andb]. repeat split; auto; discriminate.
    - destruct (_ && _) eqn:C; cbn [is_req is_resp andb]; rewrite ?andb_false_r.
      + unfold cdone, sdone. cbn [conn_lookup sc_id sc_c sc_s dir_new d_done].
        destruct (e_conn e =? id) eqn:E.
        * apply N.eqb_eq in E. subst id. rewrite L. repeat split; auto; discriminate.
        * repeat split; auto; discriminate.
      + repeat split; auto; discriminate.
  Qed.

  Lemma spec_once_gen tr : forall cs id,
    (count_of is_req id tr (fst (srun parse_req parse_resp cs tr)) <= (if cdone id cs then 0 else 1))%nat /\
    (count_of is_resp id tr (fst (srun parse_req parse_resp cs tr)) <= (if sdone id cs then 0 else 1))%nat.
  Proof.
    induction tr as [|e tr IH]; intros cs id; cbn [srun].
    - cbn. destruct (cdone id cs), (sdone id cs); lia.
    - pose proof (sstep_once cs e id) as H.
      destruct (sstep parse_req parse_resp cs e) as [[cs1 o] ok].
      destruct H as (Q1 & Q2 & R1 & R2).
      destruct (IH cs1 id) as [IQ IR].
      destruct (srun parse_req parse_resp cs1 tr) as [os ok2]. cbn [fst count_of] in *.
      split.
      + destruct (cdone id cs) eqn:D.
        * destruct (Q1 eq_refl) as [D1 Z]. rewrite Z. rewrite D1 in IQ. lia.
        * destruct ((e_conn e =? id) && is_req o) eqn:Z.
          -- rewrite (Q2 eq_refl) in IQ. lia.
          -- destruct (cdone id cs1); lia.
      + destruct (sdone id cs) eqn:D.
        * destruct (R1 eq_refl) as [D1 Z]. rewrite Z. rewrite D1 in IR. lia.
        * destruct ((e_conn e =? id) && is_resp o) eqn:Z.
          -- rewrite (R2 eq_refl) in IR. lia.
          -- destruct (sdone id cs1); lia.
  Qed.

  Theorem spec_at_most_once tr id :
    (count_of is_req id tr (spec_outs parse_req parse_resp tr) <= 1)%nat /\
    (count_of is_resp id tr (spec_outs parse_req parse_resp tr) <= 1)%nat.
  Proof. unfold spec_outs. destruct (spec_once_gen tr [] id) as [A B]. cbn in A, B. auto. Qed.
End SpecProps.
