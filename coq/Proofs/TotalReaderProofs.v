(* C01 (b) -- TlsClientHelloReader::add_bytes never panics, whatever the chunk, the reader state and the
   behaviour of the record parser behind it. *)
From Coq Require Import List NArith Bool Lia ZifyBool ZifyN.
From Coq Require Import Strings.Byte.
From HN Require Import Base.Bytes Model.TotalBase Model.TotalReader Proofs.TotalBaseProofs.
Import ListNotations.
Open Scope N_scope.

Lemma add_bytes_ok parse st data : exists st' o, add_bytes parse st data = Ok (st', o).
Proof.
  unfold add_bytes. destruct (r_sig st); [eauto|]. cbv zeta.
  set (buf := r_buf st ++ data).
  destruct (len buf <? 5) eqn:E5; [eauto|].
  ok_idx buf 0. ok_idx buf 3. ok_idx buf 4.
  destruct (negb (b2n b =? 22)); [eauto|].
  destruct (len buf <? sat_add usize_max (be16 b0 b1) 5) eqn:En; [eauto|].
  destruct (65536 <? sat_add usize_max (be16 b0 b1) 5); [eauto|].
  ok_slice buf 0 (sat_add usize_max (be16 b0 b1) 5).
  destruct (parse s); eauto.
  ok_slice buf (sat_add usize_max (be16 b0 b1) 5) (len buf). eauto.
Qed.

Lemma add_bytes_nopanic parse st data : add_bytes parse st data <> Panic.
Proof. destruct (add_bytes_ok parse st data) as (s & o & ->). discriminate. Qed.
Lemma add_bytes_terminates parse st data : add_bytes parse st data <> OutOfFuel.
Proof. destruct (add_bytes_ok parse st data) as (s & o & ->). discriminate. Qed.

(* any sequence of chunks on one reader, any parse outcomes *)
Lemma feed_ok : forall chunks st, exists l, feed st chunks = Ok l.
Proof.
  induction chunks as [|[c o] rest IH]; intros st; cbn [feed]; [eauto|].
  destruct (add_bytes_ok (fun _ => o) st c) as (s' & r & E). rewrite E. cbn [bind fst snd].
  destruct (IH s') as (l & El). rewrite El. cbn [bind]. eauto.
Qed.
