(* C03 proofs, part 4: quirks.  Membership of each of the 17 quirks in the list the code builds is its
   header condition (quirk_<q>_iff, collected in memq_hq4 / memq_hq6 / memq_hqt / memq_optq), and a
   quirk list in canonical order without duplicates (outside K4) is determined by its members. *)
From Coq Require Import List NArith Bool Lia ZifyBool ZifyN.
From Coq Require Import Strings.Byte.
From HN Require Import Base.Bytes Model.SigAst Model.Pnet Model.TcpExtract Spec.P0fTcp Proofs.C03Bytes Proofs.C03Options.
Import ListNotations.
Open Scope N_scope.

Definition memq (q : quirk) (l : list quirk) : bool := existsb (quirk_eqb q) l.

Lemma quirk_eqb_eq a b : quirk_eqb a b = true <-> a = b.
Proof. split; [destruct a, b; vm_compute; congruence | intros ->; destruct b; reflexivity]. Qed.
Lemma memq_In q l : memq q l = true <-> In q l.
Proof.
  unfold memq. rewrite existsb_exists. split.
  - intros (x & Hx & E). apply quirk_eqb_eq in E. subst. exact Hx.
  - intros H. exists q. split; [exact H | apply quirk_eqb_eq; reflexivity].
Qed.
Lemma memq_app q a b : memq q (a ++ b) = memq q a || memq q b.
Proof. apply existsb_app. Qed.
Lemma memq_flat_map {A} q (f : A -> list quirk) l : memq q (flat_map f l) = existsb (fun x => memq q (f x)) l.
Proof. induction l as [|x l IH]; [reflexivity|]. cbn [flat_map existsb]. rewrite memq_app, IH. reflexivity. Qed.

(* ---------------- canonical lists are determined by their members ---------------- *)
Definition sinc (l : list quirk) : bool := strictly_increasing (map quirk_idx l).

Lemma sinc_cons a l : sinc (a :: l) = true -> sinc l = true /\ forall x, In x l -> quirk_idx a < quirk_idx x.
Proof.
  revert a. induction l as [|b l IH]; intros a H.
  - split; [reflexivity | intros x []].
  - unfold sinc in *. cbn [map strictly_increasing] in H. apply andb_true_iff in H. destruct H as [H1 H2].
    split; [exact H2|]. intros x [<-|Hx]; [lia|].
    destruct (IH b H2) as [_ Hb]. specialize (Hb x Hx). lia.
Qed.
Lemma quirk_idx_inj a b : quirk_idx a = quirk_idx b -> a = b.
Proof. destruct a, b; vm_compute; congruence. Qed.

Lemma sinc_ext : forall l1 l2, sinc l1 = true -> sinc l2 = true -> (forall q, In q l1 <-> In q l2) -> l1 = l2.
Proof.
  induction l1 as [|a l1 IH]; intros l2 S1 S2 E.
  - destruct l2 as [|b l2]; [reflexivity|]. destruct (proj2 (E b) (or_introl eq_refl)).
  - destruct l2 as [|b l2]; [destruct (proj1 (E a) (or_introl eq_refl))|].
    destruct (sinc_cons _ _ S1) as [S1' L1]. destruct (sinc_cons _ _ S2) as [S2' L2].
    assert (a = b).
    { destruct (proj1 (E a) (or_introl eq_refl)) as [->|Ha]; [reflexivity|].
      destruct (proj2 (E b) (or_introl eq_refl)) as [->|Hb]; [reflexivity|].
      specialize (L1 b Hb). specialize (L2 a Ha). lia. }
    subst b. f_equal. apply IH; [exact S1' | exact S2' |].
    intros q. split; intros Hq.
    + destruct (proj1 (E q) (or_intror Hq)) as [<-|H]; [|exact H]. specialize (L1 a Hq). lia.
    + destruct (proj2 (E q) (or_intror Hq)) as [<-|H]; [|exact H]. specialize (L2 a Hq). lia.
Qed.

Lemma sinc_filter f : forall l, sinc l = true -> sinc (filter f l) = true.
Proof.
  induction l as [|a l IH]; intros S; [reflexivity|].
  destruct (sinc_cons _ _ S) as [S' L]. cbn [filter]. destruct (f a); [|apply IH; exact S'].
  specialize (IH S').
  assert (forall x, In x (filter f l) -> quirk_idx a < quirk_idx x).
  { intros x Hx. apply filter_In in Hx. apply L. tauto. }
  destruct (filter f l) as [|b r] eqn:F; [reflexivity|].
  specialize (H b (or_introl eq_refl)).
  unfold sinc in *. cbn [map] in IH |- *.
  change (strictly_increasing (quirk_idx a :: quirk_idx b :: map quirk_idx r))
    with ((quirk_idx a <? quirk_idx b) && strictly_increasing (quirk_idx b :: map quirk_idx r)).
  rewrite IH, andb_true_r. lia.
Qed.

Lemma canonical_all q : In q canonical_quirks.
Proof. destruct q; cbn; tauto. Qed.

(* the code's list, when canonical (outside K4), is the SPEC's list as soon as membership agrees *)
Lemma quirks_eq (s : segment) items (l : list quirk) :
  K4_of l = false -> (forall q, memq q l = quirk_holds s items q) -> l = spec_quirks s items.
Proof.
  intros HK HM. apply sinc_ext.
  - unfold K4_of in HK. apply negb_false_iff in HK. exact HK.
  - apply sinc_filter. reflexivity.
  - intros q. unfold spec_quirks. rewrite filter_In, <- memq_In, HM.
    pose proof (canonical_all q). tauto.
Qed.

(* ---------------- header quirks in the vocabulary of the SPEC ---------------- *)
(* IPv4 header: ecn_nz, mbz, df, id = 0 *)
Definition hq4 (e m d i : bool) : list quirk :=
  (if e then [QEcn] else []) ++ (if m then [QMustBeZero] else [])
  ++ (if d then QDf :: (if negb i then [QNonZeroID] else []) else if i then [QZeroID] else []).
(* IPv6 header: flow label non-zero, ecn_nz *)
Definition hq6 (fl e : bool) : list quirk := (if fl then [QFlowID] else []) ++ (if e then [QEcn] else []).
(* TCP header: ECE|CWR|NS, seq = 0, ACK, ack = 0, RST, URG, urg = 0, PSH *)
Definition hqt (ec sz a az r u uz p : bool) : list quirk :=
  (if ec then [QEcn] else []) ++ (if sz then [QSeqNumZero] else [])
  ++ (if a then (if az then [QAckNumZero] else []) else if negb az && negb r then [QAckNumNonZero] else [])
  ++ (if u then [QUrg] else if negb uz then [QNonZeroURG] else [])
  ++ (if p then [QPush] else []).

Lemma ipv4_quirks_bits p :
  ipv4_quirks p = hq4 (negb (byte_at p 1 mod 4 =? 0)) (bit (byte_at p 6) 7) (bit (byte_at p 6) 6) (be16_at p 4 =? 0).
Proof.
  unfold ipv4_quirks, hq4, v4_ecn, v4_flags, v4_identification, byte_at.
  rewrite v4_ecn_bits, v4_mbz_bits, v4_df_bits. reflexivity.
Qed.
Lemma ipv6_quirks_bits p :
  ipv6_quirks p = hq6 (negb ((byte_at p 1 mod 16) * 65536 + be16_at p 2 =? 0)) (negb ((byte_at p 1 / 16) mod 4 =? 0)).
Proof.
  unfold ipv6_quirks, hq6, v6_flow_label, v6_traffic_class.
  rewrite v6_ecn_bits by apply byte_at_lt. reflexivity.
Qed.
Lemma tcp_header_quirks_bits t :
  let f := byte_at t 13 in
  tcp_header_quirks t = hqt (fECE f || fCWR f || N.odd (byte_at t 12)) (be32_at t 4 =? 0) (fACK f) (be32_at t 8 =? 0)
                            (fRST f) (fURG f) (be16_at t 18 =? 0) (fPSH f).
Proof.
  unfold tcp_header_quirks, hqt, tcp_flags, tcp_sequence, tcp_acknowledgement, tcp_urgent_ptr, tcp_reserved, byte_at.
  rewrite ece_cwr_bits, ns_land_bits, ack_bits, rst_bits, urg_bits, psh_bits. cbv zeta.
  rewrite andb_comm. reflexivity.
Qed.

(* quirk_<q>_iff for the header quirks: membership in the code's header lists *)
Lemma memq_hq4 q e m d i :
  memq q (hq4 e m d i) = match q with QEcn => e | QMustBeZero => m | QDf => d | QNonZeroID => d && negb i
                                    | QZeroID => negb d && i | _ => false end.
Proof. destruct q, e, m, d, i; reflexivity. Qed.
Lemma memq_hq6 q fl e : memq q (hq6 fl e) = match q with QFlowID => fl | QEcn => e | _ => false end.
Proof. destruct q, fl, e; reflexivity. Qed.
Lemma memq_hqt q ec sz a az r u uz p :
  memq q (hqt ec sz a az r u uz p)
  = match q with QEcn => ec | QSeqNumZero => sz | QAckNumZero => a && az
               | QAckNumNonZero => negb a && negb az && negb r | QUrg => u | QNonZeroURG => negb u && negb uz
               | QPush => p | _ => false end.
Proof. destruct q, ec, sz, a, az, r, u, uz, p; reflexivity. Qed.

(* quirk_<q>_iff for the option quirks: membership in what the loop pushes *)
Lemma existsb_and_const {A} (c : bool) (g : A -> bool) l : existsb (fun x => c && g x) l = c && existsb g l.
Proof. induction l as [|x l IH]; cbn [existsb]; [destruct c; reflexivity|]. rewrite IH. destruct c, (g x); reflexivity. Qed.

Lemma existsb_ext_local {A} (f g : A -> bool) l : (forall x, f x = g x) -> existsb f l = existsb g l.
Proof. intros H. induction l as [|x l IH]; [reflexivity|]. cbn [existsb]. rewrite H, IH. reflexivity. Qed.

Lemma memq_optq q ty items :
  memq q (flat_map (item_quirks ty) items)
  = match q with
    | QOwnTimestampZero => existsb (fun i => match i with ITs v1 _ => v1 =? 0 | _ => false end) items
    | QPeerTimestampNonZero => (ty =? SYN) && existsb (fun i => match i with ITs _ v2 => negb (v2 =? 0) | _ => false end) items
    | QTrailinigNonZero => existsb (fun i => match i with IEol pad => negb (all_zero pad) | _ => false end) items
    | QExcessiveWindowScaling => existsb (fun i => match i with IWs v => 14 <? v | _ => false end) items
    | _ => false end.
Proof.
  rewrite memq_flat_map.
  assert (F : forall (g : opt_item -> bool), (forall i, g i = false) -> existsb g items = false).
  { intros g Hg. induction items as [|i l IH]; [reflexivity|]. cbn [existsb]. rewrite Hg, IH. reflexivity. }
  destruct q;
  try (apply F; intros i; destruct i; cbn [item_quirks];
       repeat match goal with |- context [if ?c then _ else _] => destruct c end; reflexivity).
  all: rewrite <- ?existsb_and_const; apply existsb_ext_local; intros i; destruct i; cbn [item_quirks];
    rewrite ?andb_false_r;
    repeat match goal with |- context [if ?c then _ else _] => destruct c end; reflexivity.
Qed.
