(* Lemmas about the text functions of Base/Http1Text.v (C05). *)
From Coq Require Import List NArith Bool Lia Arith.
From Coq Require Import Strings.Byte.
From HN Require Import Base.Bytes Base.Http1Text.
Import ListNotations.
Open Scope N_scope.

Lemma rev_fast_rev l : rev_fast l = rev l.
Proof. unfold rev_fast. symmetry. apply rev_alt. Qed.

Lemma beqb_refl b : beqb b b = true.
Proof. now apply beqb_eq. Qed.
Lemma beqb_neq a b : beqb a b = false <-> a <> b.
Proof.
  split.
  - intros H E. subst. rewrite beqb_refl in H. discriminate.
  - intros H. destruct (beqb a b) eqn:E; [apply beqb_eq in E; contradiction | reflexivity].
Qed.
Lemma beqb_sym a b : beqb a b = beqb b a.
Proof.
  destruct (beqb a b) eqn:E.
  - apply beqb_eq in E. subst. now rewrite beqb_refl.
  - symmetry. apply beqb_neq. apply beqb_neq in E. congruence.
Qed.
Lemma b2n_inj a b : b2n a = b2n b -> a = b.
Proof. intros H. rewrite <- (n2b_b2n a), <- (n2b_b2n b). now rewrite H. Qed.
Lemma beqb_b2n a b : beqb a b = (b2n a =? b2n b).
Proof.
  destruct (b2n a =? b2n b) eqn:E.
  - apply N.eqb_eq in E. apply b2n_inj in E. subst. apply beqb_refl.
  - apply beqb_neq. intros ->. rewrite N.eqb_refl in E. discriminate.
Qed.

Lemma in_rng_iff lo hi b : in_rng lo hi b = true <-> lo <= b2n b <= hi.
Proof. unfold in_rng. rewrite andb_true_iff, !N.leb_le. tauto. Qed.
Lemma in_rng_false lo hi b : in_rng lo hi b = false <-> (b2n b < lo \/ hi < b2n b).
Proof.
  unfold in_rng. rewrite andb_false_iff, !N.leb_gt. tauto.
Qed.

(* ---------- white space ---------- *)
(* a byte that neither is ASCII white space nor starts a multi-byte White_Space scalar *)
Definition plain_byte (b : byte) : bool :=
  negb (is_ascii_ws b) && negb (b2n b =? 194) && negb (b2n b =? 225) && negb (b2n b =? 226) && negb (b2n b =? 227).

Lemma ws_len_plain b r : plain_byte b = true -> ws_len (b :: r) = 0%nat.
Proof.
  unfold plain_byte. rewrite !andb_true_iff, !negb_true_iff. intros [[[[H0 H1] H2] H3] H4].
  unfold ws_len. rewrite H0, H1, H2, H3, H4. cbn [andb].
  destruct r as [|b1 [|b2 r2]]; reflexivity.
Qed.

Lemma ws_len_ascii b r : is_ascii_ws b = true -> ws_len (b :: r) = 1%nat.
Proof. intros H. unfold ws_len. now rewrite H. Qed.
Lemma ws_len_rev_ascii b r : is_ascii_ws b = true -> ws_len_rev (b :: r) = 1%nat.
Proof. intros H. unfold ws_len_rev. now rewrite H. Qed.

(* a byte below 128 that is not ASCII white space can neither start nor end a White_Space scalar *)
Lemma ws_len_low b r : b2n b < 128 -> is_ascii_ws b = false -> ws_len (b :: r) = 0%nat.
Proof.
  intros L H. apply ws_len_plain. unfold plain_byte. rewrite H. cbn [negb andb].
  rewrite !andb_true_iff, !negb_true_iff, !N.eqb_neq. lia.
Qed.
Lemma ws_len_rev_low b r : b2n b < 128 -> is_ascii_ws b = false -> ws_len_rev (b :: r) = 0%nat.
Proof.
  intros L H. unfold ws_len_rev. rewrite H.
  assert (E1 : (b2n b =? 133) = false) by (apply N.eqb_neq; lia).
  assert (E2 : (b2n b =? 160) = false) by (apply N.eqb_neq; lia).
  assert (E3 : (b2n b =? 128) = false) by (apply N.eqb_neq; lia).
  assert (E4 : in_rng 128 138 b = false) by (apply in_rng_false; lia).
  assert (E5 : (b2n b =? 168) = false) by (apply N.eqb_neq; lia).
  assert (E6 : (b2n b =? 169) = false) by (apply N.eqb_neq; lia).
  assert (E7 : (b2n b =? 175) = false) by (apply N.eqb_neq; lia).
  assert (E8 : (b2n b =? 159) = false) by (apply N.eqb_neq; lia).
  destruct r as [|b1 [|b2 r2]]; rewrite ?E1, ?E2, ?E3, ?E4, ?E5, ?E6, ?E7, ?E8; cbn [orb];
    rewrite ?andb_false_r; reflexivity.
Qed.

Lemma strip_f_zero wl fuel l : wl l = 0%nat -> strip_f wl fuel l = l.
Proof. intros H. destruct fuel; cbn [strip_f]; [reflexivity | now rewrite H]. Qed.

Section StripWs.
  Variable wl : bytes -> nat.
  Hypothesis wl_ascii : forall b r, is_ascii_ws b = true -> wl (b :: r) = 1%nat.

  Lemma strip_f_ws : forall ows fuel x,
    forallb is_ascii_ws ows = true -> (length ows <= fuel)%nat -> wl x = 0%nat ->
    strip_f wl fuel (ows ++ x) = x.
  Proof.
    induction ows as [|b ows IH]; intros fuel x Hw Hf Hx.
    - now apply strip_f_zero.
    - cbn [forallb] in Hw. apply andb_true_iff in Hw as [Hb Hw].
      destruct fuel as [|f]; [cbn in Hf; lia|].
      cbn [app strip_f]. rewrite (wl_ascii _ _ Hb). cbn [skipn].
      apply IH; [exact Hw | cbn in Hf; lia | exact Hx].
  Qed.

  Lemma strip_f_all_ws : forall ows fuel,
    forallb is_ascii_ws ows = true -> (length ows <= fuel)%nat -> wl [] = 0%nat -> strip_f wl fuel ows = [].
  Proof.
    intros ows fuel Hw Hf H0. rewrite <- (app_nil_r ows). now apply strip_f_ws.
  Qed.
End StripWs.

(* ---------- UTF-8 ---------- *)
Lemma utf8_valid_cons b0 r :
  utf8_valid (b0 :: r) =
      if b2n b0 <? 128 then utf8_valid r
      else if in_rng 194 223 b0 then
        match r with b1 :: r1 => is_cont b1 && utf8_valid r1 | _ => false end
      else if in_rng 224 239 b0 then
        match r with
        | b1 :: b2 :: r2 =>
            (if b2n b0 =? 224 then in_rng 160 191 b1
             else if b2n b0 =? 237 then in_rng 128 159 b1
             else is_cont b1) && is_cont b2 && utf8_valid r2
        | _ => false end
      else if in_rng 240 244 b0 then
        match r with
        | b1 :: b2 :: b3 :: r3 =>
            (if b2n b0 =? 240 then in_rng 144 191 b1
             else if b2n b0 =? 244 then in_rng 128 143 b1
             else is_cont b1) && is_cont b2 && is_cont b3 && utf8_valid r3
        | _ => false end
      else false.
Proof. reflexivity. Qed.

Lemma utf8_valid_app_len : forall n a b, (length a <= n)%nat -> utf8_valid a = true -> utf8_valid (a ++ b) = utf8_valid b.
Proof.
  induction n as [|n IH]; intros a b Hl Ha.
  - destruct a; [reflexivity | cbn in Hl; lia].
  - destruct a as [|b0 r]; [reflexivity|].
    cbn [app]. rewrite utf8_valid_cons in Ha. rewrite utf8_valid_cons.
    cbn [length] in Hl.
    destruct (b2n b0 <? 128); [apply IH; [lia | exact Ha]|].
    destruct (in_rng 194 223 b0).
    { destruct r as [|b1 r1]; [discriminate|]. cbn [app].
      apply andb_true_iff in Ha as [H1 H2]. rewrite H1. cbn [andb]. apply IH; [cbn [length] in Hl; lia | exact H2]. }
    destruct (in_rng 224 239 b0).
    { destruct r as [|b1 [|b2 r2]]; try discriminate. cbn [app].
      apply andb_true_iff in Ha as [H1 H2]. rewrite H1. cbn [andb]. apply IH; [cbn [length] in Hl; lia | exact H2]. }
    destruct (in_rng 240 244 b0); [|discriminate].
    destruct r as [|b1 [|b2 [|b3 r3]]]; try discriminate. cbn [app].
    apply andb_true_iff in Ha as [H1 H2]. rewrite H1. cbn [andb]. apply IH; [cbn [length] in Hl; lia | exact H2].
Qed.
Lemma utf8_valid_app a b : utf8_valid a = true -> utf8_valid (a ++ b) = utf8_valid b.
Proof. apply (utf8_valid_app_len (length a)). lia. Qed.
Lemma utf8_valid_app_true a b : utf8_valid a = true -> utf8_valid b = true -> utf8_valid (a ++ b) = true.
Proof. intros Ha Hb. now rewrite utf8_valid_app. Qed.

Definition is_ascii (l : bytes) : bool := forallb (fun b => b2n b <? 128) l.
Lemma utf8_valid_ascii l : is_ascii l = true -> utf8_valid l = true.
Proof.
  induction l as [|b r IH]; [reflexivity|]. cbn [is_ascii forallb]. intros H.
  apply andb_true_iff in H as [H1 H2]. rewrite utf8_valid_cons, H1. now apply IH.
Qed.

(* valid, non-empty text: appending does not change whether it starts with White_Space *)
Lemma ws_len_app_valid v x : utf8_valid v = true -> v <> [] -> ws_len (v ++ x) = ws_len v.
Proof.
  intros Hv Hne. destruct v as [|b0 r]; [congruence|]. clear Hne.
  destruct (is_ascii_ws b0) eqn:Ea.
  { cbn [app]. now rewrite !ws_len_ascii. }
  rewrite utf8_valid_cons in Hv.
  destruct (b2n b0 <? 128) eqn:E0.
  { apply N.ltb_lt in E0. cbn [app]. now rewrite !ws_len_low. }
  apply N.ltb_ge in E0.
  destruct r as [|b1 r1].
  { destruct (in_rng 194 223 b0); [discriminate|]. destruct (in_rng 224 239 b0); [discriminate|].
    destruct (in_rng 240 244 b0); discriminate. }
  destruct r1 as [|b2 r2]; [|reflexivity].
  destruct (in_rng 194 223 b0) eqn:E1.
  2:{ destruct (in_rng 224 239 b0); [discriminate|]. destruct (in_rng 240 244 b0); discriminate. }
  apply in_rng_iff in E1.
  cbn [app]. unfold ws_len. rewrite Ea.
  destruct ((b2n b0 =? 194) && ((b2n b1 =? 133) || (b2n b1 =? 160))); [reflexivity|].
  destruct x as [|b2 x']; [reflexivity|].
  assert (F1 : (b2n b0 =? 225) = false) by (apply N.eqb_neq; lia).
  assert (F2 : (b2n b0 =? 226) = false) by (apply N.eqb_neq; lia).
  assert (F3 : (b2n b0 =? 227) = false) by (apply N.eqb_neq; lia).
  rewrite F1, F2, F3. reflexivity.
Qed.

(* ---------- trim ---------- *)
Definition vis (b : byte) : bool := in_rng 33 126 b.
Lemma vis_not_ws b : vis b = true -> is_ascii_ws b = false.
Proof.
  unfold vis, is_ascii_ws. intros H. apply in_rng_iff in H.
  apply orb_false_iff. split; [apply in_rng_false; lia | apply N.eqb_neq; lia].
Qed.
Lemma vis_low b : vis b = true -> b2n b < 128.
Proof. unfold vis. intros H. apply in_rng_iff in H. lia. Qed.
Lemma ws_len_vis b r : vis b = true -> ws_len (b :: r) = 0%nat.
Proof. intros H. apply ws_len_low; [now apply vis_low | now apply vis_not_ws]. Qed.
Lemma ws_len_rev_vis b r : vis b = true -> ws_len_rev (b :: r) = 0%nat.
Proof. intros H. apply ws_len_rev_low; [now apply vis_low | now apply vis_not_ws]. Qed.
Lemma vis_ascii l : forallb vis l = true -> is_ascii l = true.
Proof.
  unfold is_ascii. rewrite !forallb_forall. intros H b Hb. apply N.ltb_lt. apply vis_low. now apply H.
Qed.

Lemma forallb_rev {A} (f : A -> bool) l : forallb f (rev l) = forallb f l.
Proof.
  induction l as [|x l IH]; [reflexivity|]. cbn [rev forallb]. rewrite forallb_app, IH. cbn [forallb].
  rewrite andb_true_r. apply andb_comm.
Qed.

Lemma trim_end_nil : trim_end [] = [].
Proof. reflexivity. Qed.

Lemma trim_field o1 v o2 :
  forallb is_ascii_ws o1 = true -> forallb is_ascii_ws o2 = true ->
  utf8_valid v = true -> ws_len v = 0%nat -> ws_len_rev (rev v) = 0%nat ->
  trim (o1 ++ v ++ o2) = v.
Proof.
  intros H1 H2 Hv Hs He. unfold trim, trim_start.
  destruct v as [|b0 v'] eqn:Ev.
  - cbn [app]. rewrite (strip_f_all_ws ws_len ws_len_ascii).
    + reflexivity.
    + rewrite forallb_app, H1, H2. reflexivity.
    + lia.
    + reflexivity.
  - rewrite <- Ev in *. assert (Hne : v <> []) by (rewrite Ev; discriminate).
    rewrite (strip_f_ws ws_len ws_len_ascii); [| exact H1 | rewrite app_length; lia | now rewrite ws_len_app_valid].
    unfold trim_end. rewrite !rev_fast_rev, rev_app_distr.
    rewrite (strip_f_ws ws_len_rev ws_len_rev_ascii).
    + now rewrite rev_involutive.
    + now rewrite forallb_rev.
    + rewrite rev_length, !app_length. lia.
    + exact He.
Qed.

Lemma ws_len_rev_allvis t : forallb vis t = true -> ws_len_rev (rev t) = 0%nat.
Proof.
  intros H. rewrite <- forallb_rev in H. destruct (rev t) as [|b r]; [reflexivity|].
  cbn [forallb] in H. apply andb_true_iff in H as [Hb _]. now apply ws_len_rev_vis.
Qed.
Lemma ws_len_allvis t : forallb vis t = true -> ws_len t = 0%nat.
Proof.
  destruct t as [|b r]; [reflexivity|]. cbn [forallb]. intros H. apply andb_true_iff in H as [Hb _].
  now apply ws_len_vis.
Qed.
Lemma trim_vis t : forallb vis t = true -> trim t = t.
Proof.
  intros H. rewrite <- (app_nil_r t) at 1. change (t ++ []) with ([] ++ t ++ []).
  apply trim_field; try reflexivity.
  - apply utf8_valid_ascii. now apply vis_ascii.
  - now apply ws_len_allvis.
  - now apply ws_len_rev_allvis.
Qed.

(* ---------- split_whitespace ---------- *)
Lemma split_ws_vis : forall t fuel rest cur, forallb vis t = true ->
  split_ws_f (length t + fuel) (t ++ rest) cur = split_ws_f fuel rest (rev t ++ cur).
Proof.
  induction t as [|b t IH]; intros fuel rest cur H; [reflexivity|].
  cbn [forallb] in H. apply andb_true_iff in H as [Hb Ht].
  cbn [length Nat.add app split_ws_f]. rewrite (ws_len_vis _ _ Hb).
  rewrite IH by exact Ht. cbn [rev]. now rewrite <- app_assoc.
Qed.
Lemma flush_rev t rest : t <> [] -> flush (rev t ++ []) rest = t :: rest.
Proof.
  intros H. rewrite app_nil_r. unfold flush. destruct (rev t) eqn:E.
  - apply (f_equal (@rev byte)) in E. rewrite rev_involutive in E. cbn in E. congruence.
  - rewrite <- E, rev_fast_rev, rev_involutive. reflexivity.
Qed.
Lemma split_ws_sp : forall fuel rest cur, split_ws_f (S fuel) (sp :: rest) cur = flush cur (split_ws_f fuel rest []).
Proof. intros. cbn [split_ws_f]. rewrite ws_len_ascii by reflexivity. reflexivity. Qed.

Lemma split_whitespace_3 a b c :
  forallb vis a = true -> forallb vis b = true -> forallb vis c = true ->
  a <> [] -> b <> [] -> c <> [] ->
  split_whitespace (a ++ sp :: b ++ sp :: c) = [a; b; c].
Proof.
  intros Ha Hb Hc Na Nb Nc. unfold split_whitespace.
  replace (S (length (a ++ sp :: b ++ sp :: c)))
    with (length a + S (length b + S (length c + 1)))%nat
    by (rewrite app_length; cbn [length]; rewrite app_length; cbn [length]; lia).
  rewrite split_ws_vis by exact Ha. rewrite split_ws_sp, flush_rev by exact Na.
  rewrite split_ws_vis by exact Hb. rewrite split_ws_sp, flush_rev by exact Nb.
  rewrite <- (app_nil_r c) at 2. rewrite split_ws_vis by exact Hc.
  cbn [split_ws_f Nat.add]. now rewrite flush_rev.
Qed.

(* ---------- scanning for a byte ---------- *)
Definition lacks (c : byte) (l : bytes) : bool := forallb (fun b => negb (beqb b c)) l.

Lemma find_byte_app c l rest : lacks c l = true -> find_byte c (l ++ c :: rest) = Some (length l).
Proof.
  induction l as [|b l IH]; intros H.
  - cbn. now rewrite beqb_refl.
  - cbn [lacks forallb] in H. apply andb_true_iff in H as [Hb Hl]. apply negb_true_iff in Hb.
    cbn [app find_byte length]. rewrite Hb, IH by exact Hl. reflexivity.
Qed.
Lemma find_byte_none c l : lacks c l = true -> find_byte c l = None.
Proof.
  induction l as [|b l IH]; intros H; [reflexivity|].
  cbn [lacks forallb] in H. apply andb_true_iff in H as [Hb Hl]. apply negb_true_iff in Hb.
  cbn [find_byte]. rewrite Hb, IH by exact Hl. reflexivity.
Qed.
Lemma before_byte_app c l rest : lacks c l = true -> before_byte c (l ++ c :: rest) = l.
Proof.
  induction l as [|b l IH]; intros H.
  - cbn. now rewrite beqb_refl.
  - cbn [lacks forallb] in H. apply andb_true_iff in H as [Hb Hl]. apply negb_true_iff in Hb.
    cbn [app before_byte]. rewrite Hb, IH by exact Hl. reflexivity.
Qed.
Lemma before_byte_none c l : lacks c l = true -> before_byte c l = l.
Proof.
  induction l as [|b l IH]; intros H; [reflexivity|].
  cbn [lacks forallb] in H. apply andb_true_iff in H as [Hb Hl]. apply negb_true_iff in Hb.
  cbn [before_byte]. rewrite Hb, IH by exact Hl. reflexivity.
Qed.
Lemma after_byte_app c l rest : lacks c l = true -> after_byte c (l ++ c :: rest) = Some rest.
Proof.
  induction l as [|b l IH]; intros H.
  - cbn. now rewrite beqb_refl.
  - cbn [lacks forallb] in H. apply andb_true_iff in H as [Hb Hl]. apply negb_true_iff in Hb.
    cbn [app after_byte]. rewrite Hb. now apply IH.
Qed.
Lemma after_byte_none c l : lacks c l = true -> after_byte c l = None.
Proof.
  induction l as [|b l IH]; intros H; [reflexivity|].
  cbn [lacks forallb] in H. apply andb_true_iff in H as [Hb Hl]. apply negb_true_iff in Hb.
  cbn [after_byte]. rewrite Hb. now apply IH.
Qed.

Lemma first_line_crlf l rest : lacks lf l = true -> first_line (l ++ cr :: lf :: rest) = l.
Proof.
  intros H. unfold first_line.
  change (l ++ cr :: lf :: rest) with (l ++ [cr] ++ lf :: rest). rewrite app_assoc.
  assert (H' : lacks lf (l ++ [cr]) = true).
  { unfold lacks in *. rewrite forallb_app, H. reflexivity. }
  rewrite find_byte_app, before_byte_app by exact H'.
  unfold strip_last_cr. rewrite rev_fast_rev, rev_app_distr. cbn [rev app].
  rewrite beqb_refl, rev_fast_rev, rev_involutive. reflexivity.
Qed.

Lemma splitn3_sp_3 a b c : lacks sp a = true -> lacks sp b = true -> splitn3_sp (a ++ sp :: b ++ sp :: c) = [a; b; c].
Proof.
  intros Ha Hb. unfold splitn3_sp.
  rewrite (after_byte_app sp a) by exact Ha. rewrite (after_byte_app sp b) by exact Hb.
  rewrite (before_byte_app sp a), (before_byte_app sp b) by assumption. reflexivity.
Qed.

(* ---------- split_byte ---------- *)
Lemma split_byte_lacks c l : lacks c l = true -> split_byte c l = [l].
Proof.
  induction l as [|b l IH]; intros H; [reflexivity|].
  cbn [lacks forallb] in H. apply andb_true_iff in H as [Hb Hl]. apply negb_true_iff in Hb.
  cbn [split_byte]. rewrite Hb, IH by exact Hl. reflexivity.
Qed.
Lemma split_byte_app c l rest : lacks c l = true -> split_byte c (l ++ c :: rest) = l :: split_byte c rest.
Proof.
  induction l as [|b l IH]; intros H.
  - cbn. now rewrite beqb_refl.
  - cbn [lacks forallb] in H. apply andb_true_iff in H as [Hb Hl]. apply negb_true_iff in Hb.
    cbn [app split_byte]. rewrite Hb, IH by exact Hl. reflexivity.
Qed.

(* ---------- CRLF splitting ---------- *)
Lemma split_crlf_ncr b r : beqb b cr = false -> split_crlf (b :: r) = cons_head b (split_crlf r).
Proof. intros H. destruct r as [|b' r']; cbn [split_crlf]; [reflexivity | now rewrite H]. Qed.
Lemma split_crlf_crlf rest : split_crlf (cr :: lf :: rest) = [] :: split_crlf rest.
Proof. reflexivity. Qed.
Lemma split_crlf_line l rest : lacks cr l = true -> split_crlf (l ++ cr :: lf :: rest) = l :: split_crlf rest.
Proof.
  induction l as [|b l IH]; intros H; [apply split_crlf_crlf|].
  cbn [lacks forallb] in H. apply andb_true_iff in H as [Hb Hl]. apply negb_true_iff in Hb.
  cbn [app]. rewrite split_crlf_ncr by exact Hb. rewrite IH by exact Hl. reflexivity.
Qed.

(* ---------- contains / find_sub ---------- *)
Lemma starts_with_app p r : starts_with p (p ++ r) = true.
Proof. induction p as [|x p IH]; [reflexivity|]. cbn. now rewrite beqb_refl. Qed.
Lemma contains_cons p b l : contains p l = true -> contains p (b :: l) = true.
Proof. intros H. cbn [contains]. rewrite H. apply orb_true_r. Qed.
Lemma contains_app p a r : contains p (a ++ p ++ r) = true.
Proof.
  induction a as [|b a IH].
  - cbn [app]. destruct (p ++ r) eqn:E; cbn [contains]; rewrite <- ?E, starts_with_app; reflexivity.
  - cbn [app]. now apply contains_cons.
Qed.

Lemma find_sub_cons p b l : starts_with p (b :: l) = false -> find_sub p (b :: l) = option_map S (find_sub p l).
Proof. intros H. cbn [find_sub]. now rewrite H. Qed.
Lemma find_sub_here p l : starts_with p l = true -> find_sub p l = Some O.
Proof. intros H. destruct l; cbn [find_sub]; now rewrite H. Qed.

Definition shift (n : nat) (o : option nat) : option nat := option_map (fun k => (n + k)%nat) o.
Lemma shift_S n o : option_map S (shift n o) = shift (S n) o.
Proof. destruct o; reflexivity. Qed.
Lemma shift_0 o : shift 0 o = o.
Proof. destruct o; reflexivity. Qed.
Lemma shift_shift a b o : shift a (shift b o) = shift (a + b) o.
Proof. destruct o; cbn; [f_equal; lia | reflexivity]. Qed.

(* a stretch of bytes none of which can start the pattern is skipped *)
Lemma find_sub_skip p0 p l rest : lacks p0 l = true ->
  find_sub (p0 :: p) (l ++ rest) = shift (length l) (find_sub (p0 :: p) rest).
Proof.
  induction l as [|b l IH]; intros H; [now rewrite shift_0|].
  cbn [lacks forallb] in H. apply andb_true_iff in H as [Hb Hl]. apply negb_true_iff in Hb.
  cbn [app length]. rewrite find_sub_cons.
  - rewrite IH by exact Hl. apply shift_S.
  - cbn [starts_with]. rewrite beqb_sym, Hb. reflexivity.
Qed.

(* ---------- lower_k on ASCII ---------- *)
Lemma lower_k_ascii l : is_ascii l = true -> lower_k l = map lower_byte l.
Proof.
  induction l as [|b0 r IH]; [reflexivity|]. cbn [is_ascii forallb]. intros H.
  apply andb_true_iff in H as [H0 Hr]. apply N.ltb_lt in H0.
  cbn [map]. rewrite <- IH by exact Hr.
  destruct r as [|b1 [|b2 r2]]; try reflexivity.
  cbn [lower_k]. assert (E : (b2n b0 =? 226) = false) by (apply N.eqb_neq; lia). rewrite E. reflexivity.
Qed.
