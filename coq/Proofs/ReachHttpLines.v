(* C13, part 5a: "these lines pass the HTTP abstraction check", generic in the database; the evaluation on the bundled
   file is sharded over Proofs/ReachHttpShardNN.v (compiled in parallel), Proofs/ReachHttpBundled.v collects them. *)
From Coq Require Import List NArith Bool Lia.
From Coq Require Import Strings.Byte.
From HN Require Import Base.Bytes Model.SigAst Model.Match Model.Reach
  Spec.ScanSpec Spec.InstanceSpec Spec.DbLoadSpec Spec.BundledSpec Spec.Http1Grammar Spec.ConformSpec Spec.ReachSpec
  Spec.ReachHttpSpec Spec.ReachLists Proofs.ReachHttp.
Import ListNotations.
Open Scope N_scope.

(* generic in the database and in the naming of entries, so that the kernel never unfolds the bundled file *)
Section LiveHttpLines.
  Variable db : database.
  Variable entry : hkind -> N -> option (N * N * http_sig).
  Hypothesis entry_in : forall k line p, entry k line = Some p -> In p (positions (http_table db k)).

  Definition http_line_ok (swq sws : list bytes) (line : N) : bool :=
    forallb (fun k => match entry k line with
                      | Some (li, si, s) => live_http_w k (http_table db k) li si s (match k with HReq => swq | HResp => sws end)
                      | None => true end) [HReq; HResp].
  Definition http_lines_ok (lines : list N) : bool :=
    let swq := sw_all_of (http_table db HReq) in
    let sws := sw_all_of (http_table db HResp) in
    forallb (http_line_ok swq sws) lines.

  Definition line_passes (line : N) : Prop :=
    http_line_ok (sw_all_of (http_table db HReq)) (sw_all_of (http_table db HResp)) line = true.
  Lemma lines_ok_in (lines : list N) : http_lines_ok lines = true -> forall line, In line lines -> line_passes line.
  Proof. unfold http_lines_ok, line_passes. cbv zeta. intros OK line IN. rewrite forallb_forall in OK. exact (OK _ IN). Qed.

  Lemma http_lines_sound (lines : list N) :
    (forall line, In line lines -> line_passes line) ->
    forall (k : hkind) (line li si : N) (s : http_sig) (m : msg) (body : bytes),
      In line lines -> entry k line = Some (li, si, s) ->
      conforms_http k s m -> Http1Grammar.known m = false ->
      exists f, reach_http db k (Http1Grammar.render m ++ body) = RMatch (http_table_id k) f
                /\ admissible (http_table db k) (fun t => conforms_http_b k t m) li si f.
  Proof.
    intros OK k line li si s m body IN E C KN.
    specialize (OK _ IN). unfold line_passes, http_line_ok in OK. rewrite forallb_forall in OK.
    assert (INK : In k [HReq; HResp]) by (destruct k; cbn; tauto).
    specialize (OK k INK). cbv beta in OK. rewrite E in OK.
    apply (reach_http_live db k li si s m body); try assumption.
    - apply (entry_in k line). exact E.
    - unfold live_http_b. destruct k; exact OK.
  Qed.
End LiveHttpLines.

Lemma http_entry_in k line p : http_entry k line = Some p -> In p (positions (http_table bundled_db k)).
Proof.
  unfold http_entry, entry_on_line. destruct (index_of line (sig_lines (http_sec k))) as [j|]; [|discriminate].
  apply nth_error_In.
Qed.
