(* C01 (e) -- window-size detection, mtu and IP option length helpers never panic. *)
From Coq Require Import List NArith Bool Lia ZifyBool ZifyN.
From Coq Require Import Strings.Byte.
From HN Require Import Base.Bytes Model.TotalBase Model.TotalTcpOpt Model.TotalMisc
  Proofs.TotalBaseProofs Proofs.TotalTcpOptProofs.
Import ListNotations.
Open Scope N_scope.

Lemma check_div_ok w d : exists o, check_div w d = Ok o.
Proof.
  unfold check_div. destruct (d =? 0) eqn:E; cbn [negb]; [eauto|].
  rewrite rem_chk_ok by lia. cbn [bind]. destruct (w mod d =? 0); [|eauto].
  rewrite div_chk_ok by lia. cbn [bind]. destruct (w / d <=? 255); eauto.
Qed.

Lemma or_else_ok x wrap k : (exists o, x = Ok o) -> (exists r, k = Ok r) -> exists r, or_else x wrap k = Ok r.
Proof. intros (o & ->) (r & ->). unfold or_else. cbn [bind]. destruct o; eauto. Qed.

Lemma win_stage4_ok w m h t : exists r, win_stage4 w m h t = Ok r.
Proof.
  unfold win_stage4. destruct (0 <? m); [|eauto].
  destruct (0 <? h); [destruct (m + h <=? u16_max); [|eauto]|]; (apply or_else_ok; [apply check_div_ok|eauto]).
Qed.

Lemma win_stage3_ok w m h ts v6 : exists r, win_stage3 w m h ts v6 = Ok r.
Proof.
  unfold win_stage3. apply or_else_ok; [apply check_div_ok|]. cbv zeta.
  rewrite sub_chk_ok by (destruct v6; lia). cbn [bind].
  apply or_else_ok; [apply check_div_ok|].
  destruct ts; [|apply win_stage4_ok].
  rewrite sub_chk_ok by (destruct v6; lia). cbn [bind].
  apply or_else_ok; [apply check_div_ok|apply win_stage4_ok].
Qed.

Lemma win_stage2_ok w m h ts v6 : exists r, win_stage2 w m h ts v6 = Ok r.
Proof. unfold win_stage2. destruct (first_modulo _ _); [eauto|apply win_stage3_ok]. Qed.

Lemma detect_win_ok w m h ts v6 : exists r, detect_win w m h ts v6 = Ok r.
Proof.
  unfold detect_win. destruct ((w =? 0) || (m <? 100)); [eauto|]. cbv zeta.
  destruct (0 <? m); [|apply win_stage2_ok].
  apply or_else_ok; [apply check_div_ok|].
  destruct (ts && (12 <? m)); [|apply win_stage2_ok].
  apply or_else_ok; [apply check_div_ok|apply win_stage2_ok].
Qed.

Lemma detect_win_nopanic w m h ts v6 : detect_win w m h ts v6 <> Panic.
Proof. destruct (detect_win_ok w m h ts v6) as (r & ->). discriminate. Qed.

Lemma ipv6_payload_ok p : 40 <= len p -> exists pl, ipv6_payload p = Ok pl.
Proof.
  intros H. unfold ipv6_payload. destruct (len p <=? 40) eqn:E; [eauto|].
  ok_idx p 4. ok_idx p 5. ok_slice p 40 (N.min (40 + be16 b b0) (len p)). eauto.
Qed.

(* calculate_ipv6_length over an Ipv6Packet view (pnet guarantees >= 40 bytes) *)
Lemma ipv6_olen_ok p : 40 <= len p -> exists n, ipv6_olen p = Ok n.
Proof.
  intros H. unfold ipv6_olen. ok_idx p 6. destruct (b2n b =? 6); [eauto|].
  destruct (ipv6_payload_ok p H) as (pl & E). rewrite E. cbn [bind].
  destruct pl as [|x pl]; [eauto|].
  destruct (b2n b =? 44); [eauto|].
  destruct (2 <=? len (x :: pl)) eqn:E2; [|eauto].
  ok_idx (x :: pl) 1. eauto.
Qed.

(* visit_tcp on an IPv4 segment: walk + mtu + window size *)
Lemma visit_tcp_v4_returns flags window ihl doff opts :
  visit_tcp_v4 flags window ihl doff opts = Err \/ exists s, visit_tcp_v4 flags window ihl doff opts = Ok s.
Proof.
  unfold visit_tcp_v4. destruct (visit_opts_returns flags opts) as [E|(st & E)]; rewrite E; cbn [bind]; [left; reflexivity|right].
  destruct (detect_win_ok window (match os_mss st with Some m => m | None => 0 end) 40 (has_ts st) false) as (w & Ew).
  rewrite Ew. cbn [bind]. eauto.
Qed.
Lemma visit_tcp_v4_nopanic flags window ihl doff opts : visit_tcp_v4 flags window ihl doff opts <> Panic.
Proof. destruct (visit_tcp_v4_returns flags window ihl doff opts) as [E|(s & E)]; rewrite E; discriminate. Qed.
Lemma visit_tcp_v4_terminates flags window ihl doff opts : visit_tcp_v4 flags window ihl doff opts <> OutOfFuel.
Proof. destruct (visit_tcp_v4_returns flags window ihl doff opts) as [E|(s & E)]; rewrite E; discriminate. Qed.
