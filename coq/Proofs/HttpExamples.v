(* Worked inputs for the concrete HTTP instances (C07 / C10 / C15 / C01 / C20): two sibling HTTP/1.1 exchanges
   10.0.0.1:40000 and 10.0.0.2:40000 -> 10.0.1.1:80, parsers = the HTTP/1 recogniser of Model/HttpRecog.v. *)
From Coq Require Import List NArith ZArith Bool Lia.
From Coq Require Import Strings.Byte.
From HN Require Import Base.Bytes Base.Cache Base.Tcp Base.Keyed Model.Filter Model.RawFrame Model.FilterGlue
                       Spec.FilterSpec Spec.CommuteSpec Proofs.CommuteProofs
                       Model.HttpFlow Model.HttpAnalyzer Model.HttpGlue Model.Hash Model.PoolConcrete
                       Proofs.HttpPlan Proofs.HttpKeyed Proofs.HttpCensus Proofs.HttpInstances
                       Proofs.KeyedExamples Proofs.PoolInstances Proofs.PoolExamples Proofs.DischargeExamples
                       Model.Unified Spec.UnifiedSpec Model.AnalyzerReports.
From HN Require Model.HttpRecog Model.TcpAnalyzer Model.TcpExtract Model.TlsHello.
Import ListNotations.
Open Scope N_scope.

Definition htcp (sport dport flags seq : N) (payload : bytes) : bytes :=
  be2 sport ++ be2 dport ++ be4 seq ++ be4 2000 ++ [n2b 80; n2b flags] ++ be2 65535 ++ be2 0 ++ be2 0 ++ payload.
Definition hframe (src dst sport dport flags seq : N) (payload : bytes) : bytes :=
  eth4 (ip4_bytes src dst (htcp sport dport flags seq payload)).

Definition req_a1 : bytes := bs "GET / HTTP/1.1" ++ [x0d; x0a] ++ bs "Ho".
Definition req_a2 : bytes := bs "st: a" ++ [x0d; x0a; x0d; x0a].
Definition req_b : bytes := bs "GET /b HTTP/1.1" ++ [x0d; x0a] ++ bs "Host: b" ++ [x0d; x0a; x0d; x0a].
Definition resp_a : bytes := bs "HTTP/1.1 200 OK" ++ [x0d; x0a] ++ bs "Server: x" ++ [x0d; x0a; x0d; x0a].

Definition hA_syn : bytes := hframe ip_c1 ip_srv 40000 80 2 1000 [].
Definition hA_r1 : bytes := hframe ip_c1 ip_srv 40000 80 24 1001 req_a1.
Definition hA_r2 : bytes := hframe ip_c1 ip_srv 40000 80 24 1017 req_a2.
Definition hA_resp : bytes := hframe ip_srv ip_c1 80 40000 24 5001 resp_a.     (* the server's direction *)
Definition hB_syn : bytes := hframe ip_c2 ip_srv 40000 80 2 7000 [].
Definition hB_req : bytes := hframe ip_c2 ip_srv 40000 80 24 7001 req_b.
Definition http_trace : list bytes := [hA_syn; hB_syn; hA_r1; hB_req; hA_r2; hA_resp].
Definition http_kA : fkey := http_key hA_syn.

Notation rq := HttpRecog.recog_req.
Notation rp := HttpRecog.recog_resp.
Notation hres := (@http_out bytes bytes).
Notation http_proj := (Keyed.proj fkey hres fkey_eqb).
Notation http_fk := (Keyed.fk bytes fkey http_key fkey_eqb).

(* 0 nothing, 1 request, 2 response, 3 error *)
Definition hkind (o : hres) : N := match o with HErr => 3 | HOut ONone => 0 | HOut (OReq _) => 1 | HOut (OResp _) => 2 end.

Lemma http_example :
  http_within_capacityb rq rp (cache_new 8) http_trace = true /\
  http_within_capacityb rq rp (cache_new 8) (http_fk http_kA http_trace) = true /\
  http_fk http_kA http_trace = [hA_syn; hA_r1; hA_r2; hA_resp] /\
  fkey_eqb (http_key hB_syn) http_kA = false /\
  map hkind (http_proj http_kA (http_results rq rp (cache_new 8) http_trace)) = [0; 0; 1; 2] /\
  map hkind (snd (HttpAnalyzer.http_run rq rp (cache_new 8) http_trace)) = [0; 0; 0; 1; 1; 2] /\
  map (@http1_out_line) (snd (HttpAnalyzer.http_run rq rp (cache_new 8) [hA_syn; hA_r1; hA_r2; hA_resp]))
  = [bs "-"; bs "-"; bs "Q.474554.2f.11.486f7374=61"; bs "R.11.200.536572766572=78"].
Proof. repeat split; vm_compute; reflexivity. Qed.

(* a table of ONE flow: B's SYN evicts A's flow; A's request segments find no flow and are ignored *)
Lemma http_capacity_needed :
  http_within_capacityb rq rp (cache_new 1) http_trace = false /\
  map hkind (http_proj http_kA (http_results rq rp (cache_new 1) http_trace)) = [0; 0; 0; 0] /\
  map hkind (snd (HttpAnalyzer.http_run rq rp (cache_new 1) (http_fk http_kA http_trace))) = [0; 0; 1; 2].
Proof. repeat split; vm_compute; reflexivity. Qed.

Lemma http_no_disable_example :
  http_within_capacityb rq rp (cache_new 8) ([hB_syn; hB_req] ++ [hA_syn; hA_r1; hA_r2; hA_resp]) = true /\
  http_within_capacityb rq rp (cache_new 8) [hA_syn; hA_r1; hA_r2; hA_resp] = true /\
  (forall f, In f [hB_syn; hB_req] -> http_key f <> http_kA).
Proof.
  split; [vm_compute; reflexivity|]. split; [vm_compute; reflexivity|].
  intros f [<-|[<-|[]]] H; apply fkey_eqb_eq in H; vm_compute in H; discriminate.
Qed.

Lemma http_census_example :
  let U := [http_kA; http_key hB_syn] in
  NoDup (hkeys (cache_new 2)) /\ incl (hkeys (cache_new 2)) U /\
  (forall f, In f http_trace -> http_tracked f = true -> In (http_key f) U) /\ TlsHello.lenN U <= c_cap (@cache_new fkey tcpflow 2).
Proof.
  split; [constructor|]. split; [intros x []|]. split; [|vm_compute; discriminate].
  intros f [<-|[<-|[<-|[<-|[<-|[<-|[]]]]]]] _; vm_compute; tauto.
Qed.

(* ---- C01: junk, a truncated frame and the foreign connection, then the probe connection A ---- *)
Definition http_history : list bytes := [junk; hB_syn; firstn 40 hB_req; hB_req; repeat xff 60].
Lemma http_recovers_example :
  (forall f, In f http_history -> http_key f <> http_kA) /\
  (forall f, In f [hA_syn; hA_r1; hA_r2; hA_resp] -> http_key f = http_kA) /\
  http_within_capacityb rq rp (cache_new 8) (http_history ++ [hA_syn; hA_r1; hA_r2; hA_resp]) = true /\
  http_within_capacityb rq rp (cache_new 8) [hA_syn; hA_r1; hA_r2; hA_resp] = true.
Proof.
  split. { intros f [<-|[<-|[<-|[<-|[<-|[]]]]]] H; apply fkey_eqb_eq in H; vm_compute in H; discriminate. }
  split. { intros f [<-|[<-|[<-|[<-|[]]]]]; vm_compute; reflexivity. }
  split; vm_compute; reflexivity.
Qed.

(* ---- C10: two workers; with src_hash (the smaller endpoint's address) A goes to worker 1, B to worker 0,
        and A's RESPONSE (opposite direction) to worker 1 as well ---- *)
Definition http_sched : list (ev bytes) :=
  [Disp _ hA_syn; Disp _ hB_syn; Disp _ hA_r1; Work _ 0%nat; Disp _ hB_req; Disp _ hA_r2; Work _ 0%nat;
   Disp _ hA_resp; Work _ 1%nat; Work _ 1%nat; Work _ 1%nat; Work _ 1%nat].
Lemma http_pool_example :
  let x := http_pool_run rq rp src_hash 2 8 http_sched in
  0 < 2 /\ (forall f, In f (dispatched bytes http_sched) -> pool_dom f = true) /\
  http_pool_withinb rq rp src_hash 2 8 http_sched = true /\
  http_within_capacityb rq rp (cache_new 8) (dispatched bytes http_sched) = true /\
  (forall w, cq bytes fkey hres http_state x w = []) /\
  http_wk src_hash 2 hA_syn = 1%nat /\ http_wk src_hash 2 hA_resp = 1%nat /\ http_wk src_hash 2 hB_syn = 0%nat /\
  map hkind (map snd (couts bytes fkey hres http_state x)) = [0; 1; 0; 0; 1; 2].
Proof.
  cbv zeta. split; [reflexivity|]. split.
  { intros f [<-|[<-|[<-|[<-|[<-|[<-|[]]]]]]]; vm_compute; reflexivity. }
  split; [vm_compute; reflexivity|]. split; [vm_compute; reflexivity|]. split.
  { intros [|[|w]]; vm_compute; reflexivity. }
  repeat split; vm_compute; reflexivity.
Qed.

(* ---- C15: a filter that admits destination port 80 only: the requests pass, A's response (towards port 40000) does not ---- *)
Lemma http_c15_example :
  cfg_wf only_dst_80 = true /\
  admitted_subtrace only_dst_80 (junk :: http_trace) = [hA_syn; hB_syn; hA_r1; hB_req; hA_r2] /\
  map hkind (snd (FilterGlue.run (http_report_step rq rp) (cache_new 8) (junk :: http_trace))) = [1; 1; 2] /\
  map hkind (snd (FilterGlue.run (with_filter (build only_dst_80) (http_report_step rq rp)) (cache_new 8) (junk :: http_trace))) = [1; 1].
Proof. repeat split; vm_compute; reflexivity. Qed.

(* ---- C20: all three protocols concrete and enabled, matcher off ---- *)
Import TcpAnalyzer.
Definition c20_all : cfg := {| tcp_en := true; http_en := true; tls_en := true; matcher_en := false; db_present := false |}.
Definition c20_http_trace : list tcp_event := [(hA_syn, 1000%Z); (hA_r1, 1100%Z); (hA_r2, 1200%Z); (hA_resp, 1300%Z)].
Lemma http_c20_example :
  ctor_ok c20_all = true /\
  (forall e, In e c20_http_trace -> http_frame_class (fst e) <> HCErr) /\
  (forall e, In e c20_http_trace -> TcpExtract.process_frame [] (fst e) <> TcpExtract.Err) /\
  map shown_mask (unified_run tcp_event tcp_state http_state (tcp_ustep [] 8) (http_ustep rq rp) tls_ufn c20_all ([], cache_new 8) c20_http_trace)
  = [ [true; false; false; false; false; false; false; false];      (* SYN: syn signature *)
      [false; true; false; false; false; false; false; false];      (* first request segment *)
      [false; true; false; false; false; true; false; false];       (* completing segment: http_request *)
      [false; true; false; false; false; false; true; false] ].     (* the response: http_response *)
Proof.
  split; [reflexivity|]. split. { intros e [<-|[<-|[<-|[<-|[]]]]]; vm_compute; discriminate. }
  split. { intros e [<-|[<-|[<-|[<-|[]]]]]; vm_compute; discriminate. }
  vm_compute. reflexivity.
Qed.
